package c11

// "History on the same authorizer" as a dimension of the sequential table.
//
// The allowlist rule has no memory: a request is judged by the credential IT
// carries. An authorizer that keeps anything of an earlier request (a scratch
// buffer, a "last good token", a cache keyed by endpoint or by a truncated
// credential) can only be seen when an unauthorised request follows an
// authorised one on the same authorizer object — which the plain table never
// does, because an authorised request acts and every acting request is
// followed by a fresh boot. So every row the reference denies is run a second
// time on a clean world right after a "primer": a request to the same endpoint
// (same surface, same spelling, hence the same effective allowlist) that
// carries a VALID token in the documented form and is harmless by construction
// (ack of a lease id that does not exist; GET for the Admin API). The verdict
// and the oracle of the row are unchanged.
//
// Primer token: the member of the effective allowlist the credential of the
// row was derived from (near misses), the first member otherwise; in the
// thorough tier every member in turn.
//
// The overlapping variant of the same question (a valid and an invalid request
// inside the authorizer at the same time) is the free-running -race pass in
// race_test.go.

import (
	"context"
	"fmt"
	"net/http"
	"net/http/httptest"
	"strconv"
	"strings"
	"time"

	"google.golang.org/grpc/codes"
	"google.golang.org/grpc/metadata"
	"google.golang.org/grpc/status"

	pb "github.com/nuetzliches/hookaido/internal/workerapi/proto"
)

const noSuchLease = "c11-no-such-lease"

// primed: which worlds get the dimension — fresh boots and the reloads from the all-old-tokens configuration
// (authorizers built by start-up and authorizers built by a reload); not multiplied with the (A -> B) pairs.
func primed(c cfgSpec) bool { return c.From == nil && c.Chain == nil }

// row runs one row of the table and, when the reference denies it, its after-a-valid-request twins.
func (k *checker) row(w *world, cs caseSpec) {
	ri, ok := k.judgeCase(w, cs)
	if !ok || ri.Verdict != vDeny || len(ri.Allow) == 0 || !primed(cs.Cfg) || cs.Surface == "cross" {
		return
	}
	first := 0
	if i := strings.IndexByte(cs.Class, '#'); i >= 0 {
		if n, err := strconv.Atoi(cs.Class[i+1:]); err == nil && n >= 1 && n <= len(ri.Allow) {
			first = n - 1
		}
	}
	for i, tok := range ri.Allow {
		if i != first && !k.r.Thorough() {
			continue
		}
		if k.expired() {
			return
		}
		twin := cs
		twin.After = tok
		k.judgeCase(w, twin)
	}
}

// prime sends the harmless authorised request that precedes an After row. It is not judged (the table has the
// rows for authorised requests); it must leave the state alone, and it is counted whether the tree let it pass.
func (w *world) prime(cs caseSpec) error {
	refused := false
	switch cs.Surface {
	case "pull-grpc":
		ctx, cancel := context.WithTimeout(context.Background(), 20*time.Second)
		ctx = metadata.NewOutgoingContext(ctx, metadata.MD{"authorization": []string{"Bearer " + cs.After}})
		_, err := w.cli.Ack(ctx, &pb.AckRequest{Endpoint: cs.Endpoint, LeaseId: noSuchLease})
		cancel()
		code := status.Code(err)
		if code == codes.DeadlineExceeded || code == codes.Unavailable || code == codes.Canceled {
			return fmt.Errorf("primer grpc ack %q: transport: %v", cs.Endpoint, err)
		}
		refused = code == codes.Unauthenticated || code == codes.PermissionDenied
	case "pull-http", "admin":
		h, method, target, body := w.app.Pull, "POST", cs.PrimeTarget, `{"lease_id":"`+noSuchLease+`"}`
		var extra map[string]string
		if cs.Surface == "admin" {
			h, method, target, body, extra = w.app.Admin, "GET", cs.Target, "", auditHeaders
		}
		req, err := parseHTTP(rawHTTP(method, target, body, []string{"Bearer " + cs.After}, extra))
		if err != nil {
			return fmt.Errorf("primer %s %s: %v", method, target, err)
		}
		rec := httptest.NewRecorder()
		h.ServeHTTP(rec, req)
		refused = rec.Code == http.StatusUnauthorized || rec.Code == http.StatusForbidden
	default:
		return fmt.Errorf("no primer for surface %q", cs.Surface)
	}
	if refused {
		w.primersRefused++
	} else {
		w.primersPassed++
	}
	if w.changed() {
		w.dirty = true
		return fmt.Errorf("primer changed the state (%s, valid token %q before %s)", cs.Cfg.label(), cs.After, requestLine(cs))
	}
	return nil
}
