package c11

// C11 — Pull, Worker and Admin APIs act only for authorized callers.
//
// Exhaustive enumeration of the complete table
//   token configuration × surface × endpoint spelling × operation/method × credential
// through the real handlers and the real gRPC server that the production
// startServers wires from compiled DSL text (app.VerifBoot), against the
// reference allowlist rule in ref_test.go. No sampling, no solver.
//
// Two history dimensions multiply the table (the rule itself has no memory):
//   - how the configuration came into force: fresh boot, or boot of ANOTHER configuration followed by the production
//     reload (applied: the new table; rejected because a restart is required: the old table) — reload_test.go;
//   - what the authorizer saw just before: nothing, or an authorised request to the same endpoint — primer_test.go;
//     rows whose failure needs the rows before them are reported with that trail — trail_test.go.
//   - what a token source HOLDS: no usable token ("", blanks, a newline) or a token wrapped in blanks, at boot and as a
//     reload step, on every kind of list — content_test.go;
//   - a reload that is refused because it needs a restart while the same edit renames routes / edits lists —
//     restart_test.go.
// Overlapping requests on one authorizer are the free-running -race pass in race_test.go.

import (
	"encoding/base64"
	"encoding/json"
	"errors"
	"fmt"
	"net/http"
	"os"
	"path/filepath"
	"runtime"
	"runtime/debug"
	"sort"
	"strings"
	"sync"
	"testing"
	"time"

	"google.golang.org/grpc/codes"

	"github.com/nuetzliches/hookaido/internal/verifkit/runner"
)

// ---- token alphabets -------------------------------------------------------

type alphabet struct {
	Name               string
	G1, G2, G3         string
	A1, A2, B1, T1, T2 string
	C1                 string
	Never              string // never configured anywhere
}

var alphaPlain = alphabet{Name: "plain", G1: "gamma-1-Tok", G2: "gamma-2-Tok", G3: "gamma-3-Tok", A1: "alpha-1-Tok", A2: "alpha-2-Tok",
	B1: "beta-1-Tok", T1: "admin-1-Tok", T2: "admin-2-Tok", C1: "chi-1-Tok", Never: "never-0-Tok"}

// alphaNear: tokens that are prefixes, suffixes and case variants of each other
// across the lists, so that every "merely a prefix/suffix/case variant" request
// is at the same time a VALID token of some OTHER allowlist.
var alphaNear = alphabet{Name: "near", G1: "tok", G2: "tokG", G3: "Gtok", A1: "tokA", A2: "Atok", B1: "TOKA", T1: "tokAx", T2: "okA", C1: "toka", Never: "to"}

func (al alphabet) universe() []string {
	return append([]string{al.G1, al.G2, al.G3, al.A1, al.A2, al.B1, al.T1, al.T2, al.C1, al.Never}, oldTokens...)
}

// origin names the list of the configuration IN FORCE that holds tok; a token that only the other configuration of
// a reload pair holds is "replaced-by-reload" (reload applied) or "of-refused-config" (reload rejected).
func origin(c cfgSpec, tok string) string {
	eff := c.inForce()
	switch {
	case member(tok, eff.Global):
		return "global"
	case member(tok, eff.A):
		return "routeA"
	case member(tok, eff.B):
		return "routeB"
	case member(tok, eff.Admin):
		return "admin"
	}
	if o := c.notInForce(); o != nil && (member(tok, o.Global) || member(tok, o.A) || member(tok, o.B) || member(tok, o.Admin)) {
		if c.Refused {
			return "of-refused-config"
		}
		return "replaced-by-reload"
	}
	if why, ok := c.Stale[tok]; ok { // chain_test.go
		return why
	}
	if member(tok, oldTokens) {
		return "replaced-by-reload"
	}
	return "unconfigured"
}

// universeOf: every token of the alphabet, the "old" tokens and every token of both configurations of a reload pair.
func universeOf(c cfgSpec) []string {
	u := alphabetOf(c).universe()
	add := func(l []string) {
		for _, t := range l {
			if !member(t, u) {
				u = append(u, t)
			}
		}
	}
	for _, l := range [][]string{c.Global, c.A, c.B, c.Admin} {
		add(l)
	}
	if f := c.from(); f != nil {
		for _, l := range [][]string{f.Global, f.A, f.B, f.Admin} {
			add(l)
		}
	}
	add(c.staleTokens())
	return u
}

// ---- configuration product -------------------------------------------------

func behaviouralConfigs(r *runner.Run) []cfgSpec {
	var out []cfgSpec
	add := func(al alphabet, deploy, src string, globals, as, bs, admins [][]string) {
		for _, g := range globals {
			for _, a := range as {
				for _, b := range bs {
					for _, t := range admins {
						out = append(out, cfgSpec{Alpha: al.Name, Global: g, A: a, B: b, Admin: t, Deploy: deploy, Src: src})
					}
				}
			}
		}
	}
	p := alphaPlain
	// the table of the task statement (both tiers)
	add(p, "split", "raw", [][]string{nil, {p.G1}, {p.G1, p.G2}}, [][]string{nil, {p.A1}}, [][]string{nil, {p.B1}}, [][]string{nil, {p.T1}})
	// the same table reached through the production reload path from a configuration with other tokens
	for _, s := range append([]cfgSpec{}, out...) {
		s.Reload = true
		out = append(out, s)
	}
	if r.Thorough() {
		// larger and overlapping token sets: a route that re-declares a global token, two route tokens, three global tokens, two admin tokens
		add(p, "split", "raw", [][]string{nil, {p.G1}, {p.G1, p.G2, p.G3}}, [][]string{{p.A1, p.A2}, {p.G2}}, [][]string{nil, {p.B1}, {p.A1}}, [][]string{{p.T1, p.T2}, {p.G1}})
		// prefix / suffix / case-variant related tokens
		n := alphaNear
		add(n, "split", "raw", [][]string{nil, {n.G1}, {n.G1, n.G2}, {n.G3, n.G1}}, [][]string{nil, {n.A1}, {n.A1, n.A2}}, [][]string{nil, {n.B1}}, [][]string{nil, {n.T1}, {n.T1, n.T2}})
		// other deployments (prefix mounting, shared pull+admin listener) and token sources (env:, file:)
		add(p, "prefix", "raw", [][]string{nil, {p.G1}, {p.G1, p.G2}}, [][]string{nil, {p.A1}}, [][]string{nil, {p.B1}}, [][]string{nil, {p.T1}})
		add(p, "shared", "raw", [][]string{nil, {p.G1}, {p.G1, p.G2}}, [][]string{nil, {p.A1}}, [][]string{nil, {p.B1}}, [][]string{nil, {p.T1}})
		add(n, "shared", "envfile", [][]string{nil, {n.G1, n.G2}}, [][]string{nil, {n.A1}}, [][]string{nil, {n.B1}}, [][]string{nil, {n.T1}})
		add(p, "split", "envfile", [][]string{nil, {p.G1}, {p.G1, p.G2}}, [][]string{nil, {p.A1}}, [][]string{nil, {p.B1}}, [][]string{nil, {p.T1}})
	}
	return out
}

// compileOnlyConfigs adds a third pull route (absent / without tokens / with a
// token) so that "some route is left without allowlist" is decided for every
// position of the uncovered route.
func compileOnlyConfigs(r *runner.Run) []cfgSpec {
	var out []cfgSpec
	p := alphaPlain
	for _, deploy := range runner.Pick(r, []string{"split"}, []string{"split", "prefix", "shared"}) {
		for _, g := range [][]string{nil, {p.G1}, {p.G1, p.G2}} {
			for _, a := range [][]string{nil, {p.A1}} {
				for _, b := range [][]string{nil, {p.B1}} {
					for ci := 0; ci < 3; ci++ {
						for _, t := range [][]string{nil, {p.T1}} {
							s := cfgSpec{Alpha: p.Name, Global: g, A: a, B: b, Admin: t, Deploy: deploy, Src: "raw"}
							if ci > 0 {
								s.HasC = true
							}
							if ci == 2 {
								s.C = []string{p.C1}
							}
							out = append(out, s)
						}
					}
				}
			}
		}
	}
	return out
}

func alphabetOf(c cfgSpec) alphabet {
	if c.Alpha == alphaNear.Name {
		return alphaNear
	}
	return alphaPlain
}

// ---- credentials -----------------------------------------------------------

type cred struct {
	Class  string
	Values []string // nil = no Authorization header / metadata key
}

func b64(s string) string { return base64.StdEncoding.EncodeToString([]byte(s)) }

// credentials builds the credential column for one endpoint. base = the
// allowlist the endpoint's verdict is taken from (near misses are derived from
// each of its members); when it is empty the near misses are derived from the
// alphabet's first global token so the column keeps its shape.
func credentials(c cfgSpec, base []string, grpc bool, thorough bool) []cred {
	al := alphabetOf(c)
	var out []cred
	add := func(class string, values ...string) {
		if values == nil {
			values = []string{}
		}
		out = append(out, cred{Class: class, Values: values})
	}
	out = append(out, cred{Class: "absent", Values: nil})
	add("empty-value", "")
	add("scheme-only", "Bearer")
	add("scheme-blank", "Bearer ")
	if c.Chain != nil && c.Chain.contentWorld() { // content_test.go
		out = append(out, blankCredentials(grpc)...)
	}
	if len(base) == 0 {
		base = []string{al.G1}
	}
	bad := "Bearer " + al.Never
	for i, tok := range base {
		sfx := ""
		if i > 0 {
			sfx = fmt.Sprintf("#%d", i+1)
		}
		add("exact"+sfx, "Bearer "+tok)
		add("scheme-lower"+sfx, "bearer "+tok)
		add("token-plus-x"+sfx, "Bearer "+tok+"x")
		add("token-minus-last"+sfx, "Bearer "+tok[:len(tok)-1])
		add("token-minus-first"+sfx, "Bearer "+tok[1:])
		if u := strings.ToUpper(tok); u != tok {
			add("token-upper"+sfx, "Bearer "+u)
		}
		if l := strings.ToLower(tok); l != tok {
			add("token-lower"+sfx, "Bearer "+l)
		}
		add("basic-b64"+sfx, "Basic "+b64(tok))
		add("basic-user-b64"+sfx, "Basic "+b64("user:"+tok))
		add("no-scheme"+sfx, tok)
		add("glued-scheme"+sfx, "Bearer"+tok)
		add("leading-blank"+sfx, " Bearer "+tok)
		add("double-blank"+sfx, "Bearer  "+tok)
		add("comma-joined-bad-good"+sfx, bad+", Bearer "+tok)
		add("comma-joined-good-bad"+sfx, "Bearer "+tok+", "+bad)
		add("two-values-bad-good"+sfx, bad, "Bearer "+tok)
		add("two-values-good-bad"+sfx, "Bearer "+tok, bad)
		add("two-values-bad-nearmiss"+sfx, bad, "Bearer "+tok+"x")
		if thorough {
			add("scheme-upper"+sfx, "BEARER "+tok)
			add("scheme-token"+sfx, "Token "+tok)
			add("trailing-blank"+sfx, "Bearer "+tok+" ")
			add("token-twice"+sfx, "Bearer "+tok+" "+tok)
			add("two-values-good-good"+sfx, "Bearer "+tok, "Bearer "+tok)
			add("two-values-empty-good"+sfx, "", "Bearer "+tok)
			add("two-values-nearmiss-nearmiss"+sfx, "Bearer "+tok[:len(tok)-1], "Bearer "+strings.ToUpper(tok)+"x")
			add("basic-raw"+sfx, "Basic "+tok)
			if !grpc { // a tab is not a legal gRPC metadata character (client refuses to send it)
				add("tab-separator"+sfx, "Bearer\t"+tok)
			}
		}
	}
	// every token of the alphabet in the documented form: members of other
	// routes' lists, of the global list on an overriding route, of the admin
	// list, and tokens configured nowhere. The verdict comes from membership.
	for _, u := range universeOf(c) {
		if member(u, base) {
			continue
		}
		add("other-token:"+origin(c, u), "Bearer "+u)
	}
	return out
}

// ---- cases -----------------------------------------------------------------

type caseSpec struct {
	Cfg      cfgSpec  `json:"cfg"`
	Surface  string   `json:"surface"` // pull-http | pull-grpc | admin
	Handler  string   `json:"handler,omitempty"`
	Method   string   `json:"method,omitempty"`
	Target   string   `json:"target,omitempty"`   // HTTP request target
	Endpoint string   `json:"endpoint,omitempty"` // gRPC endpoint string
	Op       string   `json:"op"`
	Body     string   `json:"body,omitempty"` // {LEASE} is replaced by the seeded lease id
	Batch    bool     `json:"batch,omitempty"`
	LeaseOf  string   `json:"lease_of,omitempty"`
	Spelling string   `json:"spelling"`
	Class    string   `json:"credential_class"`
	Creds    []string `json:"authorization"` // null = absent
	// After (primer_test.go): the request is sent right after a request that presented this VALID token to the same
	// endpoint (PrimeTarget for the Pull HTTP surface) without touching the state.
	After       string `json:"after_valid_token,omitempty"`
	PrimeTarget string `json:"primer_target,omitempty"`
	// Trail (trail_test.go): rows that were sent before this one on the same boot; only recorded when the failure
	// does not reproduce without them.
	Trail []caseSpec `json:"preceding_rows_on_the_same_boot,omitempty"`
}

type refInfo struct {
	Route   string // A | B | "" (pull) ; admin: canonical path
	Scope   string // pull | admin | none
	Strict  bool   // canonical spelling of a listed endpoint+operation/method: 401/Unauthenticated is demanded
	Exists  bool
	Allow   []string
	Verdict verdict
	Own     bool // route declares its own tokens
	DenyAll bool // the list that applies declares members, none of which has a value (chain_test.go)
}

var pullOps = []string{"dequeue", "ack", "nack", "extend"}

func isPullOp(op string) bool {
	for _, o := range pullOps {
		if o == op {
			return true
		}
	}
	return false
}

func httpBody(op string, batch bool) string {
	switch op {
	case "dequeue":
		return `{"batch":1}`
	case "ack":
		if batch {
			return `{"lease_ids":["{LEASE}"]}`
		}
		return `{"lease_id":"{LEASE}"}`
	case "nack":
		if batch {
			return `{"lease_ids":["{LEASE}"],"delay":"5s"}`
		}
		return `{"lease_id":"{LEASE}","delay":"5s"}`
	case "extend":
		return `{"lease_id":"{LEASE}","extend_by":"30s"}`
	}
	return `{}`
}

type spelling struct {
	Name   string
	Format string // %s = operation
	Lease  string
}

func pullSpellings(thorough bool) []spelling {
	s := []spelling{
		{"A", "/ea/%s", "A"},
		{"B", "/eb/%s", "B"},
		{"unknown", "/ex/%s", "A"},
		{"A-dot", "/./ea/%s", "A"},
		{"A-trailing-slash", "/ea/%s/", "A"},
		{"A-via-B-dotdot", "/eb/../ea/%s", "A"},
		{"B-dot", "/eb/./%s", "B"},
	}
	if thorough {
		s = append(s,
			spelling{"A-double-slash", "/ea//%s", "A"},
			spelling{"A-pct-encoded", "/%%65a/%s", "A"},
			spelling{"A-pct-slash", "/ea%%2F%s", "A"},
			spelling{"A-upper", "/EA/%s", "A"},
			spelling{"B-via-A-dotdot", "/ea/../eb/%s", "B"},
			spelling{"B-trailing-slash", "/eb/%s/", "B"},
			spelling{"root", "/%s", "A"},
		)
	}
	return s
}

func grpcSpellings(thorough bool) []spelling {
	s := []spelling{
		{"A", "/ea", "A"},
		{"B", "/eb", "B"},
		{"unknown", "/ex", "A"},
		{"A-dot", "/./ea", "A"},
		{"A-trailing-slash", "/ea/", "A"},
		{"A-blank", " /ea ", "A"},
	}
	if thorough {
		s = append(s,
			spelling{"A-via-B-dotdot", "/eb/../ea", "A"},
			spelling{"A-no-slash", "ea", "A"},
			spelling{"A-upper", "/EA", "A"},
			spelling{"A-prefixed", "/pull/ea", "A"},
			spelling{"B-blank", "\t/eb", "B"},
			spelling{"B-trailing-slash", "/eb/", "B"},
		)
	}
	return s
}

// admin endpoint table (DESIGN.md Appendix B / docs/admin-api.md).
type adminPath struct {
	Path    string
	Query   string
	Body    string
	Methods string // methods under which the path is a listed endpoint
}

var adminPaths = []adminPath{
	{"/healthz", "details=1", "", "GET"},
	{"/dlq", "route=%2Frb&include_payload=true", "", "GET"},
	{"/backlog/top_queued", "", "", "GET"},
	{"/backlog/oldest_queued", "", "", "GET"},
	{"/backlog/aging_summary", "", "", "GET"},
	{"/backlog/trends", "", "", "GET"},
	{"/messages", "route=%2Frb&include_payload=true&include_headers=true", "", "GET"},
	{"/attempts", "route=%2Frb", "", "GET"},
	{"/management/model", "", "", "GET"},
	{"/applications", "", "", "GET"},
	{"/applications/appa/endpoints", "", "", "GET"},
	{"/applications/appa/endpoints/epa", "", `{"route":"/ra"}`, "GET PUT DELETE"},
	{"/applications/appb/endpoints/epb", "", `{"route":"/rb"}`, "GET PUT DELETE"},
	{"/applications/appd/endpoints/epd", "", `{"route":"/rd"}`, "GET PUT DELETE"},
	{"/applications/appa/endpoints/epa/messages", "include_payload=true", "", "GET"},
	{"/dlq/requeue", "", `{"ids":["c11-db"]}`, "POST"},
	{"/dlq/delete", "", `{"ids":["c11-db"]}`, "POST"},
	{"/messages/publish", "", `{"items":[{"id":"c11-pub","route":"/rb","target":"pull","payload_b64":"eA=="}]}`, "POST"},
	{"/messages/cancel", "", `{"ids":["c11-qb"]}`, "POST"},
	{"/messages/requeue", "", `{"ids":["c11-db"]}`, "POST"},
	{"/messages/resume", "", `{"ids":["c11-cb"]}`, "POST"},
	{"/messages/cancel_by_filter", "", `{"route":"/rb","state":"queued","limit":10}`, "POST"},
	{"/messages/requeue_by_filter", "", `{"route":"/rb","state":"dead","limit":10}`, "POST"},
	{"/messages/resume_by_filter", "", `{"route":"/rb","state":"canceled","limit":10}`, "POST"},
	{"/applications/appa/endpoints/epa/messages/publish", "", `{"items":[{"id":"c11-pub2","payload_b64":"eA=="}]}`, "POST"},
	{"/applications/appa/endpoints/epa/messages/cancel_by_filter", "", `{"state":"queued","limit":10}`, "POST"},
	{"/applications/appa/endpoints/epa/messages/requeue_by_filter", "", `{"state":"dead","limit":10}`, "POST"},
	{"/applications/appa/endpoints/epa/messages/resume_by_filter", "", `{"state":"canceled","limit":10}`, "POST"},
	// not listed anywhere / deviating spellings of listed ones
	{"/nope", "", `{"ids":["c11-qb"]}`, ""},
	{"/", "", "", ""},
	{"/./messages/cancel", "", `{"ids":["c11-qb"]}`, ""},
	{"/messages/cancel/", "", `{"ids":["c11-qb"]}`, ""},
	{"/dlq/../messages", "route=%2Frb&include_payload=true", "", ""},
}

var adminListed = func() map[string]bool {
	m := map[string]bool{}
	for _, p := range adminPaths {
		for _, me := range strings.Fields(p.Methods) {
			m[me+" "+p.Path] = true
		}
	}
	return m
}()

var auditHeaders = map[string]string{"X-Hookaido-Audit-Reason": "c11 harness", "X-Hookaido-Audit-Actor": "c11", "X-Request-ID": "c11-req"}

// reference for one HTTP request (after parsing, i.e. as any server sees it)
func refHTTP(cs caseSpec, req *http.Request, delivered []string) refInfo {
	c := cs.Cfg.inForce()
	segs := canonicalSegments(req.URL.Path)
	scope := cs.Handler
	switch c.Deploy {
	case "prefix", "shared":
		first := ""
		if len(segs) > 0 {
			first = segs[0]
			segs = segs[1:]
		}
		switch {
		case c.Deploy == "shared" && first == "pull":
			scope = "pull"
		case c.Deploy == "shared" && first == "admin":
			scope = "admin"
		case c.Deploy == "prefix" && "/"+first == c.pullPrefix() && cs.Handler == "pull":
		case c.Deploy == "prefix" && "/"+first == c.adminPrefix() && cs.Handler == "admin":
		default:
			scope = "none"
		}
	}
	rawPath := cs.Target
	if i := strings.IndexByte(rawPath, '?'); i >= 0 {
		rawPath = rawPath[:i]
	}
	ri := refInfo{Scope: scope}
	switch scope {
	case "pull":
		route, op := addressedPull(segs)
		ri.Route = route
		ri.Allow = effectiveAllowlist(c, route)
		ri.Own = (route == "A" && len(c.A) > 0) || (route == "B" && len(c.B) > 0)
		ri.Exists = route != "" && isPullOp(op) && req.Method == http.MethodPost
		ri.Strict = ri.Exists && rawPath == c.pullPrefix()+"/"+segs[0]+"/"+op
		ri.Verdict = judge(delivered, ri.Allow)
	case "admin":
		p := "/" + strings.Join(segs, "/")
		ri.Route = p
		ri.Allow = c.Admin
		ri.Exists = adminListed[req.Method+" "+p]
		ri.Strict = ri.Exists && rawPath == c.adminPrefix()+p
		ri.Verdict = judge(delivered, ri.Allow)
	default:
		ri.Verdict = vOpen
	}
	ri.unresolved(c)
	ri.soften(c, delivered)
	return ri
}

func refGRPC(cs caseSpec) refInfo {
	c := cs.Cfg.inForce()
	route, canonical := addressedGRPC(cs.Endpoint)
	ri := refInfo{Scope: "pull", Route: route}
	ri.Allow = effectiveAllowlist(c, route)
	ri.Own = (route == "A" && len(c.A) > 0) || (route == "B" && len(c.B) > 0)
	ri.Exists = route != "" && isPullOp(cs.Op)
	ri.Strict = ri.Exists && canonical
	ri.Verdict = judge(cs.Creds, ri.Allow)
	ri.unresolved(c)
	ri.soften(c, cs.Creds)
	return ri
}

func allTokens(c cfgSpec) []string {
	var u []string
	u = append(u, c.Global...)
	u = append(u, c.A...)
	u = append(u, c.B...)
	u = append(u, c.Admin...)
	return u
}

// ---- checker ---------------------------------------------------------------

type checker struct {
	r        *runner.Run
	mu       sync.Mutex
	recheck  sync.Mutex
	stats    map[string]int64
	once     map[string]bool
	deadline time.Time
	stopped  bool
}

func (k *checker) count(key string) {
	k.mu.Lock()
	k.stats[key]++
	k.mu.Unlock()
}

// firstOf reports true exactly once per key.
func (k *checker) firstOf(key string) bool {
	k.mu.Lock()
	defer k.mu.Unlock()
	if k.once[key] {
		return false
	}
	k.once[key] = true
	return true
}

func (k *checker) expired() bool {
	if time.Now().After(k.deadline) {
		k.mu.Lock()
		k.stopped = true
		k.mu.Unlock()
		return true
	}
	return false
}

// execute runs one case on w (fresh seeded state) and returns outcome + reference.
func execute(w *world, cs caseSpec) (outcome, refInfo, error) {
	if err := w.fresh(); err != nil {
		return outcome{}, refInfo{}, err
	}
	if err := w.replayTrail(cs); err != nil {
		return outcome{}, refInfo{}, err
	}
	return send(w, cs)
}

// send: primer (if any) and the request of one row on the world as it is.
func send(w *world, cs caseSpec) (outcome, refInfo, error) {
	if cs.After != "" {
		if err := w.prime(cs); err != nil {
			return outcome{}, refInfo{}, err
		}
	}
	switch cs.Surface {
	case "pull-grpc":
		o := w.doGRPC(cs.Op, cs.Endpoint, cs.LeaseOf, cs.Creds, cs.Batch)
		if o.Err != "" {
			return o, refInfo{}, fmt.Errorf("grpc %s %q: %s", cs.Op, cs.Endpoint, o.Err)
		}
		return o, refGRPC(cs), nil
	default:
		h := w.app.Pull
		if cs.Handler == "admin" {
			h = w.app.Admin
		}
		var extra map[string]string
		if cs.Surface != "pull-http" {
			extra = auditHeaders
		}
		raw := rawHTTP(cs.Method, cs.Target, w.fillLease(cs.Body, cs.LeaseOf), cs.Creds, extra)
		o, req := w.doHTTP(h, raw)
		if o.Err != "" {
			return o, refInfo{}, fmt.Errorf("http %s %s: %s", cs.Method, cs.Target, o.Err)
		}
		return o, refHTTP(cs, req, o.Delivered), nil
	}
}

// failure applies the oracle; "" = conforms.
func failure(cs caseSpec, ri refInfo, o outcome) (kind, msg string) {
	refused := "401"
	if cs.Surface == "pull-grpc" {
		refused = "Unauthenticated"
	}
	// docs/pull-api.md also lists 403 "token not in allowlist for this route": accepted as a refusal for a
	// well-formed token that some OTHER list of the configuration contains (the property names 401 for
	// missing, malformed and near-miss credentials only)
	forbidden := o.Code == http.StatusForbidden
	if cs.Surface == "pull-grpc" {
		forbidden = o.Code == int(codes.PermissionDenied)
	}
	// a refusal never has an effect, whatever the verdict
	if (o.Rejected || forbidden) && (o.Changed || o.Leak) {
		return "refused-but-acted", "the request was answered " + refused + " but queue/config state changed or queue data was returned"
	}
	if ri.Scope == "admin" && len(ri.Allow) == 0 && !ri.DenyAll {
		return "", "" // no admin tokens configured: the property does not constrain the Admin API
	}
	switch ri.Verdict {
	case vDeny:
		if o.Changed {
			return "unauthorized-changed-state", "unauthorised request changed queue/config state"
		}
		if o.Leak {
			return "unauthorized-read", "unauthorised request received queue data"
		}
		if ri.Strict && !o.Rejected && !(forbidden && strings.HasPrefix(cs.Class, "other-token:") && configuredElsewhere(cs)) {
			return "unauthorized-not-refused", fmt.Sprintf("unauthorised request to a configured endpoint was answered %d instead of %s", o.Code, refused)
		}
		if !ri.Strict && ri.Exists && o.Success {
			return "unauthorized-success", fmt.Sprintf("unauthorised request (deviating spelling of a configured endpoint) was answered with success (%d)", o.Code)
		}
	case vAllow:
		if ri.Strict && (o.Rejected || forbidden) {
			return "authorized-refused", fmt.Sprintf("request with a token of the effective allowlist in the documented form was refused (%d)", o.Code)
		}
	case vOpen:
		// endpoint that no route declares and no global list: nothing to be
		// authorised against — but a request carrying no configured token at all must not act
		if judge(o.Delivered, allTokens(cs.Cfg.inForce())) == vDeny && (o.Changed || o.Leak) {
			return "unauthorized-changed-state", "request without any configured token changed state through an unconfigured endpoint"
		}
	}
	return "", ""
}

// configuredElsewhere: the single documented-form token of the row is a member of some list of the configuration.
func configuredElsewhere(cs caseSpec) bool {
	if len(cs.Creds) != 1 {
		return false
	}
	tok, strict, _ := bearerOf(cs.Creds[0])
	return strict && member(tok, allTokens(cs.Cfg.inForce()))
}

func kindOfEndpoint(cs caseSpec, ri refInfo) string {
	e := cs.Spelling
	if ri.Scope == "pull" && ri.Own {
		e += "(own-tokens)"
	} else if ri.Scope == "pull" && ri.Route != "" {
		e += "(global-tokens)"
	}
	return e
}

func (k *checker) judgeCase(w *world, cs caseSpec) (refInfo, bool) {
	o, ri, err := execute(w, cs)
	if err != nil {
		k.r.Infra("%v", err)
		return ri, false
	}
	prior := w.recordRow(cs) // the rows sent before this one since the last boot
	r := k.r
	r.Add("evaluations", 1)
	r.Add("evaluations_"+cs.Surface, 1)
	hist := cs.Cfg.history()
	r.Add("evaluations_"+hist, 1)
	if cs.After != "" {
		hist += "+after-valid"
		r.Add("evaluations_after_valid", 1)
	}
	op := cs.Op
	if cs.Surface == "admin" {
		op = cs.Method
	}
	vname := ri.Verdict.String()
	if ri.Scope == "admin" && len(ri.Allow) == 0 && !ri.DenyAll {
		vname = "admin-unconfigured"
	}
	if ri.DenyAll {
		r.Add("ref_deny_because_every_declared_member_lacks_a_usable_value", 1)
	}
	switch vname {
	case "allow":
		r.Add("ref_allow", 1)
	case "deny":
		r.Add("ref_deny", 1)
	case "either":
		r.Add("ref_either", 1)
	default:
		r.Add("ref_unconstrained", 1)
	}
	if o.Rejected {
		r.Add("impl_refused", 1)
	} else {
		r.Add("impl_not_refused", 1)
	}
	if o.Changed {
		r.Add("impl_state_changing", 1)
		k.count("effective " + cs.Surface + " " + op + func() string {
			if cs.Surface == "admin" {
				return " " + ri.Route
			}
			return ""
		}())
	}
	strict := "lenient"
	if ri.Strict {
		strict = "strict"
	}
	cclass := cs.Class
	if i := strings.IndexByte(cclass, '#'); i >= 0 {
		cclass = cclass[:i]
	}
	r.Distinct(fmt.Sprintf("%s|%s|%s|%s|%s|%s", cs.Surface, op, cclass, vname, strict, hist))
	if ri.Verdict == vEither && ri.Strict {
		acc := "refused"
		if !o.Rejected {
			acc = "accepted"
		}
		k.count("undefined " + cs.Surface + " " + cclass + " " + acc)
	}
	if ri.Verdict == vOpen && ri.Scope != "admin" || (!ri.Strict && ri.Verdict == vDeny) {
		k.count(fmt.Sprintf("lenient-status %s %d", cs.Surface, o.Code))
	}
	if vname == "admin-unconfigured" && cs.Surface == "admin" {
		if o.Rejected {
			k.count("admin-unconfigured refused")
		} else {
			k.count("admin-unconfigured served")
		}
	}
	if ri.Strict && (ri.Verdict == vDeny || ri.Verdict == vAllow) && k.firstOf("sample "+cs.Surface+" "+vname) {
		r.Sample(map[string]any{"config": cs.Cfg.label(), "surface": cs.Surface, "request": requestLine(cs), "authorization": cs.Creds,
			"class": cs.Class, "reference": vname, "observed_code": o.Code, "state_changed": o.Changed})
	}
	kind, msg := failure(cs, ri, o)
	if kind == "" {
		return ri, true
	}
	key := fmt.Sprintf("%s:%s:%s:%s:%s", cs.Surface, kindOfEndpoint(cs, ri), op, cclass, kind)
	if cs.Surface == "admin" {
		key = fmt.Sprintf("admin:%s_%s:%s:%s", cs.Method, ri.Route, cclass, kind)
	}
	if hist != "fresh-boot" {
		key += ":" + hist
	}
	if ch := cs.Cfg.Chain; ch != nil {
		key += "(" + ch.class() + ")"
		k.count("chain-violation " + ch.class() + " [" + ch.shape() + "]")
	}
	if len(cs.Trail) > 0 { // replay of a recorded history-dependent case
		key += ":history-dependent"
	}
	if !k.firstOf("violation " + key) {
		r.Add("violating_rows_beyond_first_per_key", 1)
		return ri, true
	}
	// a failure that needs the rows sent earlier on the same boot is reported WITH them (trail_test.go)
	if len(cs.Trail) == 0 && len(prior) > 0 && !k.reproduces(cs, kind) {
		if tr := k.shortestTrail(cs, prior, kind); tr != nil {
			cs.Trail = tr
			key += ":history-dependent"
			msg += fmt.Sprintf(" — only after the %d preceding rows on the same boot that the replay file lists (the last one: %s, authorization %q%s)", len(tr), requestLine(tr[len(tr)-1]), tr[len(tr)-1].Creds,
				map[bool]string{true: ", itself sent right after a request with the valid token " + tr[len(tr)-1].After}[tr[len(tr)-1].After != ""])
			if !k.firstOf("violation " + key) {
				return ri, true
			}
		}
	}
	full := fmt.Sprintf("%s\n  config: %s\n  history: %s\n  request: %s [%s]\n  authorization (%s): %q\n  effective allowlist: %q (reference verdict %s)\n  observed: code=%d state_changed=%v data_returned=%v",
		msg, cs.Cfg.label(), historyText(cs), requestLine(cs), cs.Surface, cs.Class, cs.Creds, ri.Allow, vname, o.Code, o.Changed, o.Leak)
	k.r.Violation(key, full, cs, func() bool { return k.reproduces(cs, kind) })
	return ri, true
}

// reproduces: the case, executed on a world of its own, fails the oracle in the same way.
func (k *checker) reproduces(cs caseSpec, kind string) bool {
	k.recheck.Lock()
	defer k.recheck.Unlock()
	rw := newWorld(cs.Cfg, 900, filepath.Join(runner.Scratch(), "recheck"))
	rw.decided = true
	defer rw.shutdown()
	o2, ri2, err := execute(rw, cs)
	if err != nil {
		return false
	}
	k2, _ := failure(cs, ri2, o2)
	return k2 == kind
}

func historyText(cs caseSpec) string {
	h := "fresh boot of the configuration"
	if f := cs.Cfg.from(); f != nil {
		h = fmt.Sprintf("booted with (%s g=%v a=%v b=%v adm=%v), then reload of the configuration above", f.Deploy, f.Global, f.A, f.B, f.Admin)
		if cs.Cfg.Refused {
			h += " was REJECTED by the tree: the boot configuration must still be fully in force"
		} else {
			h += " was reported as applied"
		}
	}
	if ch := cs.Cfg.Chain; ch != nil {
		h = ch.describe() + "; the configuration above is what the reference has in force after the last step"
	}
	if cs.After != "" {
		h += fmt.Sprintf("; sent right after a request that presented the valid token %q to the same endpoint", cs.After)
	}
	return h
}

func requestLine(cs caseSpec) string {
	if cs.Surface == "pull-grpc" {
		return fmt.Sprintf("WorkerService.%s endpoint=%q batch=%v", cs.Op, cs.Endpoint, cs.Batch)
	}
	return fmt.Sprintf("%s %s body=%s", cs.Method, cs.Target, cs.Body)
}

// ---- enumeration of one configuration --------------------------------------

func (k *checker) runConfig(spec cfgSpec, slot int) {
	r := k.r
	thorough := r.Thorough() && !spec.Lean
	w := newWorld(spec, slot, filepath.Join(runner.Scratch(), fmt.Sprintf("w%d", slot)))
	defer func() {
		w.shutdown()
		r.Add("boots", int64(w.boots))
		r.Add("primers_passed", int64(w.primersPassed))
		r.Add("primers_refused", int64(w.primersRefused))
	}()
	if err := w.fresh(); err != nil {
		if ch := spec.Chain; ch != nil && errors.Is(err, errBootRefused) {
			// content_test.go: the tree refuses to start with a token that has no usable value — nothing is in force,
			// nothing to judge
			r.Add("content_boots_refused_no_usable_token", 1)
			r.Add("evaluations", 1)
			r.Distinct(fmt.Sprintf("boot-refused|%s|%s|%s|alt=%v", ch.Kind, ch.Bad, ch.Focus, ch.Alt))
			return
		}
		r.Infra("%v", err)
		return
	}
	r.Add("configs_booted", 1)
	// the first boot of a reload pair tells whether the tree applied or rejected the reload; the table is that of
	// the configuration in force (reload_test.go)
	spec = w.spec
	if spec.from() != nil {
		switch {
		case !spec.Refused && spec.expectApplied():
			r.Add("reloads_applied", 1)
		case spec.Refused && !spec.expectApplied():
			r.Add("reloads_rejected_restart_required", 1)
		case spec.Refused:
			r.Add("reloads_rejected_although_only_tokens_changed", 1)
		default:
			r.Add("reloads_applied_although_deployment_changed", 1)
		}
	}
	k.countChain(spec)
	if ch := spec.Chain; ch != nil && ch.contentWorld() {
		if _, resolvable := ch.load(ch.start()); !resolvable {
			r.Add("content_boots_accepted_with_a_member_without_usable_value", 1)
		}
		if len(spec.Soft) > 0 {
			r.Add("content_worlds_with_padded_token_in_force", 1)
		}
	}
	eff := spec.inForce() // lists, deployment and prefixes the rows are built from
	pp, ap := eff.pullPrefix(), eff.adminPrefix()

	// --- Pull API over HTTP
	methods := []string{"POST"}
	if thorough {
		methods = []string{"POST", "GET", "PUT", "DELETE"}
	}
	ops := pullOps
	if thorough {
		ops = append(append([]string{}, pullOps...), "purge")
	}
	for _, sp := range pullSpellings(thorough) {
		for _, op := range ops {
			for _, method := range methods {
				for _, batch := range []bool{false, true} {
					if batch && (!thorough || method != "POST" || (op != "ack" && op != "nack")) {
						continue
					}
					target := pp + fmt.Sprintf(sp.Format, op)
					cs0 := caseSpec{Cfg: spec, Surface: "pull-http", Handler: "pull", Method: method, Target: target, Op: op, Body: httpBody(op, batch), Batch: batch, LeaseOf: sp.Lease, Spelling: sp.Name,
						PrimeTarget: pp + fmt.Sprintf(sp.Format, "ack")}
					// the column is derived from the allowlist the reference attaches to this request
					probe, err := parseHTTP(rawHTTP(method, target, "", nil, nil))
					if err != nil {
						r.Infra("unparsable target %q: %v", target, err)
						continue
					}
					base := refHTTP(cs0, probe, nil).Allow
					for _, cr := range credentials(spec, base, false, thorough) {
						if k.expired() {
							return
						}
						cs := cs0
						cs.Class, cs.Creds = cr.Class, cr.Values
						k.row(w, cs)
					}
				}
			}
		}
	}

	// --- Worker API over gRPC (real grpc.Server behind the in-memory listener)
	for _, sp := range grpcSpellings(thorough) {
		for _, op := range ops {
			if op == "purge" {
				continue // no such RPC
			}
			for _, batch := range []bool{false, true} {
				if batch && (!thorough || (op != "ack" && op != "nack")) {
					continue
				}
				cs0 := caseSpec{Cfg: spec, Surface: "pull-grpc", Endpoint: sp.Format, Op: op, Batch: batch, LeaseOf: sp.Lease, Spelling: sp.Name}
				base := refGRPC(cs0).Allow
				for _, cr := range credentials(spec, base, true, thorough) {
					if k.expired() {
						return
					}
					cs := cs0
					cs.Class, cs.Creds = cr.Class, cr.Values
					k.row(w, cs)
				}
			}
		}
	}

	// --- Admin API
	adminMethods := []string{"GET", "POST", "PUT", "DELETE"}
	if thorough {
		adminMethods = append(adminMethods, "PATCH", "HEAD")
	}
	var adminCreds []cred
	if len(eff.Admin) > 0 || member("admin", eff.Declared) {
		adminCreds = credentials(spec, eff.Admin, false, thorough)
	} else {
		al := alphabetOf(spec)
		adminCreds = []cred{{Class: "absent"}, {Class: "unconfigured-token", Values: []string{"Bearer " + al.T1}}}
	}
	for _, p := range adminPaths {
		for _, method := range adminMethods {
			target := ap + p.Path
			if p.Query != "" {
				target += "?" + p.Query
			}
			for _, cr := range adminCreds {
				if k.expired() {
					return
				}
				k.row(w, caseSpec{Cfg: spec, Surface: "admin", Handler: "admin", Method: method, Target: target, Op: p.Path, Body: p.Body, Spelling: p.Path, Class: cr.Class, Creds: cr.Values})
			}
		}
	}

	// --- cross-surface spellings on prefixed deployments (pull token on admin paths and vice versa are
	// already in every column; here the PATH tries to leave its surface)
	if eff.Deploy != "split" {
		type xs struct{ handler, method, target, body, lease string }
		for _, x := range []xs{
			{"pull", "POST", "/pull/../admin/messages/cancel", `{"ids":["c11-qb"]}`, "A"},
			{"pull", "GET", "/pull/../admin/messages?route=%2Frb&include_payload=true", "", "A"},
			{"admin", "POST", "/admin/../pull/ea/dequeue", `{"batch":1}`, "A"},
			{"admin", "POST", "/admin/../pull/eb/ack", `{"lease_id":"{LEASE}"}`, "B"},
			{"pull", "POST", "/admin/messages/cancel", `{"ids":["c11-qb"]}`, "A"},
			{"admin", "POST", "/pull/ea/dequeue", `{"batch":1}`, "A"},
			{"pull", "POST", "/pullx/ea/dequeue", `{"batch":1}`, "A"},
			{"pull", "POST", "/ea/dequeue", `{"batch":1}`, "A"},
		} {
			base := append(append([]string{}, eff.Global...), eff.Admin...)
			for _, cr := range credentials(spec, base, false, thorough) {
				if k.expired() {
					return
				}
				k.judgeCase(w, caseSpec{Cfg: spec, Surface: "cross", Handler: x.handler, Method: x.method, Target: x.target, Op: "cross", Body: x.body, LeaseOf: x.lease,
					Spelling: x.handler + ":" + x.target, Class: cr.Class, Creds: cr.Values})
			}
		}
	}
}

// ---- compile table ---------------------------------------------------------

func (k *checker) compileTable(specs []cfgSpec) {
	r := k.r
	dir := filepath.Join(runner.Scratch(), "compile-tok")
	for _, s := range specs {
		s.Reload, s.From, s.Refused = false, nil, false
		if !k.firstOf("compiled " + s.label()) {
			continue
		}
		text := dsl(s, nextAddrs(), dir)
		compiled, ok, why := compileOnly(text)
		r.Add("configs_compiled", 1)
		r.Add("evaluations", 1)
		want := s.complete()
		r.Distinct(fmt.Sprintf("compile|deploy=%s|global=%d|a=%d|b=%d|c=%v/%d|want_ok=%v", s.Deploy, len(s.Global), len(s.A), len(s.B), s.HasC, len(s.C), want))
		switch {
		case !want && ok:
			key := fmt.Sprintf("compile:route-without-allowlist-accepted:global=%d,a=%d,b=%d,c=%v/%d", len(s.Global), len(s.A), len(s.B), s.HasC, len(s.C))
			if !k.firstOf("violation " + key) {
				continue
			}
			r.Violation(key,
				"the compiler accepted a configuration that leaves a pull route without any token allowlist\n"+text, map[string]any{"cfg": s, "dsl": text}, nil)
		case !want && !ok:
			r.Add("configs_rejected_by_compiler", 1)
		case want && !ok:
			r.Infra("harness DSL for a complete configuration does not compile (%s): %s", s.label(), why)
		default:
			r.Add("configs_accepted_by_compiler", 1)
			// the compiled result itself: every pull route ends up with a non-empty effective allowlist
			for _, rt := range compiled.Routes {
				if rt.Pull == nil {
					continue
				}
				if len(rt.Pull.AuthTokens) == 0 && len(compiled.PullAPI.AuthTokens) == 0 {
					r.Violation("compile:compiled-route-has-empty-allowlist", "compiled configuration has a pull route with neither own nor global tokens: "+rt.Path+"\n"+text, map[string]any{"cfg": s, "dsl": text}, nil)
				}
			}
		}
	}
}

// ---- TestCheck -------------------------------------------------------------

func TestCheck(t *testing.T) {
	r := runner.Start("C11", "exploration")
	debug.SetGCPercent(400) // the table allocates small short-lived objects only; the live heap stays small
	k := &checker{r: r, stats: map[string]int64{}, once: map[string]bool{}, deadline: r.Deadline(75*time.Second, 15*time.Minute)}

	if p := runner.ReplayPath(); p != "" {
		replay(k, p)
		r.Finish()
		return
	}

	// 1. compile table: exactly the incomplete configurations are rejected
	behav := behaviouralConfigs(r)
	// reload as a dimension: (A -> B) worlds, see reload_test.go
	behav = append(behav, reloadPairs(r)...)
	k.compileTable(append(append([]cfgSpec{}, behav...), compileOnlyConfigs(r)...))
	// reload chains over file:/env: token sources, failed reloads included, see chain_test.go
	behav = append(behav, chainSpecs(r)...)
	// the content of a token source: no usable token / a token wrapped in blanks, see content_test.go
	behav = append(behav, contentSpecs(r)...)
	// reloads refused because they need a restart, combined with route and token edits, see restart_test.go
	behav = append(behav, restartSpecs(r)...)

	// 2. behavioural table on every configuration the compiler must accept
	var bootable []cfgSpec
	seen := map[string]bool{}
	for _, s := range behav {
		if !s.complete() || seen[s.label()] {
			continue
		}
		seen[s.label()] = true
		bootable = append(bootable, s)
	}
	// the three families of worlds (fresh boot / old-token reload, reload pairs, reload chains) are interleaved in
	// proportion, so that a wall budget that ends the run early cuts the tail of every family, not one family
	family := func(s cfgSpec) int {
		switch {
		case s.Chain != nil && s.Chain.contentWorld():
			switch {
			case s.Chain.Pad != "":
				return 5
			case len(s.Chain.Ops) == 0:
				return 3
			}
			return 4
		case s.Chain != nil:
			return 2
		case restartWorld(s):
			if s.Restart == "" && s.Rename == "" {
				return 7 // the other-deployment pairs of reload_test.go
			}
			return 6
		case s.From != nil:
			return 1
		}
		return 0
	}
	// development aid: C11_FAMILIES=3,4,5,6 restricts the run to those families of worlds (0 fresh boot / old-token
	// reload, 1 token-only pairs, 2 chains, 3-5 source contents at boot / as a step / padded, 6 restart-only setting +
	// edit, 7 other-deployment pairs). Such a run is never exhaustive and skips the vacuity guards.
	restricted := false
	if only := os.Getenv("C11_FAMILIES"); only != "" {
		restricted = true
		var keep []cfgSpec
		for _, s := range bootable {
			if member(fmt.Sprint(family(s)), strings.Split(only, ",")) {
				keep = append(keep, s)
			}
		}
		bootable = keep
		r.NotExhaustive("development run restricted to the world families " + only)
	}
	var size, idx [8]int
	for _, s := range bootable {
		size[family(s)]++
	}
	pos := make(map[string]float64, len(bootable))
	for _, s := range bootable {
		f := family(s)
		pos[s.label()] = (float64(idx[f]) + 0.5) / float64(size[f])
		idx[f]++
	}
	sort.SliceStable(bootable, func(i, j int) bool { return pos[bootable[i].label()] < pos[bootable[j].label()] })
	workers := runtime.NumCPU()
	if workers > 12 {
		workers = 12
	}
	if workers > len(bootable) {
		workers = len(bootable)
	}
	jobs := make(chan cfgSpec)
	var wg sync.WaitGroup
	for i := 0; i < workers; i++ {
		wg.Add(1)
		go func(slot int) {
			defer wg.Done()
			for s := range jobs {
				if k.expired() {
					continue
				}
				k.runConfig(s, slot)
			}
		}(i)
	}
	for _, s := range bootable {
		jobs <- s
	}
	close(jobs)
	wg.Wait()
	if k.stopped {
		r.NotExhaustive("wall budget reached before the table was complete")
	}
	if n := r.Counter("reloads_rejected_although_only_tokens_changed"); n > 0 {
		r.NotExhaustive(fmt.Sprintf("%d reloads that only edit token lists were rejected by the tree; their rows were judged against the configuration that stayed in force", n))
	}
	if n := r.Counter("chain_steps_refused_although_every_source_resolvable"); n > 0 {
		r.NotExhaustive(fmt.Sprintf("%d reloads of a reload chain were refused by the tree although every referenced token source could be resolved; the table was judged against what stayed in force", n))
	}
	if !k.stopped && !restricted {
		for _, c := range []string{"reloads_applied", "reloads_rejected_restart_required", "primers_passed", "content_worlds", "reload_pairs_restart_only_setting_plus_edit",
			"chain_steps_applied", "chain_steps_refused_source_unresolvable", "chains_ending_in_refused_reload",
			"chains_with_rotated_content_loaded_by_reload_of_unchanged_file", "chains_with_refused_reload_retried_after_providing_the_source"} {
			if r.Counter(c) == 0 {
				r.Infra("vacuous table: counter %s is zero", c)
			}
		}
	}

	// 3. vacuity: with a valid token every operation of every surface did act at least once,
	// so "no effect" above is not an artefact of ineffective requests
	keys := make([]string, 0, len(k.stats))
	for s := range k.stats {
		keys = append(keys, s)
	}
	sort.Strings(keys)
	eff, undefd, lenient, adminOpen := map[string]int64{}, map[string]int64{}, map[string]int64{}, map[string]int64{}
	chainViol := map[string]int64{}
	for _, s := range keys {
		switch {
		case strings.HasPrefix(s, "effective "):
			eff[strings.TrimPrefix(s, "effective ")] = k.stats[s]
		case strings.HasPrefix(s, "undefined "):
			undefd[strings.TrimPrefix(s, "undefined ")] = k.stats[s]
		case strings.HasPrefix(s, "lenient-status "):
			lenient[strings.TrimPrefix(s, "lenient-status ")] = k.stats[s]
		case strings.HasPrefix(s, "chain-violation "):
			chainViol[strings.TrimPrefix(s, "chain-violation ")] = k.stats[s]
		case strings.HasPrefix(s, "admin-unconfigured "):
			adminOpen[strings.TrimPrefix(s, "admin-unconfigured ")] = k.stats[s]
		}
	}
	if !k.stopped && !restricted {
		for _, surf := range []string{"pull-http", "pull-grpc"} {
			for _, op := range pullOps {
				if eff[surf+" "+op] == 0 {
					r.Infra("vacuous table: no authorised %s %s request changed the seeded state", surf, op)
				}
			}
		}
		for _, want := range []string{"POST /dlq/requeue", "POST /dlq/delete", "POST /messages/publish", "POST /messages/cancel", "POST /messages/requeue", "POST /messages/resume",
			"POST /messages/cancel_by_filter", "POST /messages/requeue_by_filter", "POST /messages/resume_by_filter",
			"POST /applications/appa/endpoints/epa/messages/publish", "POST /applications/appa/endpoints/epa/messages/cancel_by_filter",
			"POST /applications/appa/endpoints/epa/messages/requeue_by_filter", "POST /applications/appa/endpoints/epa/messages/resume_by_filter",
			"PUT /applications/appb/endpoints/epb", "DELETE /applications/appd/endpoints/epd"} {
			if eff["admin "+want] == 0 {
				r.Infra("vacuous table: no authorised admin request %s changed the seeded state", want)
			}
		}
	}
	r.Set("authorized_effective_by_operation", eff)
	r.Set("undefined_by_docs_outcomes", undefd)
	r.Set("lenient_case_status_codes", lenient)
	r.Set("admin_without_tokens", adminOpen)
	if len(chainViol) > 0 {
		r.Set("violating_rows_by_reload_chain", chainViol)
	}
	r.Set("configs_behavioural", len(bootable))
	r.Set("reload_pairs_rule", "(A -> B): boot A through startServers, reload B through reloadConfig, run the complete table of the configuration in force. base = the 18 compiling configurations of global{-,g1,g1+g2} x routeA{-,a1} x routeB{-,b1} x admin{-,t1}. quick: all ordered pairs of base that differ in exactly one list (74); thorough: all 324 ordered pairs of base (identical reload included; the 250 pairs that are not in quick run the quick-size table); both tiers: reload from the all-old-tokens configuration (every list replaced) to each of the 18. Restart-required direction: for every ordered pair of different deployments (split/prefix/shared) boot A (quick: 2, thorough: all 18 of base, the 16 additional ones with the quick-size table), reload inverse(A) (every list differs) in the other deployment: the tree must reject it and A's table must be fully in force, B's tokens worthless")
	r.Set("reload_chains_rule", "history = start state + 1..3 steps, each step followed by ONE production reload, then the complete table of what the reference has in force; every prefix of a history is a history. Tokens are file:/env: references, so their values live outside the Hookaidofile. focus list L with focus source s: route A [s] | route B [s] | global [g1,s] | admin [s] (context: global [g1], admin [t1], route A [a1], B on the global list). start: (L references s, content v1) | (not referenced, unresolvable) | (not referenced, v1). step: edit (L gains/loses s in the Hookaidofile) | edit-other (another route list gains/loses a member) | set:v1|v2|bad (content of s changes, Hookaidofile untouched) | reload (nothing changes). quick: file:/missing with focus A, global, admin and env:/unset with focus A, first two starts, every history of 1..2 steps in which the content of s changes only while the Hookaidofile references s (168 worlds); file empty | blank | directory and variable empty with focus A: the two one-step histories whose reload faces the unresolvable source (8 worlds). thorough: file:/missing and env:/unset: all four focus lists x three starts x every history of 1..2 steps; file:/missing, first two starts: plus every history of 3 steps in which the content of s changes only while referenced; file empty | blank | directory and variable empty: every such history of 1..2 steps in which the source is unresolvable at some point (1696 worlds). Reference: an applied reload puts the lists of the Hookaidofile as it is now with the source contents as they are now in force; a refused reload changes nothing (lists and resolved values of the last applied load stay); applied/refused is the tree's return value. Credential column: plus every earlier / refused / never-loaded content (other-token:rotated-out | replaced-by-reload | of-refused-config | never-loaded)")
	r.Set("token_source_content_rule", "the CONTENT of a token source as a dimension (content_test.go), through the chain machinery: source kind env: | file: | raw: (content written into the Hookaidofile as a quoted string) x content without a usable token (\"\", \" \", \"\\t\", \"\\n\", \" \\n \", and the older ways: file missing / blank / directory, variable unset) or a usable token wrapped in blanks (\" tok\", \"tok \", \"tok\\n\", \"\\ttok\", \" tok \\n\") x list {route A, route B, global, admin}, standing alone ([s]) and next to a usable member ([x, s]) x when {at boot: the table right after start-up, or start-up refused | as a reload step: set while referenced, reference gained while blank | followed by a second step}. Reference from the statement: a content is usable iff something other than white space is left of it; a configuration declaring a member without a usable value is either refused (boot error / reload returns false: what was in force stays in force) or in force with that member worth nothing: a list all of whose declared members lack a usable value admits NOBODY and still replaces the global list for its route; a padded token is soft (docs do not say whether contents are trimmed): rows that would be allowed because of it are 'either', everything else is judged as always. Credential column plus blank spellings of 'no token'. quick: boot: kind x every blank x {A, global, admin} alone (+ beside for \" \" and \"\"); reload step: env: x {\" \", \"\\n\"} x three lists, file:/raw: on route A; padded: kind x padding on route A at boot (+ env: on global/admin, + rotation). thorough: the full product with 1-step histories, 2-step histories for env: x {\" \", \"\\n\"} x {A, global}, padded x four lists x {boot, rotation}")
	r.Set("restart_refusal_rule", "reloads that are refused because they need a restart, combined with route and token edits (restart_test.go): boot configuration (g1 | a1 | - | t1) [thorough: + 3 more] x restart-only change {pull_api.max_batch, pull_api.grpc_listen [thorough: + default_lease_ttl, deliver URL], none = live control for renames} x edit {none | route of /ea renamed | route of /eb renamed | both | names exchanged | route A list flipped / member replaced / grown | route B list flipped | global member replaced / grown | admin flipped / member replaced | rename + member replaced | every list different}; after the reload the complete table of the configuration in force (the tree's return value says which; refused = the boot configuration) on Pull HTTP, Worker gRPC and Admin, candidate-only tokens in every credential column. Together with the other-deployment pairs of reload_pairs_rule these worlds are a family of their own in the world order (no longer the tail of the pairs)")
	r.Set("rule", "nested loops, nothing sampled: token configuration (global × route A × route B × admin lists [× alphabet × deployment × token source in thorough], each compiled from DSL text and booted through the production startServers) × how it came into force (fresh boot | reload from another configuration applied | reload rejected, see reload_pairs_rule | a chain of 1..3 reloads over file:/env: token sources with content rotation and failing reloads, see reload_chains_rule) × history on the authorizer (none | right after a harmless request with a valid token to the same endpoint; deny rows of fresh-boot and reload-from-old worlds; thorough: every member of the allowlist as the valid token) × surface (Pull HTTP handler, Worker gRPC server over the in-memory listener, Admin HTTP handler) × endpoint spelling × operation/method × credential column (derived from every member of the effective allowlist plus every other token of the alphabet). Each row runs on the seeded store (queued/leased/dead/canceled message per route, lease ids known) and is compared with the reference allowlist rule; the full state dump (all message fields, stats, config file, management labels) must be identical after an unauthorised row. distinct = (surface, operation/method, credential class, reference verdict, strict/lenient spelling); trivial rows (compile-only) are keyed separately.")
	r.Assume("docs define the credential as 'Authorization: Bearer <token>' only; scheme spelled in another case, extra blanks around scheme/token and several Authorization values are undefined: either outcome is accepted when at least one value carries a member of the effective allowlist (observed: HTTP authorizers look at the first value and want the exact scheme, the gRPC authorizer accepts any value and any scheme case) — recorded in undefined_by_docs_outcomes; when no value carries a member the row is a plain deny row")
	r.Assume("401/Unauthenticated is demanded for the canonical spelling of a configured endpoint+operation (Pull: POST {endpoint}/{dequeue,ack,nack,extend}; Admin: the path×method pairs of docs/admin-api.md). For endpoints no route declares, deviating path spellings, unknown operations and non-listed methods only 'no effect, no data, no success answer' is demanded (the tree answers 401, 404 or 405 there; see lenient_case_status_codes)")
	r.Assume("when admin_api declares no tokens the property does not constrain the Admin API; those rows are executed and counted (admin_without_tokens) but not judged")
	r.Assume("an authorised caller of endpoint A presenting a lease id that belongs to a message of route B is not part of this table (lease ids are capabilities; covered by the lease-fencing property C04)")
	r.Assume("HTTP requests are parsed by net/http's http.ReadRequest, as the production http.Server would; the reference judges the Authorization values as delivered to the handler. TLS/mTLS listeners are not exercised (tokens are independent of the transport credentials)")
	r.Assume("state = MemoryStore (fixed clock, no retention) + config file + management labels; runtime metrics counters are not queue state")
	r.Assume("which configuration is in force after a reload is taken from the return value of the production reload (the tree's own statement); the docs' rule (token edits apply live, listener/prefix/shared-listener changes are rejected and the previous configuration stays active) is used for the vacuity guards: a rejected token-only reload ends the run as non-exhaustive, never as a violation. Reload through SIGHUP/--watch/management mutation all end in the same reloadConfig/applyCompiled; the management-mutation path is exercised only as authorised PUT/DELETE rows, not as a history before the table")
	r.Assume("reload chains: the value of a file:/env: token reference is what the source holds when the configuration is loaded (start-up and every reload: docs/security.md secret references, docs/configuration.md 'Startup/reload'); a content change without a reload is not judged (no table is run between the change and the next reload). A reload that the tree applies although a declared token cannot be resolved is judged as 'that member has no value': a list all of whose declared members lack a value admits nobody and still replaces the global list (on the unchanged tree only for an env: variable that is set to white space: LoadRef hands the blanks on as the token, which no request can present — see token_source_content_rule). vault: references are not exercised (no Vault in the sandbox)")
	r.Assume("token source contents: 'usable' = not empty after removing white space (the statement's 'bearer token'; 'requests without a token' are refused, so no member can stand for 'no token'); whether a padded content is trimmed is not documented, both readings are accepted (cfgSpec.Soft -> 'either' rows); a trailing newline of a token FILE is taken as trimmed (as chain_test.go always did). Contents with inner white space, NUL or non-ASCII bytes, {env.X}/{file.X} placeholders inside a token value and vault: are not enumerated")
	r.Assume("overlapping requests: the sequential table cannot see state shared between in-flight requests of one authorizer; that is the free-running -race side pass (TestRace: valid and same-length/prefix/suffix/foreign invalid credentials presented concurrently to the same authorizer on the Pull HTTP, Worker gRPC and Admin surfaces, for authorizers built by start-up, by a reload and during a reload). It detects unsynchronised sharing (data race); a wrongly synchronised but still shared buffer would need the controlled scheduler and is not covered")
	r.Finish()
}

// replay re-runs exactly one recorded case.
func replay(k *checker, path string) {
	b, err := os.ReadFile(path)
	if err != nil {
		k.r.Infra("replay file: %v", err)
		return
	}
	var f struct {
		Replay json.RawMessage `json:"replay"`
	}
	if err := json.Unmarshal(b, &f); err != nil {
		k.r.Infra("replay file: %v", err)
		return
	}
	var cs caseSpec
	if err := json.Unmarshal(f.Replay, &cs); err != nil || cs.Surface == "" {
		var cc struct {
			Cfg cfgSpec `json:"cfg"`
		}
		if json.Unmarshal(f.Replay, &cc) == nil {
			k.compileTable([]cfgSpec{cc.Cfg})
			return
		}
		k.r.Infra("replay file: not a C11 case: %v", err)
		return
	}
	w := newWorld(cs.Cfg, 0, filepath.Join(runner.Scratch(), "replay"))
	w.decided = true
	defer w.shutdown()
	if cs.Cfg.Chain != nil {
		w.redecide = true
		if err := w.fresh(); err != nil {
			if errors.Is(err, errBootRefused) { // this tree does not start with that configuration: nothing is in force
				k.r.Add("evaluations", 1)
				k.r.Add("content_boots_refused_no_usable_token", 1)
				fmt.Printf("replayed: %v\n", err)
				return
			}
			k.r.Infra("%v", err)
			return
		}
		cs.Cfg = w.spec
	}
	k.judgeCase(w, cs)
	fmt.Printf("replayed: %s %s [%s] authorization=%q\n", cs.Surface, requestLine(cs), cs.Cfg.label(), cs.Creds)
}
