package c11

// The CONTENT of a token source as a dimension: values that are not a usable
// token, and usable tokens wrapped in blanks.
//
// chain_test.go knows two contents of a source: a token, or "cannot be
// resolved" (file missing / empty / blank-only / a directory, variable unset /
// empty). Between the two lies what a source holds after `echo > token`, a
// `.env` line `TOKEN=" "`, `export TOKEN="$(cat missing) "`: a value that EXISTS
// and is not a token. The statement has no use for such a member: a credential
// is "a bearer token from the effective allowlist", requests "without a token"
// are refused — nothing a client can present equals "no token". So, written
// from the statement (not from LoadRef / the authorizers):
//
//   - a content is USABLE iff something other than white space is left of it;
//   - a configuration that declares a member whose source holds no usable
//     value is either REFUSED (start-up fails / the reload fails and whatever
//     was in force stays in force), or it is in force with that member being
//     worth nothing: the list contains its usable members only; a list all of
//     whose declared members lack a usable value admits NOBODY and still
//     replaces the global list for its route (refInfo.DenyAll — never "no
//     allowlist, so everybody");
//   - whether the tree refuses or loads is the tree's own statement (boot
//     error / return value of the reload), exactly as in chain_test.go;
//   - a usable token wrapped in blanks / followed by a newline: the docs do not
//     say whether a source content is trimmed, so a request that carries the
//     bare token may be admitted (trimmed reading) or refused (verbatim
//     reading; no client can present the padding). Such a token is "soft"
//     (cfgSpec.Soft): rows the reference would allow because of it are
//     "either"; every other row is judged as always — nobody else gets in.
//
// Dimensions (all through the chain machinery: same histories, same fold, same
// complete table after the last step):
//
//	source kind     env: | file: | raw: (the content is then part of the Hookaidofile, written as a quoted DSL
//	                string with \t \n escapes; a content change is an edit of the Hookaidofile)
//	blank content   "" | " " | "\t" | "\n" | " \n " (+ the older ways: file missing / blank " \n\t\n" / directory,
//	                variable unset)
//	padded content  " tok" | "tok " | "tok\n" | "\ttok" | " tok \n"
//	list            route A | route B | global | admin, each ALONE ([s]) and NEXT TO a usable member ([x, s]):
//	                chain_test.go has A [s], B [s], global [g1, s], admin [s]; the other arrangement (chainSpec.Alt)
//	                is A [a2, s], global [s] (an edit replaces g1 by s), admin [t2, s]
//	when            at boot (history of no steps: the table right after start-up, or start-up refused) | as a reload
//	                step (set:bad while referenced; the Hookaidofile gains the reference while the source is blank)
//	                | followed by a second step (recover, rotate, reload again, drop the reference)
//
// Credential column of these worlds: plus "no token" spelled with blanks (" ", "Bearer  ", "Bearer \t").

import (
	"github.com/nuetzliches/hookaido/internal/verifkit/runner"
)

// blankContents: what a source holds when chainSpec.Bad names a content (the other ways of being unresolvable —
// missing, dir, unset — are not contents).
var blankContents = map[string]string{"empty": "", "blank": " \n\t\n", "sp": " ", "tab": "\t", "nl": "\n", "sp-nl-sp": " \n "}

var newBlanks = []string{"sp", "tab", "nl", "sp-nl-sp"}

var padAlphabet = []string{"lead-sp", "trail-sp", "trail-nl", "lead-tab", "wrap"}

func padded(pad, tok string) string {
	switch pad {
	case "lead-sp":
		return " " + tok
	case "trail-sp":
		return tok + " "
	case "trail-nl":
		return tok + "\n"
	case "lead-tab":
		return "\t" + tok
	case "wrap":
		return " " + tok + " \n"
	}
	return tok
}

// usable: the statement's notion of a value that can be a token at all.
func usable(content string) bool {
	for _, c := range content {
		switch c {
		case ' ', '\t', '\n', '\r', '\v', '\f':
		default:
			return true
		}
	}
	return false
}

// altSources: the lists of the Hookaidofile in the other arrangement (see above).
func (ch *chainSpec) altSources(st chainState) [4][]string {
	g, a, adm := []string{"g1"}, []string{"a1"}, []string{"t1"}
	var b []string
	if st.other {
		b = []string{"b1"}
	}
	switch ch.Focus {
	case "global": // alone
		if st.member {
			g = []string{"g2"}
		}
	case "A": // next to a usable member
		a = []string{"a2"}
		if st.member {
			a = append(a, "a1")
		}
	case "admin":
		adm = []string{"t2"}
		if st.member {
			adm = append(adm, "t1")
		}
	}
	return [4][]string{g, a, b, adm}
}

// contentWorld: the world belongs to this file's family (ordering, counters, credential column).
func (ch *chainSpec) contentWorld() bool {
	return ch.Pad != "" || ch.Alt || len(ch.Ops) == 0 || ch.Kind == "raw" || member(ch.Bad, newBlanks)
}

// altFor: chainSpec.Alt for "the focus list stands alone" / "has a usable companion".
func altFor(focus string, alone bool) bool {
	if focus == "global" {
		return alone
	}
	return !alone
}

func blanksOf(kind string) []string {
	switch kind {
	case "env":
		return append(append([]string{}, newBlanks...), "empty", "unset")
	case "file":
		return append(append([]string{}, newBlanks...), "empty", "blank", "missing", "dir")
	}
	return append(append([]string{}, newBlanks...), "empty") // raw
}

// contentSpecs enumerates the worlds.
//
//	quick:    at boot: source kind x EVERY blank content / way of being unresolvable x list {A, global, admin} alone;
//	          next to a usable member for " " and "". As a reload step: env: x {" ", "\n"} x the three lists alone
//	          (set:bad), x " " next to a usable member (set:bad) and alone (edit: reference gained while blank);
//	          file: x {" ", "\n"} and raw: x {"", " "} on route A (set:bad), raw: " " (edit). Padded: every kind x every
//	          padding on route A at boot; env: " tok \n" on the global and the admin list at boot and as a rotation
//	          (set:v2) on route A.
//	thorough: at boot: kind x every blank x {A, B, global, admin} x both arrangements. One step (set:bad | edit):
//	          kind x the five blank contents x lists x arrangements. Two steps (env: x {" ", "\n"} x {A, global} in
//	          the arrangement of chain_test.go): every history of 1..2 steps in which the source is blank at some
//	          point. Padded: kind x padding x {A, B, global, admin} x {boot, set:v2}. All with the quick-size table.
func contentSpecs(r *runner.Run) []cfgSpec {
	var out []cfgSpec
	seen := map[string]bool{}
	for name, content := range blankContents {
		if usable(content) {
			r.Infra("content alphabet: %q (%s) is a usable value", content, name)
		}
	}
	for _, pad := range padAlphabet {
		if p := padded(pad, "tok"); !usable(p) || p == "tok" {
			r.Infra("content alphabet: padding %s does not pad", pad)
		}
	}
	add := func(ch chainSpec) {
		c := ch
		if seen[c.id()] {
			return
		}
		seen[c.id()] = true
		out = append(out, cfgSpec{Alpha: alphaPlain.Name, Deploy: "split", Src: "chain", Chain: &c, Lean: true})
		r.Add("content_worlds", 1)
		switch {
		case c.Pad != "":
			r.Add("content_worlds_padded_token", 1)
		case len(c.Ops) == 0:
			r.Add("content_worlds_unusable_at_boot", 1)
		default:
			r.Add("content_worlds_unusable_as_reload_step", 1)
		}
	}
	kinds := []string{"env", "file", "raw"}
	lists := []string{"A", "global", "admin"}
	refBad := chainSpec{Member: true, Content: "bad"}    // boot: referenced, blank
	refV1 := chainSpec{Member: true, Content: "v1"}      // referenced, usable
	unrefBad := chainSpec{Member: false, Content: "bad"} // blank, not (yet) referenced
	with := func(base chainSpec, focus, kind, bad, pad string, alt bool, ops ...string) chainSpec {
		base.Focus, base.Kind, base.Bad, base.Pad, base.Alt, base.Ops = focus, kind, bad, pad, alt, ops
		return base
	}
	defaultBad := map[string]string{"env": "unset", "file": "missing", "raw": "empty"}

	// ---- quick (both tiers); the rounds are interleaved by kind so that a cut run has seen every kind
	for _, focus := range lists {
		for _, kind := range kinds {
			for _, bad := range blanksOf(kind) {
				add(with(refBad, focus, kind, bad, "", altFor(focus, true)))
				if bad == "sp" || bad == "empty" {
					add(with(refBad, focus, kind, bad, "", altFor(focus, false)))
				}
			}
		}
	}
	for _, bad := range []string{"sp", "nl"} {
		for _, focus := range lists {
			add(with(refV1, focus, "env", bad, "", altFor(focus, true), "set:bad"))
		}
		add(with(refV1, "A", "file", bad, "", false, "set:bad"))
	}
	for _, focus := range lists {
		add(with(refV1, focus, "env", "sp", "", altFor(focus, false), "set:bad"))
		add(with(unrefBad, focus, "env", "sp", "", altFor(focus, true), "edit"))
	}
	add(with(refV1, "A", "raw", "empty", "", false, "set:bad"))
	add(with(refV1, "A", "raw", "sp", "", false, "set:bad"))
	add(with(unrefBad, "A", "raw", "sp", "", false, "edit"))
	for _, pad := range padAlphabet {
		for _, kind := range kinds {
			add(with(refV1, "A", kind, defaultBad[kind], pad, false))
		}
	}
	add(with(refV1, "global", "env", "unset", "wrap", false))
	add(with(refV1, "admin", "env", "unset", "wrap", false))
	add(with(refV1, "A", "env", "unset", "wrap", false, "set:v2"))
	if !r.Thorough() {
		return out
	}

	// ---- thorough
	type arr struct {
		focus string
		alt   bool
	}
	arrs := []arr{{"A", false}, {"global", false}, {"admin", false}, {"B", false}, {"A", true}, {"global", true}, {"admin", true}}
	for _, kind := range kinds {
		for _, ar := range arrs {
			for _, bad := range blanksOf(kind) {
				add(with(refBad, ar.focus, kind, bad, "", ar.alt))
			}
			for _, bad := range append(append([]string{}, newBlanks...), "empty") {
				if kind != "raw" && bad == "empty" {
					continue // chain_test.go has it
				}
				add(with(refV1, ar.focus, kind, bad, "", ar.alt, "set:bad"))
				add(with(unrefBad, ar.focus, kind, bad, "", ar.alt, "edit"))
			}
		}
	}
	// (file: contents without a usable token are refused like an empty file: chain_test.go has those two-step
	// histories; a blank env: value is LOADED by the unchanged tree, so what follows it is new)
	for _, bad := range []string{"sp", "nl"} {
		for _, focus := range []string{"A", "global"} {
			for _, base := range []chainSpec{refV1, unrefBad} {
				st := chainState{member: base.Member, content: base.Content}
				for _, ops := range histories(st, 2, true) {
					if meetsBad(st, ops) {
						add(with(base, focus, "env", bad, "", false, ops...))
					}
				}
			}
		}
	}
	for _, kind := range kinds {
		for _, pad := range padAlphabet {
			for _, focus := range []string{"A", "B", "global", "admin"} {
				add(with(refV1, focus, kind, defaultBad[kind], pad, false))
				add(with(refV1, focus, kind, defaultBad[kind], pad, false, "set:v2"))
			}
		}
	}
	return out
}

// soften: a verdict "allow" that rests on a token whose source content is padded becomes "either" (see above).
func (ri *refInfo) soften(c cfgSpec, values []string) {
	if len(c.Soft) == 0 || ri.Verdict != vAllow {
		return
	}
	var hard []string
	for _, t := range ri.Allow {
		if !member(t, c.Soft) {
			hard = append(hard, t)
		}
	}
	if len(hard) == 0 || judge(values, hard) != vAllow {
		ri.Verdict = vEither
	}
}

// blankCredentials: "no token", spelled with blanks.
func blankCredentials(grpc bool) []cred {
	out := []cred{{Class: "blank-only", Values: []string{" "}}, {Class: "scheme-two-blanks", Values: []string{"Bearer  "}}}
	if !grpc { // a tab is not a legal gRPC metadata character
		out = append(out, cred{Class: "scheme-blank-tab", Values: []string{"Bearer \t"}})
	}
	return out
}
