package c11

// Reload CHAINS over token sources that live outside the Hookaidofile.
//
// reload_test.go makes "boot A, reload B once" a dimension of the table, with
// raw: tokens written into the Hookaidofile. Two things are missing there:
//
//   - the token VALUE of an `auth token file:/path` / `auth token env:NAME`
//     reference is not in the Hookaidofile. It is read when the configuration is
//     loaded (start-up and every reload; docs/security.md "Secret references",
//     docs/configuration.md: "Startup/reload"), so the same Hookaidofile text
//     can stand for different allowlists, and a reload can FAIL although the
//     text compiles (file missing / empty / blank / not readable, variable unset
//     / empty);
//   - the allowlist rule has no memory, but a reload path can have one (the
//     previous candidate, a cache of resolved secrets, authenticators that are
//     re-used when "nothing changed"). One reload after a boot never exercises
//     that memory; a chain of reloads does.
//
// So a history is: a start state, then 1..3 steps; each step changes ONE thing
// (or nothing) and asks the production reload path (app.VerifApp.Reload ->
// reloadConfig -> applyCompiled) to reload. The complete table (all surfaces x
// spellings x operations x credential column) is then run against the reference
// allowlist rule for the configuration that is in force after the LAST step.
// Every prefix of an enumerated history is enumerated too, so the table is
// decided after every step.
//
//	focus list L ∈ {route A, route B, global, admin} with its focus source s:
//	    A: A = [s]            B: B = [s]        global: global = [g1, s]     admin: admin = [s]
//	    (context: global [g1], admin [t1], route A [a1], route B without own tokens; all through the same kind of
//	    reference as s, always resolvable)
//	source kind   ∈ {file:, env:}
//	content of s  ∈ {v1, v2, unresolvable} — unresolvable as: file missing | empty | blank-only | a directory
//	              (ReadFile fails although the path exists); variable unset | empty
//	start         ∈ {s referenced by L, content v1 | s not referenced, content v1 | s not referenced, unresolvable}
//	step          ∈ {edit:        L gains / loses its reference to s in the Hookaidofile,
//	                 edit-other:  another list (route B; for focus B: route A) gains / loses a member,
//	                 set:v1|v2|bad: the content of s changes, the Hookaidofile does not,
//	                 reload:      nothing changes}                             — each followed by ONE reload
//
// Reference (written from the docs, not from the reload code): a reload that
// the tree reports as applied puts the lists of the Hookaidofile as it is NOW,
// with the source contents as they are NOW, in force; a reload that the tree
// reports as refused changes nothing: the lists AND the resolved values of the
// last applied load stay in force ("the previous config stays active"). Which
// of the two happened is the tree's own return value, as in reload_test.go; the
// docs' expectation (refused exactly when a referenced source cannot be
// resolved) feeds counters and vacuity guards only. Should a tree apply a
// reload although a declared token cannot be resolved, that member has no value
// any presented token could equal: a list that declares members of which none
// has a value admits nobody (refInfo.DenyAll) — it still REPLACES the global
// list for its route.
//
// Tokens that were valid earlier in the history, or that only a refused
// candidate would have made valid, are added to every credential column
// (other-token:rotated-out / replaced-by-reload / of-refused-config / never-loaded).

import (
	"errors"
	"fmt"
	"os"
	"path/filepath"
	"sort"
	"strings"

	"github.com/nuetzliches/hookaido/internal/app"
	"github.com/nuetzliches/hookaido/internal/verifkit/runner"
)

type chainSpec struct {
	Focus   string   `json:"focus_list"`         // global | A | B | admin
	Kind    string   `json:"source_kind"`        // file | env | raw (content_test.go)
	Bad     string   `json:"unresolvable_as"`    // file: missing | empty | blank | dir ; env: unset | empty ; any kind: the blank contents of content_test.go
	Member  bool     `json:"referenced_at_boot"` // the focus list references the focus source in the boot Hookaidofile
	Content string   `json:"content_at_boot"`    // v1 | bad
	Ops     []string `json:"steps"`              // edit | edit-other | reload | set:v1 | set:v2 | set:bad ; none: the table right after the boot (content_test.go)
	// Pad, Alt (content_test.go): how a usable content of the focus source is wrapped in blanks / newlines, and the
	// other arrangement of the focus list (a list that stands alone gets a usable companion and vice versa).
	Pad string `json:"usable_content_padded,omitempty"`
	Alt bool   `json:"other_list_arrangement,omitempty"`
	// Applied: what the production reload returned for each step (filled in by the first boot of the world).
	Applied []bool `json:"reload_applied,omitempty"`
}

// ---- the model of a history (reference side) --------------------------------

type chainState struct {
	member  bool   // L references s in the Hookaidofile
	other   bool   // the other list has its extra member
	content string // v1 | v2 | bad
}

func (ch *chainSpec) start() chainState {
	return chainState{member: ch.Member, content: ch.Content}
}

func (st chainState) step(op string) chainState {
	switch {
	case op == "edit":
		st.member = !st.member
	case op == "edit-other":
		st.other = !st.other
	case strings.HasPrefix(op, "set:"):
		st.content = strings.TrimPrefix(op, "set:")
	}
	return st
}

var chainFocusSource = map[string]string{"global": "g2", "A": "a1", "B": "b1", "admin": "t1"}

var chainSourceNames = []string{"g1", "g2", "a1", "b1", "t1"}

// sourceNames: the sources of the world (the companions a2 / t2 exist in the other list arrangement only).
func (ch *chainSpec) sourceNames() []string {
	if ch.Alt {
		return append(append([]string{}, chainSourceNames...), "a2", "t2")
	}
	return chainSourceNames
}

// chainV1: the first content of every source; the focus source's second content is rotated(v1).
func chainV1(name string) string {
	p := alphaPlain
	return map[string]string{"g1": p.G1, "g2": p.G2, "a1": p.A1, "b1": p.B1, "t1": p.T1, "a2": p.A2, "t2": p.T2}[name]
}

func rotated(tok string) string { return strings.TrimSuffix(tok, "Tok") + "Rot" }

// sources: the source names the four lists of the Hookaidofile reference in state st (global, A, B, admin).
func (ch *chainSpec) sources(st chainState) [4][]string {
	if ch.Alt {
		return ch.altSources(st)
	}
	g := []string{"g1"}
	if ch.Focus == "global" && st.member {
		g = append(g, "g2")
	}
	var a, b, adm []string
	switch ch.Focus {
	case "A":
		if st.member {
			a = []string{"a1"}
		}
	case "B":
		if st.other {
			a = []string{"a1"}
		}
	default:
		a = []string{"a1"}
	}
	switch {
	case ch.Focus == "B" && st.member, ch.Focus != "B" && st.other:
		b = []string{"b1"}
	}
	if ch.Focus != "admin" || st.member {
		adm = []string{"t1"}
	}
	return [4][]string{g, a, b, adm}
}

// value: what source name holds in state st; ok=false: it cannot be resolved.
func (ch *chainSpec) value(name string, st chainState) (string, bool) {
	if name != chainFocusSource[ch.Focus] {
		return chainV1(name), true
	}
	switch st.content {
	case "v1":
		return chainV1(name), true
	case "v2":
		return rotated(chainV1(name)), true
	}
	return "", false
}

var chainListNames = [4]string{"global", "A", "B", "admin"}

type chainTable struct {
	lists    [4][]string // token VALUES in force: global, A, B, admin
	declared []string    // lists that declare a member without a value
	srcs     [4][]string
}

// load: the table a successful load in state st puts in force.
func (ch *chainSpec) load(st chainState) (t chainTable, resolvable bool) {
	t.srcs = ch.sources(st)
	resolvable = true
	for i, l := range t.srcs {
		for _, name := range l {
			if v, ok := ch.value(name, st); ok {
				t.lists[i] = append(t.lists[i], v)
			} else {
				resolvable = false
				if !member(chainListNames[i], t.declared) {
					t.declared = append(t.declared, chainListNames[i])
				}
			}
		}
	}
	return t, resolvable
}

func (t chainTable) holds(tok string) bool {
	for _, l := range t.lists {
		if member(tok, l) {
			return true
		}
	}
	return false
}

// fold runs the reference over the history with the outcomes the tree reported. It returns the table in force
// after the last step, why every other token of the history is NOT in force, and the outcomes the docs predict.
func (ch *chainSpec) fold(applied []bool) (force chainTable, stale map[string]string, expected []bool) {
	st := ch.start()
	force, _ = ch.load(st)
	stale = map[string]string{}
	focus := chainFocusSource[ch.Focus]
	// every value a source of this world can hold is in the column, whatever the history does with it
	for _, n := range ch.sourceNames() {
		stale[chainV1(n)] = "unconfigured"
	}
	stale[rotated(chainV1(focus))] = "unconfigured"
	for i, op := range ch.Ops {
		st = st.step(op)
		cand, resolvable := ch.load(st)
		expected = append(expected, resolvable)
		if i < len(applied) && applied[i] {
			for _, l := range force.lists {
				for _, tok := range l {
					stale[tok] = "replaced-by-reload"
					if tok == chainV1(focus) || tok == rotated(chainV1(focus)) {
						for _, sl := range cand.srcs {
							if member(focus, sl) {
								stale[tok] = "rotated-out"
							}
						}
					}
				}
			}
			force = cand
			continue
		}
		for _, l := range cand.lists {
			for _, tok := range l {
				if !force.holds(tok) {
					stale[tok] = "of-refused-config"
				}
			}
		}
	}
	// a content the source holds now but that no applied load has read
	if v, ok := ch.value(focus, st); ok && !force.holds(v) && stale[v] == "unconfigured" {
		stale[v] = "never-loaded"
	}
	for tok := range stale {
		if force.holds(tok) {
			delete(stale, tok)
		}
	}
	return force, stale, expected
}

// shape: the steps with "!" behind every refused one — the history part of a violation key.
func (ch *chainSpec) shape() string {
	var b strings.Builder
	for i, op := range ch.Ops {
		if i > 0 {
			b.WriteByte('>')
		}
		b.WriteString(op)
		if i < len(ch.Applied) && !ch.Applied[i] {
			b.WriteByte('!')
		}
	}
	return b.String()
}

// class: the history part of a violation key — the last step ("!" = refused), whether a reload was refused
// earlier in the history, and whether the tree applied a reload although a declared token had no value. The
// complete history is in the message and in the replay file.
func (ch *chainSpec) class() string {
	if len(ch.Applied) != len(ch.Ops) {
		return "undecided"
	}
	if len(ch.Ops) == 0 { // the table right after the boot
		if _, resolvable := ch.load(ch.start()); !resolvable {
			return "boot+booted-unresolvable"
		}
		return "boot"
	}
	_, _, expected := ch.fold(ch.Applied)
	last := len(ch.Ops) - 1
	c := ch.Ops[last]
	if !ch.Applied[last] {
		c += "!"
	}
	refusedBefore, appliedUnresolvable := false, false
	for i, ok := range ch.Applied {
		if !ok && i < last {
			refusedBefore = true
		}
		if ok && !expected[i] {
			appliedUnresolvable = true
		}
	}
	if refusedBefore {
		c += "+refused-before"
	}
	if appliedUnresolvable {
		c += "+applied-unresolvable"
	}
	return c
}

func (ch *chainSpec) id() string {
	start := "unreferenced"
	if ch.Member {
		start = "referenced"
	}
	extra := ""
	if ch.Pad != "" {
		extra += ", usable content padded " + ch.Pad
	}
	if ch.Alt {
		extra += ", other list arrangement"
	}
	return fmt.Sprintf("chain[%s via %s:, %s, content %s(%s)%s: %s]", ch.Focus, ch.Kind, start, ch.Content, ch.Bad, extra, strings.Join(ch.Ops, ">"))
}

func (ch *chainSpec) describe() string {
	var b strings.Builder
	st := ch.start()
	show := func(st chainState) string {
		s := ch.sources(st)
		return fmt.Sprintf("global=%v a=%v b=%v admin=%v", s[0], s[1], s[2], s[3])
	}
	focus := chainFocusSource[ch.Focus]
	fmt.Fprintf(&b, "every token is a reference (%s:) to a source named below; booted with %s, source %s holding %s", ch.Kind, show(st), focus, ch.contentText(st.content))
	for i, op := range ch.Ops {
		st = st.step(op)
		what := ""
		switch {
		case op == "reload":
			what = "nothing changed"
		case strings.HasPrefix(op, "set:"):
			what = fmt.Sprintf("source %s now holds %s, Hookaidofile unchanged", focus, ch.contentText(st.content))
		default:
			what = "Hookaidofile edited to " + show(st)
		}
		out := "?"
		if i < len(ch.Applied) {
			out = map[bool]string{true: "APPLIED", false: "REFUSED"}[ch.Applied[i]]
		}
		fmt.Fprintf(&b, "; step %d: %s, reload %s", i+1, what, out)
	}
	return b.String()
}

func (ch *chainSpec) contentText(c string) string {
	switch c {
	case "v1":
		return fmt.Sprintf("%q", padded(ch.Pad, chainV1(chainFocusSource[ch.Focus])))
	case "v2":
		return fmt.Sprintf("%q", padded(ch.Pad, rotated(chainV1(chainFocusSource[ch.Focus]))))
	}
	if c, ok := blankContents[ch.Bad]; ok {
		return fmt.Sprintf("no usable token (%s: %q)", ch.Bad, c)
	}
	return "nothing resolvable (" + ch.Bad + ")"
}

// ---- the sources of one world -----------------------------------------------

// Every boot stands for a new process, so every boot gets source names (file paths, variable names) that this
// test process has never used before: whatever a tree remembers per path or per name cannot leak from one boot
// into the next. They are derived from the boot's unique in-memory host address and dropped at shutdown.
type chainSources struct {
	kind, bad string
	focus     string // the focus source; its usable contents are written padded (pad)
	pad       string
	dir       string            // files
	prefix    string            // environment variable names
	holds     map[string]string // what put last wrote per source
	lit       map[string]string // raw: the content of every source (it is part of the Hookaidofile)
}

func (w *world) newChainSources() *chainSources {
	ch := w.spec.Chain
	host, _, _ := strings.Cut(w.ad.ingress, ":")
	tag := strings.ReplaceAll(host, ".", "_")
	return &chainSources{kind: ch.Kind, bad: ch.Bad, focus: chainFocusSource[ch.Focus], pad: ch.Pad, dir: filepath.Join(w.dir, "src-"+tag), prefix: "C11C_" + tag + "_",
		holds: map[string]string{}, lit: map[string]string{}}
}

func (w *world) dropChainSources() {
	if w.src == nil {
		return
	}
	os.RemoveAll(w.src.dir)
	if w.src.kind == "env" {
		for _, n := range append(append([]string{}, chainSourceNames...), "a2", "t2") {
			os.Unsetenv(w.src.prefix + n)
		}
	}
	w.src = nil
}

func (s *chainSources) ref(name string) string {
	switch s.kind {
	case "env":
		return "env:" + s.prefix + name
	case "raw":
		return "raw:" + s.lit[name]
	}
	return "file:" + filepath.Join(s.dir, name)
}

// put makes source name hold value; ok=false makes it unresolvable in the world's way.
func (s *chainSources) put(name, value string, ok bool) error {
	now := "=" + value
	if !ok {
		now = "unresolvable"
	}
	if s.holds[name] == now {
		return nil
	}
	if err := s.write(name, value, ok); err != nil {
		delete(s.holds, name)
		return err
	}
	s.holds[name] = now
	return nil
}

func (s *chainSources) write(name, value string, ok bool) error {
	if ok && name == s.focus {
		value = padded(s.pad, value)
	}
	blank, isBlank := blankContents[s.bad] // content_test.go; "empty" included
	switch s.kind {
	case "raw":
		if !ok {
			value = blank
		}
		s.lit[name] = value
		return nil
	case "env":
		switch {
		case ok:
			return os.Setenv(s.prefix+name, value)
		case isBlank:
			return os.Setenv(s.prefix+name, blank)
		}
		return os.Unsetenv(s.prefix + name)
	}
	p := filepath.Join(s.dir, name)
	if err := os.MkdirAll(s.dir, 0o755); err != nil {
		return err
	}
	if err := os.RemoveAll(p); err != nil {
		return err
	}
	switch {
	case ok && name == s.focus && s.pad != "":
		return os.WriteFile(p, []byte(value), 0o600) // exactly the padded content
	case ok:
		return os.WriteFile(p, []byte(value+"\n"), 0o600) // trailing newline, as an editor leaves it
	case isBlank:
		return os.WriteFile(p, []byte(blank), 0o600)
	case s.bad == "dir":
		return os.Mkdir(p, 0o755)
	}
	return nil // missing
}

func (ch *chainSpec) text(st chainState, ad addrs, s *chainSources) string {
	src := ch.sources(st)
	refs := func(names []string) []string {
		var out []string
		for _, n := range names {
			out = append(out, s.ref(n))
		}
		return out
	}
	return dsl(cfgSpec{Alpha: alphaPlain.Name, Deploy: "split", Src: "ref", Global: refs(src[0]), A: refs(src[1]), B: refs(src[2]), Admin: refs(src[3])}, ad, "")
}

// bootChain: start state, boot through the production startServers, then every step followed by the production
// reload. Called by fresh() in place of the plain boot, i.e. again after every row that changed the state.
func (w *world) bootChain() error {
	ch := w.spec.Chain
	w.dropChainSources()
	s := w.newChainSources()
	w.src = s
	st := ch.start()
	focus := chainFocusSource[ch.Focus]
	for _, n := range ch.sourceNames() {
		v, ok := ch.value(n, st)
		if err := s.put(n, v, ok); err != nil {
			return err
		}
	}
	text := ch.text(st, w.ad, s)
	a, err := app.VerifBoot(app.VerifBootOptions{Dir: filepath.Join(w.dir, "boot"), ConfigText: text, Store: w.store})
	if err != nil {
		if _, resolvable := ch.load(st); !resolvable { // the boot configuration declares a token without a usable value
			return fmt.Errorf("%w: %s: %v", errBootRefused, ch.id(), err)
		}
		return fmt.Errorf("boot %s: %w", w.spec.label(), err)
	}
	w.app = a
	w.boots++
	applied := make([]bool, 0, len(ch.Ops))
	for _, op := range ch.Ops {
		st = st.step(op)
		v, ok := ch.value(focus, st)
		if err := s.put(focus, v, ok); err != nil {
			return err
		}
		if t := ch.text(st, w.ad, s); t != text { // an unchanged Hookaidofile is not even rewritten
			if err := os.WriteFile(a.ConfigPath, []byte(t), 0o644); err != nil {
				return err
			}
			text = t
		}
		applied = append(applied, a.Reload("c11-chain"))
	}
	w.text = text
	if w.decided && fmt.Sprint(applied) == fmt.Sprint(ch.Applied) {
		return nil
	}
	if w.decided && !w.redecide {
		return fmt.Errorf("%s: reload outcomes %v differ from the recorded ones %v", ch.id(), applied, ch.Applied)
	}
	decidedChain := *ch // the enumerated spec is not written to
	decidedChain.Applied = applied
	force, stale, _ := decidedChain.fold(applied)
	w.spec.Chain = &decidedChain
	w.spec.Global, w.spec.A, w.spec.B, w.spec.Admin = force.lists[0], force.lists[1], force.lists[2], force.lists[3]
	w.spec.Declared, w.spec.Stale = force.declared, stale
	w.spec.Soft = nil
	if ch.Pad != "" { // a padded content: whether the value in force is the padded or the trimmed one is not documented
		for _, tok := range []string{chainV1(focus), rotated(chainV1(focus))} {
			if force.holds(tok) {
				w.spec.Soft = append(w.spec.Soft, tok)
			}
		}
	}
	w.decided = true
	return nil
}

// errBootRefused: the tree refused to start with a boot configuration that declares a token without a usable value.
var errBootRefused = errors.New("boot refused")

// staleTokens in a fixed order (the credential column must not depend on map iteration order).
func (c cfgSpec) staleTokens() []string {
	out := make([]string, 0, len(c.Stale))
	for t := range c.Stale {
		out = append(out, t)
	}
	sort.Strings(out)
	return out
}

// unresolved: a list that is in force declares members of which none has a value (only on a tree that applies such
// a reload). The list still replaces the global one for its route, and it admits nobody.
func (ri *refInfo) unresolved(c cfgSpec) {
	if len(c.Declared) == 0 {
		return
	}
	switch ri.Scope {
	case "pull":
		switch {
		case ri.Route == "A" && len(c.A) == 0 && member("A", c.Declared), ri.Route == "B" && len(c.B) == 0 && member("B", c.Declared):
			ri.Allow, ri.Own, ri.DenyAll = nil, true, true
		case !ri.Own && len(c.Global) == 0 && member("global", c.Declared):
			ri.DenyAll = true
		}
	case "admin":
		ri.DenyAll = len(c.Admin) == 0 && member("admin", c.Declared)
	}
	if ri.DenyAll {
		ri.Verdict = vDeny
	}
}

// ---- enumeration ------------------------------------------------------------

// referencedOnly: the content of s changes only while the Hookaidofile references it (quick tier; a content
// change of an unreferenced source is, for the reference, the same step as "reload").
func chainOps(st chainState, referencedOnly bool) []string {
	ops := []string{"edit", "edit-other", "reload"}
	for _, c := range []string{"v1", "v2", "bad"} {
		if c != st.content && (st.member || !referencedOnly) {
			ops = append(ops, "set:"+c) // setting the content it already has is "reload"
		}
	}
	return ops
}

// histories: every step sequence of length 1..maxLen from start.
func histories(start chainState, maxLen int, referencedOnly bool) [][]string {
	var out [][]string
	var rec func(st chainState, prefix []string)
	rec = func(st chainState, prefix []string) {
		if len(prefix) > 0 {
			out = append(out, append([]string(nil), prefix...))
		}
		if len(prefix) == maxLen {
			return
		}
		for _, op := range chainOps(st, referencedOnly) {
			rec(st.step(op), append(prefix, op))
		}
	}
	rec(start, nil)
	return out
}

// meetsBad: the source is unresolvable at some point of the history (else the way it would be unresolvable does
// not matter and the history is the same as under the first way).
func meetsBad(start chainState, ops []string) bool {
	st := start
	if st.content == "bad" {
		return true
	}
	for _, op := range ops {
		if st = st.step(op); st.content == "bad" {
			return true
		}
	}
	return false
}

// chainSpecs enumerates the worlds.
//
//	quick:    file: / missing, focus ∈ {A, global, admin}, starts {referenced+v1, unreferenced+unresolvable}, all
//	          histories of length 1..2 in which the content of s changes only while the Hookaidofile references s
//	          (42 per focus); env: / unset, focus A, the same starts and histories; file empty | blank |
//	          directory and variable empty, focus A: the two one-step histories whose reload faces the
//	          unresolvable source (referenced: set:bad; unreferenced+unresolvable: edit)
//	thorough: file: / missing and env: / unset: all four focus lists x all three starts x ALL histories of length
//	          1..2 (30 each); file: / missing, first two starts: plus the histories of length 3 in which the
//	          content of s changes only while referenced (103 + 45 per focus); every other way of being
//	          unresolvable (file empty, blank, directory; variable empty): the histories of length 1..2 (content
//	          changes only while referenced) in which the source is unresolvable at some point (24 per focus).
//	          Worlds that are not in quick, and the quick worlds other than file:/focus A, run the quick-size
//	          table (cfgSpec.Lean).
func chainSpecs(r *runner.Run) []cfgSpec {
	type start struct {
		member  bool
		content string
	}
	starts := []start{{true, "v1"}, {false, "bad"}, {false, "v1"}}
	var out []cfgSpec
	seen := map[string]bool{}
	add := func(focus, kind, bad string, s start, ops []string, lean bool) {
		ch := &chainSpec{Focus: focus, Kind: kind, Bad: bad, Member: s.member, Content: s.content, Ops: ops}
		if seen[ch.id()] {
			return
		}
		seen[ch.id()] = true
		out = append(out, cfgSpec{Alpha: alphaPlain.Name, Deploy: "split", Src: "chain", Chain: ch, Lean: lean})
		r.Add("reload_chains", 1)
		r.Add(fmt.Sprintf("reload_chains_of_%d_steps", len(ops)), 1)
	}
	// quick (both tiers)
	// the other ways of being unresolvable: the one-step histories whose reload faces the unresolvable source
	for _, kb := range [][2]string{{"file", "empty"}, {"file", "blank"}, {"file", "dir"}, {"env", "empty"}} {
		add("A", kb[0], kb[1], starts[0], []string{"set:bad"}, true)
		add("A", kb[0], kb[1], starts[1], []string{"edit"}, true)
	}
	// (history outermost: a run that its wall budget ends early has then seen the first histories under every
	// focus list and source kind rather than every history under the first focus list)
	var hs [2][][]string
	for i, s := range starts[:2] {
		hs[i] = histories(chainState{member: s.member, content: s.content}, 2, true)
	}
	for n := 0; n < len(hs[0]) || n < len(hs[1]); n++ {
		for i, s := range starts[:2] {
			if n >= len(hs[i]) {
				continue
			}
			for _, kf := range []struct{ kind, bad, focus string }{{"file", "missing", "A"}, {"env", "unset", "A"}, {"file", "missing", "global"}, {"file", "missing", "admin"}} {
				add(kf.focus, kf.kind, kf.bad, s, hs[i][n], !(kf.kind == "file" && kf.focus == "A"))
			}
		}
	}
	if !r.Thorough() {
		return out
	}
	for _, kb := range []struct {
		kind, bad string
		onlyBad   bool
	}{{"file", "missing", false}, {"env", "unset", false}, {"file", "empty", true}, {"file", "blank", true}, {"file", "dir", true}, {"env", "empty", true}} {
		for _, focus := range []string{"A", "B", "global", "admin"} {
			for i, s := range starts {
				st := chainState{member: s.member, content: s.content}
				hs := histories(st, 2, kb.onlyBad)
				if kb.kind == "file" && kb.bad == "missing" && i < 2 {
					for _, ops := range histories(st, 3, true) {
						if len(ops) == 3 {
							hs = append(hs, ops)
						}
					}
				}
				for _, ops := range hs {
					if kb.onlyBad && !meetsBad(st, ops) {
						continue
					}
					add(focus, kb.kind, kb.bad, s, ops, true)
				}
			}
		}
	}
	return out
}

// countChain: coverage counters of one decided chain world (vacuity guards in TestCheck).
func (k *checker) countChain(spec cfgSpec) {
	ch := spec.Chain
	if ch == nil {
		return
	}
	r := k.r
	_, _, expected := ch.fold(ch.Applied)
	rotatedIn, retried := false, false
	st := ch.start()
	lastRefusedText := ""
	for i, ok := range ch.Applied {
		prev := st
		st = st.step(ch.Ops[i])
		srcs := fmt.Sprint(ch.sources(st))
		switch {
		case ok && expected[i]:
			r.Add("chain_steps_applied", 1)
			if strings.HasPrefix(ch.Ops[i], "set:") && prev.content != "bad" && st.content != "bad" && fmt.Sprint(ch.sources(prev)) == srcs && member(chainFocusSource[ch.Focus], flatten(ch.sources(st))) {
				rotatedIn = true
			}
			if lastRefusedText == srcs {
				retried = true
			}
			lastRefusedText = ""
		case !ok && !expected[i]:
			r.Add("chain_steps_refused_source_unresolvable", 1)
			lastRefusedText = srcs
		case !ok:
			r.Add("chain_steps_refused_although_every_source_resolvable", 1)
		default:
			r.Add("chain_steps_applied_although_a_source_is_unresolvable", 1)
		}
	}
	if rotatedIn {
		r.Add("chains_with_rotated_content_loaded_by_reload_of_unchanged_file", 1)
	}
	if retried {
		r.Add("chains_with_refused_reload_retried_after_providing_the_source", 1)
	}
	if len(ch.Applied) > 0 && !ch.Applied[len(ch.Applied)-1] {
		r.Add("chains_ending_in_refused_reload", 1)
	}
}

func flatten(l [4][]string) []string {
	var out []string
	for _, x := range l {
		out = append(out, x...)
	}
	return out
}
