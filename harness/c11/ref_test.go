package c11

// Reference rule, written from the property statement and docs/pull-api.md,
// docs/worker-api.md, docs/admin-api.md — not from the authorizers:
//
//   * the credential is "Authorization: Bearer <token>";
//   * the effective allowlist of a pull endpoint is the route's own pull
//     tokens when it declares any, otherwise the global pull_api tokens
//     ("Per-route tokens replace (not extend) the global allowlist");
//   * admin: the admin_api tokens, when any are configured;
//   * a request is authorised iff the token it carries is, byte for byte, a
//     member of that allowlist.
//
// The docs do not say what happens with a different scheme spelling
// ("bearer"), with extra blanks around scheme or token, or with several
// Authorization values. Those cases are "either": whatever the server does is
// accepted provided at least one of the values carries a member of the
// allowlist; if none does, the request is unauthorised like any other.

import (
	"strings"
)

type verdict int

const (
	vDeny   verdict = iota // must be refused, must have no effect
	vAllow                 // must not be refused as unauthorised
	vEither                // documented contract leaves it open
	vOpen                  // no allowlist applies (property does not constrain)
)

func (v verdict) String() string {
	return [...]string{"deny", "allow", "either", "unconstrained"}[v]
}

// bearerOf extracts the token of one Authorization value. strict: exactly the
// documented form "Bearer" SP token; loose: same words, other spelling/blanks.
func bearerOf(value string) (token string, strict, loose bool) {
	words := strings.Fields(value) // splits on any white space
	if len(words) != 2 || !strings.EqualFold(words[0], "bearer") {
		return "", false, false
	}
	if value == "Bearer "+words[1] {
		return words[1], true, false
	}
	return words[1], false, true
}

func member(tok string, allow []string) bool {
	for _, a := range allow {
		if a == tok {
			return true
		}
	}
	return false
}

// judge decides one request from the Authorization values the server side
// receives (nil/empty = header absent) and the allowlist that applies.
func judge(values []string, allow []string) verdict {
	if len(allow) == 0 {
		return vOpen
	}
	carriesMember, documentedForm := false, false
	for _, v := range values {
		tok, strict, loose := bearerOf(v)
		if (strict || loose) && member(tok, allow) {
			carriesMember = true
			if strict && len(values) == 1 {
				documentedForm = true
			}
		}
	}
	switch {
	case documentedForm:
		return vAllow
	case carriesMember:
		return vEither
	default:
		return vDeny
	}
}

// effectiveAllowlist: the override-replaces-global rule.
func effectiveAllowlist(c cfgSpec, route string) []string {
	var own []string
	switch route {
	case "A":
		own = c.A
	case "B":
		own = c.B
	case "C":
		own = c.C
	}
	if len(own) > 0 {
		return own
	}
	return c.Global // also for an endpoint no route declares
}

// canonicalSegments removes dot segments and empty segments (RFC 3986 §5.2.4
// style) from an already percent-decoded path.
func canonicalSegments(p string) []string {
	var out []string
	for _, seg := range strings.Split(p, "/") {
		switch seg {
		case "", ".":
		case "..":
			if len(out) > 0 {
				out = out[:len(out)-1]
			}
		default:
			out = append(out, seg)
		}
	}
	return out
}

var endpointRoute = map[string]string{"ea": "A", "eb": "B", "ec": "C"}

// addressedPull: which pull route and operation a (decoded) path below the
// pull prefix addresses; route "" = no configured endpoint.
func addressedPull(segs []string) (route, op string) {
	if len(segs) == 0 {
		return "", ""
	}
	op = segs[len(segs)-1]
	if len(segs) == 2 {
		route = endpointRoute[segs[0]]
	}
	return route, op
}

// addressedGRPC: the endpoint string of a gRPC request ("uses the configured
// pull endpoint path"); blanks around it and dot segments are normalised the
// same way so that a deviating spelling is still judged against the route it
// could reach.
func addressedGRPC(endpoint string) (route string, canonical bool) {
	segs := canonicalSegments(strings.TrimSpace(endpoint))
	if len(segs) == 1 && strings.HasPrefix(strings.TrimSpace(endpoint), "/") {
		route = endpointRoute[segs[0]]
	}
	canonical = route != "" && endpoint == "/"+segs[0]
	return route, canonical
}
