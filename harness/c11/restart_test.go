package c11

// A reload that is REFUSED because it needs a restart must not change who is
// authorised.
//
// reload_test.go has one kind of restart-required candidate: another deployment
// (prefix / shared listener) in which EVERY token list differs. "Restart
// required" is a property of the candidate as a whole (docs/configuration.md
// "Restart Required": listener addresses, Pull API limits, deliver targets,
// ...), and such an edit is rarely alone in the file: the same save also
// renames a route, rotates a route token, drops an admin token. The docs'
// rule — "Hookaido rejects the reload", the previous configuration stays
// active — has no exception for credentials, and the allowlist rule has no
// memory, so after the refused reload the COMPLETE table of the configuration
// the application was booted with is judged on all three surfaces, with every
// token that only the candidate holds in every credential column
// (other-token:of-refused-config).
//
// What can leak out of a refused candidate into the running state is one of
// the things the candidate differs in, so the family is a product, exhaustive
// by construction:
//
//	boot configuration   (g1 | a1 | - | t1): a route with its own list, a route on the global list, admin tokens
//	                     thorough: also (g1,g2 | - | b1 | -), (g1 | a1 | b1 | t1), (- | a1 | b1 | t1)
//	restart-only change  pull_api.max_batch | pull_api.grpc_listen        (thorough: + default_lease_ttl | deliver URL)
//	                     | none (the same edit as a live reload: the control that the edit alone is applied)
//	edit                 none
//	                     | the route that owns /ea renamed | the route that owns /eb renamed | both | the two routes
//	                       exchange their names (paths and token lists stay with the ENDPOINT)
//	                     | route A list: flipped (own list <-> none) | member replaced | list grown
//	                     | route B list: flipped
//	                     | global list: member replaced | grown
//	                     | admin list: flipped | member replaced
//	                     | route A renamed AND its member replaced
//	                     | every list different (inverse of reload_test.go)
//
// Which configuration is in force is the tree's own statement (return value of
// the reload); the docs' expectation (refused iff a restart-only setting
// changed) feeds the counters and the vacuity guards.

import (
	"fmt"

	"github.com/nuetzliches/hookaido/internal/verifkit/runner"
)

type restartEdit struct {
	name  string
	apply func(c cfgSpec) (cfgSpec, bool) // ok=false: not applicable to this boot configuration
}

func restartEdits() []restartEdit {
	p := alphaPlain
	rename := func(how string) func(c cfgSpec) (cfgSpec, bool) {
		return func(c cfgSpec) (cfgSpec, bool) { c.Rename = how; return c, true }
	}
	flip := func(l []string, tok string) []string {
		if len(l) == 0 {
			return []string{tok}
		}
		return nil
	}
	replaced := func(l []string, tok string) ([]string, bool) {
		if len(l) == 0 {
			return nil, false
		}
		return append([]string{tok}, l[1:]...), true
	}
	grown := func(l []string, tok string) ([]string, bool) {
		if len(l) == 0 || member(tok, l) {
			return nil, false
		}
		return append(append([]string{}, l...), tok), true
	}
	return []restartEdit{
		{"rename-A", rename("A")},
		{"swap-names", rename("swap")},
		{"A-replaced", func(c cfgSpec) (cfgSpec, bool) { l, ok := replaced(c.A, p.A2); c.A = l; return c, ok }},
		{"none", func(c cfgSpec) (cfgSpec, bool) { return c, true }},
		{"rename-A+A-replaced", func(c cfgSpec) (cfgSpec, bool) { l, ok := replaced(c.A, p.A2); c.A, c.Rename = l, "A"; return c, ok }},
		{"global-replaced", func(c cfgSpec) (cfgSpec, bool) { l, ok := replaced(c.Global, p.G3); c.Global = l; return c, ok }},
		{"admin-flipped", func(c cfgSpec) (cfgSpec, bool) { c.Admin = flip(c.Admin, p.T1); return c, true }},
		{"rename-B", rename("B")},
		{"A-flipped", func(c cfgSpec) (cfgSpec, bool) { c.A = flip(c.A, p.A1); return c, true }},
		{"B-flipped", func(c cfgSpec) (cfgSpec, bool) { c.B = flip(c.B, p.B1); return c, true }},
		{"rename-AB", rename("AB")},
		{"A-grown", func(c cfgSpec) (cfgSpec, bool) { l, ok := grown(c.A, p.A2); c.A = l; return c, ok }},
		{"global-grown", func(c cfgSpec) (cfgSpec, bool) { l, ok := grown(c.Global, p.G3); c.Global = l; return c, ok }},
		{"admin-replaced", func(c cfgSpec) (cfgSpec, bool) { l, ok := replaced(c.Admin, p.T2); c.Admin = l; return c, ok }},
		{"all-lists", func(c cfgSpec) (cfgSpec, bool) { return inverse(c, c.Deploy), true }},
	}
}

// restartSpecs enumerates the worlds: boot configuration x edit x restart-only change. The edit is the outermost
// loop, so a run that its wall budget ends early has seen every kind of edit it reached under every restart-only
// change.
func restartSpecs(r *runner.Run) []cfgSpec {
	p := alphaPlain
	mk := func(g, a, b, t []string) cfgSpec {
		return cfgSpec{Alpha: p.Name, Global: g, A: a, B: b, Admin: t, Deploy: "split", Src: "raw"}
	}
	boots := []cfgSpec{mk([]string{p.G1}, []string{p.A1}, nil, []string{p.T1})}
	restarts := []string{"max_batch", "grpc_listen"}
	if r.Thorough() {
		boots = append(boots, mk([]string{p.G1, p.G2}, nil, []string{p.B1}, nil), mk([]string{p.G1}, []string{p.A1}, []string{p.B1}, []string{p.T1}),
			mk(nil, []string{p.A1}, []string{p.B1}, []string{p.T1}))
		restarts = append(restarts, "lease_ttl", "deliver")
	}
	var out []cfgSpec
	for _, e := range restartEdits() {
		for bi, boot := range boots {
			cand, ok := e.apply(boot)
			if !ok || !cand.complete() {
				continue
			}
			for _, rs := range append(append([]string{}, restarts...), "") {
				if rs == "" && cand.Rename == "" {
					continue // a plain token edit applied live: reload_test.go has those pairs
				}
				s := cand
				s.Restart = rs
				f := boot.lists()
				s.From = &f
				s.Lean = bi > 0 || (rs != "max_batch" && rs != "grpc_listen")
				out = append(out, s)
				if rs == "" {
					r.Add("reload_pairs_route_rename_only", 1)
					continue
				}
				r.Add("reload_pairs_restart_only_setting_plus_edit", 1)
				r.Add(fmt.Sprintf("reload_pairs_restart_only_setting_plus_edit_%s", e.name), 1)
			}
		}
	}
	return out
}

// restartWorld: the world belongs to this file's family or is one of the other-deployment pairs of reload_test.go
// (ordering: the refused reloads are a family of their own and no longer the tail of the pairs).
func restartWorld(c cfgSpec) bool {
	return c.From != nil && (c.Restart != "" || c.Rename != "" || c.From.Deploy != c.Deploy)
}
