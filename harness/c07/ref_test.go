package c07

// Reference model of C07, written from the property statement only.
//
//   payload  : what comes out is byte-identical to what went in.
//   headers  : received header lines -> name canonicalised, values of one name
//              comma-joined in arrival order; Authorization, Proxy-Authorization
//              and Cookie received at ingress are dropped; forward-auth
//              copy_headers are added.
//   max_body : a body longer than the route's max_body is refused and nothing
//              is stored; every body up to max_body is accepted.

import (
	"bytes"
	"encoding/hex"
	"fmt"
	"sort"
	"strings"
	"unicode/utf8"
)

const defaultMaxBody = 2 << 20 // documented default "2mb" (docs/configuration.md); checked against the compiled config at boot

type hdr struct {
	N string `json:"n"`
	V string `json:"v"`
}

// mcase is one message pushed into hookaido.
type mcase struct {
	Sweep   string `json:"sweep"`
	In      string `json:"in"`    // ingress | publish | store (Store.Enqueue, as the MCP publish tool calls it)
	Route   string `json:"route"` // std | small | fwd
	Frame   string `json:"frame"` // cl | chunked (ingress only)
	Hdrs    []hdr  `json:"hdrs"`  // header lines in arrival order (publish: the headers object)
	Atoms   string `json:"atoms"` // label of the header atom set
	BodyHex string `json:"body_hex,omitempty"`
	Gen     string `json:"gen,omitempty"` // ff | nul | sp | mix
	N       int    `json:"n,omitempty"`
	Cred    string `json:"cred,omitempty"` // layer routes with auth basic / hmac: "" = valid credentials, "bad" = wrong secret, "none" = no credentials sent
	Opt     bool   `json:"opt,omitempty"` // a header value that cannot travel in an HTTP header field (C0 control, DEL): the way in may refuse it
	ID      string `json:"id,omitempty"`  // explicit message id (bounded-queue histories: an id that is already in the queue)
}

func (c mcase) body() []byte {
	if c.Gen == "" {
		b, err := hex.DecodeString(c.BodyHex)
		if err != nil {
			panic(err)
		}
		return b
	}
	b := make([]byte, c.N)
	switch c.Gen {
	case "ff":
		for i := range b {
			b[i] = 0xFF
		}
	case "nul":
	case "sp":
		for i := range b {
			b[i] = ' '
		}
	case "mix":
		for i := range b {
			b[i] = byte(i*167 + 13)
		}
		if len(b) >= 2 {
			b[0], b[len(b)-1] = ' ', '\n'
		}
	default:
		panic("unknown body generator " + c.Gen)
	}
	return b
}

func maxBodyOf(route string) int {
	if route == "small" {
		return 8
	}
	if ly := layerOf(route); ly != nil && ly.MaxBody > 0 {
		return ly.MaxBody
	}
	return defaultMaxBody
}

// bodyLen is len(c.body()) without building the body.
func (c mcase) bodyLen() int {
	if c.Gen != "" {
		return c.N
	}
	return len(c.BodyHex) / 2
}

// refAccept: is the body within the route's max_body?
func refAccept(c mcase, bodyLen int) bool { return bodyLen <= maxBodyOf(c.Route) }

// canon is the canonical MIME header spelling for a token name: first letter and
// every letter after '-' upper case, the rest lower case.
func canon(name string) string {
	var b strings.Builder
	up := true
	for i := 0; i < len(name); i++ {
		ch := name[i]
		switch {
		case up && ch >= 'a' && ch <= 'z':
			ch -= 'a' - 'A'
		case !up && ch >= 'A' && ch <= 'Z':
			ch += 'a' - 'A'
		}
		b.WriteByte(ch)
		up = ch == '-'
	}
	return b.String()
}

var sensitive = map[string]bool{"Authorization": true, "Proxy-Authorization": true, "Cookie": true}
var framing = map[string]bool{"Host": true, "Content-Length": true, "Transfer-Encoding": true, "Trailer": true}

// frames of an ingress request: Content-Length, chunked, chunked with a declared trailer field
const (
	frameTrailer = "chunked-trailer"
	trailerField = "X-Trailer-Field"
	trailerValue = "tv"
	ingressHost  = "hooks.test"
)

// receivedFraming is the framing part of the received header section, as a function of the case alone.
func receivedFraming(c mcase) map[string]string {
	out := map[string]string{"Host": ingressHost}
	switch c.Frame {
	case "cl":
		out["Content-Length"] = fmt.Sprint(c.bodyLen())
	case "chunked":
		out["Transfer-Encoding"] = "chunked"
	case frameTrailer:
		out["Transfer-Encoding"] = "chunked"
		out["Trailer"] = trailerField
	}
	return out
}

// compareFraming: the framing headers (and a trailer field) need not be stored, but a stored one is a stored header
// like any other: it must be the one that was received, with the received value - whatever an admission layer in
// front of the enqueue did with its own view of the request.
func compareFraming(c mcase, got map[string][]string) []finding {
	if c.In != "ingress" {
		return nil
	}
	recv := receivedFraming(c)
	if c.Frame == frameTrailer {
		recv[trailerField] = trailerValue
	}
	names := make([]string, 0, len(got))
	for n := range got {
		if framing[n] || (c.Frame == frameTrailer && n == trailerField) {
			names = append(names, n)
		}
	}
	sort.Strings(names)
	var out []finding
	for _, n := range names {
		want, received := recv[n]
		switch {
		case !received:
			out = append(out, finding{Key: "framing-extra:" + n, Msg: fmt.Sprintf("stored headers contain %s: %q, the request (frame %s) did not carry that header", n, got[n], c.Frame)})
		case len(got[n]) != 1 || got[n][0] != want:
			out = append(out, finding{Key: "framing-value:" + n, Msg: fmt.Sprintf("stored header %s is %q, the request carried %q", n, got[n], want)})
		}
	}
	return out
}

// forward-auth service answer and the configured copy_headers (see dsl()).
var fwdAnswer = []hdr{{"X-User-Id", "u-7"}, {"X-Org-Id", "o1"}, {"X-Other", "no"}}
var fwdCopy = []string{"X-User-Id", "x-org-id"}

// refHeaders is the header map a consumer must see for the received lines.
func refHeaders(c mcase, lines []hdr) map[string]string {
	vals := map[string][]string{}
	for _, l := range lines {
		n := canon(l.N)
		if framing[n] {
			continue
		}
		if c.In == "ingress" && sensitive[n] {
			continue
		}
		vals[n] = append(vals[n], l.V)
	}
	out := map[string]string{}
	for n, v := range vals {
		out[n] = strings.Join(v, ",")
	}
	if c.In == "ingress" {
		for _, want := range copyHeadersOf(c.Route) {
			for _, a := range fwdAnswer {
				if canon(a.N) == canon(want) {
					out[canon(want)] = a.V
				}
			}
		}
	}
	return out
}

// receivedSecrets lists, per sensitive name, the values received at ingress.
func receivedSecrets(c mcase, lines []hdr) map[string][]string {
	out := map[string][]string{}
	if c.In != "ingress" {
		return out
	}
	for _, l := range lines {
		if n := canon(l.N); sensitive[n] {
			out[n] = append(out[n], l.V)
		}
	}
	return out
}

type finding struct {
	Key, Msg string
	Foreign  []string // header-foreign only: the names that do not belong to this message
}

// comparePayload returns "" when got is byte-identical to want.
func comparePayload(want, got []byte) string {
	if bytes.Equal(want, got) {
		return ""
	}
	i := 0
	for i < len(want) && i < len(got) && want[i] == got[i] {
		i++
	}
	return fmt.Sprintf("payload differs: accepted %d bytes %s, consumer got %d bytes %s, first difference at offset %d",
		len(want), short(want), len(got), short(got), i)
}

func short(b []byte) string {
	if len(b) <= 24 {
		return "0x" + hex.EncodeToString(b)
	}
	return "0x" + hex.EncodeToString(b[:12]) + ".." + hex.EncodeToString(b[len(b)-8:])
}

// deliverersOwn is the fixed set of header names the push deliverer / HTTP
// transport may put on a delivery by itself (http_deliverer.go: the configured
// signing headers, defaults below; net/http transport: User-Agent,
// Accept-Encoding, framing; tracing transport: W3C trace context; a content
// type default). Everything else on a push request must be a stored header of
// THIS message.
var deliverersOwn = map[string]bool{
	"User-Agent": true, "Accept-Encoding": true, "Content-Type": true,
	"X-Hookaido-Signature": true, "X-Hookaido-Timestamp": true,
	"Traceparent": true, "Tracestate": true, "Baggage": true,
}

// compareHeaders checks an observed header map. exact (stored headers: pull,
// admin list): the map minus framing names must equal the reference. Otherwise
// (request seen by the push target): every reference header must be there with
// its value, and every other header must be framing or one of deliverersOwn.
// got maps a name to the list of values seen under it.
func compareHeaders(c mcase, lines []hdr, got map[string][]string, exact bool) []finding {
	var out []finding
	obs := map[string][]string{}
	for n, v := range got {
		obs[canonIfPublish(c, n)] = append(obs[canonIfPublish(c, n)], v...)
	}
	secrets := receivedSecrets(c, lines)
	snames := make([]string, 0, len(secrets))
	for n := range secrets {
		snames = append(snames, n)
	}
	sort.Strings(snames)
	for _, name := range snames {
		v, present := obs[name]
		switch {
		case present && exact: // the stored map must not contain the name at all
			out = append(out, finding{Key: "sensitive-persisted:" + name, Msg: fmt.Sprintf("header %s received at ingress with %q is present in the stored headers as %q", name, secrets[name], v)})
		case present && anyLeak(v, secrets[name]):
			out = append(out, finding{Key: "sensitive-passed-on:" + name, Msg: fmt.Sprintf("header %s received at ingress with %q reached the push target as %q", name, secrets[name], v)})
		}
	}
	want := refHeaders(c, lines)
	names := make([]string, 0, len(want))
	for n := range want {
		names = append(names, n)
	}
	sort.Strings(names)
	for _, n := range names {
		v, ok := obs[n]
		switch {
		case !ok:
			out = append(out, finding{Key: "header-missing:" + n, Msg: fmt.Sprintf("received header %s: %q did not reach the consumer (got %v)", n, want[n], got)})
		case len(v) != 1 || v[0] != want[n]:
			out = append(out, finding{Key: "header-value:" + n, Msg: fmt.Sprintf("header %s: reference %q, consumer got %q", n, want[n], v)})
		}
	}
	if exact {
		extra := []string{}
		for n := range obs {
			_, wanted := want[n]
			_, secret := secrets[n]
			if !wanted && !secret && !framing[n] && !(c.Frame == frameTrailer && n == trailerField) {
				extra = append(extra, n)
			}
		}
		sort.Strings(extra)
		for _, n := range extra {
			out = append(out, finding{Key: "header-extra:" + n, Msg: fmt.Sprintf("stored headers contain %s: %q which was neither received nor a configured copy header", n, obs[n])})
		}
		return out
	}
	var foreign, show []string
	for n := range obs {
		_, wanted := want[n]
		if wanted || framing[n] || deliverersOwn[n] || signHeaderOf(c.Route, n) || (c.Frame == frameTrailer && n == trailerField) {
			continue
		}
		if sec, ok := secrets[n]; ok && anyLeak(obs[n], sec) {
			continue // already reported as sensitive-passed-on
		}
		foreign = append(foreign, n)
	}
	sort.Strings(foreign)
	for _, n := range foreign {
		show = append(show, fmt.Sprintf("%s: %q", n, obs[n]))
	}
	if len(foreign) > 0 {
		out = append(out, finding{Key: "header-foreign", Foreign: foreign, Msg: fmt.Sprintf("the push request carries headers that are neither stored headers of this message (%v) nor the deliverer's own: %s",
			want, strings.Join(show, "; "))})
	}
	return out
}

func canonIfPublish(c mcase, n string) string {
	if c.In != "ingress" {
		return canon(n)
	}
	return n
}

func anyLeak(vs, secrets []string) bool {
	for _, v := range vs {
		if leaks(v, secrets) {
			return true
		}
	}
	return false
}

// leaks: v is a received secret value, their comma join, or a comma-separated list containing one.
func leaks(v string, secrets []string) bool {
	if v == strings.Join(secrets, ",") {
		return true
	}
	for _, part := range strings.Split(v, ",") {
		for _, s := range secrets {
			if strings.TrimSpace(part) == s || v == s {
				return true
			}
		}
	}
	return false
}

// bodyClass is the coarse class of a body used for the distinct-case key.
func bodyClass(c mcase, b []byte) string {
	max := maxBodyOf(c.Route)
	var l string
	switch n := len(b); {
	case n > max:
		l = fmt.Sprintf("max+%d", min(n-max, 2))
	case n == max:
		l = "max"
	case n == max-1:
		l = "max-1"
	case n <= 2:
		l = fmt.Sprint(n)
	case n <= 64:
		l = "3..64"
	case n <= 65536:
		l = "..64k"
	default:
		l = "big"
	}
	f := ""
	if bytes.IndexByte(b, 0) >= 0 {
		f += "+nul"
	}
	if !utf8.Valid(b) {
		f += "+badutf8"
	}
	if n := len(b); n > 0 && (isWS(b[0]) || isWS(b[n-1]) || bytes.HasPrefix(b, []byte{0xC2}) || bytes.HasSuffix(b, []byte{0x85}) || bytes.HasSuffix(b, []byte{0xA0})) {
		f += "+wsedge"
	}
	if n := len(b); n > 0 && n <= 64 {
		for i, x := range b { // a 6-bit group of all ones / 111110 makes base64 emit '/' or '+'
			_ = i
			if x >= 0xF8 || x&0x3F >= 0x3E {
				f += "+b64sym"
				break
			}
		}
	}
	if c.Gen != "" {
		f += "+" + c.Gen
	}
	if bl := bodyLimitOf(c.Route); bl > 0 { // forward-auth body_limit of the route
		switch n := len(b); {
		case n < bl:
			f += "+<body_limit"
		case n == bl:
			f += "+=body_limit"
		default:
			f += "+>body_limit"
		}
	}
	return l + f
}

func isWS(x byte) bool { return x == ' ' || (x >= 9 && x <= 13) }
