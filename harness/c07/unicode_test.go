package c07

// Sweep "unicode": the value alphabet of header values and payload bytes.
//
// The property quantifies over "every set of header names/values that is valid
// UTF-8" and "arbitrary bytes" in the payload. Escaping layers on the way
// (JSON encoders/decoders, Go string quoting, SQL text columns, protobuf
// strings, base64) treat code points differently by Unicode general category
// and by plane (BMP: \uXXXX, supplementary: surrogate pairs / \UXXXXXXXX), so the
// alphabet holds, taken from the Unicode tables of the standard library and
// not from anything in hookaido:
//
//   - for every general category (Lu .. Co, plus Cn = unassigned, minus Cs which
//     has no UTF-8 encoding) the first and the last code point of the category
//     in the BMP and the first and the last one above U+FFFF;
//   - the escaping boundary cases: every C0 control, DEL, the C1 controls NEL
//     and U+0080/U+009F, NBSP, soft hyphen, U+2028/U+2029, BOM, U+FFFD, the
//     noncharacters U+FFFE/U+FFFF, the code points next to the surrogate block
//     (U+D7FF, U+E000), U+10000, a TAG character (U+E0067, part of subdivision
//     flag emoji) and CANCEL TAG, a variation selector supplement, the first/last
//     code points of the private-use planes 15/16, U+10FFFF, and the ASCII
//     characters JSON / HTML-safe JSON / Go quoting treat specially.
//
// Every code point travels (1) as a header value, embedded ("a<cp>b") and alone,
// through ingress, admin publish and Store.Enqueue, and (2) as the payload
// through ingress and publish; one value / one payload carries all of them at once.
// A value with a C0 control (other than HTAB) or DEL cannot be written into an
// HTTP/1.1 header field (net/http refuses the request before any handler runs,
// and refuses to send it to a push target), so such values skip ingress and
// the push flow; publish may refuse them (optional refusal), Store.Enqueue takes
// them.

import (
	"encoding/hex"
	"fmt"
	"sort"
	"unicode"
	"unicode/utf8"
)

type cpRep struct {
	r     rune
	label string
}

func inAnyCategory(r rune) bool {
	for name, tab := range unicode.Categories {
		if len(name) == 2 && unicode.Is(tab, r) {
			return true
		}
	}
	return false
}

// cpAlphabet is deterministic: categories in name order, then the boundary list; duplicates keep their first label.
func cpAlphabet() []cpRep {
	var out []cpRep
	seen := map[rune]bool{}
	add := func(r rune, label string) {
		if r < 0 || r > unicode.MaxRune || (r >= 0xD800 && r <= 0xDFFF) || seen[r] {
			return
		}
		seen[r] = true
		out = append(out, cpRep{r, label})
	}
	var names []string
	for name := range unicode.Categories {
		if len(name) == 2 && name != "Cs" {
			names = append(names, name)
		}
	}
	sort.Strings(names)
	planes := []struct {
		name   string
		lo, hi rune
	}{{"bmp", 0, 0xFFFF}, {"supp", 0x10000, unicode.MaxRune}}
	for _, name := range names {
		tab := unicode.Categories[name]
		for _, pl := range planes {
			first, last := rune(-1), rune(-1)
			visit := func(lo, hi, stride rune) {
				if hi < pl.lo || lo > pl.hi {
					return
				}
				f := lo
				if f < pl.lo {
					f += ((pl.lo - f + stride - 1) / stride) * stride
				}
				l := hi
				if l > pl.hi {
					l -= ((l - pl.hi + stride - 1) / stride) * stride
				}
				if f > l {
					return
				}
				if first < 0 || f < first {
					first = f
				}
				if l > last {
					last = l
				}
			}
			for _, rg := range tab.R16 {
				visit(rune(rg.Lo), rune(rg.Hi), rune(rg.Stride))
			}
			for _, rg := range tab.R32 {
				visit(rune(rg.Lo), rune(rg.Hi), rune(rg.Stride))
			}
			if first >= 0 {
				add(first, name+"/"+pl.name+"/first")
				add(last, name+"/"+pl.name+"/last")
			}
		}
	}
	// Cn: not in any category table
	for _, pl := range planes {
		for r := pl.lo; r <= pl.hi; r++ {
			if !(r >= 0xD800 && r <= 0xDFFF) && !inAnyCategory(r) {
				add(r, "Cn/"+pl.name+"/first")
				break
			}
		}
		for r := pl.hi; r >= pl.lo; r-- {
			if !(r >= 0xD800 && r <= 0xDFFF) && !inAnyCategory(r) {
				add(r, "Cn/"+pl.name+"/last")
				break
			}
		}
	}
	for r := rune(0); r < 0x20; r++ {
		add(r, "c0")
	}
	for _, r := range []rune{0x7F, 0x80, 0x85, 0x9F, 0xA0, 0xAD, 0x2028, 0x2029, 0xFEFF, 0xFFFD, 0xFFFE, 0xFFFF, 0xD7FF, 0xE000, 0xF8FF,
		0x10000, 0x1F3F4, 0x1FFFE, 0x1FFFF, 0xE0001, 0xE0067, 0xE007F, 0xE0100, 0xEFFFF, 0xF0000, 0xFFFFD, 0xFFFFF, 0x100000, 0x10FFFD, 0x10FFFE, 0x10FFFF,
		'"', '\\', '/', '<', '>', '&', '\'', '~', '%', ',', ';', '='} {
		add(r, "boundary")
	}
	return out
}

// wireValue: can the value be carried in an HTTP/1.1 header field (RFC 9110 field-value: no C0 control but HTAB, no DEL)?
func wireValue(v string) bool {
	for i := 0; i < len(v); i++ {
		if b := v[i]; (b < 0x20 && b != '\t') || b == 0x7F {
			return false
		}
	}
	return true
}

const cpHeader = "X-Cp"

// unicodeCases returns the cases that can take every flow, and the cases for the pull flows only
// (values that cannot be written into a push request).
func unicodeCases() (all, pullOnly []mcase) {
	alpha := cpAlphabet()
	one := func(in, v, lab string, body []byte) {
		c := mcase{Sweep: "unicode", In: in, Route: "std", Hdrs: []hdr{{cpHeader, v}}, Atoms: lab, BodyHex: hex.EncodeToString(body)}
		if in == "ingress" {
			c.Frame = "cl"
			c.Hdrs = append(c.Hdrs, atoms[3]) // Authorization must still be stripped
		}
		if !wireValue(v) {
			if in == "ingress" {
				return
			}
			c.Opt = true
			pullOnly = append(pullOnly, c)
			return
		}
		all = append(all, c)
	}
	var joined []byte
	for _, cp := range alpha {
		if !utf8.ValidRune(cp.r) {
			panic("alphabet holds an invalid rune")
		}
		enc := string(cp.r)
		emb := "a" + enc + "b"
		lab := fmt.Sprintf("u%s", cp.label)
		for _, in := range []string{"ingress", "publish", "store"} {
			// header value embedded; payload = the same bytes
			one(in, emb, lab, []byte(emb))
			// header value alone (HTTP trims SP/HTAB at the edges of a field value: not a received value)
			if cp.r != ' ' && cp.r != '\t' {
				one(in, enc, lab+"/alone", []byte(enc))
			}
		}
		if wireValue(enc) {
			joined = append(joined, enc...)
		}
	}
	// payload-only cases for the code points that cannot be header values on the wire (ingress has no case above)
	for _, cp := range alpha {
		if enc := string(cp.r); !wireValue(enc) {
			all = append(all, mcase{Sweep: "unicode", In: "ingress", Route: "std", Frame: "chunked", Hdrs: []hdr{atoms[0]}, Atoms: "u" + cp.label + "/body", BodyHex: hex.EncodeToString([]byte("a" + enc + "b"))})
			all = append(all, mcase{Sweep: "unicode", In: "ingress", Route: "std", Frame: "cl", Hdrs: []hdr{atoms[0]}, Atoms: "u" + cp.label + "/body", BodyHex: hex.EncodeToString([]byte(enc))})
		}
	}
	// everything at once: one value (and one payload) with every wire-valid code point
	for _, in := range []string{"ingress", "publish", "store"} {
		c := mcase{Sweep: "unicode", In: in, Route: "std", Hdrs: []hdr{{cpHeader, "[" + string(joined) + "]"}}, Atoms: "uall", BodyHex: hex.EncodeToString(joined)}
		if in == "ingress" {
			c.Frame = "chunked"
		}
		all = append(all, c)
	}
	return all, pullOnly
}
