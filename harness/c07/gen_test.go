package c07

// Enumeration of the case space (DESIGN.md §6 C07). Everything is a nested loop
// over small named domains; nothing is drawn at random.

import (
	"encoding/hex"
	"fmt"
	"strings"

	"github.com/nuetzliches/hookaido/internal/verifkit/runner"
)

const (
	flowHG   = "pull:http>grpc" // first delivery over pull HTTP, redelivery over worker gRPC, ...
	flowGH   = "pull:grpc>http"
	flowPush = "push"
	batchMax = 100 // pull_api max_batch default: one dequeue can hand out a whole batch
)

var flows = []string{flowHG, flowGH, flowPush}
var backends = []string{"memory", "sqlite"}

// header atoms of the design; index 8 (forward-auth injection) is the route "fwd".
var atoms = []hdr{
	{"X-A", "v"},
	{"x-a", "w"},
	{"X-B", ""},
	{"Authorization", "Bearer z"},
	{"AUTHORIZATION", "q"},
	{"Proxy-Authorization", "p"},
	{"Cookie", "c=1"},
	{"X-U", "Grüße ✓ 日本 <&> \"q\""},
}

type hdrCase struct {
	lines []hdr
	fwd   bool
	label string
}

// headerCases: every ordered selection of k distinct line atoms (arrival order
// matters for the comma join) with or without the forward-auth atom, k+fwd <= max.
func headerCases(max int) []hdrCase {
	var out []hdrCase
	var rec func(sel []int)
	rec = func(sel []int) {
		for _, fwd := range []bool{false, true} {
			size := len(sel)
			if fwd {
				size++
			}
			if size > max {
				continue
			}
			hc := hdrCase{fwd: fwd}
			lab := make([]string, 0, len(sel)+1)
			for _, i := range sel {
				hc.lines = append(hc.lines, atoms[i])
				lab = append(lab, fmt.Sprint(i))
			}
			if fwd {
				lab = append(lab, "8")
			}
			hc.label = strings.Join(lab, ".")
			out = append(out, hc)
		}
		if len(sel) >= max {
			return
		}
		for i := range atoms {
			used := false
			for _, j := range sel {
				used = used || i == j
			}
			if !used {
				rec(append(append([]int{}, sel...), i))
			}
		}
	}
	rec(nil)
	return out
}

// publish header atoms (canonical names plus one lower-case name; no repeated names are possible in a JSON object).
var pubAtoms = []hdr{{"X-A", "v"}, {"X-B", ""}, {"X-U", "Grüße ✓ <&>"}, {"x-low", "1"}, {"X-C", "a,b"}}

var specialBodies = []string{
	"c328", "e282", "f09f92", "eda080", "c0af", "fffe", "efbbbf7b7d", // invalid UTF-8, BOM
	"c285", "c2a0", "e38080", "e280a8", // Unicode white space (NEL, NBSP, U+3000, U+2028)
	"0d0a0d0a", "20782020", "090a2078200d0a", "0b0c", // ASCII white space at the edges
	hex.EncodeToString([]byte(`{"a":1}`)), hex.EncodeToString([]byte("null")), hex.EncodeToString([]byte(`"`)), hex.EncodeToString([]byte(`\u0000`)),
	"2b2f3d", "fbff", "fbefbe", "ffffff", "fbf0", // base64 alphabet edges (+ / =)
	strings.Repeat("00", 3), strings.Repeat("00", 16), strings.Repeat("ff", 3), strings.Repeat("ff", 16), strings.Repeat("ff", 64),
	"00ff00ff00", "ff00", "61006200",
}

type genBody struct {
	gen string
	n   int
}

func generate(r *runner.Run, emit func(job) bool) {
	ok := true
	// one batch = cases of one route kind for one (backend, flow)
	flush := func(cases []mcase, size int) {
		for len(cases) > 0 && ok {
			n := min(size, len(cases))
			for _, be := range backends {
				for _, fl := range flows {
					if ok {
						ok = emit(job{Backend: be, Flow: fl, Cases: cases[:n]})
					}
				}
			}
			cases = cases[n:]
		}
	}
	byRoute := func(cases []mcase, size int) {
		for _, rt := range []string{"std", "small", "fwd"} {
			var sel []mcase
			for _, c := range cases {
				if c.Route == rt {
					sel = append(sel, c)
				}
			}
			flush(sel, size)
		}
	}

	// ---- sweep "header": ingress, every header case x framing x 3 bodies
	var cs []mcase
	for _, hc := range headerCases(runner.Pick(r, 2, 3)) {
		for _, frame := range []string{"cl", "chunked"} {
			for _, body := range []string{"", "61", "00ff"} {
				route := "std"
				if hc.fwd {
					route = "fwd"
				}
				cs = append(cs, mcase{Sweep: "header", In: "ingress", Route: route, Frame: frame, Hdrs: hc.lines, Atoms: hc.label, BodyHex: body})
			}
		}
	}
	// not split by route: one batch (= one long-lived dispatcher, one process) carries consecutive messages with
	// different header-name sets on two routes with different targets, so that state leaking from one delivery
	// into the next (e.g. a recycled header map) is observable
	flush(cs, batchMax)

	// ---- sweep "layers": what the route's admission / authentication layers are configured to do with the request
	// (layers_test.go): layer x header set (incl. entity headers) x framing x body sizes around every configured limit;
	// one batch carries consecutive requests of one route
	for _, lc := range layerCases(r) {
		flush(lc, batchMax)
	}

	// ---- sweep "change": the same, after the route's configuration CHANGED while the application runs (change_test.go):
	// configuration histories (single-option reloads, chains of two, a management mutation) x reduced header sweep; one
	// batch = one history in its own application
	for _, cc := range changeCases(r.Thorough()) {
		flush(cc, len(cc))
	}

	// ---- sweep "unicode": one representative per (general category x plane) and the escaping boundary cases,
	// as header value and as payload, through ingress / publish / Store.Enqueue (unicode_test.go)
	{
		all, pullOnly := unicodeCases()
		flush(all, batchMax)
		for len(pullOnly) > 0 && ok {
			n := min(batchMax, len(pullOnly))
			for _, be := range backends {
				for _, fl := range []string{flowHG, flowGH} {
					if ok {
						ok = emit(job{Backend: be, Flow: fl, Cases: pullOnly[:n]})
					}
				}
			}
			pullOnly = pullOnly[n:]
		}
	}

	// ---- sweep "publish-header": every subset of the publish atoms x 2 bodies
	cs = nil
	for mask := 0; mask < 1<<len(pubAtoms); mask++ {
		var hs []hdr
		var lab []string
		for i, a := range pubAtoms {
			if mask&(1<<i) != 0 {
				hs = append(hs, a)
				lab = append(lab, fmt.Sprint(i))
			}
		}
		for _, body := range []string{"", "00ff"} {
			cs = append(cs, mcase{Sweep: "publish-header", In: "publish", Route: "std", Hdrs: hs, Atoms: "p" + strings.Join(lab, "."), BodyHex: body})
		}
	}
	byRoute(cs, batchMax)

	// ---- sweep "boundary": sizes around max_body
	cs = nil
	for _, n := range []int{0, 1, 7, 8, 9, 10, 64} {
		for _, g := range []string{"ff", "nul", "mix", "sp"} {
			for _, frame := range []string{"cl", "chunked"} {
				cs = append(cs, mcase{Sweep: "boundary", In: "ingress", Route: "small", Frame: frame, Hdrs: []hdr{atoms[0]}, Atoms: "0", Gen: g, N: n})
			}
			cs = append(cs, mcase{Sweep: "boundary", In: "publish", Route: "small", Hdrs: []hdr{atoms[0]}, Atoms: "p0", Gen: g, N: n})
		}
	}
	byRoute(cs, batchMax)
	cs = nil
	for _, g := range runner.Pick(r, []string{"mix"}, []string{"mix", "ff", "nul"}) {
		for _, n := range []int{defaultMaxBody - 1, defaultMaxBody, defaultMaxBody + 1} {
			for _, frame := range runner.Pick(r, []string{"cl"}, []string{"cl", "chunked"}) {
				cs = append(cs, mcase{Sweep: "boundary", In: "ingress", Route: "std", Frame: frame, Hdrs: []hdr{atoms[0], atoms[3]}, Atoms: "0.3", Gen: g, N: n})
			}
			cs = append(cs, mcase{Sweep: "boundary", In: "publish", Route: "std", Hdrs: []hdr{atoms[0]}, Atoms: "p0", Gen: g, N: n})
		}
		// the largest payloads publish can carry (admin request cap), and a mid-size one
		for _, n := range []int{65537, 1 << 20} {
			cs = append(cs, mcase{Sweep: "boundary", In: "publish", Route: "std", Hdrs: []hdr{atoms[0]}, Atoms: "p0", Gen: g, N: n})
			cs = append(cs, mcase{Sweep: "boundary", In: "ingress", Route: "std", Frame: "chunked", Hdrs: []hdr{atoms[0]}, Atoms: "0", Gen: g, N: n})
		}
	}
	byRoute(cs, 1) // one big message per batch (gRPC message size, memory)

	// ---- sweep "body": all byte strings up to the tier's length + specials, both ways in
	maxLen := runner.Pick(r, 1, 2)
	emitBodies := func(hexes []string, gens []genBody) {
		for _, in := range []string{"ingress", "publish"} {
			var batch []mcase
			mk := func(h string, g genBody) mcase {
				c := mcase{Sweep: "body", In: in, Route: "std", BodyHex: h, Gen: g.gen, N: g.n}
				if in == "ingress" {
					c.Frame, c.Hdrs, c.Atoms = "cl", []hdr{atoms[0], atoms[3]}, "0.3"
				} else {
					c.Hdrs, c.Atoms = []hdr{atoms[0]}, "p0"
				}
				return c
			}
			for _, h := range hexes {
				batch = append(batch, mk(h, genBody{}))
			}
			for _, g := range gens {
				batch = append(batch, mk("", g))
			}
			flush(batch, batchMax)
		}
	}
	emitBodies(specialBodies, []genBody{{"ff", 4096}, {"nul", 4096}, {"mix", 4096}, {"mix", 65537}})
	var hexes []string
	hexes = append(hexes, "")
	for a := 0; a < 256; a++ {
		hexes = append(hexes, fmt.Sprintf("%02x", a))
	}
	emitBodies(hexes, nil)
	// quick tier: the two-byte strings starting with a byte from the code's visible shortcuts
	// (NUL, space, UTF-8 lead byte of U+0085/U+00A0, 0xFF); thorough tier: all 65 536
	quickFirst := map[int]bool{0x00: true, 0x20: true, 0xC2: true, 0xFF: true}
	{
		for a := 0; a < 256 && ok; a++ {
			if maxLen < 2 && !quickFirst[a] {
				continue
			}
			hexes = hexes[:0]
			for b := 0; b < 256; b++ {
				hexes = append(hexes, fmt.Sprintf("%02x%02x", a, b))
			}
			emitBodies(hexes, nil)
		}
	}

	// ---- family "bounded queue": histories on queues with queue_limits (bounded_test.go); last, so that a wall
	// budget cuts this family and not the sweeps above
	if ok {
		ok = boundedJobs(r, emit)
	}
}
