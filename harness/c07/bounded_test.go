package c07

// Family "messages travel through a bounded queue".
//
// Configuration dimension: queue_limits { max_depth N; drop_policy drop_oldest |
// reject } x delivered_retention {off, on} (x a retained-items pressure limit of
// one on the memory backend), on memory and SQLite, for every delivery flow.
//
// History dimension: every sequence of operations up to a length bound over
//
//	I      ingress POST of a new message                     (Store.Enqueue, generated id)
//	P1..P3 admin publish of 1..3 new messages in one request (Store.EnqueueBatch)
//	Pex    admin publish under the id of the oldest queued message (the handler's duplicate pre-check answers 409)
//	Bdup   Store.EnqueueBatch of one new message twice (same id twice in the batch: the admin handler refuses such a
//	       request while parsing it, so the store only sees this from an in-process producer or from two racing publishes)
//	SdupO  Store.Enqueue under the id of the oldest queued message   (what the MCP publish tool calls)
//	SdupN  Store.Enqueue under the id of the newest stored message
//	D      pull dequeue of one message (HTTP and gRPC alternate)
//	A / N  ack / nack of the oldest lease held
//
// (push flows: the enqueue operations only; the dispatcher runs afterwards).
// An operation that cannot do anything in the state reached (D on an empty queue,
// A without a lease, Pex without a queued message, ...) ends the branch: the
// history without it is enumerated anyway.
//
// So the enumeration contains, among everything else, the enqueues that are
// refused AFTER the store started to make room (batch larger than what can be
// evicted, duplicate id, retained-items pressure), on a full queue, with and
// without leased and retained-delivered messages.
//
// Oracle (C07 only): after every operation and through the whole delivery flow
// afterwards (admin list, first delivery, nack, redelivery, SQLite close+reopen,
// two more deliveries / push with two failed attempts), every message that is in
// the queue or handed to a consumer is byte-identical, with the reference
// headers, to the accepted request that created it; nothing of a refused request
// is ever visible. WHICH messages survive a full queue is the queue contract
// (C02/C13) and is not judged here; it is counted.

import (
	"context"
	"fmt"
	"net/http"
	"os"
	"path/filepath"
	"strconv"
	"strings"
	"time"

	"github.com/nuetzliches/hookaido/internal/queue"
	"github.com/nuetzliches/hookaido/internal/verifkit/runner"
	workerapipb "github.com/nuetzliches/hookaido/internal/workerapi/proto"
	"google.golang.org/grpc/metadata"
)

type qconf struct {
	Policy    string `json:"policy"`
	Depth     int    `json:"max_depth"`
	Retention bool   `json:"delivered_retention,omitempty"`
	Pressure  bool   `json:"pressure_limit_1,omitempty"` // memory only: WithMemoryPressureLimits(1, 0), store opened by the harness
}

func (q *qconf) dsl() string {
	if q == nil {
		return ""
	}
	s := fmt.Sprintf("queue_limits {\n  max_depth %d\n  drop_policy %s\n}\n", q.Depth, q.Policy)
	if q.Retention {
		s += "delivered_retention {\n  max_age 1h\n}\n"
	}
	return s
}

func (q qconf) tag() string {
	t := fmt.Sprintf("%s/%d", q.Policy, q.Depth)
	if q.Retention {
		t += "+ret"
	}
	if q.Pressure {
		t += "+pressure"
	}
	return t
}

// hist is one job of the family: run Ops; with MaxLen > len(Ops) also every extension up to MaxLen.
type hist struct {
	Conf   qconf    `json:"conf"`
	Ops    []string `json:"ops"`
	MaxLen int      `json:"max_len,omitempty"`
}

var enqueueOps = []string{"I", "P1", "P2", "P3", "Pex", "Bdup", "SdupO", "SdupN"}
var leaseOps = []string{"D", "A", "N"}

func opsFor(flow string) []string {
	if flow == flowPush {
		return enqueueOps
	}
	return append(append([]string{}, enqueueOps...), leaseOps...)
}

// boundedJobs: one job per (configuration, backend, flow, first operation); the subtree below is explored by the job.
func boundedJobs(r *runner.Run, emit func(job) bool) bool {
	type lens struct{ memory, sqlite int }
	l := runner.Pick(r, lens{4, 3}, lens{5, 4}) // quick: push histories have the same bounds; thorough: push <= 4 on both backends
	depths := runner.Pick(r, []int{1, 2}, []int{1, 2, 3})
	var confs []qconf
	for _, pol := range []string{"drop_oldest", "reject"} {
		for _, d := range depths {
			for _, ret := range []bool{false, true} {
				confs = append(confs, qconf{Policy: pol, Depth: d, Retention: ret})
			}
		}
	}
	confs = append(confs, qconf{Policy: "drop_oldest", Depth: 2, Retention: true, Pressure: true})
	confs = append(confs, qconf{Policy: "drop_oldest", Depth: 1, Retention: true, Pressure: true})
	for _, cf := range confs {
		for _, be := range backends {
			if cf.Pressure && be != "memory" {
				continue
			}
			max := l.sqlite
			if be == "memory" {
				max = l.memory
			}
			if cf.Pressure && max < 5 {
				// the pressure limit needs a retained (acked) message next to a queued one on a full queue: the two
				// shortest ways there are four operations long; continue from them by one more operation
				for _, fl := range []string{flowHG, flowGH} {
					for _, pre := range [][]string{{"I", "I", "D", "A"}, {"I", "D", "I", "A"}} {
						if !emit(job{Backend: be, Flow: fl, Hist: &hist{Conf: cf, Ops: pre, MaxLen: 5}}) {
							return false
						}
					}
				}
			}
			for _, fl := range flows {
				max := max
				if fl == flowPush && max > 4 {
					// push histories have no lease operations: filling the deepest queue and one refused enqueue are
					// max_depth+1 operations, one more than that adds little and costs a dispatcher run each
					max = 4
				}
				for _, first := range []string{"I", "P1", "P2", "P3", "Bdup"} { // every other operation is a no-op on an empty queue
					if !emit(job{Backend: be, Flow: fl, Hist: &hist{Conf: cf, Ops: []string{first}, MaxLen: max}}) {
						return false
					}
				}
			}
		}
	}
	return true
}

// runHistTree runs h.Ops and, depth first, every extension up to h.MaxLen. Every node is executed from a fresh
// application (there are no snapshots of a booted application).
func runHistTree(backend, flow string, h hist, deadline time.Time) (res *batchResult, cut bool) {
	res = &batchResult{via: map[string]int64{}, distinct: map[string]struct{}{}}
	failed := map[string]int{}
	alphabet := opsFor(flow)
	var dfs func(ops []string) bool
	dfs = func(ops []string) bool {
		if !deadline.IsZero() && time.Now().After(deadline) {
			cut = true
			return false
		}
		one, noop := runHistory(backend, flow, h.Conf, ops)
		merge(res, one, failed)
		if len(res.infra) > 0 {
			return false
		}
		if noop || len(ops) >= h.MaxLen {
			return true
		}
		for _, op := range alphabet {
			if !dfs(append(append([]string{}, ops...), op)) {
				return false
			}
		}
		return true
	}
	dfs(h.Ops)
	return res, cut
}

func merge(into, one *batchResult, failed map[string]int) {
	into.infra = append(into.infra, one.infra...)
	into.evals += one.evals
	into.accepts += one.accepts
	into.rejects += one.rejects
	into.boots += one.boots
	into.reopens += one.reopens
	into.fwdCalls += one.fwdCalls
	into.histories += one.histories
	into.histNoop += one.histNoop
	into.histAccepts += one.histAccepts
	into.histRefusals += one.histRefusals
	into.refusedOnFull += one.refusedOnFull
	into.refusedAfterEvictable += one.refusedAfterEvictable
	into.survivorsDelivered += one.survivorsDelivered
	for k, v := range one.via {
		into.via[k] += v
	}
	for k := range one.distinct {
		into.distinct[k] = struct{}{}
	}
	if len(into.samples) < 2 {
		into.samples = append(into.samples, one.samples...)
	}
	for _, f := range one.fails { // per key the shortest history
		at, seen := failed[f.Key]
		switch {
		case !seen:
			failed[f.Key] = len(into.fails)
			into.fails = append(into.fails, f)
		case len(f.Ops) < len(into.fails[at].Ops):
			into.fails[at] = f
		}
	}
}

// histRun is the bookkeeping of one history on top of run.
type histRun struct {
	*run
	order []int          // accepted messages in acceptance order
	state map[int]string // messages present at the last listing -> state
	held  []item         // leases held, oldest first
	nD    int
}

// runHistory executes one history in a fresh application. noop: the last operation could not do anything.
func runHistory(backend, flow string, conf qconf, ops []string) (res *batchResult, noop bool) {
	res = &batchResult{via: map[string]int64{}, distinct: map[string]struct{}{}}
	x := &run{slot: 0, backend: backend, flow: flow, res: res, failed: map[string]int{}, dir: filepath.Join(runner.Scratch(), "slot0"),
		q: &conf, ops: ops, ids: map[string]int{}, loose: true, keyTag: ":bounded-" + conf.Policy}
	h := &histRun{run: x, state: map[int]string{}}
	defer func() {
		if p := recover(); p != nil {
			x.infra("panic: %v (history %v %+v)", p, ops, conf)
		}
		x.shutdown()
		res.fwdCalls = x.fwdSeen.Load()
	}()
	os.RemoveAll(x.dir)
	if err := os.MkdirAll(x.dir, 0o755); err != nil {
		x.infra("mkdir: %v", err)
		return
	}
	if flow == flowPush {
		x.clk = &vclock{}
		x.clk.ns.Store(time.Date(2026, 1, 1, 0, 0, 0, 0, time.UTC).UnixNano())
	}
	if flow == flowPush || conf.Pressure {
		x.ownStore = true
		if !x.openStore() {
			return
		}
	}
	if !x.boot() {
		return
	}
	for n, op := range ops {
		done, ok := h.step(n, op)
		if !ok {
			return
		}
		if !done {
			res.histNoop++
			return res, true
		}
		if !h.refresh("after-op") {
			return
		}
	}
	res.histories++
	// hand the leases back, then the ordinary delivery flow over whatever is in the queue
	for _, it := range h.held {
		if !h.settleOne("pull-http", "nack", it) {
			return
		}
	}
	h.held = nil
	before := res.via["pull-http"] + res.via["pull-grpc"] + res.via["push"]
	if flow == flowPush {
		x.pushFlow()
	} else {
		x.pullFlow()
	}
	res.survivorsDelivered += res.via["pull-http"] + res.via["pull-grpc"] + res.via["push"] - before
	return res, false
}

// newCase appends a message to the history. Content is a function of its index, so that a mix-up is visible.
func (h *histRun) newCase(in, id string) int {
	k := len(h.cases)
	c := mcase{Sweep: "bounded", In: in, Route: "std", Atoms: "q", ID: id}
	lines := []hdr{{"X-A", fmt.Sprintf("v%d", k)}, {"X-U", fmt.Sprintf("Grüße ✓ 日本 %d", k)}}
	if in == "ingress" {
		c.Frame = "cl"
		lines = []hdr{{"X-A", fmt.Sprintf("v%d", k)}, {"x-u", fmt.Sprintf("Grüße ✓ 日本 %d", k)}, {"Authorization", fmt.Sprintf("Bearer s%d", k)}, {"X-A", "w"}}
	}
	c.Hdrs = lines
	body := append([]byte{0x00, 0xFF, byte(k), ' '}, []byte(fmt.Sprintf("message %d\n", k))...)
	body = append(body, 0x00)
	c.BodyHex = fmt.Sprintf("%x", body)
	h.cases = append(h.cases, c)
	h.bodies = append(h.bodies, body)
	if h.flow == flowPush {
		lines = append(append([]hdr{}, lines...), hdr{caseHeader, strconv.Itoa(k)})
	}
	h.lines = append(h.lines, lines)
	h.acc = append(h.acc, false)
	return k
}

// oldestQueued / newest: by acceptance order among the messages present at the last listing.
func (h *histRun) oldestQueued() (int, bool) {
	for _, i := range h.order {
		if h.state[i] == "queued" {
			return i, true
		}
	}
	return 0, false
}

func (h *histRun) newest() (int, bool) {
	for n := len(h.order) - 1; n >= 0; n-- {
		if _, ok := h.state[h.order[n]]; ok {
			return h.order[n], true
		}
	}
	return 0, false
}

func (h *histRun) idOfCase(i int) string {
	for id, k := range h.ids {
		if k == i {
			return id
		}
	}
	return ""
}

// evictable: are there queued messages a drop_oldest enqueue would start to evict, and is the queue at its limit?
func (h *histRun) fullAndEvictable() (full, evictable bool) {
	active, all := 0, 0
	for _, st := range h.state {
		switch st {
		case "queued":
			active++
			all++
			evictable = true
		case "leased":
			active++
			all++
		case "delivered":
			all++
		}
	}
	full = active >= h.q.Depth || (h.q.Retention && h.backend == "memory" && all >= h.q.Depth) // docs: the memory backend also guards queued+leased+delivered
	return full, evictable
}

func (h *histRun) accepted(idx []int, id string) {
	for _, i := range idx {
		h.acc[i] = true
		h.order = append(h.order, i)
		h.res.histAccepts++
	}
	if id != "" {
		h.ids[id] = idx[0]
	}
}

func (h *histRun) refused(idx []int, n int, op string) {
	h.res.histRefusals++
	full, ev := h.fullAndEvictable()
	if full || n > h.q.Depth {
		h.res.refusedOnFull++
	}
	if ev && h.q.Policy == "drop_oldest" {
		h.res.refusedAfterEvictable++ // a drop_oldest store had queued messages to evict when it refused this enqueue
	}
	h.res.distinct[fmt.Sprintf("bounded|%s|%s|%s|%s|refused|full=%v|evictable=%v", h.backend, h.flow, h.q.tag(), op, full, ev)] = struct{}{}
}

// step runs one operation. done=false: the operation has nothing to act on in this state.
func (h *histRun) step(n int, op string) (done, ok bool) {
	x := h.run
	note := func(outcome string) {
		full, ev := h.fullAndEvictable()
		x.res.distinct[fmt.Sprintf("bounded|%s|%s|%s|%s|%s|full=%v|evictable=%v|leases=%d", x.backend, x.flow, x.q.tag(), op, outcome, full, ev, min(len(h.held), 2))] = struct{}{}
	}
	switch op {
	case "I":
		k := h.newCase("ingress", "")
		rec, err := serve(x.in.a.Ingress, rawIngress(x.routeOf(x.cases[k]), x.lines[k], "cl", x.bodies[k]), remoteOf(k))
		if err != nil {
			x.infra("ingress request does not parse: %v", err)
			return false, false
		}
		switch {
		case rec.Code == http.StatusAccepted:
			note("accepted")
			h.accepted([]int{k}, "")
			// the id is generated by the store: it is the one id of the listing that was not there before
			items, ok := x.adminList(x.routeOf(x.cases[k]))
			if !ok {
				return false, false
			}
			found := ""
			for _, it := range items {
				if _, known := x.ids[it.ID]; !known && !strings.HasPrefix(it.ID, "c07-") {
					if found != "" {
						x.infra("two unknown ids after one accepted ingress request: %s %s", found, it.ID)
						return false, false
					}
					found = it.ID
				}
			}
			if found == "" {
				x.infra("ingress answered 202 but the listing has no new message (history %v)", x.ops)
				return false, false
			}
			x.ids[found] = k
		case rec.Code == http.StatusServiceUnavailable || rec.Code == http.StatusTooManyRequests:
			note("refused")
			h.refused([]int{k}, 1, op)
		default:
			x.infra("ingress answered %d on a bounded queue (history %v)", rec.Code, x.ops)
			return false, false
		}
		return true, true

	case "Bdup":
		be, isBatcher := x.in.a.Store.(queue.BatchEnqueuer)
		if !isBatcher {
			x.infra("the store is not a BatchEnqueuer")
			return false, false
		}
		k := h.newCase("store", "")
		if _, err := be.EnqueueBatch([]queue.Envelope{x.envelope(k), x.envelope(k)}); err == nil {
			note("accepted") // both items are the same message: whatever is stored under the id must be that message
			h.accepted([]int{k}, idOf(k))
			return true, true
		}
		note("refused")
		h.refused([]int{k}, 2, op)
		return true, true

	case "P1", "P2", "P3", "Pex":
		var idx []int
		id := ""
		switch op {
		case "Pex":
			o, have := h.oldestQueued()
			if !have {
				return false, true
			}
			id = h.idOfCase(o)
			idx = []int{h.newCase("publish", id)}
		default:
			for m := 0; m < int(op[1]-'0'); m++ {
				idx = append(idx, h.newCase("publish", ""))
			}
		}
		rec, err := x.publish(idx)
		if err != nil {
			x.infra("publish request does not parse: %v", err)
			return false, false
		}
		uniq := idx
		switch {
		case rec.Code >= 200 && rec.Code < 300:
			note("accepted")
			h.accepted(uniq, id)
			for _, i := range uniq {
				if x.cases[i].ID == "" {
					x.ids[idOf(i)] = i
				}
			}
		case rec.Code == http.StatusServiceUnavailable || rec.Code == http.StatusConflict || rec.Code == http.StatusTooManyRequests:
			note(fmt.Sprintf("refused-%d", rec.Code))
			h.refused(uniq, len(idx), op)
		default:
			x.infra("publish answered %d %s on a bounded queue (history %v)", rec.Code, rec.Body.String(), x.ops)
			return false, false
		}
		return true, true

	case "SdupO", "SdupN":
		o, haveO := h.oldestQueued()
		target, have := o, haveO
		if op == "SdupN" {
			target, have = h.newest()
			if have && haveO && target == o {
				return false, true // same as SdupO
			}
		}
		if !have {
			return false, true
		}
		id := h.idOfCase(target)
		k := h.newCase("store", id)
		if err := x.in.a.Store.Enqueue(x.envelope(k)); err == nil {
			note("accepted")
			h.accepted([]int{k}, id)
		} else {
			note("refused")
			h.refused([]int{k}, 1, op)
		}
		return true, true

	case "D":
		via := h.via(h.nD)
		h.nD++
		items, ok := x.dequeueN(via, routes["std"].endpoint, 1)
		if !ok {
			return false, false
		}
		if len(items) == 0 {
			return false, true
		}
		note("leased")
		if !x.checkItems(items, via, "history-delivery", "std") {
			return false, false
		}
		h.held = append(h.held, items...)
		return true, true

	case "A", "N":
		if len(h.held) == 0 {
			return false, true
		}
		it := h.held[0]
		h.held = h.held[1:]
		note("settled")
		return true, h.settleOne(h.via(n), map[string]string{"A": "ack", "N": "nack"}[op], it)
	}
	x.infra("unknown operation %q", op)
	return false, false
}

func (h *histRun) via(n int) string {
	a, b := "pull-http", "pull-grpc"
	if h.flow == flowGH {
		a, b = b, a
	}
	if n%2 == 0 {
		return a
	}
	return b
}

// refresh lists the route, checks every message that is there and records the states.
func (h *histRun) refresh(phase string) bool {
	x := h.run
	rk := "std"
	route := x.routeOf(mcase{Route: rk})
	items, ok := x.adminList(route)
	if !ok || !x.checkItems(items, "admin-list", phase, rk) {
		return false
	}
	h.state = map[int]string{}
	for _, it := range items {
		h.state[x.identify(it)] = it.State
	}
	return true
}

// settleOne acks / nacks one lease with the single-lease form.
func (h *histRun) settleOne(via, op string, it item) bool {
	x := h.run
	ep := routes["std"].endpoint
	if via == "pull-http" {
		rec, ok := x.pullHTTP(ep, op, map[string]any{"lease_id": it.Lease})
		if !ok {
			return false
		}
		if rec.Code != http.StatusNoContent {
			x.infra("pull %s of a held lease: status %d %s (history %v)", op, rec.Code, rec.Body.String(), x.ops)
			return false
		}
		return true
	}
	ctx, cancel := context.WithTimeout(metadata.AppendToOutgoingContext(context.Background(), "authorization", "Bearer g1"), 2*time.Minute)
	defer cancel()
	var n uint32
	var err error
	if op == "ack" {
		var resp *workerapipb.AckResponse
		resp, err = x.in.worker.Ack(ctx, &workerapipb.AckRequest{Endpoint: ep, LeaseId: it.Lease})
		n = resp.GetAcked()
	} else {
		var resp *workerapipb.NackResponse
		resp, err = x.in.worker.Nack(ctx, &workerapipb.NackRequest{Endpoint: ep, LeaseId: it.Lease})
		n = resp.GetSucceeded()
	}
	if err != nil || n != 1 {
		x.infra("grpc %s of a held lease: %d %v (history %v)", op, n, err, x.ops)
		return false
	}
	return true
}
