package c07

// Drivers: boot the real application, push a batch of cases in, observe them on
// every way out through the delivery history, compare with the reference.

import (
	"bufio"
	"bytes"
	"context"
	"encoding/base64"
	"encoding/json"
	"fmt"
	"io"
	"net"
	"net/http"
	"net/http/httptest"
	"os"
	"path/filepath"
	"sort"
	"strconv"
	"strings"
	"sync"
	"sync/atomic"
	"time"

	"github.com/nuetzliches/hookaido/internal/app"
	"github.com/nuetzliches/hookaido/internal/dispatcher"
	"github.com/nuetzliches/hookaido/internal/queue"
	"github.com/nuetzliches/hookaido/internal/verifkit/runner"
	"github.com/nuetzliches/hookaido/internal/verifkit/vnet"
	workerapipb "github.com/nuetzliches/hookaido/internal/workerapi/proto"
	"google.golang.org/grpc"
	"google.golang.org/grpc/credentials/insecure"
	"google.golang.org/grpc/metadata"
)

type routeInfo struct{ pull, endpoint, push, url string }

// every push route has its own target URL (two hosts), all served by one in-memory RoundTripper
var routes = map[string]routeInfo{
	"std":   {"/p", "/e", "/d", "http://192.0.2.2/hook"},
	"small": {"/p8", "/e8", "/d8", "http://192.0.2.2/hook8"},
	"fwd":   {"/pf", "/ef", "/df", "http://192.0.2.3/hookf"},
}
const caseHeader = "X-Case" // push only: the one carrier a push target has for telling deliveries apart

func dsl(slot int, backend string, extra string, ingressExtra string) string {
	base := 20000 + slot*10
	q := "queue { backend " + backend + " }"
	fwd := `auth forward "http://192.0.2.1/check" { copy_headers "` + fwdCopy[0] + `" copy_headers "` + fwdCopy[1] + `" }`
	return strings.Replace(fmt.Sprintf(`
ingress   { listen "127.0.0.1:%d" @INGRESS@ }
pull_api  { listen "127.0.0.1:%d" grpc_listen "127.0.0.1:%d" auth token "raw:g1" default_lease_ttl 30m }
admin_api { listen "127.0.0.1:%d" }
defaults {
  egress { https_only off redirects off dns_rebind_protection off }
  deliver { retry exponential max 1000000 base 1s cap 1s jitter 0 timeout 10s concurrency 4 }
}
/p  { %[5]s pull { path /e } }
/p8 { %[5]s max_body 8 pull { path /e8 } }
/pf { %[5]s %[6]s pull { path /ef } }
/d  { %[5]s deliver "%[7]s" { } }
/d8 { %[5]s max_body 8 deliver "%[8]s" { } }
/df { %[5]s %[6]s deliver "%[9]s" { } }
`+extra, base, base+1, base+2, base+3, q, fwd, routes["std"].url, routes["small"].url, routes["fwd"].url), "@INGRESS@", ingressExtra, 1)
}

func grpcAddr(slot int) string { return fmt.Sprintf("127.0.0.1:%d", 20000+slot*10+2) }

type rtFunc func(*http.Request) (*http.Response, error)

func (f rtFunc) RoundTrip(r *http.Request) (*http.Response, error) { return f(r) }

func reply(r *http.Request, status int, h http.Header) *http.Response {
	if h == nil {
		h = http.Header{}
	}
	return &http.Response{StatusCode: status, Status: strconv.Itoa(status), Proto: "HTTP/1.1", ProtoMajor: 1, ProtoMinor: 1,
		Header: h, Body: http.NoBody, Request: r}
}

// vclock is the injected store clock of the push flows.
type vclock struct{ ns atomic.Int64 }

func (c *vclock) Now() time.Time          { return time.Unix(0, c.ns.Load()).UTC() }
func (c *vclock) Advance(d time.Duration) { c.ns.Add(int64(d)) }

type failure struct {
	Key, Msg string
	Case     int
	With     []int // other cases of the batch the failure depends on (history-dependent failures)
	Weak     bool  // history-dependent, but the other message is not in this batch (earlier batch of the same process)
	Ops      []string // bounded-queue histories: the operation sequence that was run
}

type batchResult struct {
	fails                                                         []failure
	infra                                                         []string
	evals, accepts, rejects, boots, reopens, pubUnaccepted, fwdCalls int64
	optRefused, histories, histNoop, histAccepts, histRefusals, refusedOnFull, refusedAfterEvictable, survivorsDelivered int64
	via                                                           map[string]int64
	distinct                                                      map[string]struct{}
	samples                                                       []any
	extra                                                         map[string]int64 // further counters (layer family), by evidence name
}

func (b *batchResult) count(name string, n int64) {
	if b.extra == nil {
		b.extra = map[string]int64{}
	}
	b.extra[name] += n
}

// inst is one booted application.
type inst struct {
	a       *app.VerifApp
	conn    *grpc.ClientConn
	worker  workerapipb.WorkerServiceClient
	fwdSeen *atomic.Int64
}

type run struct {
	slot    int
	backend string
	flow    string
	cases   []mcase
	bodies  [][]byte
	lines   [][]hdr // header lines actually sent (case lines + push tag)
	acc     []bool  // accepted by hookaido (and by the reference)
	res     *batchResult
	dir     string
	in      *inst
	clk     *vclock
	store   queue.Store
	fwdSeen atomic.Int64
	failed  map[string]int
	cur     int              // the case whose ingress request is being served (the auth service records under it)
	sub     map[int][]subreq // what the forward-auth service received, per case (layers_test.go)

	// bounded-queue histories (bounded_test.go)
	q        *qconf         // queue_limits / retention configuration (nil: defaults)
	ops      []string       // the history being run
	ids      map[string]int // message id -> case index, learned when the message was accepted
	loose    bool           // messages may legitimately leave the queue (drop_oldest, ack): observe what is there
	keyTag   string         // appended to violation keys
	ownStore bool           // the harness opens the store (push flows; memory pressure limits)

	// configuration histories (change_test.go)
	chgDone map[string]int // route kind -> steps of its history applied so far
	chgText map[string]int // route kind -> the step whose configuration the file has for the route
	onDisk  bool           // a later boot (close + reopen) reads the file as the history left it instead of writing it
}

func (x *run) infra(format string, a ...any) {
	x.res.infra = append(x.res.infra, fmt.Sprintf("[%s %s slot %d] ", x.backend, x.flow, x.slot)+fmt.Sprintf(format, a...))
}

func (x *run) fail(i int, key, msg string, with ...int) { x.failW(i, key, msg, false, with...) }

func (x *run) failW(i int, key, msg string, weak bool, with ...int) {
	c := x.cases[i]
	key = fmt.Sprintf("%s:%s:%s:%s%s", key, c.In, x.backend, x.flow, x.keyTag)
	for _, j := range with {
		msg += "\nafter " + describe(x.cases[j], x.bodies[j])
	}
	f := failure{Key: key, Msg: msg + "\n" + describe(c, x.bodies[i]), Case: i, With: with, Weak: weak}
	if x.q != nil {
		f.Ops = append([]string{}, x.ops...)
		f.Msg += fmt.Sprintf("\nhistory: queue_limits{max_depth %d drop_policy %s} delivered_retention=%v pressure_limit=%v ops=%v (message %d of the history)", x.q.Depth, x.q.Policy, x.q.Retention, x.q.Pressure, x.ops, i)
	}
	if at, seen := x.failed[key]; seen { // one report per class and batch; a self-contained one replaces a weak one
		if x.res.fails[at].Weak && !weak {
			x.res.fails[at] = f
		}
		return
	}
	x.failed[key] = len(x.res.fails)
	x.res.fails = append(x.res.fails, f)
}

func describe(c mcase, body []byte) string {
	d := fmt.Sprintf("case: sweep=%s in=%s route=%s frame=%s headers=%q body=%d bytes %s", c.Sweep, c.In, c.Route, c.Frame, c.Hdrs, len(body), short(body))
	if ly := layerOf(c.Route); ly != nil {
		d += fmt.Sprintf(" route configuration: %s", strings.Join(strings.Fields(ly.directives()), " "))
		if c.Cred != "" {
			d += " credentials=" + c.Cred
		}
	}
	if k := chgOf(c.Route); k != nil {
		d += fmt.Sprintf(" (in force after %d steps of the route's configuration history: %s)", stepsBefore(c.Route), k.describe())
	}
	return d
}

func runBatch(slot int, backend, flow string, cases []mcase) (res *batchResult) {
	res = &batchResult{via: map[string]int64{}, distinct: map[string]struct{}{}}
	x := &run{slot: slot, backend: backend, flow: flow, cases: cases, res: res, failed: map[string]int{},
		dir: filepath.Join(runner.Scratch(), fmt.Sprintf("slot%d", slot))}
	defer func() {
		if p := recover(); p != nil {
			x.infra("panic: %v", p)
		}
		x.shutdown()
		res.fwdCalls = x.fwdSeen.Load()
	}()
	os.RemoveAll(x.dir)
	if err := os.MkdirAll(x.dir, 0o755); err != nil {
		x.infra("mkdir: %v", err)
		return
	}
	x.bodies = make([][]byte, len(cases))
	x.lines = make([][]hdr, len(cases))
	x.acc = make([]bool, len(cases))
	for i, c := range cases {
		x.bodies[i] = c.body()
		x.lines[i] = append([]hdr{}, c.Hdrs...)
		if flow == flowPush {
			x.lines[i] = append(x.lines[i], hdr{caseHeader, strconv.Itoa(i)})
		}
	}
	if flow == flowPush {
		x.ownStore = true
		x.clk = &vclock{}
		x.clk.ns.Store(time.Date(2026, 1, 1, 0, 0, 0, 0, time.UTC).UnixNano())
		if !x.openStore() {
			return
		}
	}
	if !x.boot() {
		return
	}
	if !x.enqueueAll() {
		return
	}
	if flow == flowPush {
		x.pushFlow()
	} else {
		x.pullFlow()
	}
	return
}

// ---------------------------------------------------------------- boot / restart

func (x *run) openStore() bool {
	switch x.backend {
	case "memory":
		if x.store == nil {
			var opts []queue.MemoryOption
			if x.clk != nil {
				opts = append(opts, queue.WithNowFunc(x.clk.Now))
			}
			if x.q != nil {
				opts = append(opts, queue.WithQueueLimits(x.q.Depth, x.q.Policy))
				if x.q.Retention {
					opts = append(opts, queue.WithDeliveredRetention(time.Hour))
				}
				if x.q.Pressure {
					opts = append(opts, queue.WithMemoryPressureLimits(1, 0))
				}
			}
			x.store = queue.NewMemoryStore(opts...)
		}
	case "sqlite":
		var opts []queue.SQLiteOption
		if x.clk != nil {
			opts = append(opts, queue.WithSQLiteNowFunc(x.clk.Now))
		}
		if x.q != nil {
			opts = append(opts, queue.WithSQLiteQueueLimits(x.q.Depth, x.q.Policy))
			if x.q.Retention {
				opts = append(opts, queue.WithSQLiteDeliveredRetention(time.Hour))
			}
		}
		st, err := queue.NewSQLiteStore(filepath.Join(x.dir, "push.db"), opts...)
		if err != nil {
			x.infra("open sqlite: %v", err)
			return false
		}
		x.store = st
	}
	return true
}

func (x *run) boot() bool {
	text := x.configText()
	if x.onDisk {
		text = "" // close + reopen after a configuration history: the file on disk is the configuration (the last reload's, or what the application wrote)
	}
	a, err := app.VerifBoot(app.VerifBootOptions{Dir: x.dir, ConfigText: text, Store: x.store})
	if err != nil {
		x.infra("boot: %v", err)
		return false
	}
	x.res.boots++
	x.in = &inst{a: a}
	if a.Running.Defaults.MaxBodyBytes != defaultMaxBody {
		x.infra("compiled default max_body is %d, the harness assumes the documented %d", a.Running.Defaults.MaxBodyBytes, defaultMaxBody)
		return false
	}
	if x.q != nil && (a.Running.QueueLimits.MaxDepth != x.q.Depth || a.Running.QueueLimits.DropPolicy != x.q.Policy || (a.Running.DeliveredRetention.MaxAge > 0) != x.q.Retention) {
		x.infra("compiled queue_limits %+v / delivered_retention %+v do not match the history configuration %+v", a.Running.QueueLimits, a.Running.DeliveredRetention, *x.q)
		return false
	}
	if !x.ownStore && a.Backend != x.backend {
		x.infra("newQueueStore selected backend %q, want %q", a.Backend, x.backend)
		return false
	}
	if a.Ingress == nil || a.Pull == nil || a.Admin == nil {
		x.infra("boot: missing handler")
		return false
	}
	if !x.layersCompiled(a) {
		return false
	}
	// the auth service: in memory, records what it receives, answers as the route's layer says (layers_test.go)
	a.VerifForwardAuthClient(x.authClient())
	x.onDisk = x.hasChange()
	if x.flow == flowPush {
		return true
	}
	addr := grpcAddr(x.slot)
	conn, err := grpc.NewClient("passthrough:///c07", grpc.WithTransportCredentials(insecure.NewCredentials()),
		grpc.WithContextDialer(func(ctx context.Context, _ string) (net.Conn, error) { return vnet.Dial(addr) }),
		grpc.WithDefaultCallOptions(grpc.MaxCallRecvMsgSize(64<<20)))
	if err != nil {
		x.infra("grpc client: %v", err)
		return false
	}
	x.in.conn = conn
	x.in.worker = workerapipb.NewWorkerServiceClient(conn)
	return true
}

func (x *run) authClient() *http.Client { return &http.Client{Transport: rtFunc(x.authService)} }

func (x *run) shutdown() {
	if x.in != nil {
		if x.in.conn != nil {
			x.in.conn.Close()
		}
		x.in.a.Shutdown()
		x.in = nil
	}
	if x.store != nil && x.backend == "sqlite" {
		if c, ok := x.store.(interface{ Close() error }); ok {
			c.Close()
		}
		x.store = nil
	}
}

// restart closes the application (and with it the SQLite store) and boots it again on the same files.
func (x *run) restart() bool {
	x.shutdown()
	if x.ownStore && !x.openStore() {
		return false
	}
	x.res.reopens++
	return x.boot()
}

// ---------------------------------------------------------------- way in

func serve(h http.Handler, raw []byte, remote string) (*httptest.ResponseRecorder, error) {
	req, err := http.ReadRequest(bufio.NewReader(bytes.NewReader(raw)))
	if err != nil {
		return nil, err
	}
	req.RemoteAddr = remote
	rec := httptest.NewRecorder()
	h.ServeHTTP(rec, req)
	return rec, nil
}

func remoteOf(i int) string { return fmt.Sprintf("198.51.100.7:%d", 10000+i) }
func idOf(i int) string     { return fmt.Sprintf("c07-%d", i) }

func rawIngress(path string, lines []hdr, frame string, body []byte) []byte {
	return rawIngressM(http.MethodPost, path, lines, frame, body)
}

func rawIngressM(method, path string, lines []hdr, frame string, body []byte) []byte {
	var b bytes.Buffer
	fmt.Fprintf(&b, "%s %s HTTP/1.1\r\nHost: %s\r\n", method, path, ingressHost)
	for _, l := range lines {
		if l.V == "" {
			fmt.Fprintf(&b, "%s:\r\n", l.N)
		} else {
			fmt.Fprintf(&b, "%s: %s\r\n", l.N, l.V)
		}
	}
	if frame == "chunked" || frame == frameTrailer {
		b.WriteString("Transfer-Encoding: chunked\r\n")
		if frame == frameTrailer {
			fmt.Fprintf(&b, "Trailer: %s\r\n", trailerField)
		}
		b.WriteString("\r\n")
		rest := body
		if len(rest) > 1 { // first chunk of one byte, then the remainder
			fmt.Fprintf(&b, "1\r\n%s\r\n", rest[:1])
			rest = rest[1:]
		}
		if len(rest) > 0 {
			fmt.Fprintf(&b, "%x\r\n", len(rest))
			b.Write(rest)
			b.WriteString("\r\n")
		}
		b.WriteString("0\r\n")
		if frame == frameTrailer {
			fmt.Fprintf(&b, "%s: %s\r\n", trailerField, trailerValue)
		}
		b.WriteString("\r\n")
	} else {
		fmt.Fprintf(&b, "Content-Length: %d\r\n\r\n", len(body))
		b.Write(body)
	}
	return b.Bytes()
}

func rawJSON(method, target string, extra string, body []byte) []byte {
	var b bytes.Buffer
	fmt.Fprintf(&b, "%s %s HTTP/1.1\r\nHost: api.test\r\n%s", method, target, extra)
	if body != nil {
		fmt.Fprintf(&b, "Content-Type: application/json\r\nContent-Length: %d\r\n", len(body))
	}
	b.WriteString("\r\n")
	b.Write(body)
	return b.Bytes()
}

func (x *run) routeOf(c mcase) string {
	if x.flow == flowPush {
		return routes[c.Route].push
	}
	return routes[c.Route].pull
}

func (x *run) enqueueAll() bool {
	for i, c := range x.cases {
		// a route with a configuration history: bring it to the configuration this request is meant for (change_test.go)
		if !x.advance(c.Route, stepsBefore(c.Route)) {
			return false
		}
		body := x.bodies[i]
		want := refAccept(c, len(body))
		var code int
		switch c.In {
		case "ingress":
			ly := layerOf(c.Route)
			method := http.MethodPost
			if ly != nil {
				// credentials the route's authentication asks for, computed now (HMAC timestamp), sent first
				x.lines[i] = append(x.authLines(i, ly), x.lines[i]...)
				if ly.Method != "" {
					method = ly.Method
				}
			}
			x.cur = i
			rec, err := serve(x.in.a.Ingress, rawIngressM(method, x.routeOf(c), x.lines[i], c.Frame, body), remoteOf(i))
			if err != nil {
				x.infra("ingress request %d does not parse: %v", i, err)
				return false
			}
			code = rec.Code
			x.acc[i] = code == http.StatusAccepted
			if ly != nil {
				x.afterLayerRequest(i, ly, code)
			}
			switch {
			case ly != nil && (ly.unjudged() || c.Cred != ""):
				// whether this layer admits the request is that layer's contract (rate limit, header budget, what the
				// auth service answered, wrong credentials), not C07's: only an oversized body must be refused here
				if !want && x.acc[i] {
					x.fail(i, "oversize-accepted", fmt.Sprintf("ingress answered %d for a body of %d bytes, max_body is %d", code, len(body), maxBodyOf(c.Route)))
				}
				if want && !x.acc[i] {
					x.res.count("layer_refusals_not_judged", 1)
				}
				want = want && x.acc[i]
			case want && !x.acc[i]:
				x.fail(i, "within-max_body-refused", fmt.Sprintf("ingress answered %d for a body of %d bytes, max_body is %d", code, len(body), maxBodyOf(c.Route)))
			case !want && x.acc[i]:
				x.fail(i, "oversize-accepted", fmt.Sprintf("ingress answered %d for a body of %d bytes, max_body is %d", code, len(body), maxBodyOf(c.Route)))
			case !want && code != http.StatusRequestEntityTooLarge:
				x.fail(i, "oversize-not-413", fmt.Sprintf("ingress answered %d (not 413) for a body of %d bytes, max_body is %d", code, len(body), maxBodyOf(c.Route)))
			}
		case "store":
			// what an in-process producer (the MCP publish tool) does: Store.Enqueue with a prepared envelope
			err := x.in.a.Store.Enqueue(x.envelope(i))
			x.acc[i] = err == nil
			code = 0
			if err != nil {
				x.fail(i, "store-enqueue-refused", fmt.Sprintf("Store.Enqueue refused a message on an unbounded queue: %v", err))
			}
		case "publish":
			rec, err := x.publish([]int{i})
			if err != nil {
				x.infra("publish request %d does not parse: %v", i, err)
				return false
			}
			code = rec.Code
			x.acc[i] = code >= 200 && code < 300
			switch {
			case want && !x.acc[i] && c.Opt && code == http.StatusBadRequest:
				x.res.optRefused++ // a value that is not a valid HTTP field value may be refused; not judged (see assumptions)
				want = false
			case want && !x.acc[i] && len(body) >= 1<<20:
				x.res.pubUnaccepted++ // admin request-size cap; not judged (see assumptions)
				want = false
			case want && !x.acc[i]:
				x.fail(i, "within-max_body-refused", fmt.Sprintf("publish answered %d %s for a payload of %d bytes, max_body is %d", code, strings.TrimSpace(rec.Body.String()), len(body), maxBodyOf(c.Route)))
			case !want && x.acc[i]:
				x.fail(i, "oversize-accepted", fmt.Sprintf("publish answered %d for a payload of %d bytes, max_body is %d", code, len(body), maxBodyOf(c.Route)))
			}
		}
		x.res.evals++
		if want {
			x.res.accepts++
		} else {
			x.res.rejects++
		}
		x.note(i, "enqueue", fmt.Sprintf("status=%d", code))
	}
	return x.finishHistories()
}

// publish sends one admin publish request with the given cases as items.
func (x *run) publish(idx []int) (*httptest.ResponseRecorder, error) {
	var items []any
	for _, i := range idx {
		c := x.cases[i]
		hs := map[string]string{}
		for _, l := range x.lines[i] {
			hs[l.N] = l.V
		}
		id := c.ID
		if id == "" {
			id = idOf(i)
		}
		item := map[string]any{"id": id, "route": x.routeOf(c), "payload_b64": base64.StdEncoding.EncodeToString(x.bodies[i])}
		if len(hs) > 0 {
			item["headers"] = hs
		}
		items = append(items, item)
	}
	jb, _ := json.Marshal(map[string]any{"items": items})
	return serve(x.in.a.Admin, rawJSON("POST", "/messages/publish", "X-Hookaido-Audit-Reason: c07\r\n", jb), "192.0.2.77:4000")
}

// envelope is the prepared envelope of a store-direct case.
func (x *run) envelope(i int) queue.Envelope {
	c := x.cases[i]
	hs := map[string]string{}
	for _, l := range x.lines[i] {
		hs[l.N] = l.V
	}
	id := c.ID
	if id == "" {
		id = idOf(i)
	}
	target := "pull" // the target name of pull routes
	if x.flow == flowPush {
		target = routes[c.Route].url
	}
	return queue.Envelope{ID: id, Route: x.routeOf(c), Target: target, Payload: append([]byte{}, x.bodies[i]...), Headers: hs}
}

// note records the distinct-case key (and a few samples) of one evaluation.
func (x *run) note(i int, via, phase string) {
	c := x.cases[i]
	x.res.via[via]++
	set := strings.Split(c.Atoms, ".")
	sort.Strings(set)
	verdict := "acc"
	if !x.acc[i] {
		verdict = "rej"
	}
	route := c.Route
	if k := chgOf(route); k != nil { // a configuration history: its class (dimension changed, number of steps) and the position in it
		route = fmt.Sprintf("C-%s@%d", k.class, stepsBefore(route))
	}
	x.res.distinct[strings.Join([]string{c.In, route, c.Frame, via, phase, x.backend, bodyClass(c, x.bodies[i]), strings.Join(set, "."), verdict}, "|")] = struct{}{}
	if i == len(x.cases)-1 && len(x.res.samples) < 2 && via != "enqueue" {
		x.res.samples = append(x.res.samples, map[string]any{"backend": x.backend, "flow": x.flow, "via": via, "phase": phase,
			"in": c.In, "route": x.routeOf(c), "frame": c.Frame, "sent_headers": x.lines[i], "body": short(x.bodies[i]),
			"reference_headers": refHeaders(c, x.lines[i]), "result": "match"})
	}
}

// ---------------------------------------------------------------- observations

type item struct {
	ID, Lease  string
	Target     string
	State      string
	Payload    []byte
	PayloadErr string
	Headers    map[string]string
	Trace      map[string]string
}

// identify maps a pulled/listed item to its case index (-1: unknown).
func (x *run) identify(it item) int {
	if n, ok := x.ids[it.ID]; ok {
		return n
	}
	if strings.HasPrefix(it.ID, "c07-") {
		if n, err := strconv.Atoi(it.ID[4:]); err == nil && n >= 0 && n < len(x.cases) && x.cases[n].In != "ingress" && x.cases[n].ID == "" {
			return n
		}
	}
	if ra := it.Trace["remote_addr"]; strings.HasPrefix(ra, "198.51.100.7:") {
		if n, err := strconv.Atoi(ra[len("198.51.100.7:"):]); err == nil && n-10000 >= 0 && n-10000 < len(x.cases) && x.cases[n-10000].In == "ingress" {
			return n - 10000
		}
	}
	return -1
}

// check compares one observation of case i with the reference.
func (x *run) check(i int, via, phase string, payload []byte, payloadErr string, headers map[string][]string, exact bool) {
	x.res.evals++
	x.note(i, via, phase)
	c := x.cases[i]
	where := fmt.Sprintf("observed at %s, %s", via, phase)
	if !x.acc[i] {
		x.fail(i, "refused-but-stored:"+via, fmt.Sprintf("a request hookaido refused is in the queue (%s)", where))
		return
	}
	if payloadErr != "" {
		x.fail(i, "payload-encoding:"+via, fmt.Sprintf("payload cannot be decoded as standard base64: %s (%s)", payloadErr, where))
	} else if d := comparePayload(x.bodies[i], payload); d != "" {
		x.fail(i, "payload:"+via, d+" ("+where+")")
	}
	if ly := layerOf(c.Route); ly != nil && ly.Sign != "" && via == "push" {
		name := "X-Hookaido-Signature"
		if ly.Sign == "custom" {
			name = signSigName
		}
		if len(headers[name]) == 1 {
			x.res.count("layer_signed_push_deliveries", 1)
		} else {
			x.res.count("layer_push_deliveries_without_signature_not_judged", 1)
		}
	}
	if exact {
		for _, f := range compareFraming(c, headers) {
			x.fail(i, f.Key+":"+via, f.Msg+" ("+where+")")
		}
	}
	for _, f := range compareHeaders(c, x.lines[i], headers, exact) {
		if len(f.Foreign) == 0 {
			x.fail(i, f.Key+":"+via, f.Msg+" ("+where+")")
			continue
		}
		// a header of another message: the failure needs that other message delivered before; find it in the batch
		donors := x.donors(i, f.Foreign, headers)
		if donors == nil {
			f.Msg += "; no other message of this batch has such a header: it comes from an earlier batch of the same process"
		}
		x.failW(i, f.Key+":"+via, f.Msg+" ("+where+")", donors == nil, donors...)
	}
}

// donors finds cases of this batch whose stored headers contain one of the foreign headers with the observed value
// (per name the best of: same route, earlier position); nil when no name has a donor here.
func (x *run) donors(i int, names []string, got map[string][]string) []int {
	var out []int
	for _, n := range names {
		best := -1
		for j := range x.cases {
			if j == i || !x.acc[j] {
				continue
			}
			v, ok := refHeaders(x.cases[j], x.lines[j])[n]
			if x.cases[j].In == "publish" {
				for k, pv := range refHeaders(x.cases[j], x.lines[j]) {
					if canon(k) == n {
						v, ok = pv, true
					}
				}
			}
			if !ok || len(got[n]) != 1 || got[n][0] != v {
				continue
			}
			score := func(j int) int {
				s := 0
				if x.cases[j].Route == x.cases[i].Route {
					s += 2
				}
				if j < i {
					s++
				}
				return s
			}
			if best < 0 || score(j) > score(best) {
				best = j
			}
		}
		if best < 0 {
			continue
		}
		dup := false
		for _, d := range out {
			dup = dup || d == best
		}
		if !dup {
			out = append(out, best)
		}
	}
	sort.Ints(out)
	return out
}

func multi(m map[string]string) map[string][]string {
	out := make(map[string][]string, len(m))
	for k, v := range m {
		out[k] = []string{v}
	}
	return out
}

func decodeB64(s string) ([]byte, string) {
	b, err := base64.StdEncoding.Strict().DecodeString(s)
	if err != nil {
		return nil, fmt.Sprintf("%v in %.40q", err, s)
	}
	return b, ""
}

// ---- admin list

func (x *run) adminList(route string) ([]item, bool) {
	rec, err := serve(x.in.a.Admin, rawJSON("GET", "/messages?route="+route+"&include_payload=1&include_headers=1&include_trace=1&limit=1000", "", nil), "192.0.2.77:4000")
	if err != nil || rec.Code != 200 {
		x.infra("GET /messages: %v %v", err, rec)
		return nil, false
	}
	var resp struct {
		Items []struct {
			ID         string            `json:"id"`
			Target     string            `json:"target"`
			State      string            `json:"state"`
			PayloadB64 string            `json:"payload_b64"`
			Headers    map[string]string `json:"headers"`
			Trace      map[string]string `json:"trace"`
		} `json:"items"`
	}
	if err := json.Unmarshal(rec.Body.Bytes(), &resp); err != nil {
		x.infra("GET /messages: %v", err)
		return nil, false
	}
	var out []item
	for _, it := range resp.Items {
		p, perr := decodeB64(it.PayloadB64)
		out = append(out, item{ID: it.ID, Target: it.Target, State: it.State, Payload: p, PayloadErr: perr, Headers: it.Headers, Trace: it.Trace})
	}
	return out, true
}

func (x *run) usedRoutes() []string {
	seen := map[string]bool{}
	var out []string
	for _, c := range x.cases {
		rk := chgBase(c.Route) // the names of one route under the steps of its configuration history are one route
		if !seen[rk] {
			seen[rk] = true
			out = append(out, rk)
		}
	}
	return out
}

func (x *run) observeList(phase string) bool {
	for _, rk := range x.usedRoutes() {
		route := routes[rk].pull
		if x.flow == flowPush {
			route = routes[rk].push
		}
		items, ok := x.adminList(route)
		if !ok {
			return false
		}
		if !x.checkItems(items, "admin-list", phase, rk) {
			return false
		}
	}
	return true
}

// checkItems verifies a set of pulled/listed items: all of them, and that every accepted case of the route is among them.
func (x *run) checkItems(items []item, via, phase, routeKind string) bool {
	seen := map[int]int{}
	for _, it := range items {
		i := x.identify(it)
		if i < 0 {
			x.infra("%s %s returned an item the harness did not enqueue: id=%s trace=%v", via, phase, it.ID, it.Trace)
			return false
		}
		seen[i]++
		x.check(i, via, phase, it.Payload, it.PayloadErr, multi(it.Headers), true)
	}
	for i, c := range x.cases {
		if x.loose && seen[i] <= 1 {
			continue
		}
		if chgBase(c.Route) == routeKind && x.acc[i] && seen[i] != 1 {
			x.infra("%s %s: accepted case %d seen %d times (%s)", via, phase, i, seen[i], describe(c, x.bodies[i]))
			return false
		}
	}
	return true
}

// ---- pull HTTP

func (x *run) pullHTTP(endpoint, op string, body any) (*httptest.ResponseRecorder, bool) {
	jb, _ := json.Marshal(body)
	rec, err := serve(x.in.a.Pull, rawJSON("POST", endpoint+"/"+op, "Authorization: Bearer g1\r\n", jb), "192.0.2.50:5000")
	if err != nil {
		x.infra("pull %s: %v", op, err)
		return nil, false
	}
	return rec, true
}

func (x *run) dequeue(via, endpoint string) ([]item, bool) { return x.dequeueN(via, endpoint, batchMax) }

func (x *run) dequeueN(via, endpoint string, batch int) ([]item, bool) {
	var out []item
	if via == "pull-http" {
		rec, ok := x.pullHTTP(endpoint, "dequeue", map[string]any{"batch": batch})
		if !ok {
			return nil, false
		}
		if rec.Code != 200 {
			x.infra("pull dequeue: status %d %s", rec.Code, rec.Body.String())
			return nil, false
		}
		var resp struct {
			Items []struct {
				ID         string            `json:"id"`
				LeaseID    string            `json:"lease_id"`
				PayloadB64 string            `json:"payload_b64"`
				Headers    map[string]string `json:"headers"`
				Trace      map[string]string `json:"trace"`
			} `json:"items"`
		}
		if err := json.Unmarshal(rec.Body.Bytes(), &resp); err != nil {
			x.infra("pull dequeue: %v", err)
			return nil, false
		}
		for _, it := range resp.Items {
			p, perr := decodeB64(it.PayloadB64)
			out = append(out, item{ID: it.ID, Lease: it.LeaseID, Payload: p, PayloadErr: perr, Headers: it.Headers, Trace: it.Trace})
		}
		return out, true
	}
	ctx, cancel := context.WithTimeout(metadata.AppendToOutgoingContext(context.Background(), "authorization", "Bearer g1"), 2*time.Minute)
	defer cancel()
	resp, err := x.in.worker.Dequeue(ctx, &workerapipb.DequeueRequest{Endpoint: endpoint, Batch: uint32(batch)})
	if err != nil {
		x.infra("grpc dequeue: %v", err)
		return nil, false
	}
	for _, it := range resp.GetItems() {
		out = append(out, item{ID: it.GetId(), Lease: it.GetLeaseId(), Payload: it.GetPayload(), Headers: it.GetHeaders(), Trace: it.GetTrace()})
	}
	return out, true
}

// settle acks/nacks the leased items: every second item with a single-lease
// request (lease_id), the others with one batch request (lease_ids); parity
// alternates with the step so that every case meets both forms before a later observation.
func (x *run) settle(via, endpoint, op string, items []item, step int) bool {
	var batch []string
	for _, it := range items {
		if (x.identify(it)+step)%2 != 0 { // parity of the case index, not of the position in the response
			batch = append(batch, it.Lease)
			continue
		}
		if via == "pull-http" {
			rec, ok := x.pullHTTP(endpoint, op, map[string]any{"lease_id": it.Lease})
			if !ok {
				return false
			}
			if rec.Code != 204 {
				x.infra("pull %s (single): status %d %s", op, rec.Code, rec.Body.String())
				return false
			}
			continue
		}
		ctx, cancel := context.WithTimeout(metadata.AppendToOutgoingContext(context.Background(), "authorization", "Bearer g1"), 2*time.Minute)
		var n uint32
		var err error
		if op == "ack" {
			var resp *workerapipb.AckResponse
			resp, err = x.in.worker.Ack(ctx, &workerapipb.AckRequest{Endpoint: endpoint, LeaseId: it.Lease})
			n = resp.GetAcked()
		} else {
			var resp *workerapipb.NackResponse
			resp, err = x.in.worker.Nack(ctx, &workerapipb.NackRequest{Endpoint: endpoint, LeaseId: it.Lease})
			n = resp.GetSucceeded()
		}
		cancel()
		if err != nil || n != 1 {
			x.infra("grpc %s (single): %d %v", op, n, err)
			return false
		}
	}
	if len(batch) == 0 {
		return true
	}
	if via == "pull-http" {
		rec, ok := x.pullHTTP(endpoint, op, map[string]any{"lease_ids": batch})
		if !ok {
			return false
		}
		if rec.Code != 200 {
			x.infra("pull %s: status %d %s", op, rec.Code, rec.Body.String())
			return false
		}
		return true
	}
	ctx, cancel := context.WithTimeout(metadata.AppendToOutgoingContext(context.Background(), "authorization", "Bearer g1"), 2*time.Minute)
	defer cancel()
	if op == "ack" {
		resp, err := x.in.worker.Ack(ctx, &workerapipb.AckRequest{Endpoint: endpoint, LeaseIds: batch})
		if err != nil || int(resp.GetAcked()) != len(batch) {
			x.infra("grpc ack: %v %v", resp, err)
			return false
		}
		return true
	}
	resp, err := x.in.worker.Nack(ctx, &workerapipb.NackRequest{Endpoint: endpoint, LeaseIds: batch})
	if err != nil || int(resp.GetSucceeded()) != len(batch) {
		x.infra("grpc nack: %v %v", resp, err)
		return false
	}
	return true
}

// pullFlow: admin list, first delivery over A, nack, redelivery over B, nack,
// (sqlite) close + reopen, delivery over A, nack, delivery over B, ack, queue empty.
func (x *run) pullFlow() {
	a, b := "pull-http", "pull-grpc"
	if x.flow == flowGH {
		a, b = b, a
	}
	if !x.observeList("stored") {
		return
	}
	type step struct{ via, phase, then string }
	steps := []step{{a, "first-delivery", "nack"}, {b, "nack+redelivery", "nack"}}
	after := "third-delivery"
	if x.backend == "sqlite" {
		after = "after-close+reopen"
	}
	steps = append(steps, step{a, after, "nack"}, step{b, after + "+redelivery", "ack"})
	for n, st := range steps {
		if n == 2 && x.backend == "sqlite" {
			if !x.restart() {
				return
			}
			if !x.observeList("after-close+reopen") {
				return
			}
		}
		for _, rk := range x.usedRoutes() {
			ep := routes[rk].endpoint
			items, ok := x.dequeue(st.via, ep)
			if !ok || !x.checkItems(items, st.via, st.phase, rk) || !x.settle(st.via, ep, st.then, items, n) {
				return
			}
		}
	}
	for _, rk := range x.usedRoutes() {
		items, ok := x.dequeue(a, routes[rk].endpoint)
		if !ok {
			return
		}
		if len(items) != 0 {
			x.infra("queue not empty after the last ack: %d items", len(items))
			return
		}
	}
}

// ---- push

type delivery struct {
	tag    string
	method string
	url    string
	header http.Header
	body   []byte
	phase  string
}

type target struct {
	mu     sync.Mutex
	status int
	phase  string
	got    []delivery
}

func (t *target) RoundTrip(r *http.Request) (*http.Response, error) {
	var body []byte
	if r.Body != nil {
		body, _ = io.ReadAll(r.Body)
		r.Body.Close()
	}
	t.mu.Lock()
	t.got = append(t.got, delivery{tag: r.Header.Get(caseHeader), method: r.Method, url: r.URL.String(), header: r.Header.Clone(), body: body, phase: t.phase})
	st := t.status
	t.mu.Unlock()
	return reply(r, st, nil), nil
}

func (t *target) count() int {
	t.mu.Lock()
	defer t.mu.Unlock()
	return len(t.got)
}

func (t *target) set(status int, phase string) {
	t.mu.Lock()
	t.status, t.phase = status, phase
	t.mu.Unlock()
}

// waitFor polls cond (wall clock is only a watchdog here, never an oracle).
func (x *run) waitFor(what string, cond func() bool) bool {
	limit := time.Now().Add(90 * time.Second)
	for !cond() {
		if time.Now().After(limit) {
			x.infra("push: gave up waiting for %s", what)
			return false
		}
		time.Sleep(100 * time.Microsecond)
	}
	return true
}

func (x *run) inState(st queue.State) int {
	n := 0
	for _, rk := range x.usedRoutes() {
		resp, err := x.store.ListMessages(queue.MessageListRequest{Route: routes[rk].push, State: st, Limit: 1000})
		if err != nil {
			panic(fmt.Sprintf("ListMessages: %v", err))
		}
		n += len(resp.Items)
	}
	return n
}

func (x *run) startDispatcher(t *target) *dispatcher.PushDispatcher {
	d := x.in.a.VerifDispatcher(&http.Client{Transport: t})
	d.MaxWait = 2 * time.Millisecond // poll period of the idle dispatcher (the store clock is virtual)
	d.Start()
	return d
}

// pushFlow: admin list, first delivery (target answers 500 -> nack with retry
// delay), redelivery (500 again), drain, (sqlite) close + reopen, delivery
// (200 -> ack), nothing left.
func (x *run) pushFlow() {
	if !x.observeList("stored") {
		return
	}
	k := 0
	for i := range x.cases {
		if x.acc[i] {
			k++
		}
	}
	if x.loose { // bounded queue: what is queued now is what the dispatcher will deliver
		k = x.inState(queue.StateQueued)
	}
	t := &target{}
	t.set(500, "first-delivery")
	d := x.startDispatcher(t)
	drained := false
	drain := func() {
		if !drained {
			drained = true
			if !d.Drain(30 * time.Second) {
				x.infra("push: dispatcher did not drain")
			}
		}
	}
	defer func() { drain() }()
	settled := func(n int) func() bool {
		return func() bool { return t.count() >= n && x.inState(queue.StateLeased) == 0 }
	}
	if !x.waitFor("first deliveries", settled(k)) {
		return
	}
	t.set(500, "nack+redelivery")
	x.clk.Advance(2 * time.Second)
	if !x.waitFor("redeliveries", settled(2*k)) {
		return
	}
	drain()
	phase := "third-delivery"
	if x.backend == "sqlite" {
		phase = "after-close+reopen"
		if !x.restart() {
			return
		}
		if !x.observeList("after-close+reopen") {
			return
		}
	}
	t.set(200, phase)
	x.clk.Advance(2 * time.Second)
	d = x.startDispatcher(t)
	drained = false
	if !x.waitFor("deliveries after reopen", func() bool {
		return t.count() >= 3*k && x.inState(queue.StateLeased) == 0 && x.inState(queue.StateQueued) == 0
	}) {
		return
	}
	drain()

	t.mu.Lock()
	got := append([]delivery{}, t.got...)
	t.mu.Unlock()
	rank := map[string]int{"first-delivery": 0, "nack+redelivery": 1, phase: 2}
	sort.SliceStable(got, func(a, b int) bool { // arrival order of concurrent dispatcher workers is not part of the case
		if rank[got[a].phase] != rank[got[b].phase] {
			return rank[got[a].phase] < rank[got[b].phase]
		}
		if len(got[a].tag) != len(got[b].tag) {
			return len(got[a].tag) < len(got[b].tag)
		}
		return got[a].tag < got[b].tag
	})
	perCase := map[int]map[string]int{}
	for _, dl := range got {
		i, err := strconv.Atoi(dl.tag)
		if err != nil || i < 0 || i >= len(x.cases) {
			// the tag is a received non-sensitive header: losing or changing it is itself a header fidelity failure
			// which message it was can only be told from the body and the target: attribute it when that is unambiguous,
			// otherwise the replay is the whole batch
			j, n := 0, 0
			for c := range x.cases {
				if x.acc[c] && routes[x.cases[c].Route].url == dl.url && bytes.Equal(x.bodies[c], dl.body) {
					j = c
					n++
				}
			}
			if n != 1 {
				for j = 0; j < len(x.cases)-1 && !x.acc[j]; j++ {
				}
			}
			x.failW(j, "header-missing:"+caseHeader+":push", fmt.Sprintf("a push delivery arrived without the received header %s (got %q, headers %v, %d body bytes)", caseHeader, dl.tag, dl.header, len(dl.body)), n != 1)
			continue
		}
		if perCase[i] == nil {
			perCase[i] = map[string]int{}
		}
		perCase[i][dl.phase]++
		if dl.method != http.MethodPost || dl.url != routes[x.cases[i].Route].url {
			x.infra("push: case %d of route %s delivered as %s %s", i, x.cases[i].Route, dl.method, dl.url)
			return
		}
		x.check(i, "push", dl.phase, dl.body, "", map[string][]string(dl.header), false)
	}
	if len(x.res.fails) == 0 && !x.loose {
		for i := range x.cases {
			if x.acc[i] && (perCase[i]["first-delivery"] != 1 || perCase[i]["nack+redelivery"] != 1 || perCase[i][phase] != 1) {
				x.infra("push: case %d delivered %v times, want once per phase", i, perCase[i])
				return
			}
		}
	}
}
