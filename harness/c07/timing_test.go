package c07

import (
	"fmt"
	"os"
	"sync"
	"testing"
	"time"
)

func TestTiming(t *testing.T) {
	if os.Getenv("C07_TIMING") == "" {
		t.Skip()
	}
	var cs []mcase
	for a := 0; a < 100; a++ {
		cs = append(cs, mcase{Sweep: "body", In: "ingress", Route: "std", Frame: "cl", Hdrs: []hdr{atoms[0], atoms[3]}, Atoms: "0.3", BodyHex: fmt.Sprintf("%02x", a)})
	}
	for _, be := range backends {
		for _, fl := range flows {
			for _, p := range []int{1} {
				t0 := time.Now()
				var wg sync.WaitGroup
				for w := 0; w < p; w++ {
					wg.Add(1)
					go func(w int) {
						defer wg.Done()
						for k := 0; k < 4; k++ {
							res := runBatch(w, be, fl, cs)
							if len(res.fails) > 0 || len(res.infra) > 0 {
								fmt.Println(res.fails, res.infra)
							}
						}
					}(w)
				}
				wg.Wait()
				fmt.Printf("%s %s P=%d per-batch %v\n", be, fl, p, time.Since(t0)/4)
			}
		}
	}
}
