package c07

// Family "what the route's admission / authentication layers are configured to do with the request".
//
// Between the parsed request and the enqueue, ingress runs the layers the route configures: rate limit (route or
// global), auth basic, the body read under max_body, auth forward (a sub-request to an auth service that gets the
// request's headers and - up to body_limit - its body, and whose answer may contribute copy_headers), auth hmac, the
// header budget max_headers. Each of them sees the request, some build their own copy of it. The property does not care
// what they do with their copies: what is stored and delivered is the body and the headers that were RECEIVED.
//
// Configuration dimension (layerTable): auth forward in every documented option combination (shorthand, timeout,
// copy_headers none / one / several on one directive / several directives incl. a name the answer lacks, body_limit
// absent / off / 0 / 1 / 4 / 16 / 64kb, every answer class of the service), a method matcher, auth basic, auth hmac
// (shorthand, block with custom header names, shorthand + options), rate_limit (wide, tight, global), max_body and
// max_headers just above the request, and stacks of them.
// Input dimension: the header atoms of the header sweep plus the entity headers (Content-Type, Content-Encoding once
// and repeated, Expect, a value with commas), alone and combined; Content-Length framing vs chunked vs chunked with a
// declared trailer; body sizes 0, 1, 5 and limit-1, limit, limit+1, 4*limit+1 around every configured limit
// (body_limit, max_body) plus a real gzip stream where Content-Encoding says gzip; valid / wrong / missing credentials.
// Every case runs through the ordinary flows (admin list, pull HTTP, pull gRPC, push, nack, redelivery, SQLite
// close+reopen) on both backends.
//
// The auth service is an in-memory RoundTripper that records what it received. Deciding oracle: unchanged (payload
// byte-identical, stored headers = reference transformation of the received lines); new for all sweeps: a framing
// header (Content-Length, Transfer-Encoding, Host, Trailer) need not be stored, but if it is it must be the received one
// with the received value (compareFraming). Whether a layer admits a request is that layer's contract and is judged only
// where C07 says something: a request with valid credentials, within max_body, on a route whose limiter and header
// budget are far away must be accepted, a body over max_body must be refused, and nothing refused is ever stored.
// Of the sub-request only what the option name promises is required: its body is not longer than body_limit.

import (
	"bytes"
	"compress/gzip"
	"crypto/hmac"
	"crypto/sha256"
	"encoding/base64"
	"encoding/hex"
	"errors"
	"fmt"
	"io"
	"net/http"
	"sort"
	"strconv"
	"strings"
	"time"

	"github.com/nuetzliches/hookaido/internal/app"
	"github.com/nuetzliches/hookaido/internal/config"
	"github.com/nuetzliches/hookaido/internal/verifkit/runner"
)

type fwdConf struct {
	Timeout       string   // "" = not configured
	Copy          []string // copy_headers as written
	CopyOneLine   bool     // all names on one copy_headers directive
	BodyLimitText string   // "" = not configured
	BodyLimit     int      // meaning of BodyLimitText in bytes (0: no limit)
	Answer        string   // what the auth service answers: "" = 200, a status code, or "err" (transport error)
}

type hmacConf struct {
	Block          bool   // block form with `secret`; else shorthand (+ inline options when Tolerance is set)
	Sig, TS, Nonce string // custom header names ("" = documented defaults X-Signature / X-Timestamp / X-Nonce)
	Tolerance      string
}

type layer struct {
	Key        string
	Method     string // match { method M } ("" = default POST)
	RL         string // "", "wide" (never reached within a batch), "tight"
	GlobalRL   bool   // ingress { rate_limit } instead of a route rate_limit (wide)
	Basic      bool
	HMAC       *hmacConf
	Fwd        *fwdConf
	MaxBody    int
	MaxHeaders int
	Sign       string // push only: deliver { sign hmac ... } with "default" or "custom" header names (docs/delivery.md: adds two headers)
	TightHdrs  bool // max_headers is within reach of the header sets: acceptance is not judged
	Reduced    bool // crossed with the reduced header set list only
	Thorough   bool // thorough tier only
}

const (
	basicUser  = "u7"
	basicPass  = "p w:x"
	hmacSecret = "c07-k1"
	authBase   = "http://192.0.2.1/check/"
)

func layerTable() []layer {
	copy2 := []string{"X-User-Id", "x-org-id"}
	bl := func(text string, n int, cp []string) *fwdConf {
		return &fwdConf{BodyLimitText: text, BodyLimit: n, Copy: cp}
	}
	ans := func(a string) *fwdConf { return &fwdConf{BodyLimitText: "4", BodyLimit: 4, Copy: copy2, Answer: a} }
	return []layer{
		// ---- auth forward: options
		{Key: "f0", Fwd: &fwdConf{}},
		{Key: "fc1", Fwd: &fwdConf{Copy: []string{"X-User-Id"}}},
		{Key: "fc2", Fwd: &fwdConf{Copy: copy2, CopyOneLine: true}},
		{Key: "fc4", Fwd: &fwdConf{Copy: []string{"x-user-id", "X-Org-Id", "X-Absent", "X-Other"}}},
		{Key: "ft", Fwd: &fwdConf{Timeout: "5s"}},
		{Key: "fbl1", Fwd: bl("1", 1, nil)},
		{Key: "fbl4", Fwd: bl("4", 4, nil)},
		{Key: "fbl16", Fwd: bl("16b", 16, nil)},
		{Key: "fbl1c", Fwd: bl("1", 1, copy2)},
		{Key: "fbl4c", Fwd: bl("4", 4, copy2)},
		{Key: "fbl16c", Fwd: bl("16", 16, copy2)},
		{Key: "fbloff", Fwd: bl("off", 0, nil)},
		{Key: "fbl0c", Fwd: bl("0", 0, copy2)},
		{Key: "fbl64k", Fwd: bl("64kb", 65536, copy2), Reduced: true, Thorough: true},
		{Key: "fall", Fwd: &fwdConf{Timeout: "3s", Copy: copy2, BodyLimitText: "4", BodyLimit: 4}, MaxBody: 6, RL: "wide", MaxHeaders: 4096},
		{Key: "fput", Method: http.MethodPut, Fwd: bl("4", 4, copy2)},
		// ---- auth forward: answers of the service (2xx allows, everything else refuses)
		{Key: "f204", Fwd: ans("204")},
		{Key: "f401", Fwd: ans("401"), Reduced: true},
		{Key: "f403", Fwd: ans("403"), Reduced: true},
		{Key: "f500", Fwd: ans("500"), Reduced: true},
		{Key: "f302", Fwd: ans("302"), Reduced: true},
		{Key: "ferr", Fwd: ans("err"), Reduced: true},
		// ---- auth basic / auth hmac
		{Key: "b", Basic: true},
		{Key: "bmb", Basic: true, MaxBody: 6},
		{Key: "h", HMAC: &hmacConf{}},
		{Key: "hc", HMAC: &hmacConf{Block: true, Sig: "X-Hub-Signature-256", TS: "X-Ts", Nonce: "X-Request-Id", Tolerance: "10m"}},
		{Key: "hrl", HMAC: &hmacConf{Tolerance: "5m"}, RL: "wide", MaxBody: 6},
		// ---- rate limit / size limits
		{Key: "rl", RL: "wide"},
		{Key: "rlt", RL: "tight", Reduced: true},
		{Key: "grl", GlobalRL: true},
		{Key: "mb6", MaxBody: 6},
		{Key: "mh48", MaxHeaders: 48, TightHdrs: true},
		{Key: "mh24", MaxHeaders: 24, TightHdrs: true, Thorough: true},
		{Key: "mh96", MaxHeaders: 96, TightHdrs: true, Thorough: true},
		{Key: "mh4k", MaxHeaders: 4096},
		// ---- the layer on the way out: outbound signing of push deliveries (pull flows: a plain route)
		{Key: "sg", Sign: "default"},
		{Key: "sgc", Sign: "custom", Fwd: bl("4", 4, copy2)},
	}
}

var layerByRoute = map[string]*layer{}

func init() {
	for _, ly := range layerTable() {
		ly := ly
		name := "L-" + ly.Key
		layerByRoute[name] = &ly
		routes[name] = routeInfo{pull: "/" + name, endpoint: "/e" + name, push: "/d" + name, url: "http://192.0.2.4/hook-" + ly.Key}
	}
	registerChgKinds() // configuration histories on such routes (change_test.go)
}

func layerOf(route string) *layer { return layerByRoute[route] }

func (ly *layer) route() string { return "L-" + ly.Key }

// unjudged: whether the route admits a given request depends on a layer whose contract is not C07's.
func (ly *layer) unjudged() bool {
	return ly.RL == "tight" || ly.TightHdrs || (ly.Fwd != nil && !ly.Fwd.allows())
}

func (f *fwdConf) allows() bool { return f.Answer == "" || strings.HasPrefix(f.Answer, "2") }

// copyHeadersOf: the copy_headers the reference adds for a message accepted on the route.
func copyHeadersOf(route string) []string {
	if route == "fwd" {
		return fwdCopy
	}
	if ly := layerOf(route); ly != nil && ly.Fwd != nil && ly.Fwd.allows() {
		return ly.Fwd.Copy
	}
	return nil
}

const (
	signSecret   = "c07-out"
	signSigName  = "X-Webhook-Signature"
	signTimeName = "X-Webhook-Timestamp"
)

// signHeaderOf: is n one of the two headers the route's outbound signing adds under configured (non-default) names?
func signHeaderOf(route, n string) bool {
	ly := layerOf(route)
	return ly != nil && ly.Sign == "custom" && (n == signSigName || n == signTimeName)
}

func (ly *layer) deliverBlock() string {
	switch ly.Sign {
	case "default":
		return "sign hmac " + strconv.Quote("raw:"+signSecret)
	case "custom":
		return "sign hmac " + strconv.Quote("raw:"+signSecret) + "\n    sign signature_header " + strconv.Quote(signSigName) + "\n    sign timestamp_header " + strconv.Quote(signTimeName)
	}
	return ""
}

func bodyLimitOf(route string) int {
	if ly := layerOf(route); ly != nil && ly.Fwd != nil {
		return ly.Fwd.BodyLimit
	}
	return 0
}

func (f *fwdConf) dsl(key string) string {
	var d []string
	if f.Timeout != "" {
		d = append(d, "timeout "+f.Timeout)
	}
	if f.CopyOneLine && len(f.Copy) > 0 {
		var q []string
		for _, n := range f.Copy {
			q = append(q, strconv.Quote(n))
		}
		d = append(d, "copy_headers "+strings.Join(q, " "))
	} else {
		for _, n := range f.Copy {
			d = append(d, "copy_headers "+strconv.Quote(n))
		}
	}
	if f.BodyLimitText != "" {
		d = append(d, "body_limit "+f.BodyLimitText)
	}
	s := "auth forward " + strconv.Quote(authBase+key)
	if len(d) == 0 {
		return s // shorthand
	}
	return s + " {\n    " + strings.Join(d, "\n    ") + "\n  }"
}

func (h *hmacConf) names() (sig, ts, nonce string) {
	sig, ts, nonce = "X-Signature", "X-Timestamp", "X-Nonce" // documented defaults
	if h.Sig != "" {
		sig = h.Sig
	}
	if h.TS != "" {
		ts = h.TS
	}
	if h.Nonce != "" {
		nonce = h.Nonce
	}
	return
}

func (h *hmacConf) dsl() string {
	var o []string
	if h.Block {
		o = append(o, "secret "+strconv.Quote("raw:"+hmacSecret))
	}
	if h.Sig != "" {
		o = append(o, "signature_header "+strconv.Quote(h.Sig))
	}
	if h.TS != "" {
		o = append(o, "timestamp_header "+strconv.Quote(h.TS))
	}
	if h.Nonce != "" {
		o = append(o, "nonce_header "+strconv.Quote(h.Nonce))
	}
	if h.Tolerance != "" {
		o = append(o, "tolerance "+h.Tolerance)
	}
	if h.Block {
		return "auth hmac {\n    " + strings.Join(o, "\n    ") + "\n  }"
	}
	s := "auth hmac " + strconv.Quote("raw:"+hmacSecret)
	if len(o) > 0 {
		s += " {\n    " + strings.Join(o, "\n    ") + "\n  }"
	}
	return s
}

const (
	rlWide  = "rate_limit {\n    rps 1000\n    burst 1000\n  }" // a batch has at most 100 requests and a fresh limiter
	rlTight = "rate_limit {\n    rps 0.001\n    burst 3\n  }"
)

// directives are the route-level directives of the layer (without queue and pull/deliver).
func (ly *layer) directives() string {
	var d []string
	if ly.Method != "" {
		d = append(d, "match {\n    method "+ly.Method+"\n  }")
	}
	switch ly.RL {
	case "wide":
		d = append(d, rlWide)
	case "tight":
		d = append(d, rlTight)
	}
	if ly.Basic {
		d = append(d, "auth basic "+strconv.Quote(basicUser)+" "+strconv.Quote(basicPass))
	}
	if ly.HMAC != nil {
		d = append(d, ly.HMAC.dsl())
	}
	if ly.Fwd != nil {
		d = append(d, ly.Fwd.dsl(ly.Key))
	}
	if ly.MaxBody > 0 {
		d = append(d, fmt.Sprintf("max_body %d", ly.MaxBody))
	}
	if ly.MaxHeaders > 0 {
		d = append(d, fmt.Sprintf("max_headers %d", ly.MaxHeaders))
	}
	s := strings.Join(d, "\n  ")
	if ly.Sign != "" {
		s += " # push: deliver { " + strings.Join(strings.Fields(ly.deliverBlock()), " ") + " }"
	}
	if ly.GlobalRL {
		s += " # ingress { " + strings.Join(strings.Fields(rlWide), " ") + " }"
	}
	return s
}

// layerDSL: the route blocks of the layer routes this run's cases use (for its flow), and what they need in the ingress block.
func (x *run) layerDSL() (routeBlocks, ingressExtra string) {
	var b strings.Builder
	for _, rk := range x.usedRoutes() {
		ly := x.confLayer(rk) // a route with a configuration history (change_test.go): the step the file is at
		if ly == nil {
			continue
		}
		ri := routes[rk]
		d := ly.directives()
		if i := strings.Index(d, " # "); i >= 0 {
			d = d[:i]
		}
		if x.flow == flowPush {
			fmt.Fprintf(&b, "%s {\n  queue { backend %s }\n  %s\n  deliver %q {\n    %s\n  }\n}\n", ri.push, x.backend, d, ri.url, ly.deliverBlock())
		} else {
			fmt.Fprintf(&b, "%s {\n  queue { backend %s }\n  %s\n  pull { path %s }\n}\n", ri.pull, x.backend, d, ri.endpoint)
		}
		if ly.GlobalRL {
			ingressExtra = rlWide
		}
	}
	return b.String(), ingressExtra
}

// layersCompiled cross-checks the harness's reading of each layer against the compiled configuration (an
// infrastructure error otherwise: the reference would be computed for a route that is configured differently).
func (x *run) layersCompiled(a *app.VerifApp) bool {
	// booted from the file as the application left it (after a configuration history): not the harness's text
	return x.layersMatch(a.Running, x.onDisk)
}

func (x *run) layersMatch(running config.Compiled, skipHistories bool) bool {
	for _, rk := range x.usedRoutes() {
		ly := x.confLayer(rk)
		if ly == nil || (skipHistories && chgOf(rk) != nil) {
			continue
		}
		path := x.routeOf(mcase{Route: rk})
		found := false
		for _, rt := range running.Routes {
			if rt.Path != path {
				continue
			}
			found = true
			var bad []string
			if ly.MaxBody > 0 && rt.MaxBodyBytes != int64(ly.MaxBody) {
				bad = append(bad, fmt.Sprintf("max_body %d", rt.MaxBodyBytes))
			}
			if ly.MaxHeaders > 0 && rt.MaxHeaderBytes != ly.MaxHeaders {
				bad = append(bad, fmt.Sprintf("max_headers %d", rt.MaxHeaderBytes))
			}
			if rt.AuthForward.Enabled != (ly.Fwd != nil) {
				bad = append(bad, fmt.Sprintf("auth forward enabled=%v", rt.AuthForward.Enabled))
			}
			if ly.Fwd != nil {
				if rt.AuthForward.BodyLimitBytes != int64(ly.Fwd.BodyLimit) {
					bad = append(bad, fmt.Sprintf("body_limit %d", rt.AuthForward.BodyLimitBytes))
				}
				want := map[string]bool{}
				for _, n := range ly.Fwd.Copy {
					want[canon(n)] = true
				}
				got := map[string]bool{}
				for _, n := range rt.AuthForward.CopyHeaders {
					got[canon(n)] = true
				}
				if fmt.Sprint(want) != fmt.Sprint(got) {
					bad = append(bad, fmt.Sprintf("copy_headers %v", rt.AuthForward.CopyHeaders))
				}
				if rt.AuthForward.URL != authBase+ly.Key {
					bad = append(bad, "url "+rt.AuthForward.URL)
				}
			}
			if (len(rt.AuthBasic) > 0) != ly.Basic {
				bad = append(bad, fmt.Sprintf("auth basic users=%d", len(rt.AuthBasic)))
			}
			if (len(rt.AuthHMACSecrets) > 0) != (ly.HMAC != nil) {
				bad = append(bad, fmt.Sprintf("auth hmac secrets=%d", len(rt.AuthHMACSecrets)))
			}
			if ly.HMAC != nil {
				sig, ts, nonce := ly.HMAC.names()
				for _, p := range [][2]string{{rt.AuthHMACSignatureHeader, sig}, {rt.AuthHMACTimestampHeader, ts}, {rt.AuthHMACNonceHeader, nonce}} {
					if p[0] != "" && canon(p[0]) != canon(p[1]) {
						bad = append(bad, "hmac header "+p[0])
					}
				}
			}
			if rt.RateLimit.Enabled != (ly.RL != "") {
				bad = append(bad, fmt.Sprintf("rate_limit enabled=%v", rt.RateLimit.Enabled))
			}
			if ly.Method != "" && (len(rt.Match.Methods) != 1 || !strings.EqualFold(rt.Match.Methods[0], ly.Method)) {
				bad = append(bad, fmt.Sprintf("match methods %v", rt.Match.Methods))
			}
			if x.flow == flowPush && (len(rt.Deliveries) != 1 || rt.Deliveries[0].SigningHMAC.Enabled != (ly.Sign != "")) {
				bad = append(bad, fmt.Sprintf("deliver signing %+v", rt.Deliveries))
			}
			if ly.GlobalRL && !running.Ingress.RateLimit.Enabled {
				bad = append(bad, "ingress rate_limit not enabled")
			}
			if len(bad) > 0 {
				x.infra("layer route %s compiled differently from the harness's table: %v", path, bad)
				return false
			}
		}
		if !found {
			x.infra("layer route %s is not in the compiled configuration", path)
			return false
		}
	}
	return true
}

// ---------------------------------------------------------------- the auth service

type subreq struct {
	Method, URL string
	Header      http.Header
	Body        []byte
}

// authService is the forward-auth endpoint of every route: in memory, it records what it received (layer routes) and
// answers what the route's layer says, with the fwdAnswer headers.
func (x *run) authService(r *http.Request) (*http.Response, error) {
	x.fwdSeen.Add(1)
	var body []byte
	if r.Body != nil {
		body, _ = io.ReadAll(r.Body)
		r.Body.Close()
	}
	answer := ""
	if u := r.URL.String(); strings.HasPrefix(u, authBase) {
		if ly := x.fwdLayer(u[len(authBase):]); ly != nil && ly.Fwd != nil {
			if x.sub == nil {
				x.sub = map[int][]subreq{}
			}
			x.sub[x.cur] = append(x.sub[x.cur], subreq{Method: r.Method, URL: u, Header: r.Header.Clone(), Body: body})
			answer = ly.Fwd.Answer
		}
	}
	if answer == "err" {
		return nil, errors.New("c07: auth service unreachable")
	}
	code := 200
	if answer != "" {
		code, _ = strconv.Atoi(answer)
	}
	h := http.Header{}
	for _, a := range fwdAnswer {
		h.Add(a.N, a.V)
	}
	return reply(r, code, h), nil // a 302 carries no Location: the client hands it back as it is
}

// fwdLayer: the route configuration behind an auth service URL (the URL names the route): a layer route, or a route with
// a configuration history - there the configuration in force for the request being served, else the last one.
func (x *run) fwdLayer(key string) *layer {
	if ly := layerOf("L-" + key); ly != nil {
		return ly
	}
	if x.cur >= 0 && x.cur < len(x.cases) && chgBase(x.cases[x.cur].Route) == "C-"+key {
		if ly := layerOf(x.cases[x.cur].Route); ly != nil && ly.Fwd != nil {
			return ly
		}
	}
	if k := chgOf("C-" + key); k != nil { // a stale authenticator of an earlier step: the service answers as it does for that step
		for i := len(k.steps) - 1; i >= 0; i-- {
			if ly := k.steps[i].ly; ly != nil && ly.Fwd != nil {
				return ly
			}
		}
	}
	return nil
}

// authLines: the credentials the route's authentication asks for (docs/ingress.md), for the request about to be sent.
func (x *run) authLines(i int, ly *layer) []hdr {
	c := x.cases[i]
	if c.Cred == "none" {
		return nil
	}
	switch {
	case ly.Basic:
		pass := basicPass
		if c.Cred == "bad" {
			pass += "x"
		}
		return []hdr{{"Authorization", "Basic " + base64.StdEncoding.EncodeToString([]byte(basicUser+":"+pass))}}
	case ly.HMAC != nil:
		// string to sign: TIMESTAMP \n METHOD \n PATH \n hex(sha256(body)); the verifier's clock is the wall clock, so the
		// timestamp is taken now (an input, not an oracle)
		method := http.MethodPost
		if ly.Method != "" {
			method = ly.Method
		}
		ts := strconv.FormatInt(time.Now().Unix(), 10)
		sum := sha256.Sum256(x.bodies[i])
		key := hmacSecret
		if c.Cred == "bad" {
			key += "x"
		}
		m := hmac.New(sha256.New, []byte(key))
		m.Write([]byte(ts + "\n" + method + "\n" + x.routeOf(c) + "\n" + hex.EncodeToString(sum[:])))
		sig, tsName, nonce := ly.HMAC.names()
		return []hdr{{sig, hex.EncodeToString(m.Sum(nil))}, {tsName, ts}, {nonce, fmt.Sprintf("n-%d-%s", i, c.Frame)}}
	}
	return nil
}

// afterLayerRequest: bookkeeping, and the one requirement on the sub-request.
func (x *run) afterLayerRequest(i int, ly *layer, code int) {
	x.res.count("layer_requests", 1)
	x.res.count(fmt.Sprintf("layer_responses_%d", code), 1)
	if ly.Fwd == nil {
		return
	}
	subs := x.sub[i]
	body := x.bodies[i]
	x.res.count("layer_fwd_subrequests", int64(len(subs)))
	if x.acc[i] && len(subs) == 0 {
		x.res.count("layer_fwd_accepted_without_subrequest_not_judged", 1)
	}
	for _, s := range subs {
		if ly.Fwd.BodyLimit > 0 && len(s.Body) > ly.Fwd.BodyLimit {
			x.fail(i, "forward-auth-subrequest:body-over-body_limit", fmt.Sprintf("the auth service received %d body bytes, the route's body_limit is %d (request body %d bytes)", len(s.Body), ly.Fwd.BodyLimit, len(body)))
		}
		x.res.evals++
		switch {
		case bytes.Equal(s.Body, body):
			x.res.count("layer_fwd_subrequest_body_complete", 1)
		case bytes.HasPrefix(body, s.Body):
			x.res.count("layer_fwd_subrequest_body_truncated_prefix", 1)
		default:
			x.res.count("layer_fwd_subrequest_body_other_not_judged", 1)
		}
		// what else it carried is documented nowhere: counted, not judged
		recv := map[string][]string{}
		for _, l := range x.lines[i] {
			if n := canon(l.N); !framing[n] {
				recv[n] = append(recv[n], l.V)
			}
		}
		all := true
		for n, v := range recv {
			if fmt.Sprint(s.Header[n]) != fmt.Sprint(v) {
				all = false
			}
		}
		if all {
			x.res.count("layer_fwd_subrequest_carries_the_received_headers", 1)
		} else {
			x.res.count("layer_fwd_subrequest_lacks_received_headers_not_judged", 1)
		}
		if s.Method == http.MethodPut {
			x.res.count("layer_fwd_subrequest_method_put", 1)
		}
	}
}

// ---------------------------------------------------------------- enumeration

var entityAtoms = map[string]hdr{
	"ct":  {"Content-Type", "application/json; charset=utf-8"},
	"ce":  {"Content-Encoding", "gzip"},
	"ce2": {"content-encoding", "br"},
	"ex":  {"Expect", "100-continue"},
	"cm":  {"X-C", "a, b,,c"},
	"cl2": {"Content-Language", "de-DE, en"},
}

type lset struct {
	lines []hdr
	label string
}

func mkSet(names ...string) lset {
	var s lset
	for _, n := range names {
		if a, ok := entityAtoms[n]; ok {
			s.lines = append(s.lines, a)
		} else {
			k, err := strconv.Atoi(n)
			if err != nil {
				panic("unknown header atom " + n)
			}
			s.lines = append(s.lines, atoms[k])
		}
	}
	s.label = strings.Join(names, ".")
	if s.label == "" {
		s.label = "none"
	}
	return s
}

// layerHeaderSets: no header; every atom alone; the entity headers combined with each other and with sensitive / repeated
// names. Thorough: also every entity atom paired with every line atom.
func layerHeaderSets(thorough bool) []lset {
	out := []lset{mkSet()}
	for k := range atoms {
		out = append(out, mkSet(strconv.Itoa(k)))
	}
	ent := []string{"ct", "ce", "ex", "cm"}
	for _, e := range ent {
		out = append(out, mkSet(e))
	}
	out = append(out, mkSet("ce", "ct"), mkSet("ce", "ce2"), mkSet("ct", "ce", "ex", "0", "3", "cl2"), mkSet("0", "1"))
	if thorough {
		for _, e := range ent {
			for k := range atoms {
				out = append(out, mkSet(e, strconv.Itoa(k)))
			}
		}
		for i := range ent {
			for j := range ent {
				if i != j && !(ent[i] == "ce" && ent[j] == "ct") {
					out = append(out, mkSet(ent[i], ent[j]))
				}
			}
		}
	}
	return out
}

func reducedHeaderSets() []lset {
	return []lset{mkSet(), mkSet("0"), mkSet("ce", "ct"), mkSet("3", "ce")}
}

func hasAtom(s lset, name string) bool {
	for _, n := range strings.Split(s.label, ".") {
		if n == name {
			return true
		}
	}
	return false
}

// sizes: 0, 1, 5 and the sizes around every limit the layer configures.
func (ly *layer) sizes() []int {
	set := map[int]bool{0: true, 1: true, 5: true}
	if ly.Fwd != nil && ly.Fwd.BodyLimit > 0 {
		bl := ly.Fwd.BodyLimit
		for _, n := range []int{bl - 1, bl, bl + 1, 4*bl + 1} {
			set[n] = true
		}
	}
	if ly.MaxBody > 0 {
		for _, n := range []int{ly.MaxBody - 1, ly.MaxBody, ly.MaxBody + 1} {
			set[n] = true
		}
	}
	var out []int
	for n := range set {
		if n >= 0 {
			out = append(out, n)
		}
	}
	sort.Ints(out)
	return out
}

var gzipBodyHex = func() string {
	var b bytes.Buffer
	w := gzip.NewWriter(&b)
	w.Write([]byte(`{"c07":"a body that really is a gzip stream"}`))
	w.Close()
	return hex.EncodeToString(b.Bytes())
}()

// layerCases: layer x header set x frame x body size (x credentials), grouped by layer so that one application carries
// consecutive requests of one route.
func layerCases(r *runner.Run) [][]mcase {
	thorough := r.Thorough()
	full := layerHeaderSets(thorough)
	var out [][]mcase
	for _, ly := range layerTable() {
		if ly.Thorough && !thorough {
			continue
		}
		sets := full
		if ly.Reduced {
			sets = reducedHeaderSets()
		}
		var cs []mcase
		for _, hs := range sets {
			frames := []string{"cl", "chunked"}
			if hs.label == "none" || hs.label == "ce" || hs.label == "ce.ct" {
				frames = append(frames, frameTrailer)
			}
			for _, frame := range frames {
				for _, n := range ly.sizes() {
					cs = append(cs, mcase{Sweep: "layers", In: "ingress", Route: ly.route(), Frame: frame, Hdrs: hs.lines, Atoms: hs.label, Gen: "mix", N: n})
				}
				if hasAtom(hs, "ce") {
					cs = append(cs, mcase{Sweep: "layers", In: "ingress", Route: ly.route(), Frame: frame, Hdrs: hs.lines, Atoms: hs.label, BodyHex: gzipBodyHex})
				}
			}
		}
		if ly.Basic || ly.HMAC != nil {
			for _, cred := range []string{"bad", "none"} {
				for _, frame := range []string{"cl", "chunked"} {
					cs = append(cs, mcase{Sweep: "layers", In: "ingress", Route: ly.route(), Frame: frame, Hdrs: []hdr{atoms[0], entityAtoms["ce"]}, Atoms: "0.ce", BodyHex: "6100ff", Cred: cred})
				}
			}
		}
		out = append(out, cs)
	}
	return out
}

// layerSummary is the configuration dimension as it goes into the evidence.
func layerSummary() map[string]string {
	out := map[string]string{}
	for _, ly := range layerTable() {
		out[ly.Key] = strings.Join(strings.Fields(ly.directives()), " ")
	}
	return out
}
