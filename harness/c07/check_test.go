// Package c07 decides property C07 "End-to-end payload and header fidelity" by
// exhaustive enumeration of a bounded product (bodies x header sets x way in x
// way out x backend x delivery history) on the application exactly as
// startServers wires it (app.VerifBoot): requests are raw HTTP/1.1 text parsed
// by http.ReadRequest, pull consumers use the real HTTP handler and the real
// gRPC server (through vnet), push uses the real PushDispatcher+HTTPDeliverer
// with an in-memory RoundTripper. The oracle (ref_test.go) is written from the
// property text and shares no code with hookaido.
//
// Besides the case sweeps (gen_test.go, unicode_test.go: the header value /
// payload alphabet by Unicode general category and plane) there is the family
// "messages travel through a bounded queue" (bounded_test.go): every operation
// sequence up to a length bound on queues with queue_limits, where enqueues are
// refused after the store started to evict, and the sweep "what the route's
// admission / authentication layers are configured to do with the request"
// (layers_test.go): route configuration x header set x framing x body sizes
// around every configured limit, with a recording in-memory auth service; and the same after the route's configuration
// CHANGED while the application runs (change_test.go): configuration histories - boot with A, requests, production
// reload to B (every ordered pair of values of every option dimension; chains of two; a management mutation through
// the Admin API) - judged with the reference of the configuration in force when the request was accepted.
//
// The enumeration is split over shard processes (runner.RunShards): the SQLite
// driver does not scale over goroutines of one process.
package c07

import (
	"encoding/json"
	"fmt"
	"os"
	"runtime"
	"sort"
	"testing"
	"time"

	"github.com/nuetzliches/hookaido/internal/verifkit/runner"
)

type job struct {
	Backend string  `json:"backend"`
	Flow    string  `json:"flow"`
	Cases   []mcase `json:"cases,omitempty"`
	Hist    *hist   `json:"hist,omitempty"` // bounded-queue family: a history (and the subtree below it) instead of a case batch
}

// runJob runs a case batch or a history tree.
func runJob(j job, deadline time.Time) (*batchResult, bool) {
	if j.Hist != nil {
		return runHistTree(j.Backend, j.Flow, *j.Hist, deadline)
	}
	return runBatch(0, j.Backend, j.Flow, j.Cases), false
}

type failedCase struct {
	Key, Msg string
	Job      job
	Weak     bool // depends on deliveries of an earlier batch of the shard process: the replay is the whole batch, no re-run
	Full     *job // the whole batch the case ran in: the replay when the reduced job does not reproduce the failure (the
	// failure depends on a batch mate the attribution did not name, e.g. the row scanned before it in a multi-row dequeue)
}

// shardReply is what one shard process reports to the parent.
type shardReply struct {
	Counters      map[string]int64
	Via           map[string]int64
	Distinct      []string
	Samples       []any
	Fails         []failedCase
	Infra         []string
	NotExhaustive string
	Jobs          int
}

const setSize = 6 // jobs generated per case batch: |backends| x |flows|

// explore runs the share (i of n) of the enumeration in this process.
func explore(r *runner.Run, i, n int, deadline time.Time) *shardReply {
	rep := &shardReply{Counters: map[string]int64{}, Via: map[string]int64{}}
	distinct := map[string]struct{}{}
	failed := map[string]int{}
	idx, hidx := -1, -1
	only := os.Getenv("VERIF_C07_ONLY") // development aid: run one sweep only (header, layers, change, unicode, ..., bounded)
	generate(r, func(j job) bool {
		if only != "" && !((j.Hist != nil && only == "bounded") || (len(j.Cases) > 0 && j.Cases[0].Sweep == only)) {
			return true
		}
		if j.Hist != nil { // history trees are dealt out one by one, case batches in sets of |backends| x |flows|
			hidx++
			if hidx%n != i {
				return true
			}
		} else {
			idx++
			if (idx/setSize)%n != i {
				return true
			}
		}
		if time.Now().After(deadline) {
			rep.NotExhaustive = "wall budget reached before the enumeration finished"
			return false
		}
		res, cut := runJob(j, deadline)
		if cut {
			rep.NotExhaustive = "wall budget reached inside a bounded-queue history tree"
		}
		rep.Jobs++
		rep.Infra = append(rep.Infra, res.infra...)
		rep.Counters["evaluations"] += res.evals
		rep.Counters["messages"] += int64(len(j.Cases))
		rep.Counters["ref_accepts"] += res.accepts
		rep.Counters["ref_rejects"] += res.rejects
		rep.Counters["boots"] += res.boots
		rep.Counters["sqlite_reopens"] += res.reopens
		rep.Counters["publish_unaccepted_within_max_body"] += res.pubUnaccepted
		rep.Counters["forward_auth_calls"] += res.fwdCalls
		rep.Counters["publish_refused_unsendable_header_value"] += res.optRefused
		rep.Counters["bounded_histories"] += res.histories
		rep.Counters["bounded_branches_ended_by_noop"] += res.histNoop
		rep.Counters["bounded_enqueues_accepted"] += res.histAccepts
		rep.Counters["bounded_enqueues_refused"] += res.histRefusals
		rep.Counters["bounded_refused_on_full_queue"] += res.refusedOnFull
		rep.Counters["bounded_refused_with_evictable_messages_drop_oldest"] += res.refusedAfterEvictable
		rep.Counters["bounded_deliveries_of_survivors"] += res.survivorsDelivered
		for k, v := range res.extra {
			rep.Counters[k] += v
		}
		for k, v := range res.via {
			rep.Via[k] += v
		}
		for k := range res.distinct {
			distinct[k] = struct{}{}
		}
		if len(rep.Samples) < 2 {
			rep.Samples = append(rep.Samples, res.samples...)
		}
		for _, f := range res.fails {
			at, seen := failed[f.Key]
			if j.Hist != nil {
				fc := failedCase{Key: f.Key, Msg: f.Msg, Job: job{Backend: j.Backend, Flow: j.Flow, Hist: &hist{Conf: j.Hist.Conf, Ops: f.Ops}}}
				if !seen {
					failed[f.Key] = len(rep.Fails)
					rep.Fails = append(rep.Fails, fc)
				} else if len(f.Ops) < len(rep.Fails[at].Job.Hist.Ops) {
					rep.Fails[at] = fc
				}
				continue
			}
			if seen && !(rep.Fails[at].Weak && !f.Weak) {
				continue
			}
			idx := append(append([]int{}, f.With...), f.Case) // the failing case and the cases it depends on, in batch order
			sort.Ints(idx)
			if f.Weak {
				idx = idx[:0]
				for k := range j.Cases {
					idx = append(idx, k)
				}
			}
			var cs []mcase
			for _, k := range idx {
				cs = append(cs, j.Cases[k])
			}
			fc := failedCase{Key: f.Key, Msg: f.Msg, Job: job{Backend: j.Backend, Flow: j.Flow, Cases: cs}, Weak: f.Weak}
			if !f.Weak && len(cs) < len(j.Cases) {
				fc.Full = &job{Backend: j.Backend, Flow: j.Flow, Cases: j.Cases}
			}
			if seen {
				rep.Fails[at] = fc
			} else {
				failed[f.Key] = len(rep.Fails)
				rep.Fails = append(rep.Fails, fc)
			}
		}
		return len(rep.Infra) == 0
	})
	for k := range distinct {
		rep.Distinct = append(rep.Distinct, k)
	}
	sort.Strings(rep.Distinct)
	return rep
}

func TestCheck(t *testing.T) {
	r := runner.Start("C07", "exploration")
	deadline := r.Deadline(80*time.Second, 13*time.Minute)

	if _, child := runner.IsShard(); child {
		var i, n int
		if _, err := fmt.Sscanf(os.Getenv("VERIF_SHARD"), "%d/%d", &i, &n); err != nil || n <= 0 {
			fmt.Fprintln(os.Stderr, "bad VERIF_SHARD")
			os.Exit(2)
		}
		runner.ShardReply(explore(r, i, n, deadline))
		return
	}
	if p := runner.ReplayPath(); p != "" {
		replay(r, p)
		r.Finish()
		return
	}

	shards := runtime.NumCPU()
	if shards > 16 {
		shards = 16
	}
	outs, err := runner.RunShards("c07", shards, time.Until(deadline)+4*time.Minute)
	if err != nil {
		r.Infra("shards: %v", err)
	}
	via := map[string]int64{}
	jobs := 0
	var fails []failedCase
	for _, b := range outs {
		if b == nil {
			continue
		}
		var rep shardReply
		if err := json.Unmarshal(b, &rep); err != nil {
			r.Infra("shard reply: %v", err)
			continue
		}
		for k, v := range rep.Counters {
			r.Add(k, v)
		}
		for k, v := range rep.Via {
			via[k] += v
		}
		for _, k := range rep.Distinct {
			r.Distinct(k)
		}
		for _, s := range rep.Samples {
			r.Sample(s)
		}
		for _, m := range rep.Infra {
			r.Infra("%s", m)
		}
		if rep.NotExhaustive != "" {
			r.NotExhaustive(rep.NotExhaustive)
		}
		jobs += rep.Jobs
		fails = append(fails, rep.Fails...)
	}
	size := func(f failedCase) int {
		n := 0
		if f.Job.Hist != nil {
			n = len(f.Job.Hist.Ops)*100000 + f.Job.Hist.Conf.Depth*1000
		}
		for _, c := range f.Job.Cases {
			n += 100000 + len(c.Hdrs)*1000 + c.bodyLen()*8 + len(c.Frame)
		}
		return n
	}
	// re-runs happen under the conditions of the shard that found the failure (one P)
	runtime.GOMAXPROCS(1)
	sort.Slice(fails, func(a, b int) bool { // per key, the smallest failing case becomes the replay
		if fails[a].Key != fails[b].Key {
			return fails[a].Key < fails[b].Key
		}
		if fails[a].Weak != fails[b].Weak {
			return !fails[a].Weak
		}
		if size(fails[a]) != size(fails[b]) {
			return size(fails[a]) < size(fails[b])
		}
		return fails[a].Msg < fails[b].Msg
	})
	reported := map[string]bool{}
	for _, f := range fails {
		f := f
		if reported[f.Key] { // several shards can meet the same failure class
			continue
		}
		reported[f.Key] = true
		reproduces := func(j job) bool { // re-run exactly these cases in a fresh application
			again, _ := runJob(j, time.Time{})
			for _, g := range again.fails {
				if g.Key == f.Key {
					return true
				}
			}
			return false
		}
		replay := f.Job
		if !f.Weak && f.Full != nil && !reproduces(f.Job) && reproduces(*f.Full) {
			replay = *f.Full // the failure needs the batch context
		}
		recheck := func() bool { return reproduces(replay) }
		if f.Weak {
			recheck = nil // depends on deliveries of an earlier batch of the shard process
		}
		r.Violation(f.Key, f.Msg, replay, recheck)
	}

	r.Set("batches", jobs)
	r.Set("shard_processes", shards)
	r.Set("observations_by_path", via)
	r.Set("default_max_body", defaultMaxBody)
	r.Set("body_sweep", runner.Pick(r, "all byte strings of length <= 1, plus the 1024 two-byte strings starting with 00|20|c2|ff, plus specials", "all 65793 byte strings of length <= 2, plus specials"))
	r.Set("header_subset_max_size", runner.Pick(r, 2, 3))
	r.Set("unicode_alphabet_code_points", len(cpAlphabet()))
	r.Set("bounded_queue_bounds", runner.Pick(r,
		"max_depth {1,2} x drop_policy {drop_oldest,reject} x delivered_retention {off,on} (+ memory retained-items pressure limit 1, max_depth {1,2}, there also every one-step continuation of I I D A and I D I A); every operation sequence of length <= 4 (memory) / <= 3 (sqlite) over {I,P1,P2,P3,Pex,Bdup,SdupO,SdupN,D,A,N} (push: enqueue operations only)",
		"max_depth {1,2,3} x drop_policy {drop_oldest,reject} x delivered_retention {off,on} (+ memory retained-items pressure limit 1, max_depth {1,2}); every operation sequence of length <= 5 (memory) / <= 4 (sqlite) over {I,P1,P2,P3,Pex,Bdup,SdupO,SdupN,D,A,N} (push: enqueue operations only, length <= 4)"))
	r.Set("layer_routes", layerSummary())
	r.Set("layer_header_sets", len(layerHeaderSets(r.Thorough())))
	r.Set("change_histories", changeSummary(r.Thorough()))
	r.Set("rule", "nested loops: sweep{body,header,layers,change,unicode,publish-header,boundary} x case x way-in{ingress raw HTTP/1.1, admin publish payload_b64, Store.Enqueue (unicode sweep)} x flow{pull http>grpc, pull grpc>http, push} x backend{memory,sqlite}; "+
		"unicode sweep: first and last code point of every Unicode general category in the BMP and above U+FFFF plus the JSON/Go escaping boundary code points, as header value (embedded and alone) and as payload; "+
		"layers sweep: route configuration (layer_routes: auth forward in every option combination and answer class, auth basic, auth hmac, rate_limit, max_body, max_headers, stacks) x header set (every line atom alone, entity headers Content-Type / Content-Encoding / Expect / comma value alone and combined) x framing {Content-Length, chunked, chunked+declared trailer} x body sizes {0,1,5, limit-1, limit, limit+1, 4*limit+1 for every configured body_limit / max_body, a gzip stream} x credentials {valid, wrong, none}; the auth service is an in-memory RoundTripper that records the sub-request; "+
		"change sweep: configuration histories of one route in a running application (change_histories): for every option dimension of the layer routes every ordered pair of its values on a carrier route, boot with A, two requests, production reload (VerifApp.Reload) to B"+
		runner.Pick(r, "", ", every chain of two changes within a dimension (incl. B>A>B and A>A'>B), every ordered pair of dimensions as a chain, every single-option pair that ends in a route kind of the layer table")+
		", and for every layer route a management mutation through the Admin API (PUT endpoint mapping: the application rewrites and reloads its file); then header sets {none, sensitive+entity, repeated name"+runner.Pick(r, "", ", mixed; chains and table pairs: none, sensitive+entity+repeated name")+"} x framing x body sizes around every limit of every configuration of the history x credentials, judged with the reference of the configuration in force when the request was sent; every reload changes one option of one route in the whole file; "+
		"bounded-queue family: every operation sequence within bounded_queue_bounds on a queue with queue_limits, every message visible after every operation and in the delivery flow afterwards is compared (which messages survive is not judged); "+
		"every accepted message is observed at admin list, first delivery, nack+redelivery, (sqlite) close+reopen then two more deliveries; one evaluation = one observation or one accept/reject decision compared with the reference; "+
		"distinct = (way in, route, framing, path out, phase, backend, body class, header atom set, verdict); non-trivial = the case went through a real enqueue and a real delivery or a real rejection")
	r.Assume("Host, Content-Length, Transfer-Encoding and Trailer are message framing: they need not be stored, but a stored one must have been received and carry the received value (framing-value / framing-extra); a declared trailer field is treated the same way")
	r.Assume("layers sweep: whether a route's rate limiter, header budget (max_headers within reach of the header set), auth service answer other than 2xx, or wrong/missing credentials refuse a request is the contract of that layer (C08/C12) and only counted (layer_refusals_not_judged, layer_responses_<status>); judged are: valid credentials + body within max_body on a route whose limiter/header budget is out of reach => accepted, body over max_body => refused, refused => never visible, accepted => byte-identical payload and reference headers")
	r.Assume("change sweep: which configuration is in force after a step follows docs/configuration.md (Hot Reload): route auth settings, rate limits, route-level max_body / max_headers, match rules and management labels are applied live, a change of deliver signing is rejected and the previous configuration stays active (the harness then puts the file back, as an operator would); the answer of Reload is cross-checked against that rule (infrastructure error otherwise) and never selects the reference; after SQLite close + reopen the application boots from the file on disk as the history left it (incl. the file the application wrote itself)")
	r.Assume("auth hmac routes verify against the wall clock: the request is signed with the current second when it is sent (an input, never an oracle); of the forward-auth sub-request only 'body not longer than body_limit' is required, what else it carries is counted (layer_fwd_subrequest_*)")
	r.Assume("push: the request seen by the target must carry every stored header of the message with the reference value, no sensitive header with a received value, and otherwise only framing (Host, Content-Length, Transfer-Encoding) or the deliverer's/transport's own headers: User-Agent, Accept-Encoding, Content-Type, X-Hookaido-Signature, X-Hookaido-Timestamp (sign hmac defaults; signing is not configured here), Traceparent, Tracestate, Baggage; any other header is a violation (header-foreign)")
	r.Assume("publish: header names are compared after canonicalisation (the property defines canonicalisation for ingress; publish stores the caller's JSON map), Authorization/Cookie are not sent through publish (the strip rule is stated for ingress)")
	r.Assume("header values are valid UTF-8 without leading/trailing whitespace; forward-auth copy_headers carry one value each and do not collide with a client header")
	r.Assume("publish may refuse a payload of 1 MiB or more that is within max_body (admin request-size cap); that is counted in publish_unaccepted_within_max_body, not judged")
	r.Assume("push flows run on stores opened with the exported clock option (virtual time for retry delays); pull flows use the store newQueueStore opens from the config; Postgres is not executed")
	r.Assume("a header value with a C0 control other than HTAB or with DEL cannot be carried in an HTTP/1.1 field (net/http refuses such a request before any handler runs and refuses to send it to a push target): such values are not sent through ingress or the push flow; admin publish may refuse them with 400 (counted in publish_refused_unsendable_header_value), Store.Enqueue takes them and they must come back unchanged over the pull paths")
	r.Assume("Store.Enqueue / Store.EnqueueBatch called directly (as the MCP publish tool and other in-process producers do) is a way in of the unicode sweep and of the bounded-queue family; the target name of a pull route is \"pull\"")
	r.Assume("bounded-queue family: which enqueue is refused and which messages a full queue keeps is the queue contract (C02/C13) and is only counted here; an accepted enqueue under an id that is in the queue makes that id denote the new message; messages listed in state delivered (delivered_retention) are compared like queued ones; memory pressure is reached through the exported WithMemoryPressureLimits option (the configuration file cannot lower the limit below 1000 retained items)")
	r.Assume("an accepted message that is not handed out again by a dequeue/dispatcher is reported as an infrastructure error (queue contract, C02), not as a C07 violation")
	r.Finish()
}

func replay(r *runner.Run, path string) {
	b, err := os.ReadFile(path)
	if err != nil {
		r.Infra("replay: %v", err)
		return
	}
	var f struct {
		Key    string `json:"key"`
		Replay job    `json:"replay"`
	}
	if err := json.Unmarshal(b, &f); err != nil {
		r.Infra("replay: %v", err)
		return
	}
	runtime.GOMAXPROCS(1)
	res, _ := runJob(f.Replay, time.Time{})
	for _, m := range res.infra {
		r.Infra("%s", m)
	}
	r.Add("evaluations", res.evals)
	r.Add("ref_accepts", res.accepts)
	r.Add("ref_rejects", res.rejects)
	for k := range res.distinct {
		r.Distinct(k)
	}
	for _, s := range res.samples {
		r.Sample(s)
	}
	sort.Slice(res.fails, func(i, j int) bool { return res.fails[i].Key < res.fails[j].Key })
	for _, fl := range res.fails {
		r.Violation(fl.Key, fl.Msg, f.Replay, nil)
	}
	fmt.Printf("replay of %s: %d failing observations\n", f.Key, len(res.fails))
	r.Set("rule", "replay of one recorded case")
}
