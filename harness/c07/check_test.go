// Package c07 decides property C07 "End-to-end payload and header fidelity" by
// exhaustive enumeration of a bounded product (bodies x header sets x way in x
// way out x backend x delivery history) on the application exactly as
// startServers wires it (app.VerifBoot): requests are raw HTTP/1.1 text parsed
// by http.ReadRequest, pull consumers use the real HTTP handler and the real
// gRPC server (through vnet), push uses the real PushDispatcher+HTTPDeliverer
// with an in-memory RoundTripper. The oracle (ref.go) is written from the
// property text and shares no code with hookaido.
package c07

import (
	"encoding/json"
	"fmt"
	"os"
	"runtime"
	"sort"
	"sync"
	"sync/atomic"
	"testing"
	"time"

	"github.com/nuetzliches/hookaido/internal/verifkit/runner"
)

type job struct {
	Backend string  `json:"backend"`
	Flow    string  `json:"flow"`
	Cases   []mcase `json:"cases"`
}

func TestCheck(t *testing.T) {
	r := runner.Start("C07", "exploration")
	deadline := r.Deadline(85*time.Second, 11*time.Minute)

	if p := runner.ReplayPath(); p != "" {
		replay(r, p)
		r.Finish()
		return
	}

	workers := runtime.NumCPU()
	if workers > 16 {
		workers = 16
	}
	if workers < 2 {
		workers = 2
	}
	jobs := make(chan job, 2*workers)
	var stopped atomic.Bool
	var wg sync.WaitGroup
	var smu sync.Mutex
	viaCount := map[string]int64{}
	for w := 0; w < workers; w++ {
		wg.Add(1)
		go func(slot int) {
			defer wg.Done()
			for j := range jobs {
				if stopped.Load() {
					continue
				}
				res := runBatch(slot, j.Backend, j.Flow, j.Cases)
				for _, m := range res.infra {
					r.Infra("%s", m)
				}
				if len(res.infra) > 0 {
					stopped.Store(true)
				}
				r.Add("evaluations", res.evals)
				r.Add("messages", int64(len(j.Cases)))
				r.Add("ref_accepts", res.accepts)
				r.Add("ref_rejects", res.rejects)
				r.Add("boots", res.boots)
				r.Add("sqlite_reopens", res.reopens)
				r.Add("publish_unaccepted_within_max_body", res.pubUnaccepted)
				r.Add("forward_auth_calls", res.fwdCalls)
				for k := range res.distinct {
					r.Distinct(k)
				}
				for _, s := range res.samples {
					r.Sample(s)
				}
				smu.Lock()
				for k, v := range res.via {
					viaCount[k] += v
				}
				smu.Unlock()
				for _, f := range res.fails {
					f := f
					c := j.Cases[f.Case]
					r.Violation(f.Key, f.Msg, job{Backend: j.Backend, Flow: j.Flow, Cases: []mcase{c}}, func() bool {
						again := runBatch(slot, j.Backend, j.Flow, []mcase{c})
						for _, g := range again.fails {
							if g.Key == f.Key {
								return true
							}
						}
						return false
					})
				}
			}
		}(w)
	}

	njobs := 0
	generate(r, func(j job) bool {
		if stopped.Load() {
			return false
		}
		if time.Now().After(deadline) {
			r.NotExhaustive("wall budget reached before the enumeration finished")
			return false
		}
		jobs <- j
		njobs++
		return true
	})
	close(jobs)
	wg.Wait()

	r.Set("batches", njobs)
	r.Set("observations_by_path", viaCount)
	r.Set("default_max_body", defaultMaxBody)
	r.Set("body_sweep_max_len", runner.Pick(r, 1, 2))
	r.Set("header_subset_max_size", runner.Pick(r, 2, 3))
	r.Set("rule", "nested loops: sweep{body,header,publish-header,boundary} x case x way-in{ingress raw HTTP/1.1, admin publish payload_b64} x flow{pull http>grpc, pull grpc>http, push} x backend{memory,sqlite}; "+
		"every accepted message is observed at admin list, first delivery, nack+redelivery, (sqlite) close+reopen then two more deliveries; one evaluation = one observation or one accept/reject decision compared with the reference; "+
		"distinct = (way in, route, framing, path out, phase, backend, body class, header atom set, verdict); non-trivial = the case went through a real enqueue and a real delivery or a real rejection")
	r.Assume("Host, Content-Length and Transfer-Encoding are message framing, not part of the 'received headers' compared (they may or may not be stored)")
	r.Assume("push: only the headers the property defines are compared (every received non-sensitive header must arrive with the reference value, no sensitive header with a received value); headers the deliverer adds for itself are ignored")
	r.Assume("publish: header names are compared after canonicalisation (the property defines canonicalisation for ingress; publish stores the caller's JSON map), Authorization/Cookie are not sent through publish (the strip rule is stated for ingress)")
	r.Assume("header values are valid UTF-8 without leading/trailing whitespace; forward-auth copy_headers carry one value each and do not collide with a client header")
	r.Assume("publish may refuse a payload of 1 MiB or more that is within max_body (admin request-size cap); that is counted in publish_unaccepted_within_max_body, not judged")
	r.Assume("push flows run on stores opened with the exported clock option (virtual time for retry delays); pull flows use the store newQueueStore opens from the config; Postgres is not executed")
	r.Assume("an accepted message that is not handed out again by a dequeue/dispatcher is reported as an infrastructure error (queue contract, C02), not as a C07 violation")
	r.Finish()
}

func replay(r *runner.Run, path string) {
	b, err := os.ReadFile(path)
	if err != nil {
		r.Infra("replay: %v", err)
		return
	}
	var f struct {
		Key    string `json:"key"`
		Replay job    `json:"replay"`
	}
	if err := json.Unmarshal(b, &f); err != nil {
		r.Infra("replay: %v", err)
		return
	}
	res := runBatch(0, f.Replay.Backend, f.Replay.Flow, f.Replay.Cases)
	for _, m := range res.infra {
		r.Infra("%s", m)
	}
	r.Add("evaluations", res.evals)
	r.Add("ref_accepts", res.accepts)
	r.Add("ref_rejects", res.rejects)
	for k := range res.distinct {
		r.Distinct(k)
	}
	for _, s := range res.samples {
		r.Sample(s)
	}
	sort.Slice(res.fails, func(i, j int) bool { return res.fails[i].Key < res.fails[j].Key })
	for _, fl := range res.fails {
		r.Violation(fl.Key, fl.Msg, f.Replay, nil)
	}
	fmt.Printf("replay of %s: %d failing observations\n", f.Key, len(res.fails))
	r.Set("rule", "replay of one recorded case")
}
