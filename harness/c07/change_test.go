package c07

// Family "the route's configuration CHANGED while the application runs" (configuration change as a dimension of the
// layers sweep).
//
// The layers sweep (layers_test.go) boots every route kind freshly. A running gateway gets its configuration through a
// history instead: boot with A, requests arrive (whatever the route caches per request path exists), the file changes
// to B, a production reload (VerifApp.Reload = run()'s reloadNow: Parse, Compile, requiresRestartForReload,
// applyCompiled) is applied, requests arrive again. docs/configuration.md "Hot Reload": route auth settings, rate
// limits, route-level max_body / max_headers and the management labels are applied live; deliver targets incl. signing
// are restart-required: such a reload is rejected and "the previous config stays active". C07 then says: what is
// stored for a request is the reference transformation under the configuration IN FORCE when the request was accepted
// (copy_headers of THAT configuration, max_body of THAT configuration, ...), and what was stored before a change stays
// what it was.
//
// Configuration histories (chgKinds):
//   x  value pairs on a carrier: for every option dimension (chgDims: method matcher, rate limit, auth kind, forward-auth
//      timeout / copy_headers / body_limit, hmac form / signature_header / timestamp_header / nonce_header / tolerance,
//      max_body, max_headers, outbound signing) one carrier route and EVERY ordered pair (v1 -> v2) of the dimension's
//      values - the dimension's values are the ones the layer table uses; thorough: also every chain v1 -> v2 -> v3
//      with v1 != v2 != v3 (this contains B -> A -> B and A -> A' -> B);
//   y  (thorough) cross-dimension chains A -> A' -> B on the forward-auth carrier: every ordered pair of dimensions;
//   t  (thorough) every single-option pair that ends in a route kind of the layer table: for every B of the table (but
//      the five whose auth service refuses every request),
//      every dimension that applies to B and every other value v of it: boot B[d:=v], reload to B (any two table kinds
//      that differ in one option are such a pair, because the dimension's values contain the table's);
//   m  a management mutation: boot A, PUT /applications/c07/endpoints/<id> {"route": ...} through the Admin API (the
//      application rewrites the file through its formatter, adds the two labels and reloads); A stays in force.
// Every history boots its own application, and every reload changes exactly ONE option of ONE route in the whole file.
//
// Cases: before every step two requests are sent (and judged with the reference of the configuration in force THEN;
// they are delivered after all steps like every other message); after the last step the reduced header sweep: header
// sets {none, sensitive + entity, repeated name} (thorough: see chgHeaderSets) x framing x body sizes around every limit of EVERY
// configuration of the history (a stale limit shows at the old boundary) x credentials. All of it through the ordinary
// flows (admin list, pull HTTP / gRPC, push, nack, redelivery, SQLite close + reopen from the file on disk).
//
// Oracle: unchanged - the reference transformation, computed from the step (the harness's own table entry whose text
// was written to the file), never from runtime state. Which step is in force is decided by the documented rule
// (a reload that changes deliver signing of a push route is rejected, everything else here is live-reloadable); the
// answer of Reload is only cross-checked against it (infrastructure error otherwise, never a reference switch).

import (
	"fmt"
	"net/http"
	"os"
	"strconv"
	"strings"

	"github.com/nuetzliches/hookaido/internal/config"
)

type chgStep struct {
	ly   *layer // the route's configuration written to the file; nil: management mutation through the Admin API
	mgmt bool
}

type chgKind struct {
	id       string
	family   string
	class    string    // family + the dimension(s) changed + number of steps: the history's part of the distinct-case key
	steps    []chgStep // steps[0]: boot configuration
	force    []int     // force[k]: index of the step whose configuration is in force after k steps (push reading, see resolve)
	refused  []bool    // refused[k]: step k is a reload the push flow must see rejected (deliver signing differs from the running one)
	thorough bool
}

const chgApp = "c07"

func (k *chgKind) route() string { return "C-" + k.id }

// routeAfter: the route kind name of a request sent after n steps (the last one: the plain name).
func (k *chgKind) routeAfter(n int) string {
	if n >= len(k.steps)-1 {
		return k.route()
	}
	return k.route() + "@" + strconv.Itoa(n)
}

var chgByRoute = map[string]*chgKind{}

// chgBase: the route kind that owns the paths ("C-id@1" -> "C-id"); other names unchanged.
func chgBase(route string) string {
	if strings.HasPrefix(route, "C-") {
		if i := strings.IndexByte(route, '@'); i >= 0 {
			return route[:i]
		}
	}
	return route
}

func chgOf(route string) *chgKind { return chgByRoute[chgBase(route)] }

// stepsBefore: how many steps have been applied when a request of this route kind name is sent.
func stepsBefore(route string) int {
	k := chgOf(route)
	if k == nil {
		return 0
	}
	if i := strings.IndexByte(route, '@'); i >= 0 {
		n, _ := strconv.Atoi(route[i+1:])
		return n
	}
	return len(k.steps) - 1
}

func (ly layer) clone() *layer {
	if ly.Fwd != nil {
		f := *ly.Fwd
		f.Copy = append([]string(nil), f.Copy...)
		ly.Fwd = &f
	}
	if ly.HMAC != nil {
		h := *ly.HMAC
		ly.HMAC = &h
	}
	return &ly
}

// ---------------------------------------------------------------- option dimensions

type chgVal struct {
	label    string
	set      func(*layer)
	thorough bool // value used by the quick tier's pair family only in the thorough tier
}

type chgDim struct {
	name    string
	title   string
	applies func(*layer) bool
	vals    []chgVal
	carrier func() *layer // route the value pairs are enumerated on
	alt     string        // value used by the cross-dimension chains
}

func authKind(ly *layer) string {
	switch {
	case ly.Fwd != nil:
		return "fwd"
	case ly.HMAC != nil:
		return "hmac"
	case ly.Basic:
		return "basic"
	}
	return "none"
}

func chgDims() []chgDim {
	copy2 := []string{"X-User-Id", "x-org-id"}
	all := func(*layer) bool { return true }
	hasFwd := func(ly *layer) bool { return ly.Fwd != nil }
	hasHMAC := func(ly *layer) bool { return ly.HMAC != nil }
	fwdFull := func() *layer {
		return &layer{Fwd: &fwdConf{BodyLimitText: "4", BodyLimit: 4, Copy: append([]string(nil), copy2...)}}
	}
	hm := func() *layer { return &layer{HMAC: &hmacConf{}} }
	auth := func(f func(*layer)) func(*layer) {
		return func(ly *layer) { ly.Basic, ly.HMAC, ly.Fwd = false, nil, nil; f(ly) }
	}
	cp := func(names []string, oneLine bool) func(*layer) {
		return func(ly *layer) { ly.Fwd.Copy, ly.Fwd.CopyOneLine = append([]string(nil), names...), oneLine }
	}
	bl := func(text string, n int) func(*layer) {
		return func(ly *layer) { ly.Fwd.BodyLimitText, ly.Fwd.BodyLimit = text, n }
	}
	mh := func(n int) func(*layer) {
		return func(ly *layer) { ly.MaxHeaders, ly.TightHdrs = n, n > 0 && n < 4096 }
	}
	return []chgDim{
		{name: "me", title: "match method", applies: all, carrier: fwdFull, alt: "put", vals: []chgVal{
			{label: "post", set: func(ly *layer) { ly.Method = "" }},
			{label: "put", set: func(ly *layer) { ly.Method = http.MethodPut }}}},
		{name: "rl", title: "rate_limit (route / ingress)", applies: all, carrier: fwdFull, alt: "wide", vals: []chgVal{
			{label: "none", set: func(ly *layer) { ly.RL, ly.GlobalRL = "", false }},
			{label: "wide", set: func(ly *layer) { ly.RL, ly.GlobalRL = "wide", false }},
			{label: "tight", set: func(ly *layer) { ly.RL, ly.GlobalRL = "tight", false }},
			{label: "global", set: func(ly *layer) { ly.RL, ly.GlobalRL = "", true }}}},
		{name: "au", title: "auth kind", applies: all, carrier: func() *layer { return &layer{} }, vals: []chgVal{
			{label: "none", set: auth(func(*layer) {})},
			{label: "basic", set: auth(func(ly *layer) { ly.Basic = true })},
			{label: "hmac", set: auth(func(ly *layer) { ly.HMAC = &hmacConf{} })},
			{label: "hmacc", set: auth(func(ly *layer) {
				ly.HMAC = &hmacConf{Block: true, Sig: "X-Hub-Signature-256", TS: "X-Ts", Nonce: "X-Request-Id", Tolerance: "10m"}
			})},
			{label: "fwd", set: auth(func(ly *layer) { ly.Fwd = &fwdConf{} })},
			{label: "fwdc", set: auth(func(ly *layer) { ly.Fwd = fwdFull().Fwd })}}},
		{name: "to", title: "auth forward timeout", applies: hasFwd, carrier: fwdFull, alt: "5s", vals: []chgVal{
			{label: "none", set: func(ly *layer) { ly.Fwd.Timeout = "" }},
			{label: "5s", set: func(ly *layer) { ly.Fwd.Timeout = "5s" }},
			{label: "3s", set: func(ly *layer) { ly.Fwd.Timeout = "3s" }}}},
		{name: "cp", title: "auth forward copy_headers", applies: hasFwd, alt: "one",
			carrier: func() *layer { return &layer{Fwd: &fwdConf{BodyLimitText: "4", BodyLimit: 4}} },
			vals: []chgVal{
				{label: "none", set: cp(nil, false)},
				{label: "one", set: cp([]string{"X-User-Id"}, false)},
				{label: "two1", set: cp(copy2, true)},
				{label: "two", set: cp(copy2, false)},
				{label: "four", set: cp([]string{"x-user-id", "X-Org-Id", "X-Absent", "X-Other"}, false)}}},
		{name: "bl", title: "auth forward body_limit", applies: hasFwd, alt: "16",
			carrier: func() *layer { return &layer{Fwd: &fwdConf{Copy: append([]string(nil), copy2...)}} },
			vals: []chgVal{
				{label: "none", set: bl("", 0)},
				{label: "off", set: bl("off", 0)},
				{label: "0", set: bl("0", 0)},
				{label: "1", set: bl("1", 1)},
				{label: "4", set: bl("4", 4)},
				{label: "16", set: bl("16", 16)},
				{label: "64k", set: bl("64kb", 65536), thorough: true}}},
		{name: "hb", title: "auth hmac form", applies: hasHMAC, carrier: hm, vals: []chgVal{
			{label: "short", set: func(ly *layer) { ly.HMAC.Block = false }},
			{label: "block", set: func(ly *layer) { ly.HMAC.Block = true }}}},
		{name: "hs", title: "auth hmac signature_header", applies: hasHMAC, carrier: hm, vals: []chgVal{
			{label: "def", set: func(ly *layer) { ly.HMAC.Sig = "" }},
			{label: "hub", set: func(ly *layer) { ly.HMAC.Sig = "X-Hub-Signature-256" }}}},
		{name: "ht", title: "auth hmac timestamp_header", applies: hasHMAC, carrier: hm, vals: []chgVal{
			{label: "def", set: func(ly *layer) { ly.HMAC.TS = "" }},
			{label: "xts", set: func(ly *layer) { ly.HMAC.TS = "X-Ts" }}}},
		{name: "hn", title: "auth hmac nonce_header", applies: hasHMAC, carrier: hm, vals: []chgVal{
			{label: "def", set: func(ly *layer) { ly.HMAC.Nonce = "" }},
			{label: "rid", set: func(ly *layer) { ly.HMAC.Nonce = "X-Request-Id" }}}},
		{name: "hl", title: "auth hmac tolerance", applies: hasHMAC, carrier: hm, vals: []chgVal{
			{label: "none", set: func(ly *layer) { ly.HMAC.Tolerance = "" }},
			{label: "5m", set: func(ly *layer) { ly.HMAC.Tolerance = "5m" }},
			{label: "10m", set: func(ly *layer) { ly.HMAC.Tolerance = "10m" }}}},
		{name: "mb", title: "max_body", applies: all, carrier: fwdFull, alt: "6", vals: []chgVal{
			{label: "none", set: func(ly *layer) { ly.MaxBody = 0 }},
			{label: "3", set: func(ly *layer) { ly.MaxBody = 3 }},
			{label: "6", set: func(ly *layer) { ly.MaxBody = 6 }}}},
		{name: "mh", title: "max_headers", applies: all, alt: "4k",
			carrier: func() *layer { return &layer{Fwd: &fwdConf{Copy: []string{"X-User-Id"}}} },
			vals: []chgVal{
				{label: "none", set: mh(0)},
				{label: "24", set: mh(24), thorough: true},
				{label: "48", set: mh(48)},
				{label: "96", set: mh(96), thorough: true},
				{label: "4k", set: mh(4096)}}},
		{name: "sg", title: "deliver sign hmac (push)", applies: all, carrier: fwdFull, vals: []chgVal{
			{label: "none", set: func(ly *layer) { ly.Sign = "" }},
			{label: "def", set: func(ly *layer) { ly.Sign = "default" }},
			{label: "cus", set: func(ly *layer) { ly.Sign = "custom" }}}},
	}
}

func (d *chgDim) val(label string) *chgVal {
	for i := range d.vals {
		if d.vals[i].label == label {
			return &d.vals[i]
		}
	}
	panic("c07: dimension " + d.name + " has no value " + label)
}

// text: the route's configuration as the harness writes it (the identity of a configuration).
func (ly *layer) text() string { return ly.directives() }

// ---------------------------------------------------------------- the histories

func buildChgKinds() []*chgKind {
	var out []*chgKind
	add := func(family, class, id string, thorough bool, lys ...*layer) *chgKind {
		k := &chgKind{id: family + "_" + id, family: family, class: fmt.Sprintf("%s_%s/%d", family, class, len(lys)-1), thorough: thorough}
		for _, ly := range lys {
			if ly == nil {
				k.steps = append(k.steps, chgStep{mgmt: true})
				continue
			}
			c := ly.clone()
			c.Key, c.Reduced, c.Thorough = k.id, false, false // the forward-auth URL is the route's, the same under every configuration
			k.steps = append(k.steps, chgStep{ly: c})
		}
		out = append(out, k)
		return k
	}
	with := func(base *layer, v *chgVal) *layer {
		c := base.clone()
		v.set(c)
		return c
	}
	dims := chgDims()

	// ---- x: every ordered pair (thorough: every chain of two changes) of values of one dimension on its carrier
	for di := range dims {
		d := &dims[di]
		for i := range d.vals {
			for j := range d.vals {
				if i == j {
					continue
				}
				v1, v2 := &d.vals[i], &d.vals[j]
				add("x", d.name, d.name+"_"+v1.label+"_"+v2.label, v1.thorough || v2.thorough, with(d.carrier(), v1), with(d.carrier(), v2))
				for l := range d.vals {
					if l == j {
						continue
					}
					v3 := &d.vals[l]
					add("x", d.name, d.name+"_"+v1.label+"_"+v2.label+"_"+v3.label, true, with(d.carrier(), v1), with(d.carrier(), v2), with(d.carrier(), v3))
				}
			}
		}
	}

	// ---- y: cross-dimension chains A -> A' -> B on the forward-auth carrier (every ordered pair of dimensions that have
	// an alternative value there; outbound signing is not mixed with other options: see resolve)
	for i := range dims {
		for j := range dims {
			d1, d2 := &dims[i], &dims[j]
			if i == j || d1.alt == "" || d2.alt == "" {
				continue
			}
			a := &layer{Fwd: &fwdConf{BodyLimitText: "4", BodyLimit: 4, Copy: []string{"X-User-Id", "x-org-id"}}}
			a1 := with(a, d1.val(d1.alt))
			b := with(a1, d2.val(d2.alt))
			add("y", d1.name+"_"+d2.name, d1.name+"_"+d2.name, true, a, a1, b)
		}
	}

	// ---- t: every single-option pair that ends in a route kind of the layer table
	for _, b := range layerTable() {
		b := b
		if b.Fwd != nil && !b.Fwd.allows() {
			continue // an auth service that refuses everything: nothing is stored under B, whatever was in force before
		}
		for di := range dims {
			d := &dims[di]
			if !d.applies(&b) {
				continue
			}
			for vi := range d.vals {
				a := with(&b, &d.vals[vi])
				if a.text() == b.text() || (d.name == "au" && authKind(a) == authKind(&b)) {
					continue
				}
				add("t", d.name, b.Key+"_"+d.name+"_"+d.vals[vi].label, true, a, &b)
			}
		}
	}

	// ---- m: a management mutation (labels only) between boot and sweep
	for _, a := range layerTable() {
		a := a
		add("m", "mgmt", a.Key, a.Reduced || a.Thorough, &a, nil)
	}

	for _, k := range out {
		k.resolve()
	}
	return out
}

// resolve computes which step is in force after every step. Everything the dimensions change is documented as
// live-reloadable, except deliver signing: a reload whose deliver block differs from the running one is rejected (push
// flows; the pull routes of a kind have no deliver block, there the file does not change at all). To keep one reading
// per kind, a history that changes signing changes nothing else (checked here).
func (k *chgKind) resolve() {
	k.force = make([]int, len(k.steps))
	k.refused = make([]bool, len(k.steps))
	run := 0
	for s := 1; s < len(k.steps); s++ {
		st := k.steps[s]
		switch {
		case st.mgmt:
		case st.ly.Sign != k.steps[run].ly.Sign:
			k.refused[s] = true
			a, b := *st.ly.clone(), *k.steps[run].ly.clone()
			a.Sign, b.Sign = "", ""
			if a.text() != b.text() {
				panic("c07: history " + k.id + " changes outbound signing together with another option")
			}
		default:
			run = s
		}
		k.force[s] = run
	}
}

var chgKinds = buildChgKinds()

// registerChgKinds makes every history's route kind names known: "C-<id>" (all steps applied) and "C-<id>@<n>" (after n
// steps) share the paths; each name's layer is the configuration in force then.
func registerChgKinds() {
	for _, k := range chgKinds {
		name := k.route()
		if _, dup := chgByRoute[name]; dup {
			panic("c07: duplicate history " + k.id)
		}
		chgByRoute[name] = k
		ri := routeInfo{pull: "/" + name, endpoint: "/e" + name, push: "/d" + name, url: "http://192.0.2.5/hook-" + k.id}
		for n := range k.steps {
			routes[k.routeAfter(n)] = ri
			layerByRoute[k.routeAfter(n)] = k.steps[k.force[n]].ly
		}
	}
}

func (k *chgKind) describe() string {
	var s []string
	for i, st := range k.steps {
		switch {
		case st.mgmt:
			s = append(s, fmt.Sprintf("step %d: PUT /applications/%s/endpoints/%s {route} through the Admin API", i, chgApp, k.id))
		case i == 0:
			s = append(s, "boot: "+strings.Join(strings.Fields(st.ly.text()), " "))
		default:
			s = append(s, fmt.Sprintf("step %d: reload to: %s", i, strings.Join(strings.Fields(st.ly.text()), " ")))
		}
	}
	return strings.Join(s, " | ")
}

// ---------------------------------------------------------------- cases

// chgHeaderSets: no header; a sensitive header + an entity header; a repeated name (comma join). The grouped families of
// the thorough tier: the last two in one set. The other histories in the thorough tier: also the mixed set of the
// layers sweep.
func chgHeaderSets(thorough, grouped bool) []lset {
	switch {
	case grouped:
		return []lset{mkSet(), mkSet("3", "ce", "0", "1")}
	case thorough:
		return []lset{mkSet(), mkSet("3", "ce"), mkSet("0", "1"), mkSet("ct", "ce", "ex", "0", "3", "cl2")}
	}
	return []lset{mkSet(), mkSet("3", "ce"), mkSet("0", "1")}
}

// sizes: the body sizes around every limit of every configuration of the history.
func (k *chgKind) sizes() []int {
	set := map[int]bool{}
	for _, st := range k.steps {
		if st.ly != nil {
			for _, n := range st.ly.sizes() {
				set[n] = true
			}
		}
	}
	var out []int
	for n := range set {
		if n <= 70000 { // 4*limit+1 of the largest body_limit: the three sizes around it are enough
			out = append(out, n)
		}
	}
	sortInts(out)
	return out
}

func sortInts(a []int) {
	for i := 1; i < len(a); i++ {
		for j := i; j > 0 && a[j] < a[j-1]; j-- {
			a[j], a[j-1] = a[j-1], a[j]
		}
	}
}

func (k *chgKind) cases(thorough bool) []mcase {
	var cs []mcase
	early := []lset{mkSet("3", "ce"), mkSet()}
	for n := 0; n < len(k.steps)-1; n++ { // requests before step n+1: the route is in use under every configuration
		for e, frame := range []string{"cl", "chunked"} {
			hs := early[e]
			cs = append(cs, mcase{Sweep: "change", In: "ingress", Route: k.routeAfter(n), Frame: frame, Hdrs: hs.lines, Atoms: hs.label, Gen: "mix", N: 1})
		}
	}
	route := k.route()
	ly := layerOf(route)
	for _, hs := range chgHeaderSets(thorough, k.grouped()) {
		frames := []string{"cl", "chunked"}
		if hs.label == "none" {
			frames = append(frames, frameTrailer)
		}
		for _, frame := range frames {
			for _, n := range k.sizes() {
				if n > 4096 && hs.label != "none" {
					continue // large bodies with one header set
				}
				cs = append(cs, mcase{Sweep: "change", In: "ingress", Route: route, Frame: frame, Hdrs: hs.lines, Atoms: hs.label, Gen: "mix", N: n})
			}
			if hasAtom(hs, "ce") && frame == "cl" {
				cs = append(cs, mcase{Sweep: "change", In: "ingress", Route: route, Frame: frame, Hdrs: hs.lines, Atoms: hs.label, BodyHex: gzipBodyHex})
			}
		}
	}
	if ly.Basic || ly.HMAC != nil {
		for _, cred := range []string{"bad", "none"} {
			for _, frame := range []string{"cl", "chunked"} {
				cs = append(cs, mcase{Sweep: "change", In: "ingress", Route: route, Frame: frame, Hdrs: []hdr{atoms[0], entityAtoms["ce"]}, Atoms: "0.ce", BodyHex: "6100ff", Cred: cred})
			}
		}
	}
	return cs
}

// chgGroup: histories per application in the grouped families. The value pairs (x, one change) and the management
// mutations (m) get an application each: there the reload follows the boot directly, and the file the application
// rewrites holds one history's route. The thorough tier's chains and table pairs (x with two changes, y, t) run four to
// an application, one after the other on their own routes - every reload still changes one option of one route in the
// whole file - and a failing case is replayed alone in a fresh application first, with its batch otherwise.
const chgGroup = 4

func (k *chgKind) grouped() bool {
	return k.family == "y" || k.family == "t" || (k.family == "x" && len(k.steps) > 2)
}

// changeCases: the histories of the tier as case batches (never split: a route's cases stay below the pull batch size).
func changeCases(thorough bool) [][]mcase {
	var out [][]mcase
	var group []mcase
	n := 0
	for _, k := range chgKinds {
		if k.thorough && !thorough {
			continue
		}
		cs := k.cases(thorough)
		if !k.grouped() {
			for len(cs) > 0 { // a long list: split, every part runs the whole history
				m := min(batchMax, len(cs))
				out = append(out, cs[:m])
				cs = cs[m:]
			}
			continue
		}
		if len(cs) > batchMax {
			panic("c07: history " + k.id + " has more cases than one dequeue hands out")
		}
		group = append(group, cs...)
		if n++; n%chgGroup == 0 {
			out = append(out, group)
			group = nil
		}
	}
	if len(group) > 0 {
		out = append(out, group)
	}
	return out
}

// changeSummary goes into the evidence: histories per family, and the dimension values.
func changeSummary(thorough bool) map[string]any {
	fam := map[string]int{}
	for _, k := range chgKinds {
		if k.thorough && !thorough {
			continue
		}
		fam[k.family]++
	}
	dims := map[string]string{}
	for _, d := range chgDims() {
		var v []string
		for _, x := range d.vals {
			l := x.label
			if x.thorough {
				l += "(thorough)"
			}
			v = append(v, l)
		}
		carrier := strings.Join(strings.Fields(d.carrier().text()), " ")
		if carrier == "" {
			carrier = "(a route without options)"
		}
		dims[d.name+": "+d.title] = strings.Join(v, " ") + " on carrier: " + carrier
	}
	return map[string]any{"histories_by_family": fam, "dimension_values": dims}
}

// ---------------------------------------------------------------- driving a history

// confLayer: the configuration the file (to be written) has for a route kind.
func (x *run) confLayer(rk string) *layer {
	if k := chgOf(rk); k != nil {
		return k.steps[x.chgText[chgBase(rk)]].ly
	}
	return layerOf(rk)
}

func (x *run) hasChange() bool {
	for _, c := range x.cases {
		if chgOf(c.Route) != nil {
			return true
		}
	}
	return false
}

func (x *run) configText() string {
	layerRoutes, ingressExtra := x.layerDSL()
	return dsl(x.slot, x.backend, x.q.dsl()+layerRoutes, ingressExtra)
}

// advance applies the steps of the history of rk until n steps are applied.
func (x *run) advance(rk string, n int) bool {
	k := chgOf(rk)
	if k == nil {
		return true
	}
	base := chgBase(rk)
	if x.chgDone == nil {
		x.chgDone = map[string]int{}
	}
	if n < x.chgDone[base] {
		x.infra("history %s: a request for the configuration after %d steps comes after step %d", k.id, n, x.chgDone[base])
		return false
	}
	for x.chgDone[base] < n {
		s := x.chgDone[base] + 1
		if !x.applyStep(k, base, s) {
			return false
		}
		x.chgDone[base] = s
	}
	return true
}

func (x *run) applyStep(k *chgKind, base string, s int) bool {
	a := x.in.a
	defer a.VerifForwardAuthClient(x.authClient()) // a reload builds new authenticators: they talk to the same auth service
	if k.steps[s].mgmt {
		body := []byte(fmt.Sprintf(`{"route":%q}`, x.routeOf(mcase{Route: base})))
		rec, err := serve(a.Admin, rawJSON("PUT", "/applications/"+chgApp+"/endpoints/"+k.id, "X-Hookaido-Audit-Reason: c07\r\n", body), "192.0.2.77:4000")
		if err != nil || rec.Code < 200 || rec.Code > 299 {
			x.infra("history %s: management mutation answered %v %v", k.id, err, rec)
			return false
		}
		x.res.count("change_management_mutations", 1)
		return true
	}
	if x.chgText == nil {
		x.chgText = map[string]int{}
	}
	prev := x.chgText[base]
	x.chgText[base] = s
	text := x.configText()
	// the harness's reading of the step against the compiled text (an infrastructure error otherwise: the reference
	// would be computed for a route that is configured differently); compiled by the harness, not taken from the runtime
	cfg, err := config.Parse([]byte(text))
	if err != nil {
		x.infra("history %s step %d: the generated configuration does not parse: %v", k.id, s, err)
		return false
	}
	compiled, res := config.Compile(cfg)
	if !res.OK {
		x.infra("history %s step %d: the generated configuration does not compile: %s", k.id, s, config.FormatValidationText(res))
		return false
	}
	if !x.layersMatch(compiled, false) {
		return false
	}
	if err := os.WriteFile(a.ConfigPath, []byte(text), 0o644); err != nil {
		x.infra("write config: %v", err)
		return false
	}
	ok := a.Reload("c07-change")
	want := !(x.flow == flowPush && k.refused[s])
	if ok != want {
		x.infra("history %s step %d (%s): Reload answered %v; docs/configuration.md (Hot Reload) says %v for this change in flow %s", k.id, s, k.describe(), ok, want, x.flow)
		return false
	}
	if ok {
		x.res.count("change_reloads_applied", 1)
		return true
	}
	// rejected (restart required): the previous configuration stays active; the operator puts the file back
	x.res.count("change_reloads_rejected_restart_required", 1)
	x.chgText[base] = prev
	if err := os.WriteFile(a.ConfigPath, []byte(x.configText()), 0o644); err != nil {
		x.infra("write config: %v", err)
		return false
	}
	return true
}

// finishHistories applies the remaining steps of every history of the batch (a batch without requests after the last step).
func (x *run) finishHistories() bool {
	for _, rk := range x.usedRoutes() {
		if k := chgOf(rk); k != nil && !x.advance(rk, len(k.steps)-1) {
			return false
		}
	}
	return true
}
