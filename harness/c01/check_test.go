package c01

import (
	"fmt"
	"os"
	"testing"
	"time"

	"github.com/nuetzliches/hookaido/internal/verifkit/crashkit"
	"github.com/nuetzliches/hookaido/internal/verifkit/runner"
)

func TestCheck(t *testing.T) {
	crashkit.MaybeChildT(t)
	r := runner.Start("C01", "fault_enumeration")
	scens := []crashkit.Scenario{{Name: "open+app", Script: "app", ArmEarly: true}, {Name: "wal", Script: "wal"}, {Name: "limits", Script: "limits"}}
	if r.Thorough() {
		scens = append(scens, crashkit.Scenario{Name: "lease", Script: "lease"})
	}
	genLen := runner.Pick(r, 2, 4)
	// retention part first (in-process, own budget); the crash part's budget starts after it
	retStart := time.Now()
	if os.Getenv("VERIF_C01_NORET") == "" { // development knob
		retentionPart(r, t)
	}
	crashkit.Deadline = r.Deadline(80*time.Second, 14*time.Minute).Add(time.Since(retStart))
	for i := 0; i < crashkit.GenCount(genLen); i++ {
		scens = append(scens, crashkit.Scenario{Name: fmt.Sprintf("gen%d-%d", genLen, i), Script: fmt.Sprintf("gen:%d:%d", genLen, i)})
	}
	if os.Getenv("VERIF_C01_ONLYRET") != "" { // development knob
		r.NotExhaustive("development run: retention part only")
		r.Finish()
	}
	if os.Getenv("VERIF_C01_ONLYCONC") == "" { // development knob
		crashkit.Enumerate(r, scens)
	}
	// concurrent clients: every schedule x every crash point of that schedule
	if os.Getenv("VERIF_C01_NOCONC") == "" {
		// preemption-bounded: an unbounded (sleep-set reduced) enumeration at handler level was tried and is dominated by
		// orders of metric/atomic operations (4 365 schedules for two clients, 150 k distinct pairs)
		crashkit.EnumerateConc(r, "conc-producers", runner.Pick(r, 1, 2), runner.Pick(r, 40*time.Second, 4*time.Minute))
		crashkit.EnumerateConc(r, "conc-publishers", runner.Pick(r, 2, 3), runner.Pick(r, 40*time.Second, 4*time.Minute))
		crashkit.EnumerateConc(r, "conc-publishers-overlap", runner.Pick(r, 2, 3), runner.Pick(r, 40*time.Second, 4*time.Minute))
		crashkit.EnumerateConc(r, "conc-consumer", runner.Pick(r, 1, 2), runner.Pick(r, 40*time.Second, 4*time.Minute))
		crashkit.EnumerateConc(r, "conc-prune", runner.Pick(r, 2, 3), runner.Pick(r, 100*time.Second, 6*time.Minute))
		if r.Thorough() {
			crashkit.EnumerateConc(r, "conc-three", 1, 4*time.Minute)
		}
	}
	r.Assume("process death only (page cache survives): crash points are 'before each file-mutating syscall SQLite issues' (write/pwrite64/fsync/ftruncate/unlink/rename/openat|O_CREAT ...); power loss (dropping un-fsynced writes) is not modelled")
	r.Assume("acknowledgement = first WriteHeader/Write on the ResponseWriter (earliest possible instant)")
	r.Assume("concurrent part: 2-3 clients under the controlled scheduler (scheduling points = lock/atomic/connection operations; data-race freedom is the side condition checked by the -race passes of C03/C18); a (schedule, crash point) pair whose execution prefix equals one already run is not repeated")
	r.Set("rule", "for each scripted history (ingress on a pull route and on a 2-target fan-out route, Admin publish incl. a refused duplicate batch, pull dequeue/ack/nack/dead-letter/batch ack, explicit WAL checkpoints; a bounded queue (max_depth 3, reject) with refused ingress, a fan-out and a publish batch that find one free slot for two messages; crash points inside the first open + migrate of the database included; thorough: also a lease-centred history; plus EVERY history of length 2 (thorough: 4, within the time budget) over {ingress pull, ingress fan-out, publish 2 items, dequeue 2, ack, nack, dead-letter the oldest unused lease}) the child process is SIGKILLed before its n-th file-mutating SQLite syscall for every n; the parent restarts through the production boot path and requires: database opens, integrity_check ok, counters consistent, contents equal one of the admissible outcomes (acknowledged operations exactly, the one unacknowledged operation applied / not applied / fan-out prefix), every unsettled message offered again exactly once after lease expiry with identical payload and headers; concurrent part: for the scripts conc-producers (pull ingress + fan-out ingress against publish + ingress), conc-publishers (two publish batches racing, <= 2 preemptions), conc-publishers-overlap (two publish batches whose id sets intersect without being equal), conc-consumer (two ingress against dequeue/ack/dequeue/nack), conc-prune (the same with the clock passing the prune interval between the two ingress requests, so that the retention pruner runs inside a request that overlaps the settlements) and, thorough, conc-three (fan-out producer, publisher, consumer with dead-letter) every schedule (quick: <= 1 preemption; thorough: <= 2, three clients <= 1) x every crash point of that schedule, with one in-flight operation per client admitted; non-trivial = distinct (scenario, last started operation, inside/between) classes and distinct sets of in-flight operations")
	r.Finish()
}
