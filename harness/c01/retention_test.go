package c01

// Retention part of C01: the acknowledged histories of the crash part all run under ONE store configuration (the
// default retention). Here the dimension is the retention configuration itself x time passing beyond the prune interval:
// for every retention configuration of a small product and every history over the traffic alphabet + "the clock passes
// the prune interval", the real application (production boot path, SQLite backend, virtual clock of a synctest bubble)
// runs the history, is shut down and booted again on the same database. The reference is written from the property
// statement and docs/configuration.md: an acknowledged message may be absent only if a retention rule that is SWITCHED
// ON covers it (queued older than queue_retention.max_age, dead older than dlq_retention.max_age, dead beyond
// dlq_retention.max_depth); a rule that is "off" never removes anything.

import (
	"bytes"
	"database/sql"
	"encoding/base64"
	"encoding/json"
	"fmt"
	"net/http"
	"net/http/httptest"
	"os"
	"path/filepath"
	"runtime"
	"runtime/debug"
	"sort"
	"strings"
	"sync"
	"testing"
	"testing/synctest"
	"time"

	_ "modernc.org/sqlite"

	"github.com/nuetzliches/hookaido/internal/app"
	"github.com/nuetzliches/hookaido/internal/queue"
	"github.com/nuetzliches/hookaido/internal/verifkit/runner"
)

// ---- configuration domain ------------------------------------------------------------------------------------------

// documented defaults (docs/configuration.md)
const (
	docQueueMaxAge = 7 * 24 * time.Hour
	docDLQMaxAge   = 30 * 24 * time.Hour
	docDLQMaxDepth = 10000
	docPruneEvery  = 5 * time.Minute
)

type ageSetting struct {
	spelled string        // "" = block/directive absent (documented default)
	value   time.Duration // 0 = off
}

type depthSetting struct {
	spelled string
	value   int // 0 = off
}

type retCfg struct {
	queueAge, dlqAge, deliveredAge ageSetting
	dlqDepth                       depthSetting
}

func orDef(s string) string {
	if s == "" {
		return "default"
	}
	return s
}

func (c retCfg) name() string {
	return fmt.Sprintf("queue_max_age=%s,dlq_max_age=%s,dlq_max_depth=%s,delivered_max_age=%s", orDef(c.queueAge.spelled), orDef(c.dlqAge.spelled), orDef(c.dlqDepth.spelled), orDef(c.deliveredAge.spelled))
}

func (c retCfg) text(port int) string {
	var b strings.Builder
	fmt.Fprintf(&b, "ingress   { listen \"127.0.0.1:%d\" }\npull_api  { listen \"127.0.0.1:%d\"  auth token \"raw:g1\" }\nadmin_api { listen \"127.0.0.1:%d\" }\n", port, port+1, port+2)
	if c.queueAge.spelled != "" {
		fmt.Fprintf(&b, "queue_retention { max_age %s }\n", c.queueAge.spelled)
	}
	if c.dlqAge.spelled != "" || c.dlqDepth.spelled != "" {
		b.WriteString("dlq_retention {")
		if c.dlqAge.spelled != "" {
			fmt.Fprintf(&b, " max_age %s", c.dlqAge.spelled)
		}
		if c.dlqDepth.spelled != "" {
			fmt.Fprintf(&b, " max_depth %s", c.dlqDepth.spelled)
		}
		b.WriteString(" }\n")
	}
	if c.deliveredAge.spelled != "" {
		fmt.Fprintf(&b, "delivered_retention { max_age %s }\n", c.deliveredAge.spelled)
	}
	b.WriteString("/p { pull { path /e } }\n/f { deliver \"https://t1.example/h\" {}  deliver \"https://t2.example/h\" {} }\n")
	return b.String()
}

// retConfigs: the full 3 x 3 x 3 x 2 product (thorough); the quick tier keeps the configurations in which at most
// two of the four settings differ from the documented default (26 of 54), so that it completes within its budget.
func retConfigs(maxNonDefault int) []retCfg {
	var out []retCfg
	for _, q := range []ageSetting{{"", docQueueMaxAge}, {"off", 0}, {"10m", 10 * time.Minute}} {
		for _, d := range []ageSetting{{"", docDLQMaxAge}, {"off", 0}, {"10m", 10 * time.Minute}} {
			for _, n := range []depthSetting{{"", docDLQMaxDepth}, {"off", 0}, {"1", 1}} {
				for _, del := range []ageSetting{{"", 0}, {"10m", 10 * time.Minute}} {
					nd := 0
					for _, written := range []string{q.spelled, d.spelled, n.spelled, del.spelled} {
						if written != "" {
							nd++
						}
					}
					if nd > maxNonDefault {
						continue
					}
					out = append(out, retCfg{queueAge: q, dlqAge: d, dlqDepth: n, deliveredAge: del})
				}
			}
		}
	}
	return out
}

// ---- histories ------------------------------------------------------------------------------------------------------

var retAlphabet = []string{"ingress-pull", "ingress-fanout", "publish", "dequeue", "ack", "nack", "nackdead", "clock"}

const (
	retClockStep = docPruneEvery + time.Minute // "time passes beyond the prune interval"
	retLeaseTTL  = "60m"                       // longer than any history (leases do not run out inside one)
	retAfter     = 61 * time.Minute            // after the restart: every lease of the history has expired
)

var retFanTargets = []string{"https://t1.example/h", "https://t2.example/h"}

// retHistories: every sequence of 1..maxLen operations in which a settlement (ack/nack/nackdead) only appears when an
// earlier dequeue can have handed out a lease that no earlier settlement used (a settlement without a lease would be
// skipped, i.e. the history would equal a shorter one).
func retHistories(maxLen int) [][]string {
	var out [][]string
	var rec func(h []string, pullMsgs, leases int)
	rec = func(h []string, pullMsgs, leases int) {
		if len(h) > 0 {
			out = append(out, append([]string(nil), h...))
		}
		if len(h) == maxLen {
			return
		}
		for _, k := range retAlphabet {
			p, l := pullMsgs, leases
			switch k {
			case "ingress-pull":
				p++
			case "publish":
				p += 2
			case "dequeue":
				n := min(2, p)
				p -= n
				l += n
			case "ack", "nackdead":
				if l == 0 {
					continue
				}
				l--
			case "nack":
				if l == 0 {
					continue
				}
				l--
				p++
			}
			rec(append(h, k), p, l)
		}
	}
	rec(nil, 0, 0)
	// shorter histories first: a budget that ends the part early has then still seen every operation under every configuration
	sort.SliceStable(out, func(i, j int) bool { return len(out[i]) < len(out[j]) })
	return out
}

// ---- reference ------------------------------------------------------------------------------------------------------

type retMsg struct {
	key, route, target, payload, id string
	hdrK, hdrV                      string
	at                              time.Time // instant of the acknowledged request
	state                           string    // queued | leased | dead | acked
	deadAt                          time.Time
}

type retModel struct {
	cfg  retCfg
	msgs map[string]*retMsg
	keys []string
}

func (m *retModel) add(x *retMsg) {
	m.msgs[x.key] = x
	m.keys = append(m.keys, x.key)
}

// mayBeAbsent: does a retention rule that is switched on cover the message at some instant up to t?
func (m *retModel) mayBeAbsent(x *retMsg, t time.Time) (bool, string) {
	liveEnd := t
	if x.state == "dead" {
		liveEnd = x.deadAt
	}
	if a := m.cfg.queueAge.value; a > 0 && liveEnd.Sub(x.at) >= a {
		return true, "queue_retention.max_age"
	}
	if x.state == "dead" {
		if a := m.cfg.dlqAge.value; a > 0 && t.Sub(x.at) >= a {
			return true, "dlq_retention.max_age"
		}
		if n := m.cfg.dlqDepth.value; n > 0 {
			newer := 0
			for _, y := range m.msgs {
				if y != x && y.state == "dead" && !y.at.Before(x.at) {
					newer++
				}
			}
			if newer >= n {
				return true, "dlq_retention.max_depth"
			}
		}
	}
	return false, ""
}

// ruleSettings names the settings of the rules that speak about a message of this state (part of the violation key).
func (m *retModel) ruleSettings(x *retMsg) string {
	if x.state == "dead" {
		return fmt.Sprintf("dlq_max_age=%s,dlq_max_depth=%s", orDef(m.cfg.dlqAge.spelled), orDef(m.cfg.dlqDepth.spelled))
	}
	return "queue_max_age=" + orDef(m.cfg.queueAge.spelled)
}

// ---- one run ---------------------------------------------------------------------------------------------------------

type retOutcome struct {
	infra   string
	key     string // violation key ("" = fine)
	why     string
	acks    int // acknowledged producing requests
	settled int // acknowledged settlements
	skipped int
	pruned  int // messages a switched-on rule allowed to remove and that were in fact gone
	kept    int // messages required (and found) after the restart
	offered int
	classes []string
}

func retPost(path, hdrs string, body []byte) *http.Request {
	r := httptest.NewRequest("POST", path, bytes.NewReader(body))
	r.Host = "h"
	r.RemoteAddr = "10.9.8.7:6"
	for _, l := range strings.Split(hdrs, "\n") {
		if k, v, ok := strings.Cut(l, ": "); ok {
			r.Header.Set(k, v)
		}
	}
	return r
}

type retRow struct {
	id, route, target, state string
	payload                  []byte
	headers                  map[string]string
}

func retRows(dbPath string) ([]retRow, string) {
	db, err := sql.Open("sqlite", dbPath)
	if err != nil {
		return nil, "open: " + err.Error()
	}
	defer db.Close()
	var integ string
	if err := db.QueryRow("PRAGMA integrity_check").Scan(&integ); err != nil || integ != "ok" {
		return nil, fmt.Sprintf("integrity_check = %q %v", integ, err)
	}
	rs, err := db.Query("SELECT id, route, target, state, payload, COALESCE(headers_json,'') FROM queue_items ORDER BY rowid")
	if err != nil {
		return nil, "select: " + err.Error()
	}
	defer rs.Close()
	var out []retRow
	for rs.Next() {
		var r retRow
		var hj string
		if err := rs.Scan(&r.id, &r.route, &r.target, &r.state, &r.payload, &hj); err != nil {
			return nil, "scan: " + err.Error()
		}
		if hj != "" {
			if err := json.Unmarshal([]byte(hj), &r.headers); err != nil {
				return nil, "headers_json of " + r.id + " does not parse"
			}
		}
		out = append(out, r)
	}
	return out, ""
}

// retClass: dead-lettered, or still to be delivered (queued or leased), or anything else.
func retClass(state string) string {
	switch state {
	case "dead":
		return "dead"
	case "queued", "leased":
		return "live"
	}
	return "other:" + state
}

func (m *retModel) find(id, route, target string, payload []byte) *retMsg {
	if x, ok := m.msgs["id:"+id]; ok {
		return x
	}
	return m.msgs[route+"|"+target+"|"+string(payload)]
}

func retRun(t *testing.T, cfg retCfg, hist []string, port int, dir string) retOutcome {
	var out retOutcome
	synctest.Test(t, func(t *testing.T) {
		os.RemoveAll(dir)
		a, err := app.VerifBoot(app.VerifBootOptions{Dir: dir, ConfigText: cfg.text(port)})
		if err != nil {
			out.infra = "boot: " + err.Error()
			return
		}
		m := &retModel{cfg: cfg, msgs: map[string]*retMsg{}}
		type lease struct {
			id   string
			msg  *retMsg
			used bool
		}
		var leases []*lease
		bad := func(key, why string) {
			if out.key == "" {
				out.key, out.why = key, why
			}
		}
		pull := func(op string, body any) *httptest.ResponseRecorder {
			b, _ := json.Marshal(body)
			w := httptest.NewRecorder()
			a.Pull.ServeHTTP(w, retPost("/e/"+op, "Authorization: Bearer g1\nContent-Type: application/json", b))
			return w
		}
		for i, k := range hist {
			now := time.Now()
			switch k {
			case "ingress-pull", "ingress-fanout":
				route, targets := "/p", []string{"pull"}
				if k == "ingress-fanout" {
					route, targets = "/f", retFanTargets
				}
				payload := fmt.Sprintf("b%d", i)
				w := httptest.NewRecorder()
				a.Ingress.ServeHTTP(w, retPost(route, "X-Req: "+payload, []byte(payload)))
				if w.Code != http.StatusAccepted {
					out.infra = fmt.Sprintf("ingress %s answered %d in a configuration without limits", route, w.Code)
					a.Shutdown()
					return
				}
				out.acks++
				for _, tg := range targets {
					key := route + "|" + tg + "|" + payload
					m.add(&retMsg{key: key, route: route, target: tg, payload: payload, hdrK: "X-Req", hdrV: payload, at: now, state: "queued"})
				}
			case "publish":
				type it struct {
					ID         string            `json:"id"`
					Route      string            `json:"route"`
					PayloadB64 string            `json:"payload_b64"`
					Headers    map[string]string `json:"headers,omitempty"`
				}
				var body struct {
					Items []it `json:"items"`
				}
				ids := []string{fmt.Sprintf("y%da", i), fmt.Sprintf("y%db", i)}
				for _, id := range ids {
					body.Items = append(body.Items, it{ID: id, Route: "/p", PayloadB64: base64.StdEncoding.EncodeToString([]byte("p" + id)), Headers: map[string]string{"X-Pub": id}})
				}
				b, _ := json.Marshal(body)
				w := httptest.NewRecorder()
				a.Admin.ServeHTTP(w, retPost("/messages/publish", "X-Hookaido-Audit-Reason: verif\nContent-Type: application/json", b))
				if w.Code != http.StatusOK {
					out.infra = fmt.Sprintf("publish answered %d: %s", w.Code, strings.TrimSpace(w.Body.String()))
					a.Shutdown()
					return
				}
				out.acks++
				for _, id := range ids {
					m.add(&retMsg{key: "id:" + id, route: "/p", target: "pull", payload: "p" + id, id: id, hdrK: "X-Pub", hdrV: id, at: now, state: "queued"})
				}
			case "dequeue":
				w := pull("dequeue", map[string]any{"batch": 2, "lease_ttl": retLeaseTTL})
				var db struct {
					Items []struct {
						ID         string `json:"id"`
						LeaseID    string `json:"lease_id"`
						Route      string `json:"route"`
						PayloadB64 string `json:"payload_b64"`
					} `json:"items"`
				}
				if w.Code/100 != 2 || json.Unmarshal(w.Body.Bytes(), &db) != nil {
					continue // nothing was acknowledged to the consumer
				}
				for _, e := range db.Items {
					p, _ := base64.StdEncoding.DecodeString(e.PayloadB64)
					x := m.find(e.ID, e.Route, "pull", p)
					if x == nil || x.payload != string(p) || x.state == "dead" || x.state == "acked" || x.state == "leased" {
						bad("retention:dequeue-returned-unexpected-message", fmt.Sprintf("step %d: dequeue returned id %s route %s payload %q, which is not a queued message of this history", i, e.ID, e.Route, p))
						continue
					}
					x.state, x.id = "leased", e.ID
					leases = append(leases, &lease{id: e.LeaseID, msg: x})
				}
			case "ack", "nack", "nackdead":
				var l *lease
				for _, c := range leases {
					if !c.used {
						l = c
						break
					}
				}
				if l == nil {
					out.skipped++
					continue
				}
				l.used = true
				var w *httptest.ResponseRecorder
				switch k {
				case "ack":
					w = pull("ack", map[string]any{"lease_id": l.id})
				case "nack":
					w = pull("nack", map[string]any{"lease_id": l.id, "delay": "0s"})
				default:
					w = pull("nack", map[string]any{"lease_id": l.id, "dead": true, "reason": "boom"})
				}
				if w.Code/100 != 2 {
					continue // refused: not acknowledged, nothing to hold the store to
				}
				out.settled++
				switch k {
				case "ack":
					l.msg.state = "acked"
				case "nack":
					l.msg.state = "queued"
				default:
					l.msg.state, l.msg.deadAt = "dead", now
				}
			case "clock":
				time.Sleep(retClockStep)
			}
		}
		// "killed at any later instant": here the instant is the end of the history (crash points inside operations are the
		// crash part's dimension); the store is closed and the application booted again on the same database
		a.Shutdown()
		a, err = app.VerifBoot(app.VerifBootOptions{Dir: dir, ConfigText: cfg.text(port)})
		if err != nil {
			bad("retention:refuses-to-open", "queue refuses to open after the restart: "+err.Error())
			return
		}
		defer a.Shutdown()
		// the first store operation after a restart (an idle poll of a target nobody uses) lets the pruner run
		if _, err := a.Store.Dequeue(queue.DequeueRequest{Route: "/p", Target: "verif-no-such-target", Batch: 1, LeaseTTL: time.Second}); err != nil {
			out.infra = "idle dequeue after restart: " + err.Error()
			return
		}
		check := func(phase string, at time.Time, count map[string]int, stateOf map[string]string) {
			for _, key := range m.keys {
				x := m.msgs[key]
				n := count[key]
				if n > 1 {
					bad("retention:stored-twice:"+phase, fmt.Sprintf("message %s appears %d times %s", key, n, phase))
					continue
				}
				if x.state == "acked" {
					if n == 1 && (phase != "after-restart" || stateOf[key] != "delivered") {
						bad("retention:ack-undone:"+phase, fmt.Sprintf("message %s was acknowledged as acked but is there again %s (%s)", key, phase, stateOf[key]))
					}
					continue
				}
				if phase == "offered" && x.state == "dead" {
					if n != 0 {
						bad("retention:dead-letter-offered", fmt.Sprintf("dead-lettered message %s was offered for delivery", key))
					}
					continue
				}
				absentOK, rule := m.mayBeAbsent(x, at)
				switch {
				case n == 1 && phase == "after-restart" && retClass(stateOf[key]) != retClass(x.state):
					bad("retention:state-changed:"+x.state, fmt.Sprintf("message %s was acknowledged as %s but is %s after the restart", key, x.state, stateOf[key]))
				case n == 1:
					if !absentOK {
						if phase == "offered" {
							out.offered++
						} else {
							out.kept++
						}
					}
				case absentOK:
					out.pruned++
					out.classes = append(out.classes, "removed-by:"+rule+":"+x.state)
				default:
					what := "missing-after-restart"
					if phase == "offered" {
						what = "not-offered-again"
					}
					bad(fmt.Sprintf("retention:%s:%s:%s", what, x.state, m.ruleSettings(x)),
						fmt.Sprintf("acknowledged message %s (%s, accepted %s before) is %s although no retention rule that is switched on covers it; configuration %s; history %v", key, x.state, at.Sub(x.at), what, cfg.name(), hist))
				}
			}
		}
		now := time.Now()
		rows, why := retRows(filepath.Join(dir, "hookaido.db"))
		if why != "" {
			bad("retention:database-unreadable", why)
			return
		}
		count, stateOf := map[string]int{}, map[string]string{}
		for _, r := range rows {
			x := m.find(r.id, r.route, r.target, r.payload)
			if x == nil || x.route != r.route || x.target != r.target || x.payload != string(r.payload) {
				bad("retention:message-nobody-sent", fmt.Sprintf("stored message %s (%s %s %q %s) belongs to no request of the history", r.id, r.route, r.target, r.payload, r.state))
				continue
			}
			if r.headers[x.hdrK] != x.hdrV {
				bad("retention:header-lost", fmt.Sprintf("message %s lost header %s", x.key, x.hdrK))
			}
			count[x.key]++
			stateOf[x.key] = r.state
		}
		check("after-restart", now, count, stateOf)
		// offered for delivery again: after every lease has run out each unsettled message is handed out exactly once
		time.Sleep(retAfter)
		now = time.Now()
		got := map[string]int{}
		for _, rt := range [][2]string{{"/p", "pull"}, {"/f", retFanTargets[0]}, {"/f", retFanTargets[1]}} {
			resp, err := a.Store.Dequeue(queue.DequeueRequest{Route: rt[0], Target: rt[1], Batch: 100, LeaseTTL: time.Second})
			if err != nil {
				out.infra = "dequeue after restart: " + err.Error()
				return
			}
			for _, e := range resp.Items {
				x := m.find(e.ID, e.Route, e.Target, e.Payload)
				if x == nil || x.payload != string(e.Payload) || e.Headers[x.hdrK] != x.hdrV {
					bad("retention:redelivery-altered", fmt.Sprintf("redelivery after the restart returned %s (%s %s %q) which is not a message of the history as it was sent", e.ID, e.Route, e.Target, e.Payload))
					continue
				}
				got[x.key]++
			}
		}
		check("offered", now, got, nil)
	})
	return out
}

// ---- driver ---------------------------------------------------------------------------------------------------------

type retCase struct {
	cfg  retCfg
	hist []string
}

func retentionPart(r *runner.Run, t *testing.T) {
	defer debug.SetGCPercent(debug.SetGCPercent(400))
	maxLen := runner.Pick(r, 3, 4)
	deadline := r.Deadline(30*time.Second, 6*time.Minute)
	cfgs := retConfigs(runner.Pick(r, 2, 4))
	hists := retHistories(maxLen)
	// histories outermost, so that a budget that ends the part early has still seen every configuration
	var cases []retCase
	for _, h := range hists {
		for _, c := range cfgs {
			cases = append(cases, retCase{c, h})
		}
	}
	scratch := runner.Scratch()
	workers := min(runtime.NumCPU(), 16)
	jobs := make(chan retCase, len(cases))
	for _, c := range cases {
		jobs <- c
	}
	close(jobs)
	var wg sync.WaitGroup
	var mu sync.Mutex
	classes := map[string]bool{}
	stopped := false
	for w := 0; w < workers; w++ {
		wg.Add(1)
		go func(w int) {
			defer wg.Done()
			port, dir := 41000+10*w, filepath.Join(scratch, fmt.Sprintf("c01ret-w%d", w))
			defer os.RemoveAll(dir)
			for c := range jobs {
				if time.Now().After(deadline) {
					mu.Lock()
					stopped = true
					mu.Unlock()
					return
				}
				o := retRun(t, c.cfg, c.hist, port, dir)
				if o.infra != "" {
					r.Infra("retention part, %s, history %v: %s", c.cfg.name(), c.hist, o.infra)
					return
				}
				r.Add("evaluations", 1)
				r.Add("retention_runs", 1)
				r.Add("retention_acknowledged_requests", int64(o.acks))
				r.Add("retention_acknowledged_settlements", int64(o.settled))
				r.Add("retention_messages_required_after_restart", int64(o.kept))
				r.Add("retention_messages_required_offered_again", int64(o.offered))
				r.Add("retention_messages_removed_by_a_switched_on_rule", int64(o.pruned))
				mu.Lock()
				for _, cl := range o.classes {
					classes[cl] = true
				}
				mu.Unlock()
				passes := 0
				for _, k := range c.hist {
					if k == "clock" {
						passes++
					}
				}
				if o.kept > 0 && passes > 0 {
					r.Distinct(fmt.Sprintf("retention:%s:clock-passes=%d", c.cfg.name(), passes))
				}
				if o.key != "" {
					cc := c
					r.Violation(o.key, o.why, map[string]any{"part": "retention", "config": cc.cfg.text(port), "history": cc.hist}, func() bool {
						return retRun(t, cc.cfg, cc.hist, port, dir).key != ""
					})
				}
			}
		}(w)
	}
	wg.Wait()
	if stopped {
		r.NotExhaustive("retention part: time budget ended before every (configuration, history) pair ran")
	}
	r.Assume("retention part: the restart follows an orderly shutdown at the end of the history (crash points x retention configurations are not combined: the crash part runs under the default retention); a message that a switched-on retention rule covers may be present or absent (the statement does not demand its removal); SQLite backend only; prune_interval stays at its default")
	var cl []string
	for k := range classes {
		cl = append(cl, k)
	}
	sort.Strings(cl)
	r.Set("retention", map[string]any{
		"configurations":               len(cfgs),
		"histories":                    len(hists),
		"history_max_length":           maxLen,
		"pairs":                        len(cases),
		"removals_a_rule_allowed_seen": cl,
		"rule":                         "queue_retention.max_age {default 7d, off, 10m} x dlq_retention.max_age {default 30d, off, 10m} x dlq_retention.max_depth {default 10000, off, 1} x delivered_retention.max_age {default off, 10m} (quick tier: the configurations with at most two settings away from their default; thorough: the whole product) x every history of 1..max_length operations over {ingress pull, ingress fan-out, publish 2 items, dequeue 2, ack, nack, dead-letter the oldest unused lease, clock +6m (beyond prune_interval)} (a settlement only where a lease can exist); production boot path on SQLite inside a synctest bubble, shutdown, boot again on the same database, idle poll, direct read of queue_items, then +61m and a dequeue of every (route, target)",
	})
}
