// Package c20 decides property C20 "MCP tools are role-, flag- and principal-gated, confined and audited"
// by exhaustive enumeration of the complete finite gating table through the real JSON-RPC entry point
// (mcp.NewServer(...).Serve with framed initialize / tools/list / tools/call messages).
//
// Files: ref_test.go (reference table + allow/deny predicate, written from the documentation),
// fixture_test.go (scratch directory, queue db, admin stand-ins, child processes, JSON-RPC session),
// check_test.go (arguments and variants, the per-case oracle, enumeration and reporting),
// seq_test.go (call sequences on one long-lived server with an enumerated audit-sink behaviour),
// crash_test.go (crash points of the config-writing tools).
//
// Tiers: quick = the complete table (every tool name x role input x flags x principal) with side-effect probes,
// repeated for every argument-shape variant of the tool (~12 000 sessions, ~10 s); thorough = quick plus more
// unknown names and invalid role inputs, four environment states and a repeated call (~32 000 sessions, ~25 s).
//
// Debugging: VERIF_C20_DEBUG=<substring of a case key> prints one line per matching case;
// bin/check C20 --replay /abs/path/replays/C20-….json re-runs the single case of a replay file.
package c20

import (
	"encoding/json"
	"fmt"
	"os"
	"path/filepath"
	"runtime"
	"sort"
	"strings"
	"sync"
	"syscall"
	"testing"
	"time"

	"github.com/nuetzliches/hookaido/internal/config"
	"github.com/nuetzliches/hookaido/internal/verifkit/runner"
)

func TestMain(m *testing.M) {
	// The MCP server launches its "run binary" as `<binary> run --config … --db … --pid-file …`; the harness
	// configures this very test binary as the run binary, so the invocation lands here and is only recorded.
	if len(os.Args) > 1 {
		switch os.Args[1] {
		case "run":
			fakeRunMain(os.Args[2:])
			return
		case "c20-sleeper":
			sleeperMain()
			return
		case "c20-hookaido":
			hookaidoMain(os.Args[2:])
			return
		}
	}
	os.Exit(m.Run())
}

// ---- case description --------------------------------------------------------------------------------

type caseSpec struct {
	Tool    string  `json:"tool"`
	Cfg     gateCfg `json:"cfg"`
	Variant string  `json:"variant"`
}

func (c caseSpec) key() string {
	v := ""
	if c.Variant != "minimal" {
		v = ":" + c.Variant
	}
	return toolLabel(c.Tool) + ":" + c.Cfg.key() + v
}

// unknown tool names. nearest names the documented tool a lenient implementation could normalise it to
// ("" = no such tool): the statement then allows either "unknown" or "gated like nearest".
type unknownName struct{ Name, Nearest string }

var unknownQuick = []unknownName{{"config_delete", ""}, {"instance_restart", ""}}
var unknownThorough = []unknownName{{"messages_purge", ""}, {"tools/list", ""}}

// ---- tool-name spellings -----------------------------------------------------------------------------
//
// The tool name of a tools/call is caller-supplied text. Every documented tool is also called under the spellings
// below: names a lenient implementation could normalise to the documented tool (white space around it, letter case,
// '-' for '_'). The statement leaves two answers: the name is unknown (refused, no effect) or it IS that tool - then
// every clause holds for it: role, flag, principal and actor gate of the documented tool, and, if the call ran and the
// tool is mutating, exactly one audit record.
type spelling struct {
	Tag   string
	Quick bool
	Make  func(string) string
}

var spellings = []spelling{
	{"sp-trail", true, func(n string) string { return n + " " }},
	{"ws-wrap", true, func(n string) string { return "\t" + n + "\r\n" }},
	{"upper", true, func(n string) string { return strings.ToUpper(n) }},
	{"sp-lead", false, func(n string) string { return " " + n }},
	{"dash", false, func(n string) string { return strings.ReplaceAll(n, "_", "-") }},
	{"nbsp-trail", false, func(n string) string { return n + "\u00a0" }},
}

// nearestTool: the documented tool a spelled name normalises to ("" = none, or the name is itself documented).
func nearestTool(name string) string {
	if _, ok := refByName[name]; ok {
		return ""
	}
	c := strings.ReplaceAll(strings.ToLower(strings.TrimSpace(name)), "-", "_")
	if _, ok := refByName[c]; ok {
		return c
	}
	return ""
}

// toolLabel is the printable form of a tool name used in case and violation keys: `<tool>~<spelling tag>`.
func toolLabel(name string) string {
	near := nearestTool(name)
	if near == "" {
		return name
	}
	for _, sp := range spellings {
		if sp.Make(near) == name {
			return near + "~" + sp.Tag
		}
	}
	return near + "~" + fmt.Sprintf("%q", name)
}

func unknownByName(n string) (unknownName, bool) {
	if near := nearestTool(n); near != "" {
		return unknownName{n, near}, true
	}
	for _, u := range append(append([]unknownName{}, unknownQuick...), unknownThorough...) {
		if u.Name == n {
			return u, true
		}
	}
	return unknownName{}, false
}

// ---- arguments ---------------------------------------------------------------------------------------

// minimalArgs returns minimal valid arguments for the tool in the fixture, chosen so that a call that runs
// has an observable effect where the tool has one.
func minimalArgs(w *worker, tool string) map[string]any {
	if near := nearestTool(tool); near != "" {
		tool = near // a spelled name is called with the valid arguments of the documented tool
	}
	switch tool {
	case "config_diff":
		return map[string]any{"content": w.baseCfg + extraRoute}
	case "config_apply":
		return map[string]any{"content": w.baseCfg + extraRoute, "mode": "write_only"}
	case "management_endpoint_upsert":
		return map[string]any{"application": "app2", "endpoint_name": "ep2", "route": "/free", "reason": "verif"}
	case "management_endpoint_delete":
		return map[string]any{"application": "app1", "endpoint_name": "ep1", "reason": "verif"}
	case "dlq_requeue":
		return map[string]any{"ids": []any{"d1"}, "reason": "verif"}
	case "dlq_delete":
		return map[string]any{"ids": []any{"d2"}, "reason": "verif"}
	case "messages_cancel":
		return map[string]any{"ids": []any{"q1"}, "reason": "verif"}
	case "messages_requeue":
		return map[string]any{"ids": []any{"d1"}, "reason": "verif"}
	case "messages_resume":
		return map[string]any{"ids": []any{"c1"}, "reason": "verif"}
	case "messages_publish":
		return map[string]any{"reason": "verif", "items": []any{map[string]any{"id": "new1", "route": "/r", "target": "pull", "payload_b64": "aGVsbG8="}}}
	case "messages_cancel_by_filter", "messages_requeue_by_filter", "messages_resume_by_filter":
		return map[string]any{"reason": "verif", "route": "/r"}
	case "instance_stop":
		return map[string]any{"timeout": "5s"}
	case "instance_reload":
		return map[string]any{"timeout": "2s"}
	}
	if _, known := refByName[tool]; !known {
		// unknown names get a tempting argument set: if anything ran with it, something would change
		return map[string]any{"content": w.baseCfg + extraRoute, "mode": "write_only", "ids": []any{"q1", "d1", "c1"}, "reason": "verif", "route": "/r"}
	}
	return map[string]any{}
}

func cloneArgs(a map[string]any) map[string]any {
	b := make(map[string]any, len(a)+1)
	for k, v := range a {
		b[k] = v
	}
	return b
}

var toolsWithPath = map[string]bool{"config_parse": true, "config_validate": true, "config_compile": true, "config_fmt_preview": true,
	"config_diff": true, "config_apply": true, "management_endpoint_upsert": true, "management_endpoint_delete": true}

var toolsWithActorArg = map[string]bool{"management_endpoint_upsert": true, "management_endpoint_delete": true,
	"dlq_requeue": true, "dlq_delete": true, "messages_cancel": true, "messages_requeue": true, "messages_resume": true,
	"messages_publish": true, "messages_cancel_by_filter": true, "messages_requeue_by_filter": true, "messages_resume_by_filter": true}

var configWriters = map[string]bool{"config_apply": true, "management_endpoint_upsert": true, "management_endpoint_delete": true}
var queueMutators = map[string]bool{"dlq_requeue": true, "dlq_delete": true, "messages_cancel": true, "messages_requeue": true,
	"messages_resume": true, "messages_publish": true, "messages_cancel_by_filter": true, "messages_requeue_by_filter": true, "messages_resume_by_filter": true}

var actorAlphabet = map[string]string{
	"actor-eq":     principalName,
	"actor-other":  "someone-else",
	"actor-case":   strings.ToUpper(principalName),
	"actor-prefix": principalName[:3],
	"actor-ext":    principalName + "2",
}

var contentAlphabet = map[string]func(w *worker) string{
	"valid":           func(w *worker) string { return w.baseCfg + extraRoute },
	"valid-unhealthy": func(w *worker) string { return w.fx.configText(w.dir, w.fx.unhealthyAddr, extraRoute) },
	"parse-invalid":   func(w *worker) string { return w.baseCfg + "\"/broken\" {\n  pull { path \"/eb\" }\n" },
	"compile-invalid": func(w *worker) string { return w.baseCfg + "\"/r\" {\n  pull { path \"/e\" }\n}\n" },
	"garbage":         func(w *worker) string { return "@@@ not a config {{{" },
	"empty":           func(w *worker) string { return "" },
	"same":            func(w *worker) string { return w.baseCfg }, // the bytes the configured path already holds (cfg-is variants)
}

// variantsFor lists the argument-shape variants of one tool ("minimal" is the gating-table row itself; the
// thorough tier adds environment states and a repeated call).
func variantsFor(tool string, thorough bool) []string {
	t, known := refByName[tool]
	// "twice": the same call two times in one session (one audit record per call, also for denied calls);
	// "env:no-config-path": the server is constructed without a config path
	vs := []string{"minimal", "twice", "env:no-config-path"}
	if thorough {
		// further environment states (same gate, other code paths / error paths)
		vs = append(vs, "env:no-db", "env:bad-config", "env:no-config", "env:memory-backend")
	}
	if near := nearestTool(tool); near != "" {
		// spelled name of a documented tool: the table row, and for mutating tools the actor binding
		vs = []string{"minimal"}
		if refByName[near].Mutating {
			vs = append(vs, "actor-other")
		}
		if thorough {
			vs = append(vs, "twice")
			if refByName[near].Mutating {
				vs = append(vs, "actor-eq")
			}
		}
		return vs
	}
	if !known {
		return append(vs, "no-arguments")
	}
	vs = append(vs, "unknown-key", "no-arguments")
	if t.Mutating {
		for _, a := range []string{"actor-eq", "actor-other", "actor-case", "actor-prefix", "actor-ext", "actor-number", "actor-empty"} {
			vs = append(vs, a)
		}
	}
	if toolsWithActorArg[tool] {
		vs = append(vs, "no-reason")
	}
	if toolsWithPath[tool] {
		vs = append(vs, "path-own", "path-foreign-existing", "path-foreign-new", "path-suffix", "path-dir", "path-dotdot", "path-relative", "path-alias", "path-newdir",
			"path-symlink-dotdot", "path-symlink-foreign", "path-symlink-alias")
		// no config path configured: nothing is on the allowlist, whatever the caller names
		vs = append(vs, "nocfg:path-foreign-existing", "nocfg:path-foreign-new", "nocfg:path-newdir", "nocfg:path-relative",
			"nocfg:path-dotdot", "nocfg:path-unconfigured-file", "nocfg:path-symlink-dotdot", "nocfg:path-symlink-foreign")
	}
	if tool == "config_apply" {
		for _, c := range []string{"valid", "valid-unhealthy", "parse-invalid", "compile-invalid", "garbage", "empty"} {
			for _, m := range []string{"preview_only", "write_only", "write_and_reload"} {
				vs = append(vs, "content:"+c+":"+m)
			}
		}
	}
	if tool == "management_endpoint_upsert" || tool == "management_endpoint_delete" {
		vs = append(vs, "mode:preview_only", "mode:write_and_reload")
	}
	if configWriters[tool] {
		// what the configured config path itself IS (cfgKinds) x the writing calls of the tool
		for _, k := range cfgKinds {
			for _, b := range cfgKindBases(tool) {
				vs = append(vs, "cfg-is:"+k+":"+b)
			}
		}
	}
	return vs
}

// ---- what the configured config path is ------------------------------------------------------------------
//
// The configured path of every other case is a regular file. Here it is a symbolic link whose target is a file at
// another path of the scratch tree (absolute link, relative link, chain of two links, link to the planted foreign
// config). The statement names the configured PATH: a config-writing call may replace what is at that path (the
// product renames a temporary file over it) or leave it alone; every other file of the tree - the link's target
// included - keeps content and identity (inode), every other link its text, and nothing is created or deleted.
var cfgKinds = []string{"link-abs", "link-rel", "link-chain", "link-foreign"}

const cfgKindPrefix = "cfg-is:"

// splitCfgKind splits "cfg-is:<kind>:<base variant>"; kind is "" for every other variant.
func splitCfgKind(variant string) (kind, base string) {
	if !strings.HasPrefix(variant, cfgKindPrefix) {
		return "", variant
	}
	rest := strings.TrimPrefix(variant, cfgKindPrefix)
	i := strings.IndexByte(rest, ':')
	if i < 0 {
		return rest, "minimal"
	}
	return rest[:i], rest[i+1:]
}

// cfgKindBases: the calls of a config-writing tool that write (incl. the rollback after a failed reload and a
// write of unchanged content, where only the identity of a file tells that it was replaced).
func cfgKindBases(tool string) []string {
	if tool == "config_apply" {
		return []string{"content:valid:write_only", "content:valid:write_and_reload", "content:valid-unhealthy:write_and_reload",
			"content:same:write_only", "content:compile-invalid:write_only"}
	}
	return []string{"minimal", "mode:write_and_reload"}
}

// makeCfgKind turns the configured path of a freshly reset worker directory into the given kind.
func (w *worker) makeCfgKind(kind string) error {
	linkedDir := filepath.Join(w.dir, "linked")
	target := filepath.Join(linkedDir, "shared.conf")
	if err := os.MkdirAll(linkedDir, 0o755); err != nil {
		return err
	}
	if err := os.WriteFile(target, []byte(w.baseCfg), 0o600); err != nil {
		return err
	}
	if err := os.Remove(w.cfgPath); err != nil {
		return err
	}
	switch kind {
	case "link-abs":
		return os.Symlink(target, w.cfgPath)
	case "link-rel":
		return os.Symlink(filepath.Join("linked", "shared.conf"), w.cfgPath)
	case "link-chain":
		if err := os.Symlink(filepath.Join("linked", "shared.conf"), filepath.Join(w.dir, "hop-link")); err != nil {
			return err
		}
		return os.Symlink("hop-link", w.cfgPath)
	case "link-foreign":
		return os.Symlink(w.foreign, w.cfgPath)
	}
	return fmt.Errorf("unknown config path kind %q", kind)
}

// buildArgs materialises a variant of the tool's minimal arguments.
func buildArgs(w *worker, tool, variant string) (args map[string]any, omit bool, err error) {
	args = minimalArgs(w, tool)
	variant = strings.TrimPrefix(variant, "nocfg:")
	_, variant = splitCfgKind(variant)
	switch {
	case variant == "minimal", variant == "twice", strings.HasPrefix(variant, "env:"):
	case variant == "no-arguments":
		return nil, true, nil
	case variant == "unknown-key":
		args = cloneArgs(args)
		args["zz_unknown_key"] = "x"
	case strings.HasPrefix(variant, "actor-"):
		args = cloneArgs(args)
		switch variant {
		case "actor-number":
			args["actor"] = 42 // supplied, and certainly not equal to the principal
		case "actor-empty":
			args["actor"] = "" // nothing supplied
		default:
			a, ok := actorAlphabet[variant]
			if !ok {
				return nil, false, fmt.Errorf("unknown variant %q", variant)
			}
			args["actor"] = a
		}
	case variant == "no-reason":
		args = cloneArgs(args)
		delete(args, "reason")
	case strings.HasPrefix(variant, "path-"):
		args = cloneArgs(args)
		switch variant {
		case "path-own", "path-unconfigured-file":
			args["path"] = w.cfgPath
		case "path-newdir":
			args["path"] = w.dir + "/newdir/sub/Hookaidofile" // neither the file nor its directories exist
		case "path-foreign-existing":
			args["path"] = w.foreign
		case "path-foreign-new":
			args["path"] = w.dir + "/foreign/new-Hookaidofile"
		case "path-suffix":
			args["path"] = w.cfgPath + ".bak"
		case "path-dir":
			args["path"] = w.dir
		case "path-dotdot":
			args["path"] = w.dir + "/foreign/../foreign/Hookaidofile"
		case "path-relative":
			// the existing foreign file, spelled relative to the process working directory
			rel := "foreign/Hookaidofile"
			if cwd, err := os.Getwd(); err == nil {
				if r, err := filepath.Rel(cwd, w.foreign); err == nil {
					rel = r
				}
			}
			args["path"] = rel
		case "path-alias":
			args["path"] = w.dir + "/./Hookaidofile" // the configured file under another spelling: either answer is fine
		case "path-symlink-dotdot":
			// lexically (Clean / Abs) this IS the configured path; the kernel resolves certs -> foreign/sub first, so it
			// names the planted foreign file
			args["path"] = w.dir + "/certs/../Hookaidofile"
		case "path-symlink-foreign":
			args["path"] = w.dir + "/foreign-link" // a symbolic link to the foreign file
		case "path-symlink-alias":
			args["path"] = w.dir + "/own-link" // a symbolic link to the configured file: either answer is fine
		default:
			return nil, false, fmt.Errorf("unknown variant %q", variant)
		}
	case strings.HasPrefix(variant, "content:"):
		parts := strings.Split(variant, ":")
		if len(parts) != 3 || contentAlphabet[parts[1]] == nil {
			return nil, false, fmt.Errorf("unknown variant %q", variant)
		}
		args = map[string]any{"content": contentAlphabet[parts[1]](w), "mode": parts[2], "reload_timeout": "300ms"}
	case strings.HasPrefix(variant, "mode:"):
		args = cloneArgs(args)
		args["mode"] = strings.TrimPrefix(variant, "mode:")
		args["reload_timeout"] = "300ms"
	default:
		return nil, false, fmt.Errorf("unknown variant %q", variant)
	}
	return args, false, nil
}

// mustRun: variants whose arguments are valid per the documentation, so a call that passes the gate has to
// be answered without error (positive probe; "tools/list advertises exactly the tools that would be allowed").
func mustRun(tool, variant string) bool {
	switch variant {
	case "minimal":
		return true
	case "actor-eq":
		return toolsWithActorArg[tool]
	case "path-own":
		return true
	}
	return false
}

// ---- one case ----------------------------------------------------------------------------------------

type finding struct{ Key, Msg string }

type caseResult struct {
	Spec       caseSpec
	Verdict    verdict
	Refused    bool
	Listed     bool
	AuditN     int
	AuditRes   string
	Effects    []string
	Findings   []finding
	InfraErr   string
	InputHash  string
	SpelledRan bool // a spelled tool name was run as the documented mutating tool (audit clause applied)
	AdminReads int
	ArgsJSON   string
	CfgKind    string // what the configured config path is ("" = regular file)
	CensusN    int    // entries of the scratch tree compared before / after the call
}

var auditFields = []string{"timestamp", "principal", "role", "tool", "input_hash", "result"}

func runCase(w *worker, spec caseSpec) *caseResult {
	cr := &caseResult{Spec: spec}
	fail := func(key, format string, a ...any) {
		cr.Findings = append(cr.Findings, finding{key, fmt.Sprintf(format, a...)})
	}
	tref, known := refByName[spec.Tool]
	needSleeper := spec.Tool == "instance_stop" || spec.Tool == "instance_reload"
	if u, ok := unknownByName(spec.Tool); ok && (u.Nearest == "instance_stop" || u.Nearest == "instance_reload") {
		needSleeper = true
	}
	if err := w.reset(needSleeper); err != nil {
		cr.InfraErr = "reset: " + err.Error()
		return cr
	}
	args, omit, err := buildArgs(w, spec.Tool, spec.Variant)
	if err != nil {
		cr.InfraErr = err.Error()
		return cr
	}
	cr.ArgsJSON = "{}"
	if b, err := json.Marshal(args); err == nil && args != nil {
		cr.ArgsJSON = string(b)
	}
	dbMissing := false
	switch spec.Variant {
	case "env:no-db":
		if err := os.Remove(w.dbPath); err != nil {
			cr.InfraErr = err.Error()
			return cr
		}
		dbMissing = true
	case "env:bad-config":
		if err := os.WriteFile(w.cfgPath, []byte(contentAlphabet["parse-invalid"](w)), 0o600); err != nil {
			cr.InfraErr = err.Error()
			return cr
		}
	case "env:no-config":
		if err := os.Remove(w.cfgPath); err != nil {
			cr.InfraErr = err.Error()
			return cr
		}
	case "env:memory-backend":
		if err := os.WriteFile(w.cfgPath, []byte(memoryBackendConfig(w.rec.addr)), 0o600); err != nil {
			cr.InfraErr = err.Error()
			return cr
		}
	}
	cfgKind, _ := splitCfgKind(spec.Variant)
	if cfgKind != "" {
		if err := w.makeCfgKind(cfgKind); err != nil {
			cr.InfraErr = "config path kind: " + err.Error()
			return cr
		}
	}
	cr.CfgKind = cfgKind
	noCfg := spec.Variant == "env:no-config-path" || strings.HasPrefix(spec.Variant, "nocfg:")
	configPath := w.cfgPath
	if noCfg {
		configPath = ""
	}
	w.rec.take()
	repeat := 1
	if spec.Variant == "twice" {
		repeat = 2
	}
	before, err := w.snapshot()
	if err != nil {
		cr.InfraErr = "snapshot: " + err.Error()
		return cr
	}
	cfgBefore, cfgBeforeErr := os.ReadFile(w.cfgPath)

	res := w.runSession(spec.Cfg, configPath, spec.Tool, args, omit, repeat)

	// --- observations after the call
	after, err := w.snapshot()
	if err != nil {
		cr.InfraErr = "snapshot: " + err.Error()
		return cr
	}
	changed := diffSnap(before, after)
	cr.CensusN = len(before)
	dbCh, err := w.dbChanged(dbMissing)
	if err != nil {
		cr.InfraErr = "db dump: " + err.Error()
		return cr
	}
	var signals []string
	if needSleeper {
		var exited bool
		signals, exited, err = w.sl.poll()
		if err != nil {
			cr.InfraErr = "sleeper: " + err.Error()
			return cr
		}
		_ = exited
		// positive probe only: give an already sent signal time to be reported (never affects refused rows)
		if spec.Tool == "instance_reload" && !res.refused() {
			for i := 0; i < 100 && len(signals) == 0 && !exited; i++ {
				time.Sleep(20 * time.Millisecond)
				var more []string
				more, exited, err = w.sl.poll()
				if err != nil {
					break
				}
				signals = append(signals, more...)
			}
		}
	}
	invoked := false
	if rec, err := os.ReadFile(w.pidPath + ".invoked"); err == nil {
		invoked = true
		var r struct {
			Pid int `json:"pid"`
		}
		if json.Unmarshal(rec, &r) == nil && r.Pid > 1 {
			_ = syscall.Kill(r.Pid, syscall.SIGTERM) // the harness' own recording child (alive for 30 s unless told to stop)
		}
	}
	if res.ServeErr != "" || res.ProtoErr != "" {
		fail("protocol:"+spec.Tool, "JSON-RPC session failed: serve=%q proto=%q", res.ServeErr, res.ProtoErr)
		return cr
	}

	// --- reference verdict
	actor, actorSupplied := "", false
	if raw, present := args["actor"]; present {
		if a, ok := raw.(string); !ok {
			actor, actorSupplied = fmt.Sprint(raw), true // a non-string actor is supplied and is not the principal
			if actor == spec.Cfg.Principal {
				actor += "#non-string"
			}
		} else if a != "" {
			actor, actorSupplied = a, true
		}
	}
	gk := spec.key()
	var v verdict
	nearestAllowed := false
	if known {
		v = refGate(tref, spec.Cfg, actorSupplied, actor)
	} else {
		v = refDeny
		if u, ok := unknownByName(spec.Tool); ok && u.Nearest != "" {
			if refGate(refByName[u.Nearest], spec.Cfg, actorSupplied, actor) != refDeny {
				v, nearestAllowed = refEither, true
			}
		}
	}
	cr.Verdict = v
	cr.Refused = res.refused()
	for _, n := range res.Listed {
		if n == spec.Tool {
			cr.Listed = true
		}
	}

	// --- (A) tools/list advertises exactly the tools the gate allows (independent of the called tool)
	listed := map[string]bool{}
	for _, n := range res.Listed {
		if listed[n] {
			fail("list:"+spec.Cfg.key()+":duplicate:"+n, "tools/list names %s twice", n)
		}
		listed[n] = true
		if _, ok := refByName[n]; !ok {
			fail("list:"+spec.Cfg.key()+":undocumented:"+n, "tools/list advertises %q, which the documentation does not know", n)
		}
	}
	for _, t := range refTable {
		switch refGate(t, spec.Cfg, false, "") {
		case refAllow:
			if !listed[t.Name] {
				fail("list:"+spec.Cfg.key()+":missing:"+t.Name, "tools/list omits %s although the gate allows it (role=%s mutations=%v runtime=%v principal=%q)", t.Name, spec.Cfg.Role, spec.Cfg.Mut, spec.Cfg.RT, spec.Cfg.Principal)
			}
		case refDeny:
			if listed[t.Name] {
				fail("list:"+spec.Cfg.key()+":extra:"+t.Name, "tools/list advertises %s although a call must be refused (role=%s mutations=%v runtime=%v principal=%q)", t.Name, spec.Cfg.Role, spec.Cfg.Mut, spec.Cfg.RT, spec.Cfg.Principal)
			}
		}
	}

	// --- effects
	cfgAfter, cfgErr := os.ReadFile(w.cfgPath)
	cfgChanged := (cfgErr != nil) != (cfgBeforeErr != nil) || string(cfgAfter) != string(cfgBefore)
	var effects []string
	var otherFiles []string
	for _, d := range changed {
		name := d[strings.IndexByte(d, ':')+1:]
		switch name {
		case "Hookaidofile":
			effects = append(effects, "config-file")
			if noCfg {
				// the file exists in the directory but is not the configured path: there is no configured path
				otherFiles = append(otherFiles, d)
			}
		case "hookaido.pid", "hookaido.pid.invoked":
			effects = append(effects, "process:"+d)
		default:
			otherFiles = append(otherFiles, d)
			effects = append(effects, "file:"+d)
		}
	}
	if dbCh {
		effects = append(effects, "queue-db")
	}
	if invoked {
		effects = append(effects, "process:run-binary-started")
	}
	for _, s := range signals {
		effects = append(effects, "process:signal-"+s)
	}
	for _, q := range w.rec.take() {
		if strings.HasPrefix(q, "GET ") || strings.HasPrefix(q, "HEAD ") {
			cr.AdminReads++ // a read of the Admin API is not an effect on queue, config or processes
			continue
		}
		effects = append(effects, "admin-api:"+q)
	}
	sort.Strings(effects)
	cr.Effects = effects

	// --- (B) gate decision on tools/call
	switch v {
	case refDeny:
		if !cr.Refused {
			fail("gate:"+gk+":ran", "call was not refused although the reference denies it (tool=%s role=%s mutations=%v runtime=%v principal=%q actor=%q args=%s)", toolLabel(spec.Tool), spec.Cfg.Role, spec.Cfg.Mut, spec.Cfg.RT, spec.Cfg.Principal, actor, cr.ArgsJSON)
		}
		if len(effects) > 0 {
			fail("effect:"+gk, "refused call had an effect: %v (tool=%s role=%s mutations=%v runtime=%v principal=%q actor=%q)", effects, toolLabel(spec.Tool), spec.Cfg.Role, spec.Cfg.Mut, spec.Cfg.RT, spec.Cfg.Principal, actor)
		}
	case refAllow:
		if cr.Refused && mustRun(spec.Tool, spec.Variant) {
			fail("gate:"+gk+":refused", "call with valid arguments was refused although the gate allows it and tools/list is required to advertise it (tool=%s role=%s mutations=%v runtime=%v principal=%q args=%s)", spec.Tool, spec.Cfg.Role, spec.Cfg.Mut, spec.Cfg.RT, spec.Cfg.Principal, cr.ArgsJSON)
		}
	case refEither:
		if known && spec.Variant == "minimal" && cr.Listed == cr.Refused {
			fail("list-call:"+gk, "tools/list and tools/call disagree for %s under role %q: listed=%v refused=%v", spec.Tool, spec.Cfg.Role, cr.Listed, cr.Refused)
		}
		if cr.Refused && len(effects) > 0 {
			fail("effect:"+gk, "refused call had an effect: %v", effects)
		}
		_ = nearestAllowed
	}

	// --- (C) confinement: nothing but the configured config file, the queue db and the process artefacts may
	// change, and the config file only to content that parses and compiles
	if len(otherFiles) > 0 {
		fail("confine:"+spec.Tool+":"+spec.Variant, "files other than the configured config path were touched: %v (configured config path %q, args=%s)", otherFiles, configPath, cr.ArgsJSON)
	}
	// a path that is not the configured one must not be served: no answer derived from the planted foreign file,
	// no successful answer for the supplied path (the "./" alias of the configured file is left open)
	if sp, ok := args["path"].(string); ok && sp != "" && sp != configPath && spec.Variant != "path-alias" && spec.Variant != "path-symlink-alias" {
		if strings.Contains(res.CallText, foreignMarkerRoute) && !strings.Contains(cr.ArgsJSON, foreignMarkerRoute) || strings.Contains(res.CallText, foreignMarkerPort) {
			fail("served-foreign:"+spec.Tool+":"+spec.Variant, "the answer carries content of the foreign file %s (configured config path %q)", sp, configPath)
		} else if !cr.Refused && res.Structured != nil && res.Structured["path"] == sp {
			fail("served-foreign:"+spec.Tool+":"+spec.Variant, "the call was answered for the non-configured path %s (configured config path %q)", sp, configPath)
		}
	}
	if cfgChanged {
		if cfgErr != nil {
			fail("config-lost:"+spec.Tool+":"+spec.Variant, "configured config file is gone after the call: %v", cfgErr)
		} else if !validConfig(cfgAfter) {
			fail("config-invalid-written:"+spec.Tool+":"+spec.Variant, "config file was replaced by content that does not parse and compile (args=%s)", cr.ArgsJSON)
		}
	}

	// --- (D) audit: every call of a mutating tool appends exactly one record with the required fields
	cr.AuditN = len(res.Audit) + res.AuditBad
	audited, auditName, auditLabel := known && tref.Mutating, spec.Tool, spec.Tool
	if near := nearestTool(spec.Tool); near != "" && refByName[near].Mutating && !cr.Refused {
		// a spelled name that was not refused was run as the documented mutating tool: it is a mutating call
		// (a refused one may have been taken for an unknown tool: then there is nothing to audit)
		audited, auditName, auditLabel = true, near, toolLabel(spec.Tool)
		cr.SpelledRan = true
	}
	if audited {
		class := "ran"
		if v == refDeny {
			class = "denied"
		} else if cr.Refused {
			class = "failed"
		}
		if res.AuditBad > 0 {
			fail("audit:"+auditLabel+":"+class+":not-json", "audit output has %d lines that are not JSON objects: %q", res.AuditBad, res.AuditRaw)
		}
		if cr.AuditN != repeat {
			fail(fmt.Sprintf("audit:%s:%s:count=%d/%d", auditLabel, class, cr.AuditN, repeat), "%d mutating call(s) (%s, variant %s, cfg %s) produced %d audit records, want exactly one per call: %q", repeat, class, spec.Variant, spec.Cfg.key(), cr.AuditN, res.AuditRaw)
		} else if len(res.Audit) == 1 {
			ev := res.Audit[0]
			for _, f := range auditFields {
				if _, ok := ev[f]; !ok {
					fail("audit:"+auditLabel+":"+class+":missing:"+f, "audit record lacks %q: %v", f, ev)
				}
			}
			durOK := false
			for k, val := range ev {
				if strings.HasPrefix(k, "duration") {
					if n, ok := val.(float64); ok && n >= 0 {
						durOK = true
					}
				}
			}
			if !durOK {
				fail("audit:"+auditLabel+":"+class+":missing:duration", "audit record lacks a non-negative duration: %v", ev)
			}
			if ts, ok := ev["timestamp"]; ok {
				good := false
				switch x := ts.(type) {
				case string:
					if tm, err := time.Parse(time.RFC3339Nano, x); err == nil && !tm.IsZero() {
						good = true
					}
				case float64:
					good = x > 0
				}
				if !good {
					fail("audit:"+auditLabel+":"+class+":bad:timestamp", "audit timestamp is not a time: %v", ts)
				}
			}
			if p, ok := ev["principal"]; ok {
				if ps, _ := p.(string); ps != spec.Cfg.Principal {
					fail("audit:"+auditLabel+":"+class+":bad:principal", "audit principal %v, configured %q", p, spec.Cfg.Principal)
				}
			}
			if rl, ok := ev["role"]; ok {
				rs, _ := rl.(string)
				if _, valid := roleRankRef(spec.Cfg.Role); valid && rs != spec.Cfg.Role {
					fail("audit:"+auditLabel+":"+class+":bad:role", "audit role %v, configured %q", rl, spec.Cfg.Role)
				} else if rs == "" {
					fail("audit:"+auditLabel+":"+class+":bad:role", "audit role is empty")
				}
			}
			if tn, ok := ev["tool"]; ok {
				if ts, _ := tn.(string); ts != spec.Tool && ts != auditName {
					fail("audit:"+auditLabel+":"+class+":bad:tool", "audit tool %v, called %q", tn, spec.Tool)
				}
			}
			if h, ok := ev["input_hash"]; ok {
				hs, _ := h.(string)
				if hs == "" {
					fail("audit:"+auditLabel+":"+class+":bad:input_hash", "audit input_hash is empty: %v", h)
				}
				cr.InputHash = hs
			}
			if rv, ok := ev["result"]; ok {
				rs, _ := rv.(string)
				if rs == "" {
					fail("audit:"+auditLabel+":"+class+":bad:result", "audit result is empty: %v", rv)
				}
				cr.AuditRes = rs
			}
		}
	}
	return cr
}

// ---- enumeration -------------------------------------------------------------------------------------

func allCases(thorough bool) []caseSpec {
	type roleIn struct{ role, via string }
	roles := []roleIn{{"read", "option"}, {"operate", "option"}, {"admin", "option"}, {"root", "option"}, {"superuser", "field"}}
	if thorough {
		// further invalid role inputs (none of them is one of the three documented role names)
		roles = append(roles, roleIn{"administrator", "option"}, roleIn{"admin,operate", "field"}, roleIn{"", "field"})
	}
	var names []string
	for _, t := range refTable {
		names = append(names, t.Name)
	}
	for _, u := range unknownQuick {
		names = append(names, u.Name)
	}
	if thorough {
		for _, u := range unknownThorough {
			names = append(names, u.Name)
		}
	}
	// every documented tool under every spelling of the alphabet (quick: the quick spellings and the three documented roles)
	for _, sp := range spellings {
		if !sp.Quick && !thorough {
			continue
		}
		for _, t := range refTable {
			if n := sp.Make(t.Name); nearestTool(n) == t.Name {
				names = append(names, n)
			}
		}
	}
	var out []caseSpec
	for _, n := range names {
		vs := variantsFor(n, thorough)
		for _, ro := range roles {
			if _, valid := roleRankRef(ro.role); !valid && !thorough && nearestTool(n) != "" {
				continue
			}
			for _, mut := range []bool{false, true} {
				for _, rt := range []bool{false, true} {
					for _, p := range []string{principalName, ""} {
						for _, v := range vs {
							out = append(out, caseSpec{Tool: n, Variant: v, Cfg: gateCfg{Role: ro.role, RoleVia: ro.via, Mut: mut, RT: rt, Principal: p}})
						}
					}
				}
			}
		}
	}
	// the config-path-kind cases first (a wall budget then cuts repetitions of the gating table, never this part)
	sort.SliceStable(out, func(i, j int) bool {
		return strings.HasPrefix(out[i].Variant, cfgKindPrefix) && !strings.HasPrefix(out[j].Variant, cfgKindPrefix)
	})
	return out
}

const maxReportedKeys = 40

// cases shown as samples in the evidence file (fixed choice, independent of scheduling)
var sampleKeys = []string{
	"config_apply:admin:m1r1:p1", "config_apply:operate:m1r1:p1", "dlq_delete:operate:m1r0:p0",
	"instance_stop:admin:m0r1:p1", "messages_publish:operate:m1r0:p1:actor-other",
	"config_apply:admin:m1r1:p1:content:compile-invalid:write_only", "config_delete:admin:m1r1:p1", "dlq_delete:operate:m1r0:p1",
}
var wantedSamples = func() map[string]bool {
	m := map[string]bool{}
	for _, k := range sampleKeys {
		m[k] = true
	}
	return m
}()

type foundCase struct {
	idx int
	msg string
}

func TestCheck(t *testing.T) {
	if scn := os.Getenv("VERIF_C20_CHILD"); scn != "" {
		crashChild20(scn)
	}
	r := runner.Start("C20", "exploration")
	deadline := r.Deadline(90*time.Second, 10*time.Minute)
	if runner.ReplayPath() == "" {
		crashPart20(r)
	}

	fx, err := newFixture(runner.Scratch())
	if err != nil {
		r.Infra("fixture: %v", err)
		r.Finish()
	}
	defer fx.close()

	// single-case replay
	if p := runner.ReplayPath(); p != "" {
		if !replayWiring(r, fx, p) && !replaySeq(r, fx, p) { // wiring_test.go / seq_test.go: replay files of those parts
			replayOne(r, fx, p)
		}
		r.Finish()
	}

	// --- documentation vs reference vs code: the set of tool names and their classes
	repo := os.Getenv("VERIF_REPO")
	if repo == "" {
		repo = "/repo"
	}
	if n, mism, err := crossCheckDocs(repo); err != nil {
		r.Assume("documentation cross-check skipped: " + err.Error())
	} else {
		r.Set("doc_tools_cross_checked", n)
		for _, m := range mism {
			r.Violation(m.Key, m.Msg, map[string]any{"doc": m.Key}, nil)
		}
	}
	w0, err := newWorker(fx, 99)
	if err != nil {
		r.Infra("worker: %v", err)
		r.Finish()
	}
	if err := w0.reset(false); err != nil {
		r.Infra("reset: %v", err)
		r.Finish()
	}
	full := w0.runSession(gateCfg{Role: "admin", RoleVia: "option", Mut: true, RT: true, Principal: principalName}, w0.cfgPath, "config_parse", map[string]any{}, false, 1)
	if full.ProtoErr != "" || full.ServeErr != "" {
		r.Infra("fully enabled admin session failed: %s %s", full.ProtoErr, full.ServeErr)
		r.Finish()
	}
	codeNames := append([]string{}, full.Listed...)
	sort.Strings(codeNames)
	r.Set("tools_listed_by_full_admin", len(codeNames))
	{
		have := map[string]bool{}
		for _, n := range codeNames {
			have[n] = true
			if _, ok := refByName[n]; !ok {
				r.Violation("toolset:undocumented:"+n, "the fully enabled admin server lists "+n+", which neither docs/mcp.md nor DESIGN Appendix B name", map[string]any{"tool": n}, nil)
			}
		}
		for _, t := range refTable {
			if !have[t.Name] {
				r.Violation("toolset:missing:"+t.Name, "documented tool "+t.Name+" is not listed by a fully enabled admin server", map[string]any{"tool": t.Name}, nil)
			}
		}
		// the advertised schema tells which tools take actor/path; a difference to the documentation-derived sets
		// is recorded in the evidence (it is outside the property statement, so not a violation)
		var schemaNotes []string
		for _, t := range refTable {
			props := full.Schemas[t.Name]
			if _, has := props["actor"]; has != toolsWithActorArg[t.Name] && props != nil {
				schemaNotes = append(schemaNotes, fmt.Sprintf("inputSchema of %s has actor=%v, spec.md documents %v", t.Name, has, toolsWithActorArg[t.Name]))
			}
			if _, has := props["path"]; has != toolsWithPath[t.Name] && props != nil {
				schemaNotes = append(schemaNotes, fmt.Sprintf("inputSchema of %s has path=%v, spec.md documents %v", t.Name, has, toolsWithPath[t.Name]))
			}
		}
		if len(schemaNotes) > 0 {
			r.Set("schema_vs_spec_notes", schemaNotes)
		}
	}
	w0.close()

	// what the content alphabet of the config_apply variants is, judged by the config package of this tree
	{
		cls := map[string]string{}
		for name, f := range contentAlphabet {
			text := []byte(f(w0))
			_, perr := config.Parse(text)
			switch {
			case perr != nil:
				cls[name] = "does-not-parse"
			case !validConfig(text):
				cls[name] = "parses-but-does-not-compile"
			default:
				cls[name] = "valid"
			}
		}
		r.Set("config_content_alphabet", cls)
		if !validConfig([]byte(foreignConfigText(fx.healthyAddr))) {
			r.Infra("the planted foreign config does not compile on this tree (confinement probes would be vacuous)")
			r.Finish()
		}
		if !validConfig([]byte(w0.baseCfg)) {
			r.Infra("the fixture's base config does not compile on this tree")
			r.Finish()
		}
	}

	// --- the server as `hookaido mcp serve` wires it: a real process, audit sink = its stderr (wiring_test.go)
	wiringPart(r, fx, deadline)

	// --- the table
	cases := allCases(r.Thorough())
	nw := runtime.NumCPU()
	if nw > 12 {
		nw = 12
	}
	if nw < 1 {
		nw = 1
	}
	var (
		mu           sync.Mutex
		hashByArgs   = map[string]string{} // tool|args -> input_hash
		hashesOfTool = map[string]map[string]bool{}
		argsOfTool   = map[string]map[string]bool{}
		resultClass  = map[string]map[string]int{"denied": {}, "ran-ok": {}, "failed": {}}
		effectSeen   = map[string]int{}
		allowedRuns  = map[string]int{}
		relational   []finding
		found        = map[string]foundCase{} // violation key -> first (lowest index) failing case
		sampleOf     = map[string]any{}
		proxyEffects int
		foundN       = map[string]int{}
		done         int
		stopped      bool
		debug        = os.Getenv("VERIF_C20_DEBUG")
	)
	jobs := make(chan int)
	var wg sync.WaitGroup
	for i := 0; i < nw; i++ {
		w, err := newWorker(fx, i)
		if err != nil {
			r.Infra("worker: %v", err)
			r.Finish()
		}
		wg.Add(1)
		go func(w *worker) {
			defer wg.Done()
			defer w.close()
			for idx := range jobs {
				spec := cases[idx]
				cr := runCase(w, spec)
				if cr.InfraErr != "" {
					r.Infra("case %s: %s", spec.key(), cr.InfraErr)
					continue
				}
				r.Add("evaluations", 2) // one tools/list + one tools/call decision
				r.Add("cases", 1)
				if near := nearestTool(spec.Tool); near != "" {
					r.Add("spelled_name_cases", 1)
					switch {
					case cr.Refused:
						r.Add("spelled_name_refused", 1)
					case cr.SpelledRan:
						r.Add("spelled_name_ran_audit_checked", 1)
					default:
						r.Add("spelled_name_ran", 1)
					}
				} else if spec.Variant == "minimal" {
					r.Add("table_rows", 1)
				} else {
					r.Add("variant_cases", 1)
				}
				switch cr.Verdict {
				case refAllow:
					r.Add("ref_allow", 1)
				case refDeny:
					r.Add("ref_deny", 1)
					r.Add("denied_no_effect_checked", 1)
				default:
					r.Add("ref_either", 1)
				}
				r.Add("list_sets_checked", 1)
				r.Add("census_entries_compared", int64(cr.CensusN))
				if cr.CfgKind != "" {
					r.Add("config_path_kind_cases", 1)
					if !cr.Refused {
						r.Add("config_path_kind_calls_ran", 1)
					}
					for _, e := range cr.Effects {
						if e == "config-file" {
							r.Add("config_path_kind_writes_observed", 1)
						}
					}
				}
				tref, known := refByName[spec.Tool]
				if known && tref.Mutating {
					r.Add("audit_records_checked", int64(cr.AuditN))
					r.Add("mutating_calls", 1)
				}
				outcome := "ran"
				if cr.Refused {
					outcome = "refused"
				}
				r.Distinct(fmt.Sprintf("%s|%s|%s|ref=%s|%s", toolLabel(spec.Tool), spec.Cfg.key(), spec.Variant, cr.Verdict, outcome))
				if wantedSamples[spec.key()] {
					mu.Lock()
					sampleOf[spec.key()] = map[string]any{"tool": spec.Tool, "cfg": spec.Cfg.key(), "variant": spec.Variant, "ref": cr.Verdict.String(),
						"refused": cr.Refused, "listed": cr.Listed, "audit_records": cr.AuditN, "audit_result": cr.AuditRes, "effects": cr.Effects}
					mu.Unlock()
				}
				if debug != "" && strings.Contains(spec.key(), debug) {
					fmt.Printf("DEBUG %-70s ref=%-6s refused=%-5v listed=%-5v audit=%d/%-7s effects=%v\n", spec.key(), cr.Verdict, cr.Refused, cr.Listed, cr.AuditN, cr.AuditRes, cr.Effects)
				}
				mu.Lock()
				done++
				if known && tref.Mutating && cr.AuditRes != "" {
					class := "ran-ok"
					if cr.Verdict == refDeny {
						class = "denied"
					} else if cr.Refused {
						class = "failed"
					}
					resultClass[class][cr.AuditRes]++
				}
				if cr.InputHash != "" {
					ak := spec.Tool + "|" + cr.ArgsJSON
					if prev, ok := hashByArgs[ak]; ok && prev != cr.InputHash {
						relational = append(relational, finding{"audit:input_hash:unstable", fmt.Sprintf("same arguments %s hashed to %s and %s", ak, prev, cr.InputHash)})
					}
					hashByArgs[ak] = cr.InputHash
					if hashesOfTool[spec.Tool] == nil {
						hashesOfTool[spec.Tool], argsOfTool[spec.Tool] = map[string]bool{}, map[string]bool{}
					}
					hashesOfTool[spec.Tool][cr.InputHash] = true
					argsOfTool[spec.Tool][cr.ArgsJSON] = true
				}
				if cr.Verdict == refAllow && !cr.Refused && known {
					allowedRuns[spec.Tool]++
					if spec.Variant == "minimal" && tref.Mutating && expectedEffectSeen(spec.Tool, cr.Effects) {
						effectSeen[spec.Tool]++
					}
					if spec.Variant == "env:memory-backend" && queueMutators[spec.Tool] && expectedEffectSeen(spec.Tool, cr.Effects) {
						proxyEffects++
					}
				}
				mu.Unlock()
				if len(cr.Findings) > 0 {
					mu.Lock()
					for _, f := range cr.Findings {
						if prev, ok := found[f.Key]; !ok || idx < prev.idx {
							found[f.Key] = foundCase{idx: idx, msg: f.Msg}
						}
						foundN[f.Key]++
					}
					mu.Unlock()
				}
			}
		}(w)
	}
	for i := range cases {
		if time.Now().After(deadline) {
			stopped = true
			break
		}
		jobs <- i
	}
	close(jobs)
	wg.Wait()
	if stopped {
		r.NotExhaustive(fmt.Sprintf("wall budget reached after %d of %d cases", done, len(cases)))
	}

	for _, k := range sampleKeys {
		if v, ok := sampleOf[k]; ok {
			r.Sample(v)
		}
	}

	// --- report: one violation per distinct key, in a scheduling-independent order (round robin over the key
	// classes gate / list / effect / audit / confine / …), each re-checked on a fresh worker; the harness stops
	// after maxReportedKeys keys and only counts the rest
	if len(found) > 0 {
		groups := map[string][]string{}
		for k := range found {
			pre := k
			if i := strings.IndexByte(k, ':'); i > 0 {
				pre = k[:i]
			}
			groups[pre] = append(groups[pre], k)
		}
		var pres []string
		for p := range groups {
			sort.Strings(groups[p])
			pres = append(pres, p)
		}
		sort.Strings(pres)
		var order []string
		for i := 0; len(order) < len(found); i++ {
			for _, p := range pres {
				if i < len(groups[p]) {
					order = append(order, groups[p][i])
				}
			}
		}
		rw, err := newWorker(fx, 98)
		if err != nil {
			r.Infra("worker: %v", err)
		} else {
			for n, k := range order {
				if n >= maxReportedKeys {
					break
				}
				k, fc := k, found[k]
				spec := cases[fc.idx]
				r.Violation(k, fmt.Sprintf("%s [%d failing cases with this key; first: %s]", fc.msg, foundN[k], spec.key()), spec, func() bool {
					again := runCase(rw, spec)
					for _, g := range again.Findings {
						if g.Key == k {
							return true
						}
					}
					return false
				})
			}
			rw.close()
		}
		r.Set("violation_keys_found", len(found))
		total := 0
		for _, n := range foundN {
			total += n
		}
		r.Set("violating_findings_total", total)
	}

	// --- relational audit checks over the whole run
	for _, f := range relational {
		r.Violation(f.Key, f.Msg, nil, nil)
	}
	for tool, hs := range hashesOfTool {
		// an input hash has to depend on the input: many different argument sets, one single hash value
		if len(argsOfTool[tool]) >= 3 && len(hs) == 1 {
			r.Violation("audit:input_hash:constant:"+tool, fmt.Sprintf("%d different argument sets of %s all carry the same input_hash", len(argsOfTool[tool]), tool), nil, nil)
		}
	}
	for res := range resultClass["denied"] {
		if resultClass["ran-ok"][res] > 0 {
			r.Violation("audit:result:denied-equals-success:"+res, fmt.Sprintf("the audit result %q is written both for refused-by-gate calls and for successful calls", res), nil, nil)
		}
	}
	for res := range resultClass["failed"] {
		if resultClass["ran-ok"][res] > 0 {
			r.Violation("audit:result:failed-equals-success:"+res, fmt.Sprintf("the audit result %q is written both for failed calls and for successful calls", res), nil, nil)
		}
	}
	classes := map[string][]string{}
	for c, m := range resultClass {
		for k := range m {
			classes[c] = append(classes[c], k)
		}
		sort.Strings(classes[c])
	}
	r.Set("audit_result_values", classes)

	// --- call sequences on one long-lived server with an enumerated audit sink (seq_test.go)
	seqPart(r, fx, deadline)

	// --- vacuity: every tool ran at least once, every mutating tool showed its effect at least once
	if r.Violations() == 0 && !stopped {
		for _, t := range refTable {
			if allowedRuns[t.Name] == 0 {
				r.Infra("tool %s never ran in any allowed row (fixture problem)", t.Name)
			}
			if t.Mutating && effectSeen[t.Name] == 0 {
				r.Infra("mutating tool %s never showed its effect in an allowed row (probe problem)", t.Name)
			}
		}
	}
	eff := 0
	for _, n := range effectSeen {
		eff += n
	}
	r.Set("mutating_allowed_rows_with_observed_effect", eff)
	if r.Thorough() {
		r.Set("admin_proxy_mutations_observed", proxyEffects)
	}
	r.Set("workers", nw)
	r.Set("cases_planned", len(cases))
	r.Set("config_path_kinds", append([]string{"regular-file"}, cfgKinds...))
	{
		var tags []string
		for _, sp := range spellings {
			if sp.Quick || r.Thorough() {
				tags = append(tags, sp.Tag)
			}
		}
		r.Set("tool_name_spellings", tags)
	}
	r.Set("rule", "complete product: 31 documented tool names + 2 unknown names x role input {read, operate, admin, invalid 'root' via WithRole, invalid 'superuser' via Server.Role} x --enable-mutations {off,on} x --enable-runtime-control {off,on} x principal {set, empty} = 1320 table rows; every row is one Serve session (initialize, tools/list, tools/call with minimal valid arguments) on a fresh scratch directory (seeded SQLite queue db, config file, pid file of a harness child, foreign files) with side-effect probes; every row is repeated for every argument-shape variant of its tool (unknown key, no arguments, actor = / != principal in 4 spellings, missing reason, 12 path spellings (incl. a `..` behind a symlinked directory and symbolic links to the foreign and to the configured file), config_apply content{6} x mode{3}, management mode{2}; for the 3 config-writing tools: configured config path = symbolic link {absolute, relative, chain of two, to the planted foreign config} to a file elsewhere in the tree x the writing calls {config_apply valid / unhealthy-rollback / unchanged bytes / compile-invalid, management default mode / write_and_reload}: every file of the tree other than the configured path keeps content and inode, every other link its text, nothing is created or deleted); every row is also run twice in one session and on a server without configured config path (plus 6 path spellings there for the 8 path-taking tools: nothing may be written or created anywhere, no foreign content served); every documented tool is also called under spellings of its name (quick: trailing space, tab+CRLF wrap, upper case x the three documented roles x flags x principal x {minimal, actor != principal}; thorough: also leading space, '-' for '_', trailing NBSP, all role inputs, twice / actor = principal): refused without effect, or gated exactly like the documented tool and - if it ran and the tool is mutating - audited with exactly one record; before the table, `hookaido mcp serve` is run as a real child process (app.Main; stdin/stdout pipes, stderr = audit sink file) for every mutating tool x 3 configurations (thorough 5) x end {SIGKILL, end of input} with three calls per session (valid arguments, none, valid again): at the moment each answer is read, and after the process ended, the sink holds exactly one complete record per answered call; thorough adds 2 more unknown names, 3 more invalid role inputs, 4 environment states (db missing, config unparsable, config missing, all routes on the memory backend = admin-proxy mode against a recording Admin API stand-in) . A case is distinct by (tool, configuration, variant, reference verdict, observed outcome)")
	r.Assume("reference table transcribed from docs/mcp.md, internal/mcp/spec.md, DESIGN.md 'Access Model' (cross-checked against the tree's docs at run time); 'refused' = JSON-RPC error or result.isError")
	r.Assume("invalid role strings: the statement does not say whether they mean 'read' (documented default) or 'nothing'; both are accepted for read-level tools as long as tools/list and tools/call agree; anything above read must be refused")
	r.Assume("queue backend sqlite in the table; admin-proxy mode (memory backend) only as a thorough-tier environment variant against a recording stand-in that answers 200 to everything (postgres is the same code path, not run); process effects are observed on harness-owned children (fake run binary = this test binary, signal-recording sleeper); admin health is an in-process loopback listener")
	r.Assume("wiring part: the audit sink of `hookaido mcp serve` is a regular file opened O_APPEND as the child's stderr (not a pipe or terminal); instance_* tools are only run in configurations that deny them (no process control from the child); lines of the sink that are not JSON objects with a `tool` member are taken for diagnostics and ignored; 'at the answer' = after the complete response frame was read from the child's stdout")
	r.Assume("tool-name spellings: a finite alphabet of 6 spellings (3 in quick) that white-space trimming, case folding or '-'/'_' folding would map to a documented tool; for a refused spelled call the statement does not say whether it was a mutating call (unknown tool vs denied tool), so no audit record is demanded or forbidden there")
	r.Assume("configured path that is a symbolic link: the statement names the configured PATH, so replacing the link by a file and leaving it alone are both accepted; changing the file the link points to (content or inode) is reported as touching another path; a temporary file that is created and removed again inside one call is not seen by the before/after census")
	r.Assume("confinement is checked on the enumerated path/content alphabet, not on arbitrary strings; audit fields are checked for presence and plausibility (principal/role/tool equal the configuration, input_hash is a function of the arguments and not constant over different arguments, result separates denied/failed from success), not for formatting")
	r.Finish()
}

func expectedEffectSeen(tool string, effects []string) bool {
	has := func(prefix string) bool {
		for _, e := range effects {
			if strings.HasPrefix(e, prefix) {
				return true
			}
		}
		return false
	}
	switch {
	case configWriters[tool]:
		return has("config-file")
	case queueMutators[tool]:
		return has("queue-db") || has("admin-api:")
	case tool == "instance_start":
		return has("process:run-binary-started")
	case tool == "instance_stop":
		return has("process:signal-TERM")
	case tool == "instance_reload":
		return has("process:signal-HUP")
	}
	return true
}

func replayOne(r *runner.Run, fx *fixture, path string) {
	b, err := os.ReadFile(path)
	if err != nil {
		r.Infra("replay: %v", err)
		return
	}
	var f struct {
		Replay caseSpec `json:"replay"`
	}
	if err := json.Unmarshal(b, &f); err != nil || f.Replay.Tool == "" {
		r.Infra("replay file has no case: %v", err)
		return
	}
	w, err := newWorker(fx, 0)
	if err != nil {
		r.Infra("worker: %v", err)
		return
	}
	defer w.close()
	cr := runCase(w, f.Replay)
	if cr.InfraErr != "" {
		r.Infra("replay: %s", cr.InfraErr)
		return
	}
	r.Add("evaluations", 2)
	r.Distinct("replay|" + f.Replay.key())
	r.Distinct("replay|verdict=" + cr.Verdict.String())
	r.Sample(map[string]any{"case": f.Replay, "ref": cr.Verdict.String(), "refused": cr.Refused, "effects": cr.Effects, "audit_records": cr.AuditN})
	fmt.Printf("replay %s: ref=%s refused=%v listed=%v effects=%v audit=%d/%s\n", f.Replay.key(), cr.Verdict, cr.Refused, cr.Listed, cr.Effects, cr.AuditN, cr.AuditRes)
	for _, fd := range cr.Findings {
		r.Violation(fd.Key, fd.Msg, f.Replay, nil)
	}
	r.NotExhaustive("single-case replay")
	r.Set("rule", "replay of one case")
}
