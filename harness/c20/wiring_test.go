package c20

// Wiring part of C20 ("every mutating call, whether allowed, denied or failed, appends one audit record"): the
// server as the product wires it - a real child process running `hookaido mcp serve` (app.Main -> mcpServe: stdin /
// stdout pipes, stderr = the audit sink, here an O_APPEND file) - is driven call by call. When the answer of a
// mutating call has been read, the call's record has to BE in the sink: exactly one complete JSONL record more than
// before, with principal / role / tool as configured and called. The process is then ended either by SIGKILL (the way
// an MCP host ends a stdio server; nothing the process still holds in memory survives) or by end of input; the sink
// must hold exactly one record per answered mutating call either way.

import (
	"bufio"
	"encoding/json"
	"errors"
	"fmt"
	"io"
	"os"
	"os/exec"
	"path/filepath"
	"sort"
	"strconv"
	"strings"
	"sync"
	"time"

	"github.com/nuetzliches/hookaido/internal/app"
	"github.com/nuetzliches/hookaido/internal/verifkit/runner"
)

// hookaidoMain is the child mode "c20-hookaido <args...>": the product's command line (app.Main) in this binary.
func hookaidoMain(args []string) {
	os.Exit(app.Main(append([]string{"hookaido"}, args...)))
}

type wiringSpec struct {
	Wiring bool    `json:"wiring"`
	Tool   string  `json:"tool"`
	Cfg    gateCfg `json:"cfg"`
	End    string  `json:"end"` // "kill" | "eof"
}

func (s wiringSpec) key() string { return "wiring:" + s.Tool + ":" + s.Cfg.key() + ":" + s.End }

// the calls of one session: the tool with minimal valid arguments, without arguments, and with the minimal ones again
var wiringShapes = []string{"minimal", "no-arguments", "minimal"}

type wiringResult struct {
	InfraErr string
	Findings []finding
	Calls    int
	Classes  []string
	Records  int
}

// sinkRecords parses the sink: complete lines that are JSON objects with a "tool" member are audit records; other
// complete lines are diagnostics of the process (stderr is shared) and a trailing piece without newline is not a record.
func sinkRecords(b []byte) (recs []map[string]any, partial bool) {
	text := string(b)
	if i := strings.LastIndexByte(text, '\n'); i < len(text)-1 {
		partial = strings.TrimSpace(text[i+1:]) != ""
		text = text[:i+1]
	}
	for _, line := range strings.Split(text, "\n") {
		line = strings.TrimSpace(line)
		if line == "" {
			continue
		}
		var ev map[string]any
		if json.Unmarshal([]byte(line), &ev) != nil {
			continue
		}
		if _, ok := ev["tool"]; ok {
			recs = append(recs, ev)
		}
	}
	return recs, partial
}

func readOneFrame(r *bufio.Reader) (map[string]any, error) {
	n := -1
	for {
		line, err := r.ReadString('\n')
		if err != nil {
			return nil, err
		}
		line = strings.TrimRight(line, "\r\n")
		if line == "" {
			break
		}
		if i := strings.IndexByte(line, ':'); i > 0 && strings.EqualFold(strings.TrimSpace(line[:i]), "Content-Length") {
			v, err := strconv.Atoi(strings.TrimSpace(line[i+1:]))
			if err != nil {
				return nil, fmt.Errorf("bad content length %q", line)
			}
			n = v
		}
	}
	if n < 0 {
		return nil, errors.New("frame without content length")
	}
	payload := make([]byte, n)
	if _, err := io.ReadFull(r, payload); err != nil {
		return nil, err
	}
	var m map[string]any
	if err := json.Unmarshal(payload, &m); err != nil {
		return nil, err
	}
	return m, nil
}

const wiringWait = 3 * time.Minute // only a hung child ends here (reported as infrastructure error, never a verdict)

func runWiring(w *worker, spec wiringSpec) *wiringResult {
	wr := &wiringResult{}
	fail := func(key, format string, a ...any) {
		wr.Findings = append(wr.Findings, finding{key, fmt.Sprintf(format, a...)})
	}
	tref, ok := refByName[spec.Tool]
	if !ok || !tref.Mutating {
		wr.InfraErr = "not a mutating tool: " + spec.Tool
		return wr
	}
	if err := w.reset(false); err != nil {
		wr.InfraErr = "reset: " + err.Error()
		return wr
	}
	sinkPath := filepath.Join(w.fx.root, "sink-"+filepath.Base(w.dir)+".jsonl") // outside the worker directory
	os.Remove(sinkPath)
	sink, err := os.OpenFile(sinkPath, os.O_CREATE|os.O_WRONLY|os.O_APPEND, 0o600)
	if err != nil {
		wr.InfraErr = err.Error()
		return wr
	}
	defer os.Remove(sinkPath)
	args := []string{"c20-hookaido", "mcp", "serve", "--config", w.cfgPath, "--db", w.dbPath, "--role", spec.Cfg.Role,
		"--principal", spec.Cfg.Principal, "--pid-file", w.pidPath, "--run-binary", w.fx.exe, "--run-watch=false"}
	if spec.Cfg.Mut {
		args = append(args, "--enable-mutations")
	}
	if spec.Cfg.RT {
		args = append(args, "--enable-runtime-control")
	}
	cmd := exec.Command(w.fx.exe, args...)
	cmd.Env = append(os.Environ(), "VERIF_SHARD_OUT=", "VERIF_C20_CHILD=", "GOMAXPROCS=2")
	cmd.Stderr = sink
	stdin, err := cmd.StdinPipe()
	if err != nil {
		sink.Close()
		wr.InfraErr = err.Error()
		return wr
	}
	stdout, err := cmd.StdoutPipe()
	if err != nil {
		sink.Close()
		wr.InfraErr = err.Error()
		return wr
	}
	if err := cmd.Start(); err != nil {
		sink.Close()
		wr.InfraErr = err.Error()
		return wr
	}
	sink.Close() // the child holds its own descriptor
	exited := make(chan struct{})
	frames := make(chan map[string]any, 8)
	readErr := make(chan error, 1)
	go func() {
		br := bufio.NewReader(stdout)
		for {
			f, err := readOneFrame(br)
			if err != nil {
				readErr <- err
				close(frames)
				return
			}
			frames <- f
		}
	}()
	var waitOnce sync.Once
	finish := func(kill bool) {
		waitOnce.Do(func() {
			if kill {
				cmd.Process.Kill()
			}
			stdin.Close()
			go func() { cmd.Wait(); close(exited) }()
			select {
			case <-exited:
			case <-time.After(wiringWait):
				cmd.Process.Kill()
				<-exited
				if wr.InfraErr == "" {
					wr.InfraErr = "mcp serve child did not exit after end of input"
				}
			}
		})
	}
	defer finish(true)
	exchange := func(msg map[string]any) (map[string]any, error) {
		if _, err := stdin.Write(frameBytes(msg)); err != nil {
			return nil, err
		}
		select {
		case f, ok := <-frames:
			if !ok {
				return nil, fmt.Errorf("child closed stdout: %v", <-readErr)
			}
			return f, nil
		case <-time.After(wiringWait):
			return nil, errors.New("no answer from the mcp serve child")
		}
	}
	if _, err := exchange(map[string]any{"jsonrpc": "2.0", "id": 1, "method": "initialize", "params": map[string]any{
		"protocolVersion": "2024-11-05", "capabilities": map[string]any{}, "clientInfo": map[string]any{"name": "verif-c20", "version": "0"}}}); err != nil {
		wr.InfraErr = "initialize: " + err.Error()
		return wr
	}
	denied := refGate(tref, spec.Cfg, false, "") == refDeny
	firstClass := ""
	for i, shape := range wiringShapes {
		cargs, omit, err := buildArgs(w, spec.Tool, shape)
		if err != nil {
			wr.InfraErr = err.Error()
			return wr
		}
		params := map[string]any{"name": spec.Tool}
		if !omit {
			params["arguments"] = cargs
		}
		ans, err := exchange(map[string]any{"jsonrpc": "2.0", "id": 10 + i, "method": "tools/call", "params": params})
		if err != nil {
			wr.InfraErr = fmt.Sprintf("tools/call %d: %v", i, err)
			return wr
		}
		// the call is answered: look at the sink as it is now
		b, err := os.ReadFile(sinkPath)
		if err != nil {
			wr.InfraErr = err.Error()
			return wr
		}
		wr.Calls++
		refused := ans["error"] != nil
		if res, _ := ans["result"].(map[string]any); res != nil {
			if v, _ := res["isError"].(bool); v {
				refused = true
			}
		}
		class := "ran"
		if denied {
			class = "denied"
			if !refused {
				fail("wiring:gate:"+spec.Tool+":"+spec.Cfg.key()+":ran", "call was not refused although the reference denies it")
			}
		} else if refused {
			class = "failed"
		}
		if i == 0 {
			firstClass = class
		}
		wr.Classes = append(wr.Classes, class)
		recs, partial := sinkRecords(b)
		wr.Records = len(recs)
		if len(recs) != wr.Calls || partial {
			// keyed by the first call of the session that misses its record
			fail(fmt.Sprintf("wiring:audit:%s:%s:at-answer:count=%d/%d", spec.Tool, class, len(recs), wr.Calls),
				"`hookaido mcp serve` (role=%s mutations=%v runtime=%v principal=%q) answered mutating call #%d of %s (%s, %s), and the audit sink (the process's stderr) holds %d complete records at that moment, want %d (partial line: %v); sink: %q",
				spec.Cfg.Role, spec.Cfg.Mut, spec.Cfg.RT, spec.Cfg.Principal, wr.Calls, spec.Tool, shape, class, len(recs), wr.Calls, partial, string(b))
			return wr
		}
		ev := recs[len(recs)-1]
		if tn, _ := ev["tool"].(string); tn != spec.Tool {
			fail("wiring:audit:"+spec.Tool+":"+class+":bad:tool", "newest audit record names tool %v, called %q", ev["tool"], spec.Tool)
		}
		if p, _ := ev["principal"].(string); p != spec.Cfg.Principal {
			fail("wiring:audit:"+spec.Tool+":"+class+":bad:principal", "audit principal %v, --principal %q", ev["principal"], spec.Cfg.Principal)
		}
		if rl, _ := ev["role"].(string); rl != spec.Cfg.Role {
			fail("wiring:audit:"+spec.Tool+":"+class+":bad:role", "audit role %v, --role %q", ev["role"], spec.Cfg.Role)
		}
		for _, f := range auditFields {
			if _, ok := ev[f]; !ok {
				fail("wiring:audit:"+spec.Tool+":"+class+":missing:"+f, "audit record lacks %q: %v", f, ev)
			}
		}
	}
	// end of the process: killed, or end of input
	finish(spec.End == "kill")
	if wr.InfraErr != "" {
		return wr
	}
	b, err := os.ReadFile(sinkPath)
	if err != nil {
		wr.InfraErr = err.Error()
		return wr
	}
	recs, partial := sinkRecords(b)
	if len(recs) != wr.Calls || partial {
		fail(fmt.Sprintf("wiring:audit:%s:%s:after-%s:count=%d/%d", spec.Tool, firstClass, spec.End, len(recs), wr.Calls),
			"after the end of `hookaido mcp serve` (%s) the audit sink holds %d complete records for %d answered mutating calls of %s (partial line: %v); sink: %q",
			spec.End, len(recs), wr.Calls, spec.Tool, partial, string(b))
	}
	wr.Records = len(recs)
	return wr
}

func allWiring(thorough bool) []wiringSpec {
	cfgs := []gateCfg{
		{Role: "admin", RoleVia: "option", Mut: true, RT: false, Principal: principalName}, // 12 tools pass the gate, instance_* denied by flag
		{Role: "admin", RoleVia: "option", Mut: true, RT: true, Principal: ""},             // every mutating tool denied: no principal
		{Role: "read", RoleVia: "option", Mut: true, RT: true, Principal: principalName},   // every mutating tool denied by role
	}
	if thorough {
		cfgs = append(cfgs,
			gateCfg{Role: "operate", RoleVia: "option", Mut: true, RT: true, Principal: principalName}, // admin tools denied by role
			gateCfg{Role: "admin", RoleVia: "option", Mut: false, RT: false, Principal: principalName}, // denied by flag
		)
	}
	var out []wiringSpec
	for _, t := range refTable {
		if !t.Mutating {
			continue
		}
		for _, c := range cfgs {
			if isInstanceTool(t.Name) && refGate(t, c, false, "") != refDeny {
				continue // process control is not run for real in this part
			}
			for _, end := range []string{"kill", "eof"} {
				out = append(out, wiringSpec{Wiring: true, Tool: t.Name, Cfg: c, End: end})
			}
		}
	}
	return out
}

const maxWiringKeys = 12

func wiringPart(r *runner.Run, fx *fixture, deadline time.Time) {
	specs := allWiring(r.Thorough())
	nw := 6
	var (
		mu      sync.Mutex
		found   = map[string]foundCase{}
		foundN  = map[string]int{}
		classes = map[string]int{}
		skipped int
	)
	jobs := make(chan int)
	var wg sync.WaitGroup
	for i := 0; i < nw; i++ {
		w, err := newWorker(fx, 70+i)
		if err != nil {
			r.Infra("worker: %v", err)
			return
		}
		wg.Add(1)
		go func(w *worker) {
			defer wg.Done()
			defer w.close()
			for idx := range jobs {
				spec := specs[idx]
				wr := runWiring(w, spec)
				if wr.InfraErr != "" {
					r.Infra("wiring %s: %s", spec.key(), wr.InfraErr)
					continue
				}
				r.Add("wiring_sessions", 1)
				r.Add("wiring_calls_answered", int64(wr.Calls))
				r.Add("evaluations", int64(wr.Calls))
				r.Add("wiring_records_in_sink_at_answer", int64(wr.Records))
				r.Distinct("wiring|" + spec.key() + "|" + strings.Join(wr.Classes, ","))
				mu.Lock()
				for _, c := range wr.Classes {
					classes[c]++
				}
				for _, f := range wr.Findings {
					if prev, ok := found[f.Key]; !ok || idx < prev.idx {
						found[f.Key] = foundCase{idx: idx, msg: f.Msg}
					}
					foundN[f.Key]++
				}
				mu.Unlock()
			}
		}(w)
	}
	for i := range specs {
		if time.Now().After(deadline) {
			skipped = len(specs) - i
			break
		}
		jobs <- i
	}
	close(jobs)
	wg.Wait()
	if skipped > 0 {
		r.NotExhaustive(fmt.Sprintf("wall budget reached: %d of %d `mcp serve` process sessions not run", skipped, len(specs)))
	}
	r.Set("wiring_sessions_planned", len(specs))
	r.Set("wiring_call_classes", classes)
	if skipped == 0 && len(found) == 0 {
		for _, c := range []string{"ran", "denied", "failed"} {
			if classes[c] == 0 {
				r.Infra("wiring part: no %s call was observed (fixture problem)", c)
			}
		}
	}
	if len(found) > 0 {
		var keys []string
		for k := range found {
			keys = append(keys, k)
		}
		sort.Strings(keys)
		rw, err := newWorker(fx, 96)
		if err != nil {
			r.Infra("worker: %v", err)
			return
		}
		defer rw.close()
		for n, k := range keys {
			if n >= maxWiringKeys {
				break
			}
			k, fc := k, found[k]
			spec := specs[fc.idx]
			r.Violation(k, fmt.Sprintf("%s [%d failing sessions with this key; first: %s]", fc.msg, foundN[k], spec.key()), spec, func() bool {
				again := runWiring(rw, spec)
				for _, g := range again.Findings {
					if g.Key == k {
						return true
					}
				}
				return false
			})
		}
		r.Set("wiring_violation_keys_found", len(found))
	}
}

func replayWiring(r *runner.Run, fx *fixture, path string) bool {
	b, err := os.ReadFile(path)
	if err != nil {
		return false
	}
	var f struct {
		Replay wiringSpec `json:"replay"`
	}
	if err := json.Unmarshal(b, &f); err != nil || !f.Replay.Wiring {
		return false
	}
	w, err := newWorker(fx, 70)
	if err != nil {
		r.Infra("worker: %v", err)
		return true
	}
	defer w.close()
	wr := runWiring(w, f.Replay)
	if wr.InfraErr != "" {
		r.Infra("replay: %s", wr.InfraErr)
		return true
	}
	r.Add("evaluations", int64(wr.Calls))
	r.Distinct("replay|" + f.Replay.key())
	r.Distinct(fmt.Sprintf("replay|records=%d", wr.Records))
	r.Sample(map[string]any{"session": f.Replay.key(), "classes": wr.Classes, "records": wr.Records})
	fmt.Printf("replay %s: classes=%v records=%d\n", f.Replay.key(), wr.Classes, wr.Records)
	for _, fd := range wr.Findings {
		r.Violation(fd.Key, fd.Msg, f.Replay, nil)
	}
	r.NotExhaustive("single-session replay")
	r.Set("rule", "replay of one `mcp serve` process session")
	return true
}
