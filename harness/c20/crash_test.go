package c20

import (
	"bytes"
	"context"
	"encoding/json"
	"fmt"
	"os"
	"os/exec"
	"path/filepath"
	"strings"
	"sync"
	"syscall"
	"time"

	"github.com/nuetzliches/hookaido/internal/config"
	"github.com/nuetzliches/hookaido/internal/mcp"
	"github.com/nuetzliches/hookaido/internal/verifkit/runner"
	"github.com/nuetzliches/hookaido/internal/verifkit/verifcrash"
)

// Crash part ("config-writing tools leave only content that parses and compiles at the configured path"): a child
// process makes one real tools/call through the MCP server and is SIGKILLed at every file mutation the tool performs -
// every os-level mutation of internal/mcp/server.go is a crash point (the os import of that file is replaced by the
// vos shim; a write may be torn in the middle) plus every statement of writeFileAtomic / syncDir / rollbackConfigFile.
// After each death the configured path must hold exactly the previous or exactly the new content, and it must load.

const crashCfg = `
ingress   { listen "127.0.0.1:18080" }
pull_api  { listen "127.0.0.1:19443"  auth token "raw:g1" }
admin_api { listen "127.0.0.1:12019" }
/m { application app1  endpoint_name ep1  queue { backend memory }  pull { path /em } }
/free { queue { backend memory }  pull { path /ef } }
`

func frame(w *bytes.Buffer, msg any) {
	b, _ := json.Marshal(msg)
	fmt.Fprintf(w, "Content-Length: %d\r\n\r\n", len(b))
	w.Write(b)
}

var crashScenarios = map[string]map[string]any{
	"config_apply:write_only":       {"name": "config_apply", "arguments": map[string]any{"content": crashCfg + "/extra { queue { backend memory }  pull { path /ex } }\n", "mode": "write_only"}},
	"config_apply:write_and_reload": {"name": "config_apply", "arguments": map[string]any{"content": crashCfg + "/extra { queue { backend memory }  pull { path /ex } }\n", "mode": "write_and_reload", "reload_timeout": "200ms"}},
	"management_endpoint_upsert":    {"name": "management_endpoint_upsert", "arguments": map[string]any{"application": "app2", "endpoint_name": "ep2", "route": "/free", "reason": "verif"}},
	"management_endpoint_delete":    {"name": "management_endpoint_delete", "arguments": map[string]any{"application": "app1", "endpoint_name": "ep1", "reason": "verif"}},
}

func crashChild20(scn string) {
	verifcrash.Init()
	dir := os.Getenv("VERIF_CRASH_DIR")
	cfgPath := filepath.Join(dir, "Hookaidofile")
	os.WriteFile(cfgPath, []byte(crashCfg), 0o644)
	var in, out, audit bytes.Buffer
	frame(&in, map[string]any{"jsonrpc": "2.0", "id": 1, "method": "initialize", "params": map[string]any{"protocolVersion": "2024-11-05", "capabilities": map[string]any{}, "clientInfo": map[string]any{"name": "verif", "version": "0"}}})
	frame(&in, map[string]any{"jsonrpc": "2.0", "method": "notifications/initialized"})
	frame(&in, map[string]any{"jsonrpc": "2.0", "id": 2, "method": "tools/call", "params": crashScenarios[scn]})
	srv := mcp.NewServer(&in, &out, cfgPath, filepath.Join(dir, "q.db"), mcp.WithPrincipal("ops"), mcp.WithAuditWriter(&audit), mcp.WithMutationsEnabled(true), mcp.WithRole(mcp.Role("admin")))
	verifcrash.Arm()
	srv.Serve(context.Background())
	verifcrash.Disarm()
	o := out.String()
	verifcrash.Log("STATUS " + strings.ReplaceAll(o[max(0, len(o)-300):], "\n", " "))
	verifcrash.Log(fmt.Sprintf("DONE %d", verifcrash.Count()))
	os.Exit(0)
}

func spawnCrash20(scn, dir string, at int) (killed bool, out string, err error) {
	os.RemoveAll(dir)
	os.MkdirAll(dir, 0o755)
	cmd := exec.Command(os.Args[0], "-test.run", "^TestCheck$", "-test.timeout", "0")
	cmd.Env = append(os.Environ(), "VERIF_C20_CHILD="+scn, "VERIF_CRASH_DIR="+dir, fmt.Sprintf("VERIF_CRASH_AT=%d", at), "VERIF_CRASH_LOG="+filepath.Join(dir, "side.log"), "VERIF_CRASH_LABELS=1")
	var buf strings.Builder
	cmd.Stdout, cmd.Stderr = &buf, &buf
	if err := cmd.Start(); err != nil {
		return false, "", err
	}
	done := make(chan error, 1)
	go func() { done <- cmd.Wait() }()
	select {
	case e := <-done:
		if e == nil {
			return false, buf.String(), nil
		}
		if ee, ok := e.(*exec.ExitError); ok {
			if ws, ok := ee.Sys().(syscall.WaitStatus); ok && ws.Signaled() && ws.Signal() == syscall.SIGKILL {
				return true, buf.String(), nil
			}
		}
		return false, buf.String(), e
	case <-time.After(4 * time.Minute):
		cmd.Process.Kill()
		return false, buf.String(), fmt.Errorf("child hung")
	}
}

func loads(b []byte) bool {
	cfg, err := config.Parse(b)
	if err != nil {
		return false
	}
	_, res := config.Compile(cfg)
	return res.OK
}

func crashPart20(r *runner.Run) {
	scratch := runner.Scratch()
	oldB := []byte(crashCfg)
	names := make([]string, 0, len(crashScenarios))
	for n := range crashScenarios {
		names = append(names, n)
	}
	for _, scn := range names {
		tag := strings.ReplaceAll(scn, ":", "-")
		d0 := filepath.Join(scratch, "c20c-"+tag+"-count")
		killed, out, err := spawnCrash20(scn, d0, 0)
		if err != nil || killed {
			r.Infra("%s: counting run failed: %v %s", scn, err, out)
			continue
		}
		logb, _ := os.ReadFile(filepath.Join(d0, "side.log"))
		K := 0
		for _, l := range strings.Split(string(logb), "\n") {
			fmt.Sscanf(l, "DONE %d", &K)
		}
		finalB, _ := os.ReadFile(filepath.Join(d0, "Hookaidofile"))
		if !loads(finalB) {
			r.Violation("config-write:"+scn+":final-content-does-not-load", fmt.Sprintf("[%s] the tool returned and left a configuration that does not load: %q", scn, cut(finalB)), map[string]any{"scenario": scn}, nil)
			continue
		}
		if K == 0 {
			r.Infra("%s: the tool passed no crash point (not applied?): %s", scn, logb)
			continue
		}
		r.Set("config-write-crash:"+scn, map[string]any{"crash_points": K, "final_content_is_previous": bytes.Equal(finalB, oldB)})
		var wg sync.WaitGroup
		jobs := make(chan int, K)
		for n := 1; n <= K; n++ {
			jobs <- n
		}
		close(jobs)
		for w := 0; w < 8; w++ {
			wg.Add(1)
			go func(w int) {
				defer wg.Done()
				for n := range jobs {
					dir := filepath.Join(scratch, fmt.Sprintf("c20c-%s-w%d", tag, w))
					killed, out, err := spawnCrash20(scn, dir, n)
					if err != nil || !killed {
						r.Infra("%s: crash point %d: child was not killed (%v) %s", scn, n, err, out)
						continue
					}
					got, rerr := os.ReadFile(filepath.Join(dir, "Hookaidofile"))
					lb, _ := os.ReadFile(filepath.Join(dir, "side.log"))
					label := ""
					for _, l := range strings.Split(string(lb), "\n") {
						if strings.HasPrefix(l, "CRASH ") {
							label = l
						}
					}
					r.Add("config_write_crash_points", 1)
					which := "neither-previous-nor-new"
					switch {
					case rerr != nil:
						which = "missing"
					case bytes.Equal(got, oldB):
						which = "previous"
					case loads(got):
						which = "new"
					}
					r.Distinct(fmt.Sprintf("crash:%s:%s", scn, which))
					if which != "previous" && which != "new" {
						r.Violation("config-write-crash:"+scn+":"+which, fmt.Sprintf("[%s] killed at %q: the configured path holds %s content: %q", scn, label, which, cut(got)),
							map[string]any{"engine": "crash", "scenario": scn, "crash_at": n, "label": label}, nil)
					}
				}
			}(w)
		}
		wg.Wait()
	}
}

func cut(b []byte) string {
	if len(b) > 160 {
		return string(b[:160]) + "..."
	}
	return string(b)
}
