package c20

import "sync/atomic"

func atomicAdd(p *int64, d int64) { atomic.AddInt64(p, d) }
