package c20

// Sequence part of C20: call SEQUENCES on ONE long-lived mcp.Server whose audit SINK is an enumerated
// environment answer.
//
// The table part (check_test.go) runs one call per fresh server against a sink that never fails. Everything a
// server keeps between calls (a cached audit encoder / wrapped writer, a remembered write error, throttling or
// de-duplication state, a remembered actor binding, "audit is broken" flags …) is invisible there. This part
// keeps one server alive over several tools/call frames (one Serve session, or several Serve sessions on the
// same server) and enumerates, per call, what the audit sink answers to the writes of that call:
//
//	A  accept everything
//	F  fail every write of this call: (0, ENOSPC)
//	S  short write: the first half of every write is taken, then (n, io.ErrShortWrite)
//	T  (thorough) everything but the last byte is taken, then (n, EIO)
//
// "accept after k failures" is the sequence F^k A (k = 1, 2; thorough 3).
//
// Oracle (from the statement, per call, judged on what the sink received DURING that call):
//   - every call of a mutating tool - allowed, denied or failed - whose sink answer is A appends exactly one
//     complete audit record (one JSONL line: a JSON object with timestamp, principal, role, tool, input hash,
//     result, duration; tool / principal / role as configured and called), whatever happened to earlier writes.
//     Only after an earlier rejected / truncated write of the same server are additional lines AHEAD of the
//     call's own record tolerated (at most one per lost record: an implementation may re-emit what was lost);
//   - the gate is independent of the sink and of the history: a call the reference denies is refused and has no
//     effect on files, queue db or processes, also when its own or an earlier audit write failed;
//   - tools/list of every session advertises exactly the reference set, whatever happened before;
//   - a call the reference allows, with documented-valid arguments, on untouched state and with a sink that has
//     accepted everything so far, is answered without error (positive probe);
//   - the statement is silent on the OUTCOME of an allowed call whose own audit write fails: observed, counted and
//     recorded as an assumption, never asserted.
//
// The sink is switched and the per-call observations are taken by the harness' own io.Reader: it hands the
// server exactly one frame at a time, so the read of frame k+1 happens after the answer to frame k was written.

import (
	"bytes"
	"context"
	"encoding/json"
	"fmt"
	"io"
	"os"
	"path/filepath"
	"runtime"
	"sort"
	"strings"
	"sync"
	"syscall"
	"time"

	"github.com/nuetzliches/hookaido/internal/mcp"
	"github.com/nuetzliches/hookaido/internal/verifkit/runner"
)

// ---- specification of one sequence ---------------------------------------------------------------------

type seqStep struct {
	Tool  string `json:"tool"`  // tool name; "#list" = a tools/list frame between the calls
	Shape string `json:"shape"` // argument shape (a buildArgs variant): minimal | actor-eq | actor-other | unknown-key
	Sink  string `json:"sink"`  // answer of the audit sink to every write during this call: A | F | S | T
}

type seqSpec struct {
	Block string    `json:"block"`
	Cfg   gateCfg   `json:"cfg"`
	Split string    `json:"split"` // "one": all calls in one Serve session; "per-call": one Serve session per call on the same server
	Steps []seqStep `json:"steps"`
}

func (s seqSpec) key() string {
	var b strings.Builder
	b.WriteString(s.Block + "|" + s.Cfg.key() + "|" + s.Split + "|")
	for i, st := range s.Steps {
		if i > 0 {
			b.WriteByte(',')
		}
		b.WriteString(st.Tool + "/" + st.Shape + "/" + st.Sink)
	}
	return b.String()
}

// ---- the audit sink ------------------------------------------------------------------------------------

type sinkWindow struct {
	mode     byte
	accepted []byte // bytes the sink took during the window
	writes   int    // Write calls during the window
}

type auditSink struct {
	mu   sync.Mutex
	wins []*sinkWindow
	cur  *sinkWindow
}

func (s *auditSink) open(mode byte) *sinkWindow {
	s.mu.Lock()
	defer s.mu.Unlock()
	w := &sinkWindow{mode: mode}
	s.wins = append(s.wins, w)
	s.cur = w
	return w
}

func (s *auditSink) Write(p []byte) (int, error) {
	s.mu.Lock()
	defer s.mu.Unlock()
	w := s.cur
	if w == nil {
		w = &sinkWindow{mode: 'A'}
		s.wins = append(s.wins, w)
		s.cur = w
	}
	w.writes++
	switch w.mode {
	case 'F':
		return 0, syscall.ENOSPC
	case 'S':
		n := len(p) / 2
		w.accepted = append(w.accepted, p[:n]...)
		return n, io.ErrShortWrite
	case 'T':
		n := len(p) - 1
		if n < 0 {
			n = 0
		}
		w.accepted = append(w.accepted, p[:n]...)
		return n, syscall.EIO
	}
	w.accepted = append(w.accepted, p...)
	return len(p), nil
}

// ---- the frame-at-a-time input -------------------------------------------------------------------------

// frameReader hands out one frame at a time: a Read never returns bytes of two frames, and boundary(k) runs
// before the first byte of frame k is delivered (k == len(frames): end of input). Serve handles a request and
// writes its answer before it reads on, so at boundary(k) frame k-1 is completely processed.
type frameReader struct {
	frames    [][]byte
	idx, off  int
	announced int
	boundary  func(next int)
}

func (r *frameReader) Read(p []byte) (int, error) {
	if len(p) == 0 {
		return 0, nil
	}
	for r.idx < len(r.frames) && r.off == len(r.frames[r.idx]) {
		r.idx++
		r.off = 0
	}
	if r.announced <= r.idx {
		r.announced = r.idx + 1
		r.boundary(r.idx)
	}
	if r.idx >= len(r.frames) {
		return 0, io.EOF
	}
	n := copy(p, r.frames[r.idx][r.off:])
	r.off += n
	return n, nil
}

// ---- state snapshots between the calls -----------------------------------------------------------------

type fullSnap struct {
	files map[string]string
	db    [3][]byte // q.db, q.db-wal, q.db-shm (nil = absent)
}

func (w *worker) fullSnapshot() (*fullSnap, error) {
	f, err := w.snapshot()
	if err != nil {
		return nil, err
	}
	s := &fullSnap{files: f}
	for i, suf := range []string{"", "-wal", "-shm"} {
		b, err := os.ReadFile(w.dbPath + suf)
		if err != nil {
			if os.IsNotExist(err) {
				continue
			}
			return nil, err
		}
		if b == nil {
			b = []byte{}
		}
		s.db[i] = b
	}
	return s, nil
}

// dumpRawDB renders the logical content of a raw (db, wal) pair from a private copy.
func (w *worker) dumpRawDB(db [3][]byte) (string, error) {
	if db[0] == nil {
		return "(no queue db)", nil
	}
	dir, err := os.MkdirTemp(w.fx.root, "seqdb")
	if err != nil {
		return "", err
	}
	defer os.RemoveAll(dir)
	p := filepath.Join(dir, "q.db")
	if err := os.WriteFile(p, db[0], 0o600); err != nil {
		return "", err
	}
	if db[1] != nil {
		if err := os.WriteFile(p+"-wal", db[1], 0o600); err != nil {
			return "", err
		}
	}
	return dumpDB(p)
}

// effectsBetween lists what changed between two snapshots (files by name; the queue db logically).
func (w *worker) effectsBetween(a, b *fullSnap) ([]string, error) {
	var eff []string
	for _, d := range diffSnap(a.files, b.files) {
		eff = append(eff, "file:"+d)
	}
	same := true
	for i := range a.db {
		if (a.db[i] == nil) != (b.db[i] == nil) || !bytes.Equal(a.db[i], b.db[i]) {
			same = false
		}
	}
	if !same {
		da, err := w.dumpRawDB(a.db)
		if err != nil {
			return nil, err
		}
		db, err := w.dumpRawDB(b.db)
		if err != nil {
			return nil, err
		}
		if da != db {
			eff = append(eff, "queue-db")
		}
	}
	return eff, nil
}

// ---- running one sequence ------------------------------------------------------------------------------

type stepObs struct {
	Verdict  verdict
	Mutating bool
	Known    bool
	Answered bool
	Refused  bool
	Class    string // "ran" | "denied" | "failed" (as in the table part)
	Window   *sinkWindow
	Records  int
	Args     string
	Listed   []string // "#list" steps
}

type seqResult struct {
	Spec     seqSpec
	Steps    []stepObs
	Findings []finding
	InfraErr string
	// observation only: allowed calls on untouched state whose own audit write failed
	AuditFailAnsweredOK, AuditFailAnsweredErr int
	Replayed                                  int         // lines ahead of a call's own record after an earlier failed write (tolerated)
	hashes                                    [][3]string // tool, args, input_hash
	results                                   [][2]string // class, audit result value
}

type seqFrame struct {
	kind string // init | notif | list | step
	step int
	id   int
	raw  []byte
}

func frameBytes(msg any) []byte {
	var b bytes.Buffer
	writeFrame(&b, msg)
	return b.Bytes()
}

func isListStep(st seqStep) bool { return st.Tool == "#list" }

// prevDesc is the history class used in violation keys: which reference verdicts preceded the step
// (a = allowed, d = denied) and whether an earlier sink answer was not "accept" (!).
func prevDesc(spec seqSpec, verdicts []verdict, i int) string {
	if i == 0 {
		return "first"
	}
	a, d, bad := false, false, false
	for j := 0; j < i; j++ {
		if isListStep(spec.Steps[j]) {
			continue
		}
		if verdicts[j] == refDeny {
			d = true
		} else {
			a = true
		}
		if spec.Steps[j].Sink != "A" {
			bad = true
		}
	}
	s := "after-"
	if a {
		s += "a"
	}
	if d {
		s += "d"
	}
	if !a && !d {
		s += "list"
	}
	if bad {
		s += "!"
	}
	return s
}

func runSeq(w *worker, spec seqSpec) *seqResult {
	sr := &seqResult{Spec: spec, Steps: make([]stepObs, len(spec.Steps))}
	fail := func(key, format string, a ...any) {
		sr.Findings = append(sr.Findings, finding{key, fmt.Sprintf(format, a...)})
	}
	needSleeper := false
	for _, st := range spec.Steps {
		if st.Tool == "instance_stop" || st.Tool == "instance_reload" {
			needSleeper = true
		}
	}
	if err := w.reset(needSleeper); err != nil {
		sr.InfraErr = "reset: " + err.Error()
		return sr
	}
	w.rec.take()

	// --- arguments and reference verdicts
	verdicts := make([]verdict, len(spec.Steps))
	argsOf := make([]map[string]any, len(spec.Steps))
	allowedSignal := false // an allowed instance_stop / instance_reload is part of the sequence
	for i, st := range spec.Steps {
		if isListStep(st) {
			verdicts[i] = refAllow
			continue
		}
		args, omit, err := buildArgs(w, st.Tool, st.Shape)
		if err != nil || omit {
			sr.InfraErr = fmt.Sprintf("step %d: unusable shape %q (%v)", i, st.Shape, err)
			return sr
		}
		argsOf[i] = args
		o := &sr.Steps[i]
		if b, err := json.Marshal(args); err == nil {
			o.Args = string(b)
		}
		tref, known := refByName[st.Tool]
		o.Known, o.Mutating = known, known && tref.Mutating
		actor, supplied := "", false
		if a, ok := args["actor"].(string); ok && a != "" {
			actor, supplied = a, true
		}
		v := refDeny
		if known {
			v = refGate(tref, spec.Cfg, supplied, actor)
		}
		if v == refEither {
			sr.InfraErr = "sequence part expects a valid role"
			return sr
		}
		verdicts[i], o.Verdict = v, v
		if v == refAllow && (st.Tool == "instance_stop" || st.Tool == "instance_reload") {
			allowedSignal = true
		}
	}

	// --- sessions
	var sessions [][]seqFrame
	preamble := func() []seqFrame {
		return []seqFrame{
			{kind: "init", id: 1, raw: frameBytes(map[string]any{"jsonrpc": "2.0", "id": 1, "method": "initialize", "params": map[string]any{
				"protocolVersion": "2024-11-05", "capabilities": map[string]any{}, "clientInfo": map[string]any{"name": "verif-c20-seq", "version": "0"}}})},
			{kind: "notif", raw: frameBytes(map[string]any{"jsonrpc": "2.0", "method": "notifications/initialized"})},
			{kind: "list", id: 2, step: -1, raw: frameBytes(map[string]any{"jsonrpc": "2.0", "id": 2, "method": "tools/list"})},
		}
	}
	stepFrame := func(i int) seqFrame {
		st := spec.Steps[i]
		if isListStep(st) {
			return seqFrame{kind: "step", step: i, id: 10 + i, raw: frameBytes(map[string]any{"jsonrpc": "2.0", "id": 10 + i, "method": "tools/list"})}
		}
		return seqFrame{kind: "step", step: i, id: 10 + i, raw: frameBytes(map[string]any{"jsonrpc": "2.0", "id": 10 + i, "method": "tools/call",
			"params": map[string]any{"name": st.Tool, "arguments": argsOf[i]}})}
	}
	switch spec.Split {
	case "one":
		s := preamble()
		for i := range spec.Steps {
			s = append(s, stepFrame(i))
		}
		sessions = append(sessions, s)
	case "per-call":
		for i := range spec.Steps {
			sessions = append(sessions, append(preamble(), stepFrame(i)))
		}
	default:
		sr.InfraErr = "unknown split " + spec.Split
		return sr
	}

	// --- the one server
	sink := &auditSink{}
	opts := []mcp.Option{
		mcp.WithPrincipal(spec.Cfg.Principal),
		mcp.WithAuditWriter(sink),
		mcp.WithMutationsEnabled(spec.Cfg.Mut),
		mcp.WithRuntimeControlEnabled(spec.Cfg.RT),
		mcp.WithRuntimeControlPIDFile(w.pidPath),
		mcp.WithRuntimeControlRunBinary(w.fx.exe),
		mcp.WithRuntimeControlRunWatch(false),
		mcp.WithRuntimeControlRunLogLevel("info"),
		mcp.WithRole(mcp.Role(spec.Cfg.Role)),
	}
	srv := mcp.NewServer(strings.NewReader(""), io.Discard, w.cfgPath, w.dbPath, opts...)

	first, err := w.fullSnapshot()
	if err != nil {
		sr.InfraErr = "snapshot: " + err.Error()
		return sr
	}
	cfgBefore, _ := os.ReadFile(w.cfgPath)
	last := first // snapshot that is valid "now" (nil = state may have changed since)
	before := make([]*fullSnap, len(spec.Steps))
	after := make([]*fullSnap, len(spec.Steps))
	snapErr := ""
	needSnap := func(i int) bool { return i >= 0 && !isListStep(spec.Steps[i]) && verdicts[i] == refDeny }

	type sessOut struct {
		frames []seqFrame
		out    bytes.Buffer
	}
	outs := make([]*sessOut, len(sessions))
	for si, frames := range sessions {
		so := &sessOut{frames: frames}
		outs[si] = so
		raws := make([][]byte, len(frames))
		for i, f := range frames {
			raws[i] = f.raw
		}
		rd := &frameReader{frames: raws}
		rd.boundary = func(next int) {
			prevStep, nextStep := -1, -1
			if next > 0 && frames[next-1].kind == "step" {
				prevStep = frames[next-1].step
			}
			if next < len(frames) && frames[next].kind == "step" {
				nextStep = frames[next].step
			}
			if prevStep >= 0 {
				last = nil // a call was processed: the state may have changed
			}
			if needSnap(prevStep) || needSnap(nextStep) {
				if last == nil {
					s, err := w.fullSnapshot()
					if err != nil {
						snapErr = err.Error()
						s = &fullSnap{files: map[string]string{}}
					}
					last = s
				}
				if prevStep >= 0 {
					after[prevStep] = last
				}
				if nextStep >= 0 {
					before[nextStep] = last
				}
			}
			if next < len(frames) {
				mode := byte('A')
				if nextStep >= 0 && !isListStep(spec.Steps[nextStep]) {
					mode = spec.Steps[nextStep].Sink[0]
				}
				win := sink.open(mode)
				if nextStep >= 0 {
					sr.Steps[nextStep].Window = win
				}
			} else {
				sink.open('A') // anything written after the last answer lands in a window of its own
			}
		}
		srv.In, srv.Out = rd, &so.out
		if err := srv.Serve(context.Background()); err != nil {
			fail("seq:protocol", "Serve failed in session %d: %v", si, err)
			return sr
		}
	}
	if snapErr != "" {
		sr.InfraErr = "snapshot: " + snapErr
		return sr
	}

	// --- end-of-sequence observations
	final, err := w.fullSnapshot()
	if err != nil {
		sr.InfraErr = "snapshot: " + err.Error()
		return sr
	}
	var signals []string
	if needSleeper {
		var exited bool
		signals, exited, err = w.sl.poll()
		if err != nil {
			sr.InfraErr = "sleeper: " + err.Error()
			return sr
		}
		_ = exited
		if allowedSignal {
			// a signal the implementation sent may reach the child after this poll (loaded machine): do not let it
			// leak into the next sequence of this worker, start that one with a fresh child
			w.sl.kill()
			w.sl = nil
		}
	}
	if rec, err := os.ReadFile(w.pidPath + ".invoked"); err == nil {
		var r struct {
			Pid int `json:"pid"`
		}
		if json.Unmarshal(rec, &r) == nil && r.Pid > 1 {
			_ = syscall.Kill(r.Pid, syscall.SIGTERM) // the harness' own recording child
		}
	}
	var adminWrites []string
	for _, q := range w.rec.take() {
		if !strings.HasPrefix(q, "GET ") && !strings.HasPrefix(q, "HEAD ") {
			adminWrites = append(adminWrites, q)
		}
	}

	// --- answers
	refList := func(listed []string, where string, hist string) {
		have := map[string]bool{}
		for _, n := range listed {
			have[n] = true
		}
		for _, t := range refTable {
			switch refGate(t, spec.Cfg, false, "") {
			case refAllow:
				if !have[t.Name] {
					fail("seq:list:"+spec.Cfg.key()+":missing:"+t.Name+":"+hist, "%s omits %s although the gate allows it (sequence %s)", where, t.Name, spec.key())
				}
			case refDeny:
				if have[t.Name] {
					fail("seq:list:"+spec.Cfg.key()+":extra:"+t.Name+":"+hist, "%s advertises %s although a call must be refused (sequence %s)", where, t.Name, spec.key())
				}
			}
		}
	}
	listNames := func(f map[string]any) ([]string, bool) {
		lr, _ := f["result"].(map[string]any)
		tl, ok := lr["tools"].([]any)
		if lr == nil || !ok {
			return nil, false
		}
		var names []string
		for _, t := range tl {
			tm, _ := t.(map[string]any)
			n, _ := tm["name"].(string)
			names = append(names, n)
		}
		return names, true
	}
	for si, so := range outs {
		frames, err := readFrames(so.out.Bytes())
		if err != nil {
			fail("seq:protocol", "session %d: %v", si, err)
			return sr
		}
		byID := map[int]map[string]any{}
		for _, f := range frames {
			id, ok := f["id"].(float64)
			if !ok || f["jsonrpc"] != "2.0" {
				fail("seq:protocol", "session %d: response without jsonrpc 2.0 / numeric id: %v", si, f)
				return sr
			}
			if _, dup := byID[int(id)]; dup {
				fail("seq:protocol", "session %d: two responses for id %d", si, int(id))
				return sr
			}
			byID[int(id)] = f
		}
		firstStep := len(spec.Steps)
		for _, f := range so.frames {
			if f.kind == "step" && f.step < firstStep {
				firstStep = f.step
			}
		}
		for _, f := range so.frames {
			if f.kind == "notif" {
				continue
			}
			resp := byID[f.id]
			if resp == nil {
				fail("seq:protocol", "session %d: no response for id %d (sequence %s)", si, f.id, spec.key())
				return sr
			}
			switch f.kind {
			case "init":
				if init, _ := resp["result"].(map[string]any); init == nil || init["protocolVersion"] == nil {
					fail("seq:protocol", "session %d: initialize did not return a result", si)
					return sr
				}
			case "list":
				names, ok := listNames(resp)
				if !ok {
					fail("seq:protocol", "session %d: tools/list did not return result.tools", si)
					return sr
				}
				refList(names, fmt.Sprintf("tools/list at the start of session %d", si), prevDesc(spec, verdicts, firstStep))
			case "step":
				o := &sr.Steps[f.step]
				o.Answered = true
				if isListStep(spec.Steps[f.step]) {
					names, ok := listNames(resp)
					if !ok {
						fail("seq:protocol", "tools/list (step %d) did not return result.tools", f.step)
						return sr
					}
					o.Listed = names
					refList(names, fmt.Sprintf("tools/list as step %d", f.step), prevDesc(spec, verdicts, f.step))
					continue
				}
				if resp["error"] != nil {
					o.Refused = true
				} else if cr, _ := resp["result"].(map[string]any); cr == nil {
					fail("seq:protocol", "tools/call (step %d) returned neither result nor error", f.step)
					return sr
				} else if v, ok := cr["isError"].(bool); ok && v {
					o.Refused = true
				}
			}
		}
	}

	// --- per-step oracle
	touched := false    // an earlier call of a mutating tool passed the gate: state is no longer the seeded one
	sinkHealthy := true // every sink answer so far was "accept"
	allDenied := true   // no call of the sequence passes the reference gate
	for i, st := range spec.Steps {
		if isListStep(st) {
			continue
		}
		o := &sr.Steps[i]
		v := verdicts[i]
		hist := prevDesc(spec, verdicts, i)
		gk := st.Tool + ":" + spec.Cfg.key() + ":" + st.Shape + ":sink=" + st.Sink + ":" + hist
		o.Class = "ran"
		if v == refDeny {
			o.Class = "denied"
		} else if o.Refused {
			o.Class = "failed"
		}
		if v != refDeny {
			allDenied = false
		}
		// (B) gate
		if v == refDeny {
			if !o.Refused {
				fail("seq:gate:"+gk+":ran", "call %d of the sequence was not refused although the reference denies it (sequence %s, args=%s)", i, spec.key(), o.Args)
			}
			if before[i] == nil || after[i] == nil {
				sr.InfraErr = fmt.Sprintf("no snapshots around denied step %d", i)
				return sr
			}
			eff, err := w.effectsBetween(before[i], after[i])
			if err != nil {
				sr.InfraErr = "db dump: " + err.Error()
				return sr
			}
			if len(eff) > 0 {
				fail("seq:effect:"+gk, "refused call %d of the sequence had an effect: %v (sequence %s, args=%s)", i, eff, spec.key(), o.Args)
			}
		} else {
			valid := st.Shape == "minimal" || (st.Shape == "actor-eq" && toolsWithActorArg[st.Tool])
			if valid && !touched {
				switch {
				case sinkHealthy && st.Sink == "A":
					if o.Refused {
						fail("seq:gate:"+gk+":refused", "call %d (valid arguments, gate allows it, seeded state untouched, sink accepted everything) was refused (sequence %s, args=%s)", i, spec.key(), o.Args)
					}
				case sinkHealthy && o.Mutating:
					// the statement is silent on the outcome of a call whose own audit write fails: observe only
					if o.Refused {
						sr.AuditFailAnsweredErr++
					} else {
						sr.AuditFailAnsweredOK++
					}
				}
			}
		}
		// (D) audit
		if o.Mutating && o.Window != nil && st.Sink == "A" {
			win := o.Window
			// JSONL: one record per line. lost = earlier calls of the sequence whose audit write the sink rejected or
			// truncated: an implementation may re-emit those records (or the rest of a truncated one) ahead of the
			// record of this call, so after a failure only the LAST line is judged and up to `lost` lines before it
			// are tolerated; with a clean history the call has to append exactly one line.
			lost := 0
			for j := 0; j < i; j++ {
				if sr.Steps[j].Mutating && spec.Steps[j].Sink != "A" {
					lost++
				}
			}
			var lines [][]byte
			for _, l := range bytes.Split(win.accepted, []byte{'\n'}) {
				if len(bytes.TrimSpace(l)) > 0 {
					lines = append(lines, l)
				}
			}
			var evs []map[string]any
			bad := false
			for k, l := range lines {
				var ev map[string]any
				if err := json.Unmarshal(l, &ev); err != nil || ev == nil {
					if k == len(lines)-1 || lost == 0 {
						bad = true
					}
					continue
				}
				evs = append(evs, ev)
			}
			o.Records = len(evs)
			ak := o.Class + ":" + st.Tool + ":" + hist
			switch {
			case bad:
				fail("seq:audit:"+ak+":not-json", "call %d (%s) with an accepting sink appended a line that is not a JSON object: %q (sequence %s)", i, o.Class, cut(win.accepted), spec.key())
			case len(lines) == 0 || len(lines) > 1+lost:
				fail(fmt.Sprintf("seq:audit:%s:count=%d/1", ak, len(lines)), "call %d (%s, tool %s) with an accepting sink appended %d audit records, want exactly one (%d earlier record(s) of this server were rejected or truncated by the sink); the sink saw %d write(s) during the call: %q (sequence %s)", i, o.Class, st.Tool, len(lines), lost, win.writes, cut(win.accepted), spec.key())
			default:
				if len(lines) > 1 {
					sr.Replayed += len(lines) - 1
				}
				ev := evs[len(evs)-1]
				for _, f := range auditFields {
					if _, ok := ev[f]; !ok {
						fail("seq:audit:"+ak+":missing:"+f, "audit record of call %d lacks %q: %v (sequence %s)", i, f, ev, spec.key())
					}
				}
				durOK := false
				for k, val := range ev {
					if strings.HasPrefix(k, "duration") {
						if n, ok := val.(float64); ok && n >= 0 {
							durOK = true
						}
					}
				}
				if !durOK {
					fail("seq:audit:"+ak+":missing:duration", "audit record of call %d lacks a non-negative duration: %v", i, ev)
				}
				if ts, ok := ev["timestamp"]; ok {
					good := false
					switch x := ts.(type) {
					case string:
						if tm, err := time.Parse(time.RFC3339Nano, x); err == nil && !tm.IsZero() {
							good = true
						}
					case float64:
						good = x > 0
					}
					if !good {
						fail("seq:audit:"+ak+":bad:timestamp", "audit timestamp of call %d is not a time: %v", i, ts)
					}
				}
				if p, ok := ev["principal"]; ok {
					if ps, _ := p.(string); ps != spec.Cfg.Principal {
						fail("seq:audit:"+ak+":bad:principal", "audit principal %v, configured %q (call %d of %s)", p, spec.Cfg.Principal, i, spec.key())
					}
				}
				if rl, ok := ev["role"]; ok {
					if rs, _ := rl.(string); rs != spec.Cfg.Role {
						fail("seq:audit:"+ak+":bad:role", "audit role %v, configured %q (call %d of %s)", rl, spec.Cfg.Role, i, spec.key())
					}
				}
				if tn, ok := ev["tool"]; ok {
					if ts, _ := tn.(string); ts != st.Tool {
						fail("seq:audit:"+ak+":bad:tool", "audit record of call %d names tool %v, called %q (sequence %s)", i, tn, st.Tool, spec.key())
					}
				}
				if h, ok := ev["input_hash"]; ok {
					hs, _ := h.(string)
					if hs == "" {
						fail("seq:audit:"+ak+":bad:input_hash", "audit input_hash of call %d is empty", i)
					} else {
						sr.hashes = append(sr.hashes, [3]string{st.Tool, o.Args, hs})
					}
				}
				if rv, ok := ev["result"]; ok {
					rs, _ := rv.(string)
					if rs == "" {
						fail("seq:audit:"+ak+":bad:result", "audit result of call %d is empty", i)
					} else {
						sr.results = append(sr.results, [2]string{o.Class, rs})
					}
				}
			}
		}
		if v != refDeny && o.Mutating {
			touched = true
		}
		if st.Sink != "A" {
			sinkHealthy = false
		}
	}

	// --- whole-sequence checks: processes and confinement
	if !allowedSignal && len(signals) > 0 {
		fail("seq:effect:process-signal:"+spec.Cfg.key(), "the harness child received %v although no instance_stop / instance_reload of the sequence passes the gate (sequence %s)", signals, spec.key())
	}
	if allDenied && len(adminWrites) > 0 {
		fail("seq:effect:admin-api:"+spec.Cfg.key(), "Admin API was written to (%v) although every call of the sequence must be refused (sequence %s)", adminWrites, spec.key())
	}
	var other []string
	for _, d := range diffSnap(first.files, final.files) {
		switch d[strings.IndexByte(d, ':')+1:] {
		case "Hookaidofile", "hookaido.pid", "hookaido.pid.invoked":
		default:
			other = append(other, d)
		}
	}
	if len(other) > 0 {
		fail("seq:confine:"+strings.Join(other, ","), "files other than the configured config path were touched by the sequence: %v (sequence %s)", other, spec.key())
	}
	if cfgAfter, err := os.ReadFile(w.cfgPath); err != nil {
		fail("seq:config-lost", "configured config file is gone after the sequence %s: %v", spec.key(), err)
	} else if !bytes.Equal(cfgAfter, cfgBefore) && !validConfig(cfgAfter) {
		fail("seq:config-invalid-written", "config file was replaced by content that does not parse and compile (sequence %s)", spec.key())
	}
	return sr
}

// ---- enumeration ---------------------------------------------------------------------------------------

func seqShapes(tool string) []string {
	s := []string{"minimal", "actor-other", "unknown-key"}
	if toolsWithActorArg[tool] {
		s = append(s, "actor-eq")
	}
	return s
}

type callElem struct{ Tool, Shape string }

func mutatingElems(only func(string) bool) []callElem {
	var out []callElem
	for _, t := range refTable {
		if !t.Mutating || (only != nil && !only(t.Name)) {
			continue
		}
		for _, s := range seqShapes(t.Name) {
			out = append(out, callElem{t.Name, s})
		}
	}
	return out
}

func sinkSeqs(alphabet string, n int) []string {
	out := []string{""}
	for i := 0; i < n; i++ {
		var next []string
		for _, p := range out {
			for _, c := range alphabet {
				next = append(next, p+string(c))
			}
		}
		out = next
	}
	return out
}

func isInstanceTool(n string) bool { return strings.HasPrefix(n, "instance_") }

var (
	seqCfgNoRT     = gateCfg{Role: "admin", RoleVia: "option", Mut: true, RT: false, Principal: principalName}  // 12 allowed, instance_* denied by flag
	seqCfgOperate  = gateCfg{Role: "operate", RoleVia: "option", Mut: true, RT: true, Principal: principalName} // 9 queue tools allowed, 6 denied by role
	seqCfgNoPrinc  = gateCfg{Role: "admin", RoleVia: "option", Mut: true, RT: true, Principal: ""}              // every mutating tool denied (no principal)
	seqCfgFull     = gateCfg{Role: "admin", RoleVia: "option", Mut: true, RT: true, Principal: principalName}   // everything allowed
	seqCfgReadOnly = gateCfg{Role: "read", RoleVia: "option", Mut: false, RT: false, Principal: principalName}  // everything mutating denied by role and flags
)

func allSeqs(thorough bool) []seqSpec {
	var out []seqSpec
	add := func(block string, cfg gateCfg, split string, elems []callElem, sinks string) {
		steps := make([]seqStep, len(elems))
		for i, e := range elems {
			steps[i] = seqStep{Tool: e.Tool, Shape: e.Shape, Sink: string(sinks[i])}
		}
		out = append(out, seqSpec{Block: block, Cfg: cfg, Split: split, Steps: steps})
	}
	all := mutatingElems(nil)
	inst := mutatingElems(isInstanceTool)

	// Block "sink": the same call L times, every sink sequence of that length, both session splits.
	sinkBlock := func(cfg gateCfg, elems []callElem, alphabet string, minLen, maxLen int) {
		for _, e := range elems {
			for L := minLen; L <= maxLen; L++ {
				rep := make([]callElem, L)
				for i := range rep {
					rep[i] = e
				}
				for _, ss := range sinkSeqs(alphabet, L) {
					add("sink", cfg, "one", rep, ss)
					if L > 1 && L < 4 {
						add("sink", cfg, "per-call", rep, ss)
					}
				}
			}
		}
	}
	sinkBlock(seqCfgNoRT, all, "AFS", 1, 3)
	// operate: in quick only the tools this configuration refuses (the nine queue tools run exactly as under admin)
	sinkBlock(seqCfgOperate, mutatingElems(func(n string) bool { return refGate(refByName[n], seqCfgOperate, false, "") == refDeny }), "AFS", 1, 3)
	sinkBlock(seqCfgNoPrinc, all, "AFS", 1, 2) // every call denied
	// the instance_* tools are only allowed with runtime control on; an allowed instance call takes >= 100 ms
	// (the implementation polls the pid file / the process every 100 ms), hence the shorter sequences in quick
	sinkBlock(seqCfgFull, inst, "AFS", 1, 2)
	if thorough {
		for _, cfg := range []gateCfg{seqCfgNoRT, seqCfgOperate, seqCfgNoPrinc, seqCfgFull} {
			sinkBlock(cfg, all, "AFST", 1, 3)
			sinkBlock(cfg, all, "AFS", 4, 4)
		}
		sinkBlock(seqCfgReadOnly, all, "AFS", 1, 2)
	}

	// Block "mix": X, N, X with a non-mutating frame N between two calls of a mutating tool.
	mids := []callElem{{"#list", ""}, {"config_parse", "minimal"}, {"config_delete", "minimal"}, {"instance_status", "minimal"}}
	mixCfgs := []gateCfg{seqCfgNoRT, seqCfgOperate, seqCfgNoPrinc}
	if thorough {
		mixCfgs = append(mixCfgs, seqCfgReadOnly)
	}
	for _, cfg := range mixCfgs {
		for _, x := range all {
			for _, n := range mids {
				for _, ss := range []string{"AAA", "FAA", "SAA"} {
					add("mix", cfg, "one", []callElem{x, n, x}, ss)
				}
			}
		}
	}

	// Block "pair": two different calls X, Y as X,Y and X,Y,X: the same tool in another shape (denied-then-allowed,
	// allowed-then-denied, failed-then-allowed …) and every other tool (interleaving), with a clean sink, a failure
	// on the first call and a failure in the middle. level 1 adds more sink sequences, level 2 the templates
	// X,Y,X,Y and X,X,Y.
	pairBlock := func(cfg gateCfg, elems []callElem, splits []string, level int) {
		two, three := []string{"AA", "FA"}, []string{"AFA"}
		if level >= 1 {
			two, three = []string{"AA", "FA", "SA", "TA"}, []string{"AAA", "AFA", "FAA", "ASA", "SFA"}
		}
		for _, x := range elems {
			for _, y := range elems {
				if x == y {
					continue
				}
				// level 0 (quick): a second call of ANOTHER tool only as valid call and as actor-mismatch call
				if level == 0 && x.Tool != y.Tool && y.Shape != "minimal" && y.Shape != "actor-other" {
					continue
				}
				for _, split := range splits {
					for _, ss := range two {
						add("pair", cfg, split, []callElem{x, y}, ss)
					}
					for _, ss := range three {
						add("pair", cfg, split, []callElem{x, y, x}, ss)
					}
					if level >= 2 {
						for _, ss := range []string{"AAAA", "AFAA", "ASFA", "FFAA"} {
							add("pair", cfg, split, []callElem{x, y, x, y}, ss)
						}
						for _, ss := range []string{"AAA", "FAA", "AFA", "SSA"} {
							add("pair", cfg, split, []callElem{x, x, y}, ss)
						}
					}
				}
			}
		}
	}
	pairBlock(seqCfgNoRT, all, []string{"one"}, 0)
	if thorough {
		sinkBlock(seqCfgOperate, all, "AFS", 1, 3)
		pairBlock(seqCfgNoRT, all, []string{"one"}, 2)
		pairBlock(seqCfgNoRT, all, []string{"per-call"}, 1)
		pairBlock(seqCfgOperate, all, []string{"one"}, 0)
		pairBlock(seqCfgNoPrinc, all, []string{"one"}, 0)
		// with runtime control on: pairs in which at least one side is an instance_* tool
		for _, x := range all {
			for _, y := range inst {
				if x == y {
					continue
				}
				for _, ss := range []string{"AA", "FA"} {
					add("pair", seqCfgFull, "one", []callElem{x, y}, ss)
					if !isInstanceTool(x.Tool) {
						add("pair", seqCfgFull, "one", []callElem{y, x}, ss)
					}
				}
			}
		}
	}

	// de-duplicate (thorough re-adds the quick blocks with larger bounds), keep first occurrence order
	seen := map[string]bool{}
	uniq := out[:0]
	for _, s := range out {
		k := s.key()
		if seen[k] {
			continue
		}
		seen[k] = true
		uniq = append(uniq, s)
	}
	return uniq
}

const seqMaxReportedKeys = 24

// seqPart enumerates the sequences on its own workers (directories w40..w51, re-check worker w97).
func seqPart(r *runner.Run, fx *fixture, deadline time.Time) {
	seqStart := time.Now()
	defer func() { r.Set("seq_part_wall_s", float64(int(time.Since(seqStart).Seconds()*10))/10) }()
	seqs := allSeqs(r.Thorough())
	nw := runtime.NumCPU()
	if nw > 12 {
		nw = 12
	}
	if nw < 1 {
		nw = 1
	}
	type foundSeq struct {
		idx int
		msg string
	}
	var (
		mu          sync.Mutex
		found       = map[string]foundSeq{}
		foundN      = map[string]int{}
		hashByArgs  = map[string]string{}
		hashesOf    = map[string]map[string]bool{}
		argsOf      = map[string]map[string]bool{}
		resultClass = map[string]map[string]int{"denied": {}, "ran": {}, "failed": {}}
		recChecked  = map[string]map[string]int{} // tool -> class -> records checked
		relational  []finding
		okN, errN   int
		replayed    int
		done        int
		stopped     bool
		samples     = map[string]any{}
		debug       = os.Getenv("VERIF_C20_DEBUG")
	)
	sampleWanted := map[string]bool{
		"sink|admin:m1r0:p1|one|dlq_delete/minimal/A,dlq_delete/minimal/F,dlq_delete/minimal/A":                 true,
		"pair|admin:m1r0:p1|one|messages_cancel/actor-other/F,config_apply/minimal/A":                           true,
		"sink|operate:m1r1:p1|per-call|instance_stop/minimal/S,instance_stop/minimal/A,instance_stop/minimal/A": true,
	}
	jobs := make(chan int)
	var wg sync.WaitGroup
	for i := 0; i < nw; i++ {
		w, err := newWorker(fx, 40+i)
		if err != nil {
			r.Infra("seq worker: %v", err)
			return
		}
		wg.Add(1)
		go func(w *worker) {
			defer wg.Done()
			defer w.close()
			for idx := range jobs {
				spec := seqs[idx]
				sr := runSeq(w, spec)
				if sr.InfraErr != "" {
					r.Infra("sequence %s: %s", spec.key(), sr.InfraErr)
					continue
				}
				r.Add("seq_sequences", 1)
				r.Add("seq_sequences_"+spec.Block, 1)
				sig := ""
				for i, o := range sr.Steps {
					if isListStep(spec.Steps[i]) {
						r.Add("evaluations", 1)
						continue
					}
					r.Add("evaluations", 1)
					r.Add("seq_calls", 1)
					if o.Verdict == refDeny {
						r.Add("seq_ref_deny", 1)
						r.Add("seq_denied_no_effect_checked", 1)
					} else {
						r.Add("seq_ref_allow", 1)
					}
					if o.Mutating {
						if spec.Steps[i].Sink == "A" {
							r.Add("seq_audit_windows_accepting_checked", 1)
							if i > 0 && strings.ContainsAny(sinkPrefix(spec, i), "FST") {
								r.Add("seq_audit_windows_accepting_after_a_failed_write", 1)
							}
						} else {
							r.Add("seq_calls_with_failing_audit_sink", 1)
						}
					}
					sig += o.Class[:1]
				}
				r.Distinct("seq|" + spec.key() + "|" + sig)
				if debug != "" && strings.Contains(spec.key(), debug) {
					fmt.Printf("DEBUG %s classes=%s findings=%d\n", spec.key(), sig, len(sr.Findings))
				}
				mu.Lock()
				done++
				okN += sr.AuditFailAnsweredOK
				errN += sr.AuditFailAnsweredErr
				replayed += sr.Replayed
				for i, o := range sr.Steps {
					if o.Mutating && spec.Steps[i].Sink == "A" && o.Records >= 1 {
						if recChecked[spec.Steps[i].Tool] == nil {
							recChecked[spec.Steps[i].Tool] = map[string]int{}
						}
						recChecked[spec.Steps[i].Tool][o.Class]++
					}
				}
				for _, h := range sr.hashes {
					ak := h[0] + "|" + h[1]
					if prev, ok := hashByArgs[ak]; ok && prev != h[2] {
						relational = append(relational, finding{"seq:audit:input_hash:unstable", fmt.Sprintf("same arguments %s hashed to %s and %s", ak, prev, h[2])})
					}
					hashByArgs[ak] = h[2]
					if hashesOf[h[0]] == nil {
						hashesOf[h[0]], argsOf[h[0]] = map[string]bool{}, map[string]bool{}
					}
					hashesOf[h[0]][h[2]] = true
					argsOf[h[0]][h[1]] = true
				}
				for _, rc := range sr.results {
					resultClass[rc[0]][rc[1]]++
				}
				if sampleWanted[spec.key()] {
					var steps []map[string]any
					for i, o := range sr.Steps {
						steps = append(steps, map[string]any{"tool": spec.Steps[i].Tool, "shape": spec.Steps[i].Shape, "sink": spec.Steps[i].Sink,
							"ref": o.Verdict.String(), "refused": o.Refused, "audit_records_in_window": o.Records})
					}
					samples[spec.key()] = map[string]any{"sequence": spec.key(), "steps": steps}
				}
				for _, f := range sr.Findings {
					if prev, ok := found[f.Key]; !ok || idx < prev.idx {
						found[f.Key] = foundSeq{idx: idx, msg: f.Msg}
					}
					foundN[f.Key]++
				}
				mu.Unlock()
			}
		}(w)
	}
	for i := range seqs {
		if time.Now().After(deadline) {
			stopped = true
			break
		}
		jobs <- i
	}
	close(jobs)
	wg.Wait()
	if stopped {
		r.NotExhaustive(fmt.Sprintf("sequence part: wall budget reached after %d of %d sequences", done, len(seqs)))
	}
	var skeys []string
	for k := range samples {
		skeys = append(skeys, k)
	}
	sort.Strings(skeys)
	for _, k := range skeys {
		r.Sample(samples[k])
	}

	// --- report
	if len(found) > 0 {
		// round robin over the key classes seq:audit / seq:gate / seq:effect / seq:list / …
		groups := map[string][]string{}
		for k := range found {
			parts := strings.SplitN(k, ":", 4)
			pre := k
			if len(parts) >= 3 {
				pre = parts[0] + ":" + parts[1] + ":" + parts[2]
			}
			groups[pre] = append(groups[pre], k)
		}
		var pres []string
		for p := range groups {
			sort.Strings(groups[p])
			pres = append(pres, p)
		}
		sort.Strings(pres)
		var order []string
		for i := 0; len(order) < len(found); i++ {
			for _, p := range pres {
				if i < len(groups[p]) {
					order = append(order, groups[p][i])
				}
			}
		}
		rw, err := newWorker(fx, 97)
		if err != nil {
			r.Infra("seq worker: %v", err)
		} else {
			for n, k := range order {
				if n >= seqMaxReportedKeys {
					break
				}
				k, fc := k, found[k]
				spec := seqs[fc.idx]
				r.Violation(k, fmt.Sprintf("%s [%d failing sequences with this key]", fc.msg, foundN[k]), spec, func() bool {
					again := runSeq(rw, spec)
					for _, g := range again.Findings {
						if g.Key == k {
							return true
						}
					}
					return false
				})
			}
			rw.close()
		}
		r.Set("seq_violation_keys_found", len(found))
	}
	for _, f := range relational {
		r.Violation(f.Key, f.Msg, nil, nil)
	}
	for tool, hs := range hashesOf {
		if len(argsOf[tool]) >= 3 && len(hs) == 1 {
			r.Violation("seq:audit:input_hash:constant:"+tool, fmt.Sprintf("%d different argument sets of %s all carry the same input_hash", len(argsOf[tool]), tool), nil, nil)
		}
	}
	for _, c := range []string{"denied", "failed"} {
		for res := range resultClass[c] {
			if resultClass["ran"][res] > 0 {
				r.Violation("seq:audit:result:"+c+"-equals-success:"+res, fmt.Sprintf("the audit result %q is written both for %s calls and for successful calls", res, c), nil, nil)
			}
		}
	}

	// --- vacuity: every mutating tool had a checked record as a denied and as a running call
	if len(found) == 0 && !stopped {
		for _, t := range refTable {
			if !t.Mutating {
				continue
			}
			for _, c := range []string{"denied", "ran"} {
				if recChecked[t.Name][c] == 0 {
					r.Infra("sequence part: no audit record of a %s call of %s was ever checked (fixture problem)", c, t.Name)
				}
			}
		}
		failed := 0
		for _, m := range recChecked {
			failed += m["failed"]
		}
		if failed == 0 {
			r.Infra("sequence part: no allowed-but-failed call was ever observed (shape 'unknown-key' no longer fails?)")
		}
	}
	classes := map[string]int{}
	for _, m := range recChecked {
		for c, n := range m {
			classes[c] += n
		}
	}
	r.Set("seq_audit_records_checked_by_class", classes)
	r.Set("seq_sequences_planned", len(seqs))
	r.Set("seq_observed_outcome_of_allowed_call_whose_own_audit_write_failed", map[string]int{"answered_ok": okN, "answered_error": errN})
	r.Set("seq_records_re_emitted_after_a_failed_write", replayed)
	var sampleList []any
	for _, k := range skeys {
		sampleList = append(sampleList, samples[k])
	}
	r.Set("seq_samples", sampleList)
	r.Set("seq_rule", "one long-lived mcp.Server per sequence, audit sink answer enumerated per call {A accept, F (0,ENOSPC), S half write + ErrShortWrite; thorough also T all-but-last-byte + EIO}. "+
		"Call elements: 15 mutating tools x shape {minimal, actor=other, unknown key, actor=principal (11 actor-taking tools)} = 56. "+
		"Block sink: every element repeated L=1..3 times x every sink sequence in {A,F,S}^L x {one Serve session, one session per call on the same server} under admin/mutations (12 tools allowed, instance_* denied by flag) and, for the six tools it refuses, under operate/mutations+runtime; L<=2 under admin without principal (all denied) and, for the instance_* tools, under admin/mutations+runtime (thorough: all four configurations for all tools with {A,F,S,T}^L, L<=3 and, in one session, {A,F,S}^4; read/no flags with L<=2). "+
		"Block mix: X,N,X with N in {tools/list frame, config_parse, unknown tool, instance_status} x {AAA,FAA,SAA} under the three configurations (thorough: plus read/no flags). "+
		"Block pair: ordered pairs X != Y of the 56 elements under admin/mutations as X,Y x {AA,FA} and X,Y,X x {AFA} in one session - all shape pairs of the same tool, and for two different tools Y as valid call and as actor-mismatch call (thorough: all 56x55 pairs, more sink sequences {SA,TA,AAA,FAA,ASA,SFA}, per-call sessions, X,Y,X,Y and X,X,Y, the operate and no-principal configurations (one session, quick pair set), pairs with an instance_* tool with runtime control on). "+
		"Judged per call on the bytes the sink received during that call; a sequence is distinct by (block, configuration, split, steps, observed classes)")
	r.Assume("sequence part: 'appends one audit record' is judged when the answer to the call has been written (before the server reads the next frame): the bytes the sink accepted during a call whose sink answer is 'accept' must be exactly one JSON object with the required fields; nothing is demanded about the audit output of a call whose own write the sink rejects or truncates")
	r.Assume(fmt.Sprintf("the statement is silent on the outcome of an ALLOWED call whose own audit write fails; observed on this tree and not asserted: %d such calls (valid arguments, seeded state) answered ok, %d answered with an error. After a failed audit write the positive probe 'allowed call is answered without error' is not asserted either (a fail-closed server would satisfy the statement); gate denial, no-effect, tools/list and one-record-per-accepted-write are asserted regardless of the sink history", okN, errN))
	r.Assume("sequence part: server configuration is fixed per server (options at construction, as internal/app/mcp.go does); exported fields are not changed between calls except In/Out for a new Serve session; sink failures are whole-call (every write during the call gets the same answer); a sink that blocks or panics is not modelled")
}

func sinkPrefix(spec seqSpec, i int) string {
	var b strings.Builder
	for j := 0; j < i; j++ {
		if !isListStep(spec.Steps[j]) {
			b.WriteString(spec.Steps[j].Sink)
		}
	}
	return b.String()
}

// replaySeq re-runs the single sequence of a replay file written by this part. It reports whether the file was one.
func replaySeq(r *runner.Run, fx *fixture, path string) bool {
	b, err := os.ReadFile(path)
	if err != nil {
		return false
	}
	var f struct {
		Replay seqSpec `json:"replay"`
	}
	if err := json.Unmarshal(b, &f); err != nil || len(f.Replay.Steps) == 0 {
		return false
	}
	w, err := newWorker(fx, 40)
	if err != nil {
		r.Infra("worker: %v", err)
		return true
	}
	defer w.close()
	sr := runSeq(w, f.Replay)
	if sr.InfraErr != "" {
		r.Infra("replay: %s", sr.InfraErr)
		return true
	}
	r.Add("evaluations", int64(len(f.Replay.Steps)))
	r.Distinct("replay|" + f.Replay.key())
	r.Distinct(fmt.Sprintf("replay|findings=%d", len(sr.Findings)))
	var steps []string
	for i, o := range sr.Steps {
		steps = append(steps, fmt.Sprintf("%d:%s ref=%s refused=%v records=%d", i, f.Replay.Steps[i].Tool, o.Verdict, o.Refused, o.Records))
	}
	r.Sample(map[string]any{"sequence": f.Replay.key(), "steps": steps})
	fmt.Printf("replay %s: %v\n", f.Replay.key(), steps)
	for _, fd := range sr.Findings {
		r.Violation(fd.Key, fd.Msg, f.Replay, nil)
	}
	r.NotExhaustive("single-sequence replay")
	r.Set("rule", "replay of one sequence")
	return true
}
