package c20

// Fixture side of C20: scratch directory per worker (config file, SQLite queue db, pid file, foreign files),
// in-process admin health listeners, the harness-controlled child processes (fake "run" binary and the
// signal-recording sleeper) and the framed JSON-RPC session through mcp.NewServer(...).Serve.

import (
	"bufio"
	"bytes"
	"context"
	"crypto/sha256"
	"database/sql"
	"encoding/hex"
	"encoding/json"
	"errors"
	"fmt"
	"io"
	"net"
	"net/http"
	"os"
	"os/exec"
	"os/signal"
	"path/filepath"
	"sort"
	"strconv"
	"strings"
	"sync"
	"syscall"
	"time"

	_ "modernc.org/sqlite"

	"github.com/nuetzliches/hookaido/internal/config"
	"github.com/nuetzliches/hookaido/internal/mcp"
	"github.com/nuetzliches/hookaido/internal/queue"
)

// ---- child process modes (same test binary, dispatched in TestMain) ------------------------------------

// fakeRunMain is what instance_start launches instead of a real `hookaido run`: it records its invocation
// next to the pid file, writes the pid file (so the tool's start handshake completes) and then only waits
// to be terminated. It opens no listener and touches neither config nor db.
func fakeRunMain(args []string) {
	pidFile := ""
	for i := 0; i+1 < len(args); i++ {
		if args[i] == "--pid-file" {
			pidFile = args[i+1]
		}
	}
	ch := make(chan os.Signal, 4)
	signal.Notify(ch, syscall.SIGTERM, syscall.SIGINT, syscall.SIGHUP)
	if pidFile != "" {
		rec, _ := json.Marshal(map[string]any{"pid": os.Getpid(), "args": args})
		_ = os.WriteFile(pidFile+".invoked", rec, 0o600)
		_ = os.WriteFile(pidFile, []byte(strconv.Itoa(os.Getpid())+"\n"), 0o600)
	}
	deadline := time.After(30 * time.Second)
	for {
		select {
		case s := <-ch:
			if s != syscall.SIGHUP {
				os.Exit(0)
			}
		case <-deadline:
			os.Exit(0)
		}
	}
}

// sleeperMain is the process whose pid the harness puts into the pid file for instance_stop /
// instance_reload rows. Protocol on stdio: prints "ready"; prints the name of every signal it receives;
// answers a "ping" line with all signals seen so far followed by "pong"; exits on SIGTERM (after printing
// it), on stdin EOF, or after 10 minutes.
func sleeperMain() {
	ch := make(chan os.Signal, 16)
	signal.Notify(ch, syscall.SIGHUP, syscall.SIGTERM, syscall.SIGINT, syscall.SIGUSR1, syscall.SIGUSR2)
	out := bufio.NewWriter(os.Stdout)
	say := func(s string) { out.WriteString(s + "\n"); out.Flush() }
	lines := make(chan string)
	go func() {
		sc := bufio.NewScanner(os.Stdin)
		for sc.Scan() {
			lines <- sc.Text()
		}
		close(lines)
	}()
	name := func(s os.Signal) string {
		switch s {
		case syscall.SIGHUP:
			return "HUP"
		case syscall.SIGTERM:
			return "TERM"
		case syscall.SIGINT:
			return "INT"
		}
		return "SIG:" + s.String()
	}
	handle := func(s os.Signal) {
		say(name(s))
		if s == syscall.SIGTERM || s == syscall.SIGINT {
			os.Exit(0)
		}
	}
	say("ready")
	life := time.After(10 * time.Minute)
	for {
		select {
		case s := <-ch:
			handle(s)
		case l, ok := <-lines:
			if !ok {
				os.Exit(0)
			}
			if l == "ping" {
				time.Sleep(10 * time.Millisecond) // let an already delivered signal reach the channel (detection only)
			drain:
				for {
					select {
					case s := <-ch:
						handle(s)
					default:
						break drain
					}
				}
				say("pong")
			}
		case <-life:
			os.Exit(0)
		}
	}
}

type sleeper struct {
	cmd   *exec.Cmd
	stdin io.WriteCloser
	lines chan string // closed at EOF
	pid   int
	dead  bool
}

func startSleeper(exe string) (*sleeper, error) {
	cmd := exec.Command(exe, "c20-sleeper")
	cmd.Env = append(os.Environ(), "VERIF_SHARD_OUT=", "GOMAXPROCS=2")
	in, err := cmd.StdinPipe()
	if err != nil {
		return nil, err
	}
	outp, err := cmd.StdoutPipe()
	if err != nil {
		return nil, err
	}
	if err := cmd.Start(); err != nil {
		return nil, err
	}
	s := &sleeper{cmd: cmd, stdin: in, lines: make(chan string, 64), pid: cmd.Process.Pid}
	go func() {
		sc := bufio.NewScanner(outp)
		for sc.Scan() {
			s.lines <- sc.Text()
		}
		close(s.lines)
	}()
	select {
	case l, ok := <-s.lines:
		if !ok || l != "ready" {
			s.kill()
			return nil, fmt.Errorf("sleeper did not become ready (got %q)", l)
		}
	case <-time.After(30 * time.Second):
		s.kill()
		return nil, errors.New("sleeper start timeout")
	}
	return s, nil
}

// poll asks the sleeper for the signals it has received so far. exited reports that the process is gone.
func (s *sleeper) poll() (signals []string, exited bool, err error) {
	if s.dead {
		return nil, true, nil
	}
	if _, werr := io.WriteString(s.stdin, "ping\n"); werr != nil {
		// the process has exited (e.g. it was terminated): collect what it printed
		return s.collectUntilEOF()
	}
	timeout := time.After(30 * time.Second)
	for {
		select {
		case l, ok := <-s.lines:
			if !ok {
				s.reap()
				return signals, true, nil
			}
			if l == "pong" {
				return signals, false, nil
			}
			signals = append(signals, l)
		case <-timeout:
			return signals, false, errors.New("sleeper poll timeout")
		}
	}
}

func (s *sleeper) collectUntilEOF() (signals []string, exited bool, err error) {
	timeout := time.After(30 * time.Second)
	for {
		select {
		case l, ok := <-s.lines:
			if !ok {
				s.reap()
				return signals, true, nil
			}
			if l != "pong" {
				signals = append(signals, l)
			}
		case <-timeout:
			return signals, false, errors.New("sleeper EOF timeout")
		}
	}
}

func (s *sleeper) reap() {
	if s.dead {
		return
	}
	s.dead = true
	s.stdin.Close()
	s.cmd.Wait()
}

func (s *sleeper) kill() {
	if s.dead {
		return
	}
	s.stdin.Close()
	s.cmd.Process.Kill()
	for range s.lines {
	}
	s.dead = true
	s.cmd.Wait()
}

// ---- shared fixture -----------------------------------------------------------------------------------

const principalName = "ops-bot"

type fixture struct {
	exe           string
	root          string
	healthyAddr   string
	unhealthyAddr string
	templateDB    []byte
	templateDump  string
	closers       []io.Closer
}

func healthListener(status int) (string, io.Closer, error) {
	ln, err := net.Listen("tcp", "127.0.0.1:0")
	if err != nil {
		return "", nil, err
	}
	srv := &http.Server{Handler: http.HandlerFunc(func(w http.ResponseWriter, r *http.Request) {
		w.Header().Set("Connection", "close")
		w.Header().Set("Content-Type", "application/json")
		w.WriteHeader(status)
		io.WriteString(w, "{}")
	})}
	go srv.Serve(ln)
	return ln.Addr().String(), srv, nil
}

func newFixture(root string) (*fixture, error) {
	exe, err := os.Executable()
	if err != nil {
		return nil, err
	}
	fx := &fixture{exe: exe, root: root}
	var c io.Closer
	if fx.healthyAddr, c, err = healthListener(http.StatusOK); err != nil {
		return nil, err
	}
	fx.closers = append(fx.closers, c)
	if fx.unhealthyAddr, c, err = healthListener(http.StatusServiceUnavailable); err != nil {
		return nil, err
	}
	fx.closers = append(fx.closers, c)

	// template queue db: two queued, two dead, two canceled messages on the unmanaged route /r
	tdir := filepath.Join(root, "template")
	if err := os.MkdirAll(tdir, 0o755); err != nil {
		return nil, err
	}
	tdb := filepath.Join(tdir, "q.db")
	st, err := queue.NewSQLiteStore(tdb)
	if err != nil {
		return nil, err
	}
	now := time.Now().UTC().Add(-time.Minute)
	seed := []queue.Envelope{
		{ID: "q1", State: queue.StateQueued}, {ID: "q2", State: queue.StateQueued},
		{ID: "d1", State: queue.StateDead, DeadReason: "max_retries"}, {ID: "d2", State: queue.StateDead, DeadReason: "max_retries"},
		{ID: "c1", State: queue.StateQueued}, {ID: "c2", State: queue.StateQueued},
	}
	for i, e := range seed {
		e.Route, e.Target = "/r", "pull"
		e.ReceivedAt = now.Add(time.Duration(i) * time.Second)
		e.NextRunAt = e.ReceivedAt
		e.Payload = []byte(`{"n":` + strconv.Itoa(i) + `}`)
		if err := st.Enqueue(e); err != nil {
			st.Close()
			return nil, fmt.Errorf("seed %s: %w", e.ID, err)
		}
	}
	if resp, err := st.CancelMessages(queue.MessageCancelRequest{IDs: []string{"c1", "c2"}}); err != nil || resp.Canceled != 2 {
		st.Close()
		return nil, fmt.Errorf("seed cancel: %v (%d)", err, resp.Canceled)
	}
	if err := st.Close(); err != nil {
		return nil, err
	}
	for _, suf := range []string{"-wal", "-shm"} {
		if fi, err := os.Stat(tdb + suf); err == nil && fi.Size() > 0 {
			return nil, fmt.Errorf("template db left a non-empty %s file", suf)
		}
		os.Remove(tdb + suf)
	}
	if fx.templateDB, err = os.ReadFile(tdb); err != nil {
		return nil, err
	}
	// dump of a copy (so that dumping cannot alter the template bytes)
	cp := filepath.Join(tdir, "copy.db")
	if err := os.WriteFile(cp, fx.templateDB, 0o600); err != nil {
		return nil, err
	}
	if fx.templateDump, err = dumpDB(cp); err != nil {
		return nil, err
	}
	if !strings.Contains(fx.templateDump, "q1") || !strings.Contains(fx.templateDump, "canceled") || !strings.Contains(fx.templateDump, "dead") {
		return nil, errors.New("template dump does not show the seeded messages")
	}
	return fx, nil
}

func (fx *fixture) close() {
	for _, c := range fx.closers {
		c.Close()
	}
}

// dumpDB renders every row of every user table (sorted) — the logical content of the queue db.
func dumpDB(path string) (string, error) {
	db, err := sql.Open("sqlite", path)
	if err != nil {
		return "", err
	}
	defer db.Close()
	db.SetMaxOpenConns(1)
	if _, err := db.Exec("PRAGMA busy_timeout=5000;"); err != nil {
		return "", err
	}
	rows, err := db.Query("SELECT name FROM sqlite_master WHERE type='table' AND name NOT LIKE 'sqlite_%' ORDER BY name")
	if err != nil {
		return "", err
	}
	var tables []string
	for rows.Next() {
		var n string
		if err := rows.Scan(&n); err != nil {
			rows.Close()
			return "", err
		}
		tables = append(tables, n)
	}
	rows.Close()
	var b strings.Builder
	for _, t := range tables {
		rs, err := db.Query(`SELECT * FROM "` + strings.ReplaceAll(t, `"`, `""`) + `"`)
		if err != nil {
			return "", err
		}
		cols, _ := rs.Columns()
		var lines []string
		for rs.Next() {
			vals := make([]any, len(cols))
			ptrs := make([]any, len(cols))
			for i := range vals {
				ptrs[i] = &vals[i]
			}
			if err := rs.Scan(ptrs...); err != nil {
				rs.Close()
				return "", err
			}
			parts := make([]string, len(cols))
			for i, v := range vals {
				switch x := v.(type) {
				case []byte:
					parts[i] = cols[i] + "=x" + hex.EncodeToString(x)
				default:
					parts[i] = fmt.Sprintf("%s=%v", cols[i], x)
				}
			}
			lines = append(lines, strings.Join(parts, " "))
		}
		rs.Close()
		sort.Strings(lines)
		fmt.Fprintf(&b, "## %s (%d)\n%s\n", t, len(lines), strings.Join(lines, "\n"))
	}
	return b.String(), nil
}

// ---- config texts ------------------------------------------------------------------------------------

func (fx *fixture) configText(dir, adminAddr, extra string) string {
	return fmt.Sprintf(`ingress { listen "127.0.0.1:18080" }
pull_api {
  listen "127.0.0.1:19443"
  auth token "raw:pulltoken"
}
admin_api { listen %q }
observability {
  runtime_log {
    level info
    output file
    path %q
  }
}
"/r" {
  pull { path "/e" }
}
"/m" {
  application "app1"
  endpoint_name "ep1"
  pull { path "/em" }
}
"/free" {
  pull { path "/ef" }
}
%s`, adminAddr, filepath.Join(dir, "runtime.log"), extra)
}

const extraRoute = "\"/added\" {\n  pull { path \"/ea\" }\n}\n"

// validConfig reports whether text parses and compiles (the judge the property names).
func validConfig(text []byte) bool {
	cfg, err := config.Parse(text)
	if err != nil {
		return false
	}
	_, res := config.Compile(cfg)
	return res.OK
}

// ---- worker directory --------------------------------------------------------------------------------

type worker struct {
	fx      *fixture
	dir     string
	cfgPath string
	dbPath  string
	pidPath string
	logPath string
	foreign string // an existing foreign config file
	baseCfg string
	sl      *sleeper
	rec     *recorder
}

// recorder is a per-worker stand-in for the Admin API (admin-proxy mode of the queue tools): it records
// every request and answers 200 with a generic JSON body.
type recorder struct {
	addr string
	srv  io.Closer
	mu   sync.Mutex
	reqs []string
}

func newRecorder() (*recorder, error) {
	ln, err := net.Listen("tcp", "127.0.0.1:0")
	if err != nil {
		return nil, err
	}
	rec := &recorder{addr: ln.Addr().String()}
	srv := &http.Server{Handler: http.HandlerFunc(func(w http.ResponseWriter, r *http.Request) {
		io.Copy(io.Discard, r.Body)
		rec.mu.Lock()
		rec.reqs = append(rec.reqs, r.Method+" "+r.URL.Path)
		rec.mu.Unlock()
		w.Header().Set("Connection", "close")
		w.Header().Set("Content-Type", "application/json")
		io.WriteString(w, `{"items":[],"canceled":1,"requeued":1,"resumed":1,"deleted":1,"published":1,"matched":1,"preview_only":false}`)
	})}
	rec.srv = srv
	go srv.Serve(ln)
	return rec, nil
}

func (r *recorder) take() []string {
	r.mu.Lock()
	defer r.mu.Unlock()
	out := r.reqs
	r.reqs = nil
	return out
}

// memoryBackendConfig: every route on the memory backend, so the queue tools proxy the Admin API at adminAddr.
func memoryBackendConfig(adminAddr string) string {
	return fmt.Sprintf(`ingress { listen "127.0.0.1:18080" }
pull_api {
  listen "127.0.0.1:19443"
  auth token "raw:pulltoken"
}
admin_api { listen %q }
"/r" {
  queue { backend "memory" }
  pull { path "/e" }
}
"/m" {
  queue { backend "memory" }
  application "app1"
  endpoint_name "ep1"
  pull { path "/em" }
}
"/free" {
  queue { backend "memory" }
  pull { path "/ef" }
}
`, adminAddr)
}

func newWorker(fx *fixture, i int) (*worker, error) {
	dir := filepath.Join(fx.root, fmt.Sprintf("w%02d", i))
	if err := os.MkdirAll(filepath.Join(dir, "foreign"), 0o755); err != nil {
		return nil, err
	}
	w := &worker{fx: fx, dir: dir,
		cfgPath: filepath.Join(dir, "Hookaidofile"), dbPath: filepath.Join(dir, "q.db"),
		pidPath: filepath.Join(dir, "hookaido.pid"), logPath: filepath.Join(dir, "runtime.log"),
		foreign: filepath.Join(dir, "foreign", "Hookaidofile")}
	w.baseCfg = fx.configText(dir, fx.healthyAddr, "")
	rec, err := newRecorder()
	if err != nil {
		return nil, err
	}
	w.rec = rec
	return w, nil
}

func (w *worker) close() {
	if w.rec != nil {
		w.rec.srv.Close()
		w.rec = nil
	}
	if w.sl != nil {
		w.sl.kill()
		w.sl = nil
	}
}

// The planted foreign config file is a complete valid config (so that every config tool would "work" on it if
// it were accepted) and carries two markers that show up in any answer derived from it: the route path (AST,
// formatted text, diff) and the ingress port (compile summary).
const (
	foreignMarkerRoute = "/foreign-marker-7f3a"
	foreignMarkerPort  = "47391"
)

func foreignConfigText(adminAddr string) string {
	return fmt.Sprintf(`ingress { listen "127.0.0.1:%s" }
pull_api {
  listen "127.0.0.1:19443"
  auth token "raw:pulltoken"
}
admin_api { listen %q }
%q {
  pull { path "/x" }
}
"/m" {
  application "app1"
  endpoint_name "ep1"
  pull { path "/em" }
}
"/free" {
  pull { path "/ef" }
}
`, foreignMarkerPort, adminAddr, foreignMarkerRoute)
}

// reset puts the directory into the initial state of a case.
func (w *worker) reset(needSleeper bool) error {
	ents, err := os.ReadDir(w.dir)
	if err != nil {
		return err
	}
	for _, e := range ents {
		if e.Name() == "foreign" {
			continue
		}
		if err := os.RemoveAll(filepath.Join(w.dir, e.Name())); err != nil {
			return err
		}
	}
	fents, _ := os.ReadDir(filepath.Join(w.dir, "foreign"))
	for _, e := range fents {
		if err := os.RemoveAll(filepath.Join(w.dir, "foreign", e.Name())); err != nil {
			return err
		}
	}
	files := map[string][]byte{
		w.cfgPath: []byte(w.baseCfg),
		w.dbPath:  w.fx.templateDB,
		w.logPath: []byte("l1\nl2\nl3\n"),
		w.foreign: []byte(foreignConfigText(w.fx.healthyAddr)),
	}
	for p, b := range files {
		if err := os.WriteFile(p, b, 0o600); err != nil {
			return err
		}
	}
	// symbolic links for the path spellings: certs -> foreign/sub (so that certs/../Hookaidofile is the foreign file for
	// the kernel and the configured file for path.Clean), a link to the foreign file and one to the configured file
	if err := os.MkdirAll(filepath.Join(w.dir, "foreign", "sub"), 0o755); err != nil {
		return err
	}
	for link, target := range map[string]string{"certs": filepath.Join("foreign", "sub"), "foreign-link": w.foreign, "own-link": w.cfgPath} {
		if err := os.Symlink(target, filepath.Join(w.dir, link)); err != nil {
			return err
		}
	}
	if needSleeper {
		if w.sl == nil || w.sl.dead {
			s, err := startSleeper(w.fx.exe)
			if err != nil {
				return err
			}
			w.sl = s
		}
		if err := os.WriteFile(w.pidPath, []byte(strconv.Itoa(w.sl.pid)+"\n"), 0o600); err != nil {
			return err
		}
	}
	return nil
}

// snapshot maps every regular file below the worker directory (except the queue db and its sidecars, which
// are compared logically) to a content hash.
func (w *worker) snapshot() (map[string]string, error) {
	out := map[string]string{}
	err := filepath.Walk(w.dir, func(p string, info os.FileInfo, err error) error {
		if err != nil {
			if os.IsNotExist(err) {
				return nil
			}
			return err
		}
		rel, _ := filepath.Rel(w.dir, p)
		if info.Mode()&os.ModeSymlink != 0 { // Walk does not follow links; what a link points to is listed under its own path
			t, _ := os.Readlink(p)
			out[rel] = "symlink:" + t
			return nil
		}
		if info.IsDir() {
			if rel != "." {
				out[rel+"/"] = "dir"
			}
			return nil
		}
		if strings.HasPrefix(rel, "q.db") {
			return nil
		}
		b, err := os.ReadFile(p)
		if err != nil {
			if os.IsNotExist(err) {
				return nil
			}
			return err
		}
		h := sha256.Sum256(b)
		out[rel] = hex.EncodeToString(h[:8])
		// identity: a file that is not at the configured path and was replaced by another file with the same bytes
		// was touched as well (the file at the configured path is replaced by rename by design)
		if st, ok := info.Sys().(*syscall.Stat_t); ok && rel != "Hookaidofile" {
			out[rel] += fmt.Sprintf("@ino%d", st.Ino)
		}
		return nil
	})
	return out, err
}

func diffSnap(a, b map[string]string) []string {
	var d []string
	for k, v := range a {
		if w, ok := b[k]; !ok {
			d = append(d, "deleted:"+k)
		} else if w != v {
			d = append(d, "changed:"+k)
		}
	}
	for k := range b {
		if _, ok := a[k]; !ok {
			d = append(d, "created:"+k)
		}
	}
	sort.Strings(d)
	return d
}

// dbChanged reports whether the logical content of the queue db differs from the seeded template.
func (w *worker) dbChanged(wasMissing bool) (bool, error) {
	b, err := os.ReadFile(w.dbPath)
	if err != nil {
		if os.IsNotExist(err) {
			return !wasMissing, nil
		}
		return false, err
	}
	if wasMissing {
		return true, nil // a queue db was created
	}
	_, e1 := os.Stat(w.dbPath + "-wal")
	_, e2 := os.Stat(w.dbPath + "-shm")
	if bytes.Equal(b, w.fx.templateDB) && os.IsNotExist(e1) && os.IsNotExist(e2) {
		return false, nil
	}
	d, err := dumpDB(w.dbPath)
	if err != nil {
		return false, err
	}
	return d != w.fx.templateDump, nil
}

// ---- JSON-RPC session --------------------------------------------------------------------------------

func writeFrame(w *bytes.Buffer, msg any) {
	b, err := json.Marshal(msg)
	if err != nil {
		panic(err)
	}
	fmt.Fprintf(w, "Content-Length: %d\r\n\r\n", len(b))
	w.Write(b)
}

func readFrames(b []byte) ([]map[string]any, error) {
	r := bufio.NewReader(bytes.NewReader(b))
	var out []map[string]any
	for {
		n := -1
		sawHeader := false
		for {
			line, err := r.ReadString('\n')
			if err != nil {
				if err == io.EOF && !sawHeader && strings.TrimSpace(line) == "" {
					return out, nil
				}
				return out, fmt.Errorf("truncated frame header: %v", err)
			}
			sawHeader = true
			line = strings.TrimRight(line, "\r\n")
			if line == "" {
				break
			}
			if i := strings.IndexByte(line, ':'); i > 0 && strings.EqualFold(strings.TrimSpace(line[:i]), "Content-Length") {
				v, err := strconv.Atoi(strings.TrimSpace(line[i+1:]))
				if err != nil {
					return out, fmt.Errorf("bad content length %q", line)
				}
				n = v
			}
		}
		if n < 0 {
			return out, errors.New("frame without content length")
		}
		payload := make([]byte, n)
		if _, err := io.ReadFull(r, payload); err != nil {
			return out, fmt.Errorf("truncated frame body: %v", err)
		}
		var m map[string]any
		if err := json.Unmarshal(payload, &m); err != nil {
			return out, fmt.Errorf("frame is not a JSON object: %v", err)
		}
		out = append(out, m)
	}
}

type sessionResult struct {
	ServeErr   string
	ProtoErr   string
	Listed     []string
	Schemas    map[string]map[string]any // tool -> inputSchema.properties
	RPCError   bool                      // tools/call answered with a JSON-RPC error object
	IsError    bool                      // tools/call result carries isError:true
	Structured map[string]any
	AuditRaw   string
	Audit      []map[string]any
	AuditBad   int      // audit lines that are not JSON objects
	Calls      []string // per tools/call: "ok" | "isError" | "rpc-error"
	CallText   string   // the tools/call responses as JSON text
}

func (s *sessionResult) refused() bool { return s.RPCError || s.IsError }

// runSession drives initialize, notifications/initialized, tools/list and one tools/call through Serve.
// configPath is what the server is constructed with ("" = no config path configured).
func (w *worker) runSession(c gateCfg, configPath, tool string, args map[string]any, omitArgs bool, repeat int) *sessionResult {
	var in, out, audit bytes.Buffer
	writeFrame(&in, map[string]any{"jsonrpc": "2.0", "id": 1, "method": "initialize", "params": map[string]any{
		"protocolVersion": "2024-11-05", "capabilities": map[string]any{}, "clientInfo": map[string]any{"name": "verif-c20", "version": "0"}}})
	writeFrame(&in, map[string]any{"jsonrpc": "2.0", "method": "notifications/initialized"})
	writeFrame(&in, map[string]any{"jsonrpc": "2.0", "id": 2, "method": "tools/list"})
	params := map[string]any{"name": tool}
	if !omitArgs {
		params["arguments"] = args
	}
	if repeat < 1 {
		repeat = 1
	}
	for i := 0; i < repeat; i++ {
		writeFrame(&in, map[string]any{"jsonrpc": "2.0", "id": 3 + i, "method": "tools/call", "params": params})
	}

	opts := []mcp.Option{
		mcp.WithPrincipal(c.Principal),
		mcp.WithAuditWriter(&audit),
		mcp.WithMutationsEnabled(c.Mut),
		mcp.WithRuntimeControlEnabled(c.RT),
		mcp.WithRuntimeControlPIDFile(w.pidPath),
		mcp.WithRuntimeControlRunBinary(w.fx.exe),
		mcp.WithRuntimeControlRunWatch(false),
		mcp.WithRuntimeControlRunLogLevel("info"),
	}
	if c.RoleVia != "field" {
		opts = append(opts, mcp.WithRole(mcp.Role(c.Role)))
	}
	srv := mcp.NewServer(&in, &out, configPath, w.dbPath, opts...)
	if c.RoleVia == "field" {
		srv.Role = mcp.Role(c.Role)
	}
	res := &sessionResult{Schemas: map[string]map[string]any{}}
	if err := srv.Serve(context.Background()); err != nil {
		res.ServeErr = err.Error()
	}
	res.AuditRaw = audit.String()
	for _, line := range strings.Split(res.AuditRaw, "\n") {
		if strings.TrimSpace(line) == "" {
			continue
		}
		var ev map[string]any
		if err := json.Unmarshal([]byte(line), &ev); err != nil {
			res.AuditBad++
			continue
		}
		res.Audit = append(res.Audit, ev)
	}
	frames, err := readFrames(out.Bytes())
	if err != nil {
		res.ProtoErr = err.Error()
		return res
	}
	byID := map[int]map[string]any{}
	for _, f := range frames {
		if f["jsonrpc"] != "2.0" {
			res.ProtoErr = "response without jsonrpc 2.0"
			return res
		}
		id, ok := f["id"].(float64)
		if !ok {
			res.ProtoErr = fmt.Sprintf("response without numeric id: %v", f["id"])
			return res
		}
		if _, dup := byID[int(id)]; dup {
			res.ProtoErr = fmt.Sprintf("two responses for id %d", int(id))
			return res
		}
		byID[int(id)] = f
	}
	if len(byID) != 2+repeat || byID[1] == nil || byID[2] == nil {
		res.ProtoErr = fmt.Sprintf("expected responses for ids 1..%d, got %d frames", 2+repeat, len(frames))
		return res
	}
	if init, _ := byID[1]["result"].(map[string]any); init == nil || init["protocolVersion"] == nil {
		res.ProtoErr = "initialize did not return a result with protocolVersion"
		return res
	}
	lr, _ := byID[2]["result"].(map[string]any)
	tl, ok := lr["tools"].([]any)
	if lr == nil || !ok {
		res.ProtoErr = "tools/list did not return result.tools"
		return res
	}
	for _, t := range tl {
		tm, _ := t.(map[string]any)
		name, _ := tm["name"].(string)
		if name == "" {
			res.ProtoErr = "tools/list entry without name"
			return res
		}
		res.Listed = append(res.Listed, name)
		if sch, ok := tm["inputSchema"].(map[string]any); ok {
			if props, ok := sch["properties"].(map[string]any); ok {
				res.Schemas[name] = props
			}
		}
	}
	// refused() is true only when every call of the session was refused
	res.RPCError, res.IsError = false, false
	refusedAll := true
	for i := 0; i < repeat; i++ {
		call := byID[3+i]
		if call == nil {
			res.ProtoErr = fmt.Sprintf("no response for id %d", 3+i)
			return res
		}
		if b, err := json.Marshal(call); err == nil {
			res.CallText += string(b) + "\n"
		}
		if call["error"] != nil {
			res.Calls = append(res.Calls, "rpc-error")
			continue
		}
		cr, _ := call["result"].(map[string]any)
		if cr == nil {
			res.ProtoErr = "tools/call returned neither result nor error"
			return res
		}
		if v, ok := cr["isError"].(bool); ok && v {
			res.Calls = append(res.Calls, "isError")
			continue
		}
		res.Calls = append(res.Calls, "ok")
		refusedAll = false
		res.Structured, _ = cr["structuredContent"].(map[string]any)
	}
	res.IsError = refusedAll
	return res
}
