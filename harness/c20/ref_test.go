package c20

// Reference side of C20: the gating table and the allow/deny predicate, transcribed from the property
// statement, /verif/DESIGN.md Appendix B, /repo/docs/mcp.md (tool -> role tables), /repo/internal/mcp/spec.md
// (tool headings "(requires `--enable-…`)", "Guardrails") and /repo/DESIGN.md "Access Model".
// Nothing here calls into internal/mcp.

import (
	"fmt"
	"os"
	"path/filepath"
	"regexp"
	"sort"
	"strings"
)

const (
	rankNone    = 0
	rankRead    = 1
	rankOperate = 2
	rankAdmin   = 3
)

type toolRef struct {
	Name     string
	MinRole  int    // rankRead / rankOperate / rankAdmin
	Flag     string // "" | "mutations" | "runtime"
	Mutating bool   // needs a principal, binds actor, is audited
}

func group(minRole int, flag string, mutating bool, names ...string) []toolRef {
	out := make([]toolRef, 0, len(names))
	for _, n := range names {
		out = append(out, toolRef{Name: n, MinRole: minRole, Flag: flag, Mutating: mutating})
	}
	return out
}

// refTable is the documented tool surface: 32 names in five classes.
var refTable = func() []toolRef {
	var t []toolRef
	// read role, no flag, not mutating: inspect-only tools
	t = append(t, group(rankRead, "", false,
		"config_parse", "config_validate", "config_compile", "config_fmt_preview", "config_diff",
		"admin_health", "management_model",
		"backlog_top_queued", "backlog_oldest_queued", "backlog_aging_summary", "backlog_trends",
		"messages_list", "attempts_list", "dlq_list")...)
	// operate role + --enable-mutations: safe queue mutations
	t = append(t, group(rankOperate, "mutations", true,
		"dlq_requeue", "dlq_delete", "messages_cancel", "messages_requeue", "messages_resume",
		"messages_publish", "messages_cancel_by_filter", "messages_requeue_by_filter", "messages_resume_by_filter")...)
	// operate role + --enable-runtime-control: runtime inspect tools (not mutating)
	t = append(t, group(rankOperate, "runtime", false, "instance_status", "instance_logs_tail")...)
	// admin role + --enable-mutations: config-lifecycle mutations
	t = append(t, group(rankAdmin, "mutations", true,
		"config_apply", "management_endpoint_upsert", "management_endpoint_delete")...)
	// admin role + --enable-runtime-control: process control
	t = append(t, group(rankAdmin, "runtime", true, "instance_start", "instance_stop", "instance_reload")...)
	return t
}()

var refByName = func() map[string]toolRef {
	m := map[string]toolRef{}
	for _, t := range refTable {
		m[t.Name] = t
	}
	return m
}()

// gateCfg is one server configuration of the table.
type gateCfg struct {
	Role      string `json:"role"`      // "read" | "operate" | "admin" | invalid string
	RoleVia   string `json:"role_via"`  // "option" (WithRole) | "field" (Server.Role assigned after construction)
	Mut       bool   `json:"mutations"` // --enable-mutations
	RT        bool   `json:"runtime"`   // --enable-runtime-control
	Principal string `json:"principal"` // "" = not configured
}

func (c gateCfg) key() string {
	p := "p0"
	if c.Principal != "" {
		p = "p1"
	}
	role := c.Role
	if role == "" {
		role = "(empty)"
	}
	return fmt.Sprintf("%s:m%dr%d:%s", role, b2i(c.Mut), b2i(c.RT), p)
}

func b2i(b bool) int {
	if b {
		return 1
	}
	return 0
}

// roleRankRef: read < operate < admin; anything else is not a role of the order.
func roleRankRef(role string) (rank int, valid bool) {
	switch role {
	case "read":
		return rankRead, true
	case "operate":
		return rankOperate, true
	case "admin":
		return rankAdmin, true
	}
	return rankNone, false
}

type verdict int

const (
	refDeny   verdict = iota // must be refused, no effect
	refAllow                 // passes the gate
	refEither                // the statement leaves it open (invalid role string on a read-level tool: "read" is the documented default, "nothing" equally satisfies "at least"); list and call must still agree
)

func (v verdict) String() string { return [...]string{"deny", "allow", "either"}[v] }

// refGate is the reference predicate for one (tool, configuration, supplied actor).
// actorSupplied is true when the arguments carry a non-empty string "actor".
func refGate(t toolRef, c gateCfg, actorSupplied bool, actor string) verdict {
	rank, valid := roleRankRef(c.Role)
	if t.Flag == "mutations" && !c.Mut {
		return refDeny
	}
	if t.Flag == "runtime" && !c.RT {
		return refDeny
	}
	if t.Mutating {
		if c.Principal == "" {
			return refDeny
		}
		if actorSupplied && actor != c.Principal {
			return refDeny
		}
	}
	if !valid {
		if t.MinRole > rankRead {
			return refDeny
		}
		return refEither
	}
	if rank < t.MinRole {
		return refDeny
	}
	return refAllow
}

// ---- documentation cross-check ------------------------------------------------

type docMismatch struct{ Key, Msg string }

var (
	reDocRow  = regexp.MustCompile("^\\|\\s*`([a-z_]+)`\\s*\\|\\s*`(read|operate|admin)`\\s*\\|")
	reSpecHdr = regexp.MustCompile("^### `([a-z_]+)`(?:\\s*\\(requires `--enable-(mutations|runtime-control)`\\))?\\s*$")
)

// crossCheckDocs parses docs/mcp.md (tool -> role) and internal/mcp/spec.md (tool -> flag) of the tree under
// test and compares them with refTable. A disagreement is reported (it means code documentation and the
// reference this harness was written from have drifted apart).
func crossCheckDocs(repo string) (checked int, out []docMismatch, err error) {
	docs, err := os.ReadFile(filepath.Join(repo, "docs", "mcp.md"))
	if err != nil {
		return 0, nil, err
	}
	spec, err := os.ReadFile(filepath.Join(repo, "internal", "mcp", "spec.md"))
	if err != nil {
		return 0, nil, err
	}
	docRole := map[string]string{}
	for _, line := range strings.Split(string(docs), "\n") {
		if m := reDocRow.FindStringSubmatch(strings.TrimSpace(line)); m != nil {
			if prev, dup := docRole[m[1]]; dup && prev != m[2] {
				out = append(out, docMismatch{"doc:" + m[1] + ":role-conflict", fmt.Sprintf("docs/mcp.md lists %s with roles %s and %s", m[1], prev, m[2])})
			}
			docRole[m[1]] = m[2]
		}
	}
	specFlag := map[string]string{}
	for _, line := range strings.Split(string(spec), "\n") {
		if m := reSpecHdr.FindStringSubmatch(strings.TrimRight(line, " \r")); m != nil {
			f := ""
			switch m[2] {
			case "mutations":
				f = "mutations"
			case "runtime-control":
				f = "runtime"
			}
			specFlag[m[1]] = f
		}
	}
	rankName := map[int]string{rankRead: "read", rankOperate: "operate", rankAdmin: "admin"}
	for _, t := range refTable {
		checked++
		if r, ok := docRole[t.Name]; !ok {
			out = append(out, docMismatch{"doc:" + t.Name + ":missing-in-docs", "docs/mcp.md has no role row for " + t.Name})
		} else if r != rankName[t.MinRole] {
			out = append(out, docMismatch{"doc:" + t.Name + ":role", fmt.Sprintf("docs/mcp.md says role %s for %s, reference table says %s", r, t.Name, rankName[t.MinRole])})
		}
		if f, ok := specFlag[t.Name]; !ok {
			out = append(out, docMismatch{"doc:" + t.Name + ":missing-in-spec", "internal/mcp/spec.md has no heading for " + t.Name})
		} else if f != t.Flag {
			out = append(out, docMismatch{"doc:" + t.Name + ":flag", fmt.Sprintf("spec.md says flag %q for %s, reference table says %q", f, t.Name, t.Flag)})
		}
	}
	var extra []string
	for n := range docRole {
		if _, ok := refByName[n]; !ok {
			extra = append(extra, n)
		}
	}
	for n := range specFlag {
		if _, ok := refByName[n]; !ok {
			if _, dup := docRole[n]; !dup {
				extra = append(extra, n)
			}
		}
	}
	sort.Strings(extra)
	for _, n := range extra {
		out = append(out, docMismatch{"doc:" + n + ":not-in-reference", "documentation names a tool that the reference table does not have: " + n})
	}
	return checked, out, nil
}
