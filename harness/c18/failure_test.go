package c18

import (
	"fmt"
	"net/http/httptest"
	"os"
	"path/filepath"
	"strings"
	"time"

	"github.com/nuetzliches/hookaido/internal/app"
	"github.com/nuetzliches/hookaido/internal/queue"
	"github.com/nuetzliches/hookaido/internal/verifkit/runner"
)

// (a) failure => unchanged, success => exactly the new configuration (differential, no hand-written expectation):
// a probe vector of ingress / pull / admin requests is answered identically by (old instance after a FAILED reload)
// and (a twin old instance that never reloaded); after a SUCCESSFUL reload it is answered identically to a fresh
// instance booted on the new file.

func baseCfg(port int, mid, tail string) string {
	return fmt.Sprintf(`
ingress   { listen "127.0.0.1:%d" }
pull_api  { listen "127.0.0.1:%d"  auth token "raw:g1" %s }
admin_api { listen "127.0.0.1:%d" }
%s`, port, port+1, mid, port+2, tail)
}

const routesOld = `
/a { queue { backend memory }  auth basic "u" "p"  max_body 8  pull { path /ea } }
/b { queue { backend memory }  pull { path /eb  auth token "raw:x" } }
`

type variant struct {
	name     string
	text     func(port int) string // new file content ("" = delete the file)
	wantOK   bool                  // the reload must be applied (else: must be refused and change nothing)
	needsEnv bool
}

func variants() []variant {
	r2 := strings.Replace(routesOld, `auth basic "u" "p"`, `auth hmac "raw:k"`, 1) + "/c { queue { backend memory }  pull { path /ec } }\n" // a reloadable change riding along
	mk := func(name, mid, tail string, ok bool) variant {
		return variant{name: name, text: func(p int) string { return baseCfg(p, mid, tail) }, wantOK: ok}
	}
	vs := []variant{
		{name: "file-unreadable", text: func(int) string { return "" }},
		mk("parse-error", "", r2+"/broken {", false),
		mk("compile-error-unknown-backend", "", r2+"/d { queue { backend nosuch }  pull { path /ed } }\n", false),
		mk("compile-error-empty-hmac-secret", "", strings.Replace(r2, `"raw:k"`, `""`, 1), false),
		mk("secret-env-unset", `auth token "env:VERIF_C18_UNSET"`, r2, false),
		// restart-requiring differences (requiresRestartForReload), each with the reloadable change riding along
		{name: "restart:ingress-listen", text: func(p int) string {
			return strings.Replace(baseCfg(p, "", r2), fmt.Sprintf(`ingress   { listen "127.0.0.1:%d" }`, p), fmt.Sprintf(`ingress   { listen "127.0.0.1:%d" }`, p+7), 1)
		}},
		mk("restart:pull-prefix", `prefix /pull`, r2, false),
		mk("restart:pull-max-batch", `max_batch 7`, r2, false),
		mk("restart:pull-default-lease-ttl", `default_lease_ttl 7s`, r2, false),
		mk("restart:pull-max-lease-ttl", `max_lease_ttl 77s`, r2, false),
		mk("restart:pull-default-max-wait", `default_max_wait 1s`, r2, false),
		mk("restart:pull-max-wait", `max_wait 3s`, r2, false),
		mk("restart:pull-grpc-listen", `grpc_listen "127.0.0.1:1"`, r2, false),
		mk("restart:defaults-max-body", "", "defaults { max_body 1kb }\n"+r2, false),
		mk("restart:defaults-max-headers", "", "defaults { max_headers 1kb }\n"+r2, false),
		mk("restart:publish-policy", "", "defaults { publish_policy { direct off } }\n"+r2, false),
		mk("restart:queue-limits", "", "queue_limits { max_depth 5 }\n"+r2, false),
		mk("restart:queue-retention", "", "queue_retention { max_age 1h }\n"+r2, false),
		mk("restart:delivered-retention", "", "delivered_retention { max_age 1h }\n"+r2, false),
		mk("restart:dlq-retention", "", "dlq_retention { max_age 1h }\n"+r2, false),
		mk("restart:observability", "", "observability { access_log off }\n"+r2, false),
		mk("restart:has-deliver-routes", "", r2+"/d { queue { backend memory }  deliver \"https://t.example/h\" {} }\n", false),
		mk("restart:queue-backend", "", strings.ReplaceAll(r2, "backend memory", "backend sqlite"), false),
		// reloadable changes: must be applied completely
		mk("ok:auth-kind-and-route-added", "", r2, true),
		mk("ok:route-removed", "", strings.Split(routesOld, "\n")[1]+"\n", true),
		mk("ok:pull-token-changed", "", strings.Replace(routesOld, `"raw:x"`, `"raw:y"`, 1), true),
		mk("ok:route-max-body", "", strings.Replace(routesOld, "max_body 8", "max_body 4", 1), true),
		mk("ok:global-token-added", `auth token "raw:g2"`, routesOld, true),
		mk("ok:rate-limit-added", "", strings.Replace(routesOld, "max_body 8", "max_body 8  rate_limit { rps 1 burst 1 }", 1), true),
	}
	return vs
}

type probeReq struct {
	surface, method, path, auth, body string
}

func probes() []probeReq {
	var ps []probeReq
	basic := "Basic dTpw" // u:p
	for _, p := range []string{"/a", "/b", "/c", "/d", "/x"} {
		ps = append(ps, probeReq{"ingress", "POST", p, "", "12345"}, probeReq{"ingress", "POST", p, basic, "12345"},
			probeReq{"ingress", "POST", p, basic, "123456789"}, probeReq{"ingress", "GET", p, basic, ""})
	}
	ps = append(ps, probeReq{"ingress", "POST", "/a", basic, "1"}, probeReq{"ingress", "POST", "/a", basic, "1"}) // rate limit
	for _, e := range []string{"/ea", "/eb", "/ec", "/ed", "/pull/ea", "/pull/eb"} {
		for _, tok := range []string{"", "Bearer g1", "Bearer g2", "Bearer x", "Bearer y"} {
			ps = append(ps, probeReq{"pull", "POST", e + "/dequeue", tok, `{"batch":100,"lease_ttl":"1s"}`})
		}
	}
	ps = append(ps, probeReq{"admin", "GET", "/healthz", "", ""}, probeReq{"admin", "GET", "/messages?limit=5", "", ""},
		probeReq{"admin", "POST", "/messages/publish", "", `{"items":[{"id":"pa","route":"/a","payload_b64":"eA=="},{"id":"pb","route":"/b","payload_b64":"eA=="}]}`},
		probeReq{"admin", "POST", "/messages/publish", "", `{"items":[{"id":"pc","route":"/c","payload_b64":"eA=="}]}`},
		probeReq{"admin", "POST", "/messages/publish", "", `{"items":[{"id":"pd","route":"/a","payload_b64":"`+strings.Repeat("eHh4", 4)+`"}]}`},
		probeReq{"admin", "GET", "/management/model", "", ""})
	return ps
}

func runProbes(a *app.VerifApp, st queue.Store) []string {
	var out []string
	for _, p := range probes() {
		r := httptest.NewRequest(p.method, p.path, strings.NewReader(p.body))
		r.Host = "h"
		r.RemoteAddr = "10.0.0.1:1"
		if p.auth != "" {
			r.Header.Set("Authorization", p.auth)
		}
		if p.surface == "admin" {
			r.Header.Set("X-Hookaido-Audit-Reason", "probe")
		}
		if p.body != "" {
			r.Header.Set("Content-Type", "application/json")
		}
		w := httptest.NewRecorder()
		h := a.Ingress
		switch p.surface {
		case "pull":
			h = a.Pull
		case "admin":
			h = a.Admin
		}
		if h == nil {
			out = append(out, fmt.Sprintf("%s %s %s [%s] -> no listener", p.surface, p.method, p.path, p.auth))
			continue
		}
		h.ServeHTTP(w, r)
		extra := ""
		if p.surface == "pull" && w.Code == 200 {
			extra = fmt.Sprintf(" items=%d", strings.Count(w.Body.String(), `"lease_id"`))
		}
		if p.surface == "admin" && p.path == "/management/model" {
			extra = fmt.Sprintf(" len=%d", w.Body.Len())
		}
		out = append(out, fmt.Sprintf("%s %s %s [%s] %dB -> %d%s", p.surface, p.method, p.path, p.auth, len(p.body), w.Code, extra))
	}
	s, _ := st.Stats()
	out = append(out, fmt.Sprintf("stored total=%d queued=%d leased=%d", s.Total, s.ByState[queue.StateQueued], s.ByState[queue.StateLeased]))
	return out
}

func failurePart(r *runner.Run) {
	os.Unsetenv("VERIF_C18_UNSET")
	dir := filepath.Join(runner.Scratch(), "c18a")
	clock := time.Date(2026, 1, 1, 0, 0, 0, 0, time.UTC)
	now := func() time.Time { return clock }
	port := 23000
	boot := func(text string) (*app.VerifApp, queue.Store, error) {
		port += 10
		st := queue.NewMemoryStore(queue.WithNowFunc(now))
		a, err := app.VerifBoot(app.VerifBootOptions{Dir: fmt.Sprintf("%s/%d", dir, port), ConfigText: strings.ReplaceAll(text, "PORT", ""), Store: st, Now: now})
		return a, st, err
	}
	for _, v := range variants() {
		// instance A: old, then reload to the variant
		pA := port + 10
		a, stA, err := boot(baseCfg(pA, "", routesOld))
		if err != nil {
			r.Infra("c18a boot old: %v", err)
			return
		}
		newText := v.text(pA)
		if newText == "" {
			os.Remove(a.ConfigPath)
		} else {
			os.WriteFile(a.ConfigPath, []byte(newText), 0o644)
		}
		ok := a.Reload("verif")
		vecA := runProbes(a, stA)
		a.Shutdown()
		r.Add("reload_variants", 1)
		r.Distinct(fmt.Sprintf("reload:%s:applied=%v", strings.SplitN(v.name, ":", 2)[0], ok))
		// reference instance B
		var vecB []string
		if v.wantOK {
			pB := port + 10
			b, stB, err := boot(v.text(pB))
			if err != nil {
				r.Infra("c18a boot new (%s): %v", v.name, err)
				continue
			}
			vecB = runProbes(b, stB)
			b.Shutdown()
		} else {
			pB := port + 10
			b, stB, err := boot(baseCfg(pB, "", routesOld))
			if err != nil {
				r.Infra("c18a boot twin: %v", err)
				continue
			}
			vecB = runProbes(b, stB)
			b.Shutdown()
		}
		if ok != v.wantOK {
			r.Violation("reload-verdict:"+v.name, fmt.Sprintf("reload variant %s: applied=%v, want %v", v.name, ok, v.wantOK), map[string]any{"part": "failure", "variant": v.name}, nil)
			continue
		}
		for i := range vecA {
			if i >= len(vecB) || vecA[i] != vecB[i] {
				ref := "a twin instance that never reloaded"
				if v.wantOK {
					ref = "a fresh instance started on the new file"
				}
				r.Violation("reload-behaviour:"+v.name, fmt.Sprintf("reload variant %s (applied=%v): probe %d differs from %s:\n    after reload: %s\n    reference:    %s", v.name, ok, i, ref, vecA[i], vecB[min(i, len(vecB)-1)]),
					map[string]any{"part": "failure", "variant": v.name, "probe": i}, nil)
				break
			}
		}
		r.Add("reload_probe_answers_compared", int64(len(vecA)))
	}
}
