package c18

import (
	"net/http/httptest"
	"os"
	"path/filepath"
	"sync"
	"testing"

	"github.com/nuetzliches/hookaido/internal/app"
	"github.com/nuetzliches/hookaido/internal/queue"
	"github.com/nuetzliches/hookaido/internal/verifkit/runner"
	"github.com/nuetzliches/hookaido/internal/verifkit/vrand"
)

// TestRace: side condition of the C18(b) exploration — reload and requests as free goroutines under -race.
func TestRace(t *testing.T) {
	if os.Getenv("VERIF_RACE") == "" {
		t.Skip("race pass only")
	}
	// reload against the running push dispatcher (dispatch_test.go)
	vrand.SetFloat64(func() float64 { return 0.75 })
	fam := dFamily()
	u := dUniverseOf(fam)
	for _, m := range fam[1:] {
		switch m.name {
		case "reloadable:ingress-password", "reloadable:pull-route-removed", "route:pull-moved-between-delivers", "route:deliver-to-outbound", "egress:allow-ip-to-cidr", "route:deliver-removed":
			for it := 0; it < 3; it++ {
				dRaceRun(t, u, fam[0], m, 31900, filepath.Join(runner.Scratch(), "race18d"))
			}
		}
	}
	vrand.SetFloat64(nil)
	for _, p := range pairs {
		for it := 0; it < 40; it++ {
			st := queue.NewMemoryStore()
			for _, e := range p.seed {
				st.Enqueue(e)
			}
			a, err := app.VerifBoot(app.VerifBootOptions{Dir: filepath.Join(runner.Scratch(), "race18"), ConfigText: p.old, Store: st})
			if err != nil {
				t.Fatal(err)
			}
			for _, pr := range p.pre {
				a.Ingress.ServeHTTP(httptest.NewRecorder(), request(pr.raw))
			}
			os.WriteFile(a.ConfigPath, []byte(p.new), 0o644)
			var wg sync.WaitGroup
			wg.Add(3)
			go func() { defer wg.Done(); a.Reload("race") }()
			for i := 0; i < 2; i++ {
				go func() {
					defer wg.Done()
					h := a.Ingress
					if p.probe.surface == "pull" {
						h = a.Pull
					}
					h.ServeHTTP(httptest.NewRecorder(), request(p.probe.raw))
				}()
			}
			wg.Wait()
			a.Shutdown()
		}
	}
}
