package c18

import (
	"encoding/json"
	"fmt"
	"net/http/httptest"
	"os"
	"path/filepath"
	"strings"
	"testing"
	"time"

	"github.com/nuetzliches/hookaido/internal/app"
	"github.com/nuetzliches/hookaido/internal/config"
	"github.com/nuetzliches/hookaido/internal/queue"
	"github.com/nuetzliches/hookaido/internal/verifkit/runner"
	"github.com/nuetzliches/hookaido/internal/verifkit/sched"
	"github.com/nuetzliches/hookaido/internal/verifkit/schedrun"
)

// Management mutations against traffic: a managed endpoint is moved to another route (or deleted) through the Admin
// API while a message arrives on the route it currently points to. The mutation is refused when that route has
// backlog (checked before the file is written and again after). Whatever the interleaving: the mutation is applied
// entirely or not at all - the answer, the configuration file and the running gateway agree.

const mgmtRace = `
ingress   { listen "127.0.0.1:18080" }
pull_api  { listen "127.0.0.1:19443"  auth token "raw:g1" }
admin_api { listen "127.0.0.1:12019" }
/a { application billing  endpoint_name inv  pull { path /e1 } }
/b { pull { path /e2 } }
`

// fileMapping: the route the configuration file assigns to billing/inv ("" = none).
func fileMapping(path string) (string, error) {
	b, err := os.ReadFile(path)
	if err != nil {
		return "", err
	}
	cfg, err := config.Parse(b)
	if err != nil {
		return "", fmt.Errorf("file does not parse: %w", err)
	}
	comp, res := config.Compile(cfg)
	if !res.OK {
		return "", fmt.Errorf("file does not compile: %v", res.Errors)
	}
	for _, rt := range comp.Routes {
		if rt.Application == "billing" && rt.EndpointName == "inv" {
			return rt.Path, nil
		}
	}
	return "", nil
}

// runtimeMapping: what the running gateway says through the Admin API.
func runtimeMapping(a *app.VerifApp) string {
	r := httptest.NewRequest("GET", "/applications/billing/endpoints/inv", nil)
	w := httptest.NewRecorder()
	a.Admin.ServeHTTP(w, r)
	if w.Code == 404 {
		return ""
	}
	var resp map[string]any
	json.Unmarshal(w.Body.Bytes(), &resp)
	if s, ok := resp["route"].(string); ok {
		return s
	}
	return fmt.Sprintf("?%d %s", w.Code, strings.TrimSpace(w.Body.String()))
}

func mgmtSchedPart(r *runner.Run, t *testing.T) {
	for _, kind := range []string{"move", "delete"} {
		kind := kind
		dir := filepath.Join(runner.Scratch(), "c18-mgmt-"+kind)
		body := func(x *sched.Exec) {
			st := queue.NewMemoryStore()
			a, err := app.VerifBoot(app.VerifBootOptions{Dir: dir, ConfigText: mgmtRace, Store: st})
			if err != nil {
				x.Err = fmt.Errorf("boot: %w", err)
				return
			}
			x.Go("mutation", func() {
				method, bodyText := "PUT", `{"route":"/b"}`
				if kind == "delete" {
					method, bodyText = "DELETE", ""
				}
				rq := httptest.NewRequest(method, "/applications/billing/endpoints/inv", strings.NewReader(bodyText))
				rq.Header.Set("X-Hookaido-Audit-Reason", "verif")
				rq.Header.Set("Content-Type", "application/json")
				w := httptest.NewRecorder()
				a.Admin.ServeHTTP(w, rq)
				x.Logf("mutation=%d", w.Code)
			})
			x.Go("ingress", func() {
				w := httptest.NewRecorder()
				a.Ingress.ServeHTTP(w, request("POST /a HTTP/1.1\r\nHost: h\r\nContent-Length: 1\r\n\r\nx"))
				x.Logf("ingress=%d", w.Code)
			})
			x.Run()
			fm, err := fileMapping(a.ConfigPath)
			if err != nil {
				x.Logf("file=ERROR %v", err)
			} else {
				x.Logf("file=%q", fm)
			}
			x.Logf("runtime=%q", runtimeMapping(a))
			x.Finish()
			a.Shutdown()
		}
		want := `"/b"`
		if kind == "delete" {
			want = `""`
		}
		oracle := func(x *sched.Exec) {
			got := map[string]string{}
			for _, l := range x.Log {
				if i := strings.IndexByte(l, '='); i > 0 {
					got[l[:i]] = l[i+1:]
				}
			}
			if strings.HasPrefix(got["file"], "ERROR") {
				sched.Failf("the management mutation left a configuration file that does not load: %s", got["file"])
			}
			if got["file"] != got["runtime"] {
				sched.Failf("after the management mutation (answer %s) the configuration file maps billing/inv to %s but the running gateway to %s", got["mutation"], got["file"], got["runtime"])
			}
			applied := strings.HasPrefix(got["mutation"], "2")
			if applied && got["runtime"] != want {
				sched.Failf("mutation answered %s but billing/inv is mapped to %s, want %s", got["mutation"], got["runtime"], want)
			}
			if !applied && got["runtime"] != `"/a"` {
				sched.Failf("mutation refused with %s but billing/inv is mapped to %s, want \"/a\" (not at all)", got["mutation"], got["runtime"])
			}
		}
		schedrun.Run(r, t, schedrun.Spec{Name: "management-" + kind + "-vs-ingress", Bound: runner.Pick(r, 3, -1), Shards: 8, Budget: runner.Pick(r, 25*time.Second, 4*time.Minute), MaxExecs: 300000,
			Body: body, Oracle: oracle, VioKey: func(f *sched.Failure) string { return "management-mutation-not-atomic:" + kind }})
	}
}
