package c18

import (
	"bufio"
	"bytes"
	"encoding/json"
	"fmt"
	"net/http"
	"net/http/httptest"
	"os"
	"path/filepath"
	"sort"
	"strings"
	"testing"
	"time"

	"github.com/nuetzliches/hookaido/internal/app"
	"github.com/nuetzliches/hookaido/internal/queue"
	"github.com/nuetzliches/hookaido/internal/verifkit/runner"
	"github.com/nuetzliches/hookaido/internal/verifkit/sched"
	"github.com/nuetzliches/hookaido/internal/verifkit/schedrun"
)

const head = `
ingress   { listen "127.0.0.1:18080" }
pull_api  { listen "127.0.0.1:19443"  auth token "raw:g1" }
admin_api { listen "127.0.0.1:12019" }
`

type probe struct {
	surface string // ingress | pull
	raw     string // raw HTTP/1.1 request
}

type pair struct {
	name     string
	old, new string
	probe    probe
	seed     []queue.Envelope
	pre      []probe // requests served before the reload starts (e.g. to empty a rate-limit bucket)
}

func post(path, extra, body string) string {
	return fmt.Sprintf("POST %s HTTP/1.1\r\nHost: h\r\n%sContent-Length: %d\r\n\r\n%s", path, extra, len(body), body)
}

var pairs = []pair{
	{
		name:  "P1-hmac-to-basic-same-route",
		old:   head + `/a { auth hmac "raw:k"  pull { path /ea } }`,
		new:   head + `/a { auth basic "u" "p"  pull { path /ea } }`,
		probe: probe{"ingress", post("/a", "", "x")}, // no credentials at all: 401 under old, 401 under new
	},
	{
		name:  "P2-route-removed-route-added",
		old:   head + `/a { auth hmac "raw:k"  pull { path /ea } }`,
		new:   head + `/b { auth basic "u" "p"  pull { path /eb } }`,
		probe: probe{"ingress", post("/a", "", "x")}, // 401 under old, 404 under new
	},
	{
		name: "P3-pull-endpoints-swapped",
		old: head + `/a { pull { path /e1  auth token "raw:x" } }
/b { pull { path /e2  auth token "raw:y" } }`,
		new: head + `/a { pull { path /e2  auth token "raw:x" } }
/b { pull { path /e1  auth token "raw:y" } }`,
		probe: probe{"pull", post("/e1/dequeue", "Authorization: Bearer x\r\nContent-Type: application/json\r\n", `{"batch":1}`)},
		seed:  []queue.Envelope{{ID: "ma", Route: "/a", Target: "pull", Payload: []byte("A")}, {ID: "mb", Route: "/b", Target: "pull", Payload: []byte("B")}},
	},
	{
		name:  "P4-max-body-lowered",
		old:   head + `/a { max_body 8  pull { path /ea } }`,
		new:   head + `/a { max_body 4  pull { path /ea } }`,
		probe: probe{"ingress", post("/a", "", "123456")}, // 202 under old, 413 under new
	},
	{
		// the limited route is removed: under old the emptied bucket refuses (429), under new the route is gone (404);
		// a request routed under old but limited under new would be admitted
		name:  "P6-rate-limited-route-removed",
		old:   head + `/a { rate_limit { rps 1 burst 1 }  pull { path /ea } }`,
		new:   head + `/b { pull { path /eb } }`,
		probe: probe{"ingress", post("/a", "", "x")},
		pre:   []probe{{"ingress", post("/a", "", "first")}},
	},
	{
		// a limiter is added to a route whose global bucket is empty: old = global limiter refuses (429), new = route
		// override with a full bucket admits (202); both are legal, anything else is a mixture
		name:  "P7-route-limit-added-over-empty-global",
		old:   strings.Replace(head, `listen "127.0.0.1:18080"`, `listen "127.0.0.1:18080"  rate_limit { rps 1 burst 1 }`, 1) + `/a { pull { path /ea } }`,
		new:   strings.Replace(head, `listen "127.0.0.1:18080"`, `listen "127.0.0.1:18080"  rate_limit { rps 1 burst 1 }`, 1) + `/a { rate_limit { rps 1 burst 2 }  pull { path /ea } }`,
		probe: probe{"ingress", post("/a", "", "x")},
		pre:   []probe{{"ingress", post("/a", "", "first")}},
	},
	{
		// forward auth is consulted after the body was read, Basic before: a request that sees "no Basic" from the old
		// configuration and "no forward auth" from the new one would be accepted without any credential
		name:  "P8-forward-to-basic-same-route",
		old:   head + `/a { auth forward "http://auth.verif.test/check"  pull { path /ea } }`,
		new:   head + `/a { auth basic "u" "p"  pull { path /ea } }`,
		probe: probe{"ingress", post("/a", "", "x")}, // 401 under old (the auth service refuses), 401 under new
	},
	{
		name:  "P9-basic-to-forward-same-route",
		old:   head + `/a { auth basic "u" "p"  pull { path /ea } }`,
		new:   head + `/a { auth forward "http://auth.verif.test/check"  pull { path /ea } }`,
		probe: probe{"ingress", post("/a", "", "x")},
	},
	{
		// the route moves to the internal channel (pull only, never served by ingress): resolving the path under one
		// configuration and looking up its authentication under the other would store an unauthenticated request
		name:  "P10-inbound-basic-to-internal-same-path",
		old:   head + `/x { auth basic "u" "p"  pull { path /ex } }`,
		new:   head + `internal /x { pull { path /ex } }`,
		probe: probe{"ingress", post("/x", "", "x")}, // 401 under old, 404 under new
	},
	{
		name:  "P11-internal-to-inbound-basic-same-path",
		old:   head + `internal /x { pull { path /ex } }`,
		new:   head + `/x { auth basic "u" "p"  pull { path /ex } }`,
		probe: probe{"ingress", post("/x", "", "x")},
	},
	{
		name:  "P5-basic-to-hmac-same-route",
		old:   head + `/a { auth basic "u" "p"  pull { path /ea } }`,
		new:   head + `/a { auth hmac "raw:k"  pull { path /ea } }`,
		probe: probe{"ingress", post("/a", "", "x")},
	},
}

func request(raw string) *http.Request {
	r, err := http.ReadRequest(bufio.NewReader(strings.NewReader(raw)))
	if err != nil {
		panic(err)
	}
	r.RemoteAddr = "10.1.2.3:5555"
	return r
}

// outcome renders what the property makes observable: status, stored messages (route/target), dequeued items.
func outcome(code int, body []byte, st queue.Store) string {
	var items []string
	var resp struct {
		Items []struct {
			ID    string `json:"id"`
			Route string `json:"route"`
		} `json:"items"`
	}
	if json.Unmarshal(body, &resp) == nil {
		for _, it := range resp.Items {
			items = append(items, it.ID+"@"+it.Route)
		}
	}
	l, _ := st.ListMessages(queue.MessageListRequest{Order: "asc", Limit: 100})
	var stored []string
	for _, e := range l.Items {
		id := e.ID
		if strings.HasPrefix(id, "evt_") {
			id = "evt"
		}
		stored = append(stored, fmt.Sprintf("%s:%s:%s:%s", id, e.Route, e.Target, e.State))
	}
	sort.Strings(stored)
	return fmt.Sprintf("status=%d dequeued=%v stored=%v", code, items, stored)
}

// mode 0: reload and request concurrently; 1: request only (old); 2: reload, then request (new).
// authSvc is installed as http.DefaultTransport: the production ForwardAuth builds its own http.Client on the default
// transport, so authenticators created by a reload reach it too. The service refuses every request (401).
type authSvc struct{}

func (authSvc) RoundTrip(rq *http.Request) (*http.Response, error) {
	if rq.Body != nil {
		rq.Body.Close()
	}
	return &http.Response{StatusCode: 401, Status: "401 Unauthorized", Proto: "HTTP/1.1", ProtoMajor: 1, ProtoMinor: 1, Header: http.Header{}, Body: http.NoBody, Request: rq}, nil
}

func body(p pair, mode int, dir string) func(x *sched.Exec) {
	return func(x *sched.Exec) {
		if strings.Contains(p.old+p.new, "auth forward") {
			prev := http.DefaultTransport
			http.DefaultTransport = authSvc{}
			defer func() { http.DefaultTransport = prev }()
		}
		st := queue.NewMemoryStore()
		for _, e := range p.seed {
			st.Enqueue(e)
		}
		a, err := app.VerifBoot(app.VerifBootOptions{Dir: dir, ConfigText: p.old, Store: st})
		if err != nil {
			x.Err = fmt.Errorf("boot old config: %w", err)
			return
		}
		if err := os.WriteFile(a.ConfigPath, []byte(p.new), 0o644); err != nil {
			x.Err = err
			return
		}
		for _, pr := range p.pre {
			h := a.Ingress
			if pr.surface == "pull" {
				h = a.Pull
			}
			h.ServeHTTP(httptest.NewRecorder(), request(pr.raw))
		}
		doReq := func() {
			w := httptest.NewRecorder()
			h := a.Ingress
			if p.probe.surface == "pull" {
				h = a.Pull
			}
			h.ServeHTTP(w, request(p.probe.raw))
			x.Logf("%s", outcome(w.Code, bytes.TrimSpace(w.Body.Bytes()), st))
		}
		// the same request once more, after everything else has finished: it must be served by the configuration in
		// force then (a stale cache that survives the reload shows here, not in the overlapping request)
		after := func() {
			w := httptest.NewRecorder()
			h := a.Ingress
			if p.probe.surface == "pull" {
				h = a.Pull
			}
			h.ServeHTTP(w, request(p.probe.raw))
			x.Logf("after-status=%d", w.Code)
		}
		switch mode {
		case 0:
			x.Go("reload", func() {
				if !a.Reload("verif") {
					x.Logf("RELOAD-FAILED")
				}
			})
			x.Go("request", doReq)
		case 1:
			x.Go("request", doReq)
		case 2:
			x.Go("seq", func() {
				if !a.Reload("verif") {
					x.Logf("RELOAD-FAILED")
				}
				doReq()
			})
		case 3: // reference: reload, request, request
			x.Go("seq", func() {
				if !a.Reload("verif") {
					x.Logf("RELOAD-FAILED")
				}
				doReq()
				after()
			})
		case 4: // reference: request, reload, request
			x.Go("seq", func() {
				doReq()
				if !a.Reload("verif") {
					x.Logf("RELOAD-FAILED")
				}
				after()
			})
		}
		x.Run()
		if mode == 0 {
			after()
		}
		x.Finish()
		a.Shutdown()
	}
}

func reference(t *testing.T, p pair, mode int, dir string) (string, error) {
	res := sched.Explore(t, sched.Options{Name: "ref", Bound: 0}, body(p, mode, dir))
	if res.InfraErr != nil {
		return "", res.InfraErr
	}
	if len(res.Outcomes) != 1 {
		return "", fmt.Errorf("reference run of %s mode %d has %d outcomes", p.name, mode, len(res.Outcomes))
	}
	for k := range res.Outcomes {
		if strings.Contains(k, "RELOAD-FAILED") {
			return "", fmt.Errorf("reference reload of %s failed", p.name)
		}
		return k, nil
	}
	return "", nil
}

func schedPart(r *runner.Run, t *testing.T) {
	for _, p := range pairs {
		p := p
		dir := filepath.Join(runner.Scratch(), "c18-"+p.name)
		oldOut, err := reference(t, p, 1, dir)
		if err != nil {
			r.Infra("%v", err)
			continue
		}
		newOut, err := reference(t, p, 2, dir)
		if err != nil {
			r.Infra("%v", err)
			continue
		}
		if _, child := runner.IsShard(); !child && runner.ReplayPath() == "" {
			r.Set("pair:"+p.name, map[string]string{"under_old": oldOut, "under_new": newOut})
		}
		afterOf := func(mode int) (string, error) {
			out, err := reference(t, p, mode, dir)
			if err != nil {
				return "", err
			}
			i := strings.Index(out, "after-status=")
			if i < 0 {
				return "", fmt.Errorf("reference run of %s mode %d has no after-status", p.name, mode)
			}
			return strings.Fields(out[i:])[0], nil
		}
		afterNN, err := afterOf(3)
		if err != nil {
			r.Infra("%v", err)
			continue
		}
		afterON, err := afterOf(4)
		if err != nil {
			r.Infra("%v", err)
			continue
		}
		oracle := func(x *sched.Exec) {
			first, after := "", ""
			for _, l := range x.Log {
				if strings.HasPrefix(l, "status=") {
					first = l
				}
				if strings.HasPrefix(l, "after-status=") {
					after = l
				}
			}
			if after != "" && !(first == newOut && after == afterNN) && !(first == oldOut && after == afterON) && (first == oldOut || first == newOut) {
				sched.Failf("a request made after the reload had completed was not served by the new configuration:\n    observed %s (the overlapping request: %s)\n    expected %s after a request under the new configuration, %s after one under the old", after, first, afterNN, afterON)
			}
			for _, l := range x.Log {
				if l == "RELOAD-FAILED" {
					sched.Failf("reload of a valid, reloadable configuration failed")
				}
				if strings.HasPrefix(l, "status=") && l != oldOut && l != newOut {
					sched.Failf("request served under a mixture of old and new configuration:\n    observed  %s\n    under old %s\n    under new %s", l, oldOut, newOut)
				}
			}
		}
		schedrun.Run(r, t, schedrun.Spec{Name: p.name, Bound: -1, Shards: 4, Budget: runner.Pick(r, 20*time.Second, 3*time.Minute), MaxExecs: 200000,
			Body: body(p, 0, dir), Oracle: oracle,
			VioKey: func(f *sched.Failure) string {
				if strings.Contains(f.Message, "after the reload had completed") {
					return "reload-stale:" + p.probe.surface + ":" + p.name
				}
				return "reload-mixture:" + p.probe.surface + ":" + p.name
			}})
	}
}
