package c18

import (
	"context"
	"crypto/hmac"
	"crypto/sha256"
	"encoding/base64"
	"encoding/hex"
	"encoding/json"
	"fmt"
	"io"
	"net"
	"net/http"
	"net/http/httptest"
	"os"
	"path/filepath"
	"sort"
	"strconv"
	"strings"
	"sync"
	"testing"
	"testing/synctest"
	"time"

	"github.com/nuetzliches/hookaido/internal/app"
	"github.com/nuetzliches/hookaido/internal/dispatcher"
	"github.com/nuetzliches/hookaido/internal/queue"
	"github.com/nuetzliches/hookaido/internal/verifkit/runner"
	"github.com/nuetzliches/hookaido/internal/verifkit/vrand"
)

// (d) "reported as applied" against EVERYTHING that runs, the push dispatcher included.
//
// In production the push dispatcher (routes, targets, retry, timeout, signing, concurrency, egress policy) is built once
// by run() at boot and never rebuilt; a reload can therefore be honest in two ways only: refuse (restart required) and
// leave everything as it was, or apply and be indistinguishable from a process started on the new file. Which settings
// are "dispatcher relevant" is the code's business - this part does not know. It is a differential over ordered pairs
// (A, B) of configurations that differ in one or two aspects:
//
//   test run:  boot A; build the dispatcher as run() does at boot (a.VerifDispatcher right after boot, kept for the
//              whole case); write B, reload through the production path; probes
//   reference: a fresh boot of A (when the reload was refused) / of B (when it was reported applied); the dispatcher of
//              THAT boot; the same probes
//
// Probes (identical in all runs, in a virtual-time bubble): a backlog of one message per (route, target) of the whole
// family put into the store before the boot; one ingress request per route path of the whole family (plus auth / size
// variants); the dispatcher runs for a fixed virtual horizon against an in-memory transport (answers are a function of
// the host name: 200, 500, 410, 302, slow) and a fixed name table; then one dequeue per pull endpoint and token of the
// family. Observed: ingress answers; per route the number of dispatcher workers waiting on it; every request the
// transport saw (virtual time, method, URL, body, header names, which secret verifies the documented signature); the
// pull answers; every message left in the store (route, target, state, dead reason). The observation vectors must be
// equal line by line.

type dTarget struct {
	URL   string   `json:"url"`
	Lines []string `json:"lines,omitempty"` // inside the deliver block
}

type dRoute struct {
	Channel string    `json:"channel,omitempty"` // "" (inbound) | outbound | internal
	Path    string    `json:"path"`
	Lines   []string  `json:"lines,omitempty"` // route-level directives
	Pull    string    `json:"pull,omitempty"`  // pull endpoint path ("" = deliver route)
	PullTok string    `json:"pull_tok,omitempty"`
	Targets []dTarget `json:"targets,omitempty"`
}

type dConfig struct {
	Egress  []string `json:"egress"`
	Deliver []string `json:"deliver"` // defaults.deliver
	PullMid string   `json:"pull_mid,omitempty"`
	Top     []string `json:"top,omitempty"` // further top-level blocks
	Def     []string `json:"def,omitempty"` // further lines of the defaults block
	Routes  []dRoute `json:"routes"`
}

func (c dConfig) clone() dConfig {
	b, _ := json.Marshal(c)
	var out dConfig
	json.Unmarshal(b, &out)
	return out
}

func (c dConfig) text(port int) string {
	var b strings.Builder
	fmt.Fprintf(&b, "ingress   { listen \"127.0.0.1:%d\" }\npull_api  { listen \"127.0.0.1:%d\"  auth token \"raw:g1\" %s }\nadmin_api { listen \"127.0.0.1:%d\" }\n", port, port+1, c.PullMid, port+2)
	for _, l := range c.Top {
		b.WriteString(l + "\n")
	}
	b.WriteString("defaults {\n")
	for _, l := range c.Def {
		b.WriteString("  " + l + "\n")
	}
	if len(c.Egress) > 0 {
		b.WriteString("  egress {\n")
		for _, l := range c.Egress {
			b.WriteString("    " + l + "\n")
		}
		b.WriteString("  }\n")
	}
	if len(c.Deliver) > 0 {
		b.WriteString("  deliver {\n")
		for _, l := range c.Deliver {
			b.WriteString("    " + l + "\n")
		}
		b.WriteString("  }\n")
	}
	b.WriteString("}\n")
	for _, rt := range c.Routes {
		if rt.Channel != "" {
			b.WriteString(rt.Channel + " ")
		}
		b.WriteString(rt.Path + " {\n")
		for _, l := range rt.Lines {
			b.WriteString("  " + l + "\n")
		}
		if rt.Pull != "" {
			tok := ""
			if rt.PullTok != "" {
				tok = fmt.Sprintf("  auth token \"raw:%s\"", rt.PullTok)
			}
			fmt.Fprintf(&b, "  pull { path %s%s }\n", rt.Pull, tok)
		}
		for _, tg := range rt.Targets {
			fmt.Fprintf(&b, "  deliver \"%s\" {\n", tg.URL)
			for _, l := range tg.Lines {
				b.WriteString("    " + l + "\n")
			}
			b.WriteString("  }\n")
		}
		b.WriteString("}\n")
	}
	return b.String()
}

func (c *dConfig) route(path string) *dRoute {
	for i := range c.Routes {
		if c.Routes[i].Path == path {
			return &c.Routes[i]
		}
	}
	panic("c18 dispatch part: no route " + path)
}

func (c *dConfig) target(path string, i int) *dTarget { return &c.route(path).Targets[i] }

func (c *dConfig) removeRoute(path string) dRoute {
	for i := range c.Routes {
		if c.Routes[i].Path == path {
			rt := c.Routes[i]
			c.Routes = append(c.Routes[:i:i], c.Routes[i+1:]...)
			return rt
		}
	}
	panic("c18 dispatch part: no route " + path)
}

func replaceLine(lines []string, prefix, with string) []string {
	var out []string
	done := false
	for _, l := range lines {
		if strings.HasPrefix(l, prefix) && !done {
			done = true
			if with != "" {
				out = append(out, with)
			}
			continue
		}
		out = append(out, l)
	}
	if !done {
		if with == "" {
			panic("c18 dispatch part: no line " + prefix)
		}
		out = append(out, with)
	}
	return out
}

const (
	hostHooks  = "hooks.partner.test"
	dSecretSet = "k1 k2 k3"
)

func dBase() dConfig {
	return dConfig{
		Egress: []string{`https_only off`, `redirects off`, `dns_rebind_protection off`,
			`allow "*.partner.test"`, `allow "exact.test"`, `allow "203.0.113.0/24"`, `allow "198.51.100.9"`,
			`deny "bad.partner.test"`, `deny "10.9.0.0/16"`},
		Deliver: []string{`retry exponential max 1 base 1s cap 2s jitter 0`, `timeout 4s`},
		Routes: []dRoute{
			{Path: "/d1", Lines: []string{`auth basic "u" "p"`}, Targets: []dTarget{
				{URL: "http://" + hostHooks + "/t1", Lines: []string{`sign hmac "raw:k1"`}},
				{URL: "https://partner.test/t2"}}},
			{Path: "/p1", Lines: []string{`auth basic "u" "p"`, `max_body 64`}, Pull: "/e1", PullTok: "x"},
			{Path: "/d2", Targets: []dTarget{
				{URL: "http://exact.test/t3"}, {URL: "http://sub.exact.test/t4"}, {URL: "http://cidr.test/t5"}, {URL: "http://198.51.100.9/t5b"}}},
			{Path: "/d3", Targets: []dTarget{
				{URL: "http://bad.partner.test/t6"}, {URL: "http://priv.partner.test/t7"}, {URL: "http://rebind.partner.test/t8"}, {URL: "http://redir.partner.test/t9"},
				{URL: "http://fail.partner.test/t14"}, {URL: "http://slow.partner.test/t15"}, {URL: "http://gone.partner.test/t16"}}}, // these three leave retry and timeout to defaults.deliver
			{Path: "/d4", Lines: []string{`deliver_concurrency 2`}, Targets: []dTarget{
				{URL: "http://fail.partner.test/t10", Lines: []string{`retry exponential max 2 base 2s cap 8s jitter 0`}},
				{URL: "http://slow.partner.test/t11", Lines: []string{`timeout 5s`}}}},
			{Path: "/p2", Pull: "/e2"},
		},
	}
}

// the in-memory network: name table and behaviour by host name
var dNames = map[string]string{
	hostHooks:             "93.184.216.10",
	"partner.test":        "93.184.216.11",
	"exact.test":          "93.184.216.12",
	"sub.exact.test":      "93.184.216.13",
	"cidr.test":           "203.0.113.7",
	"bad.partner.test":    "93.184.216.14",
	"priv.partner.test":   "10.9.1.1",
	"rebind.partner.test": "10.8.0.1",
	"redir.partner.test":  "93.184.216.15",
	"fail.partner.test":   "93.184.216.16",
	"slow.partner.test":   "93.184.216.17",
	"gone.partner.test":   "93.184.216.18",
	"other.test":          "93.184.216.19",
}

type dResolver struct{}

func (dResolver) LookupIPAddr(_ context.Context, host string) ([]net.IPAddr, error) {
	if ip, ok := dNames[strings.TrimSuffix(strings.ToLower(host), ".")]; ok {
		return []net.IPAddr{{IP: net.ParseIP(ip)}}, nil
	}
	return nil, &net.DNSError{Err: "no such host", Name: host, IsNotFound: true}
}

type dEdit struct {
	name string
	f    func(c *dConfig)
	on   string // the member the edit is applied to ("" = base)
}

func dEdits() []dEdit {
	e := func(name string, f func(c *dConfig)) dEdit { return dEdit{name: name, f: f} }
	w := e
	egress := func(prefix, with string) func(c *dConfig) {
		return func(c *dConfig) { c.Egress = replaceLine(c.Egress, prefix, with) }
	}
	tline := func(path string, i int, prefix, with string) func(c *dConfig) {
		return func(c *dConfig) { t := c.target(path, i); t.Lines = replaceLine(t.Lines, prefix, with) }
	}
	rline := func(path, prefix, with string) func(c *dConfig) {
		return func(c *dConfig) { rt := c.route(path); rt.Lines = replaceLine(rt.Lines, prefix, with) }
	}
	on := func(parent string, ed dEdit) dEdit { ed.on = parent; return ed }
	secretsBlock := func(entries ...string) func(c *dConfig) {
		return func(c *dConfig) {
			c.Top = []string{"secrets {\n" + strings.Join(entries, "\n") + "\n}"}
		}
	}
	s1 := func(value string) string {
		return `  secret "S1" { value "raw:` + value + `"  valid_from "1999-01-01T00:00:00Z" }`
	}
	s2 := func(from, until string) string {
		u := ""
		if until != "" {
			u = `  valid_until "` + until + `"`
		}
		return `  secret "S2" { value "raw:k2"  valid_from "` + from + `"` + u + ` }`
	}
	h1 := func(value, until string) string {
		u := ""
		if until != "" {
			u = `  valid_until "` + until + `"`
		}
		return `  secret "H1" { value "raw:` + value + `"  valid_from "1999-01-01T00:00:00Z"` + u + ` }`
	}
	h2 := func(value, from, until string) string {
		u := ""
		if until != "" {
			u = `  valid_until "` + until + `"`
		}
		return `  secret "H2" { value "raw:` + value + `"  valid_from "` + from + `"` + u + ` }`
	}
	return []dEdit{
		// ---- signing through named secrets with validity windows (the bubble's clock starts 2000-01-01)
		e("sign:secret-ref", func(c *dConfig) {
			secretsBlock(s1("k1"))(c)
			t := c.target("/d1", 0)
			t.Lines = replaceLine(t.Lines, "sign hmac", `sign hmac secret_ref "S1"`)
		}),
		on("sign:secret-ref", e("sign:secret-ref-value", secretsBlock(s1("k3")))),
		on("sign:secret-ref", e("sign:secret-ref-second-version", func(c *dConfig) {
			secretsBlock(s1("k1"), s2("1999-06-01T00:00:00Z", ""))(c)
			t := c.target("/d1", 0)
			t.Lines = append(t.Lines, `sign hmac secret_ref "S2"`)
		})),
		on("sign:secret-ref-second-version", e("sign:secret-selection-oldest", tline("/d1", 0, "sign secret_selection", `sign secret_selection oldest_valid`))),
		on("sign:secret-ref-second-version", e("sign:secret-version-expired", secretsBlock(s1("k1"), s2("1999-06-01T00:00:00Z", "1999-12-01T00:00:00Z")))),
		on("sign:secret-ref-second-version", e("sign:secret-version-not-yet-valid", secretsBlock(s1("k1"), s2("2001-01-01T00:00:00Z", "")))),
		on("sign:secret-ref-second-version", e("sign:secret-versions-reordered", func(c *dConfig) {
			t := c.target("/d1", 0)
			t.Lines = replaceLine(t.Lines, `sign hmac secret_ref "S1"`, ``)
			t.Lines = append(t.Lines, `sign hmac secret_ref "S1"`)
		})),
		// ---- inbound authentication through named secrets with validity windows: a reload that touches nothing but the
		// secret pool (a window, a value, a reference), alone and with a limit edit riding along
		e("ingress-hmac:secret-refs", func(c *dConfig) {
			secretsBlock(h1("k1", ""), h2("k2", "1999-06-01T00:00:00Z", ""))(c)
			c.Routes = append(c.Routes, dRoute{Path: "/h1", Lines: []string{`auth hmac secret_ref "H1"`, `auth hmac secret_ref "H2"`, `max_body 64`}, Pull: "/eh"})
		}),
		on("ingress-hmac:secret-refs", e("ingress-hmac:secret-retired", secretsBlock(h1("k1", "1999-12-01T00:00:00Z"), h2("k2", "1999-06-01T00:00:00Z", "")))),
		on("ingress-hmac:secret-refs", e("ingress-hmac:secret-retired+max-body", func(c *dConfig) {
			secretsBlock(h1("k1", "1999-12-01T00:00:00Z"), h2("k2", "1999-06-01T00:00:00Z", ""))(c)
			rt := c.route("/h1")
			rt.Lines = replaceLine(rt.Lines, "max_body", `max_body 8`)
		})),
		on("ingress-hmac:secret-refs", e("ingress-hmac:secret-not-yet-valid", secretsBlock(h1("k1", ""), h2("k2", "2001-01-01T00:00:00Z", "")))),
		on("ingress-hmac:secret-refs", e("ingress-hmac:secret-value", secretsBlock(h1("k1", ""), h2("k3", "1999-06-01T00:00:00Z", "")))),
		on("ingress-hmac:secret-refs", e("ingress-hmac:secret-ref-dropped", rline("/h1", `auth hmac secret_ref "H1"`, ``))),
		on("ingress-hmac:secret-refs", e("ingress-hmac:inline-secret", func(c *dConfig) {
			rt := c.route("/h1")
			rt.Lines = replaceLine(rt.Lines, `auth hmac secret_ref "H1"`, ``)
			rt.Lines = replaceLine(rt.Lines, `auth hmac secret_ref "H2"`, `auth hmac "raw:k3"`)
		})),
		on("ingress-hmac:secret-refs", e("ingress-hmac:max-body-only", rline("/h1", "max_body", `max_body 8`))),
		// ---- deliver routes
		e("route:deliver-added", func(c *dConfig) {
			c.Routes = append(c.Routes, dRoute{Path: "/d5", Targets: []dTarget{{URL: "http://" + hostHooks + "/t12"}}})
		}),
		e("route:deliver-removed", func(c *dConfig) { c.removeRoute("/d2") }),
		e("route:deliver-removed-first", func(c *dConfig) { c.removeRoute("/d1") }),
		w("route:deliver-removed-last", func(c *dConfig) { c.removeRoute("/d4") }),
		e("route:deliver-to-pull", func(c *dConfig) { rt := c.route("/d2"); rt.Targets = nil; rt.Pull = "/e3" }),
		e("route:deliver-renamed", func(c *dConfig) { c.route("/d2").Path = "/d2x" }),
		e("route:deliver-reordered", func(c *dConfig) {
			rt := c.removeRoute("/d1")
			c.Routes = append(c.Routes, rt)
		}),
		e("route:pull-moved-between-delivers", func(c *dConfig) {
			rt := c.removeRoute("/p2")
			c.Routes = append([]dRoute{rt}, c.Routes...)
		}),
		e("route:deliver-to-outbound", func(c *dConfig) { c.route("/d2").Channel = "outbound" }),
		w("route:all-delivers-removed", func(c *dConfig) {
			for _, p := range []string{"/d1", "/d2", "/d3", "/d4"} {
				c.removeRoute(p)
			}
		}),
		w("route:two-delivers-removed", func(c *dConfig) { c.removeRoute("/d2"); c.removeRoute("/d3") }),
		// ---- targets
		e("target:added", func(c *dConfig) {
			rt := c.route("/d1")
			rt.Targets = append(rt.Targets, dTarget{URL: "http://" + hostHooks + "/t13"})
		}),
		e("target:removed", func(c *dConfig) { rt := c.route("/d2"); rt.Targets = rt.Targets[:3] }),
		e("target:removed-first", func(c *dConfig) { rt := c.route("/d2"); rt.Targets = rt.Targets[1:] }),
		e("target:url-changed", func(c *dConfig) { c.target("/d2", 0).URL = "http://exact.test/t3b" }),
		w("target:url-scheme-changed", func(c *dConfig) { c.target("/d1", 1).URL = "http://partner.test/t2" }),
		e("target:reordered", func(c *dConfig) {
			rt := c.route("/d2")
			rt.Targets[0], rt.Targets[1] = rt.Targets[1], rt.Targets[0]
		}),
		e("target:retry-max", tline("/d4", 0, "retry", `retry exponential max 3 base 2s cap 8s jitter 0`)),
		e("target:retry-base", tline("/d4", 0, "retry", `retry exponential max 2 base 4s cap 8s jitter 0`)),
		w("target:retry-cap", tline("/d4", 0, "retry", `retry exponential max 2 base 2s cap 2s jitter 0`)),
		w("target:retry-jitter", tline("/d4", 0, "retry", `retry exponential max 2 base 2s cap 8s jitter 0.5`)),
		w("target:retry-unwritten", tline("/d4", 0, "retry", ``)),
		e("target:timeout", tline("/d4", 1, "timeout", `timeout 1s`)),
		w("target:timeout-unwritten", tline("/d4", 1, "timeout", ``)),
		e("target:sign-on", tline("/d2", 0, "sign hmac", `sign hmac "raw:k2"`)),
		e("target:sign-off", tline("/d1", 0, "sign hmac", ``)),
		e("target:sign-secret", tline("/d1", 0, "sign hmac", `sign hmac "raw:k3"`)),
		e("target:sign-signature-header", tline("/d1", 0, "sign signature_header", `sign signature_header "X-Sig"`)),
		e("target:sign-timestamp-header", tline("/d1", 0, "sign timestamp_header", `sign timestamp_header "X-Ts"`)),
		e("route:deliver-concurrency-lowered", rline("/d4", "deliver_concurrency", `deliver_concurrency 1`)),
		e("route:deliver-concurrency-raised", rline("/d1", "deliver_concurrency", `deliver_concurrency 3`)),
		w("route:deliver-concurrency-unwritten", rline("/d4", "deliver_concurrency", ``)),
		e("defaults:deliver-retry", func(c *dConfig) {
			c.Deliver = replaceLine(c.Deliver, "retry", `retry exponential max 2 base 1s cap 2s jitter 0`)
		}),
		e("defaults:deliver-timeout", func(c *dConfig) { c.Deliver = replaceLine(c.Deliver, "timeout", `timeout 2s`) }),
		e("defaults:deliver-concurrency", func(c *dConfig) { c.Deliver = replaceLine(c.Deliver, "concurrency", `concurrency 2`) }),
		// ---- egress
		e("egress:https-only", egress("https_only", `https_only on`)),
		e("egress:redirects", egress("redirects", `redirects on`)),
		e("egress:dns-rebind", egress("dns_rebind_protection", `dns_rebind_protection on`)),
		w("egress:https-only-unwritten", egress("https_only", ``)),
		w("egress:dns-rebind-unwritten", egress("dns_rebind_protection", ``)),
		e("egress:allow-added", func(c *dConfig) { c.Egress = append(c.Egress, `allow "sub.exact.test"`) }),
		e("egress:allow-removed", egress(`allow "exact.test"`, ``)),
		e("egress:allow-reordered", func(c *dConfig) {
			c.Egress = replaceLine(c.Egress, `allow "*.partner.test"`, ``)
			c.Egress = append(c.Egress, `allow "*.partner.test"`)
		}),
		e("egress:allow-wildcard-to-apex", egress(`allow "*.partner.test"`, `allow "partner.test"`)),
		e("egress:allow-apex-to-wildcard", egress(`allow "exact.test"`, `allow "*.exact.test"`)),
		w("egress:allow-host-case", egress(`allow "exact.test"`, `allow "EXACT.test"`)),
		w("egress:allow-host-trailing-dot", egress(`allow "exact.test"`, `allow "exact.test."`)),
		e("egress:allow-cidr-respelled", egress(`allow "203.0.113.0/24"`, `allow "203.0.113.99/24"`)),
		e("egress:allow-cidr-narrowed", egress(`allow "203.0.113.0/24"`, `allow "203.0.113.0/30"`)),
		w("egress:allow-cidr-mapped", egress(`allow "203.0.113.0/24"`, `allow "::ffff:203.0.113.0/120"`)),
		e("egress:allow-ip-to-cidr", egress(`allow "198.51.100.9"`, `allow "198.51.100.9/32"`)),
		w("egress:allow-ip-mapped", egress(`allow "198.51.100.9"`, `allow "::ffff:198.51.100.9"`)),
		w("egress:allow-ip-changed", egress(`allow "198.51.100.9"`, `allow "198.51.100.8"`)),
		e("egress:allow-list-removed", func(c *dConfig) {
			var out []string
			for _, l := range c.Egress {
				if !strings.HasPrefix(l, "allow ") {
					out = append(out, l)
				}
			}
			c.Egress = out
		}),
		e("egress:deny-added", func(c *dConfig) { c.Egress = append(c.Egress, `deny "`+hostHooks+`"`) }),
		e("egress:deny-removed", egress(`deny "bad.partner.test"`, ``)),
		e("egress:deny-host-to-wildcard", egress(`deny "bad.partner.test"`, `deny "*.bad.partner.test"`)),
		w("egress:deny-wildcard-parent", egress(`deny "bad.partner.test"`, `deny "*.partner.test"`)),
		e("egress:deny-cidr-changed", egress(`deny "10.9.0.0/16"`, `deny "10.8.0.0/16"`)),
		w("egress:deny-cidr-widened", egress(`deny "10.9.0.0/16"`, `deny "10.8.0.0/15"`)),
		w("egress:deny-reordered", func(c *dConfig) {
			c.Egress = replaceLine(c.Egress, `deny "bad.partner.test"`, ``)
			c.Egress = append(c.Egress, `deny "bad.partner.test"`)
		}),
		w("egress:allow-and-deny-swapped-places", func(c *dConfig) {
			c.Egress = replaceLine(c.Egress, `allow "exact.test"`, ``)
			c.Egress = append(c.Egress, `allow "exact.test"`)
		}),
		// ---- other things built once at boot (the pull API server, the ingress size limits)
		e("boot:pull-max-batch", func(c *dConfig) { c.PullMid = `max_batch 1` }),
		e("boot:defaults-max-body", func(c *dConfig) { c.Def = []string{`max_body 16`} }),
		// ---- what a reload may apply
		e("reloadable:ingress-password", rline("/d1", "auth basic", `auth basic "u" "q"`)),
		e("reloadable:ingress-auth-removed", rline("/d1", "auth basic", ``)),
		e("reloadable:pull-route-auth", rline("/p1", "auth basic", `auth basic "u" "q"`)),
		e("reloadable:max-body", rline("/p1", "max_body", `max_body 8`)),
		w("reloadable:deliver-route-max-body", rline("/d2", "max_body", `max_body 8`)),
		w("reloadable:deliver-route-rate-limit", rline("/d2", "rate_limit", `rate_limit { rps 1 burst 1 }`)),
		e("reloadable:pull-route-added", func(c *dConfig) { c.Routes = append(c.Routes, dRoute{Path: "/p3", Pull: "/e3"}) }),
		e("reloadable:pull-route-removed", func(c *dConfig) { c.removeRoute("/p2") }),
		e("reloadable:pull-endpoint-renamed", func(c *dConfig) { c.route("/p2").Pull = "/e2x" }),
		e("reloadable:pull-token", func(c *dConfig) { c.route("/p1").PullTok = "y" }),
		w("reloadable:global-pull-token", func(c *dConfig) { c.PullMid = `auth token "raw:g2"` }),
		w("reloadable:pull-to-internal", func(c *dConfig) { rt := c.route("/p2"); rt.Channel = "internal" }),
	}
}

type dMember struct {
	name   string
	cfg    dConfig
	parent int // index of the member this one is one edit away from
}

func dFamily() []dMember {
	base := dBase()
	ms := []dMember{{name: "base", cfg: base}}
	for _, ed := range dEdits() {
		parent := 0
		if ed.on != "" {
			parent = -1
			for i := range ms {
				if ms[i].name == ed.on {
					parent = i
				}
			}
			if parent < 0 {
				panic("c18 dispatch part: edit " + ed.name + " names the unknown member " + ed.on)
			}
		}
		c := ms[parent].cfg.clone()
		ed.f(&c)
		ms = append(ms, dMember{name: ed.name, cfg: c, parent: parent})
	}
	return ms
}

// dUniverse: what the probes talk about - the union over the whole family.
type dUniverse struct {
	paths     []string    // route paths
	backlog   [][2]string // (route, target) of the messages in the store before the boot
	endpoints []string    // pull endpoint paths
	hmacPaths []string    // route paths that some member protects with inbound HMAC authentication
}

func dUniverseOf(ms []dMember) dUniverse {
	var u dUniverse
	seenP, seenB, seenE, seenH := map[string]bool{}, map[[2]string]bool{}, map[string]bool{}, map[string]bool{}
	for _, m := range ms {
		for _, rt := range m.cfg.Routes {
			if !seenP[rt.Path] {
				seenP[rt.Path] = true
				u.paths = append(u.paths, rt.Path)
			}
			for _, l := range rt.Lines {
				if strings.HasPrefix(l, "auth hmac") && !seenH[rt.Path] {
					seenH[rt.Path] = true
					u.hmacPaths = append(u.hmacPaths, rt.Path)
				}
			}
			if rt.Pull != "" {
				if k := [2]string{rt.Path, "pull"}; !seenB[k] {
					seenB[k] = true
					u.backlog = append(u.backlog, k)
				}
				if !seenE[rt.Pull] {
					seenE[rt.Pull] = true
					u.endpoints = append(u.endpoints, rt.Pull)
				}
			}
			for _, tg := range rt.Targets {
				if k := [2]string{rt.Path, tg.URL}; !seenB[k] {
					seenB[k] = true
					u.backlog = append(u.backlog, k)
				}
			}
		}
	}
	sort.Strings(u.paths)
	sort.Strings(u.endpoints)
	sort.Strings(u.hmacPaths)
	sort.Slice(u.backlog, func(i, j int) bool {
		if u.backlog[i][0] != u.backlog[j][0] {
			return u.backlog[i][0] < u.backlog[j][0]
		}
		return u.backlog[i][1] < u.backlog[j][1]
	})
	return u
}

// ---- instrumentation around the real code ---------------------------------------------------------------------------

// dStore counts the Dequeue calls in flight per route: at an instant at which every goroutine of the bubble is blocked,
// that is the number of dispatcher workers serving the route.
type dStore struct {
	queue.Store
	mu       sync.Mutex
	inflight map[string]int
}

func (s *dStore) Dequeue(req queue.DequeueRequest) (queue.DequeueResponse, error) {
	s.mu.Lock()
	s.inflight[req.Route]++
	s.mu.Unlock()
	defer func() {
		s.mu.Lock()
		s.inflight[req.Route]--
		s.mu.Unlock()
	}()
	return s.Store.Dequeue(req)
}

func (s *dStore) waiting(route string) int {
	s.mu.Lock()
	defer s.mu.Unlock()
	return s.inflight[route]
}

type dTransport struct {
	mu    sync.Mutex
	t0    time.Time
	lines []string
}

func isHex64(s string) bool {
	if len(s) != 64 {
		return false
	}
	for _, c := range s {
		if !(c >= '0' && c <= '9' || c >= 'a' && c <= 'f') {
			return false
		}
	}
	return true
}

// signatureOf: the documented outbound signature (docs/delivery.md): hex(HMAC-SHA256(secret, METHOD \n path \n unix
// timestamp \n sha256hex(body))) in one header, the timestamp in another. Reports which header pair carries a signature
// that verifies under which of the family's secrets, and the age of the timestamp.
func signatureOf(req *http.Request, body []byte, now time.Time) string {
	var out []string
	names := make([]string, 0, len(req.Header))
	for k := range req.Header {
		names = append(names, k)
	}
	sort.Strings(names)
	sum := sha256.Sum256(body)
	p := req.URL.EscapedPath()
	if p == "" {
		p = "/"
	}
	for _, sh := range names {
		sig := req.Header.Get(sh)
		if !isHex64(sig) {
			continue
		}
		verdict := "verifies-under-no-known-secret"
		for _, th := range names {
			ts := req.Header.Get(th)
			n, err := strconv.ParseInt(ts, 10, 64)
			if err != nil {
				continue
			}
			for _, sec := range strings.Fields(dSecretSet) {
				mac := hmac.New(sha256.New, []byte(sec))
				mac.Write([]byte(strings.ToUpper(req.Method) + "\n" + p + "\n" + ts + "\n" + hex.EncodeToString(sum[:])))
				if hex.EncodeToString(mac.Sum(nil)) == sig {
					verdict = fmt.Sprintf("secret=%s timestamp-header=%s age=%ds", sec, th, now.Unix()-n)
				}
			}
		}
		out = append(out, fmt.Sprintf("signature-header=%s %s", sh, verdict))
	}
	if len(out) == 0 {
		return "unsigned"
	}
	return strings.Join(out, "; ")
}

func (tr *dTransport) RoundTrip(req *http.Request) (*http.Response, error) {
	var body []byte
	if req.Body != nil {
		body, _ = io.ReadAll(req.Body)
		req.Body.Close()
	}
	now := time.Now()
	var names []string
	for k := range req.Header {
		switch k {
		case "User-Agent", "Accept-Encoding", "Content-Length":
		default:
			names = append(names, k)
		}
	}
	sort.Strings(names)
	tr.mu.Lock()
	tr.lines = append(tr.lines, fmt.Sprintf("sent %s %s body=%q at=+%dms headers=%v %s", req.Method, req.URL.String(), body, now.Sub(tr.t0).Milliseconds(), names, signatureOf(req, body, now)))
	tr.mu.Unlock()
	answer := func(code int, h http.Header) (*http.Response, error) {
		if h == nil {
			h = http.Header{}
		}
		return &http.Response{StatusCode: code, Status: fmt.Sprintf("%d x", code), Proto: "HTTP/1.1", ProtoMajor: 1, ProtoMinor: 1, Header: h, Body: http.NoBody, Request: req}, nil
	}
	host := strings.ToLower(req.URL.Hostname())
	switch {
	case strings.HasPrefix(host, "fail."):
		return answer(500, nil)
	case strings.HasPrefix(host, "gone."):
		return answer(410, nil)
	case strings.HasPrefix(host, "slow."):
		tm := time.NewTimer(3 * time.Second)
		defer tm.Stop()
		select {
		case <-tm.C:
			return answer(200, nil)
		case <-req.Context().Done():
			return nil, req.Context().Err()
		}
	case strings.HasPrefix(host, "redir.") && req.URL.Path != "/landing":
		return answer(302, http.Header{"Location": []string{"http://" + hostHooks + "/landing"}})
	}
	return answer(200, nil)
}

// ---- one run --------------------------------------------------------------------------------------------------------

const dHorizon = 90 * time.Second

type dResult struct {
	obs     []string
	applied bool
	infra   string
}

// dRun: boot a; when b is given, rewrite the file and reload; probes. The dispatcher is the one built at boot.
func dRun(t *testing.T, u dUniverse, a dMember, b *dMember, port int, dir string) dResult {
	var res dResult
	synctest.Test(t, func(t *testing.T) {
		os.RemoveAll(dir)
		st := &dStore{Store: queue.NewMemoryStore(), inflight: map[string]int{}}
		for _, k := range u.backlog {
			id := "backlog|" + k[0] + "|" + k[1]
			if err := st.Enqueue(queue.Envelope{ID: id, Route: k[0], Target: k[1], Payload: []byte(id), Headers: map[string]string{"Content-Type": "text/plain"}}); err != nil {
				res.infra = "enqueue backlog: " + err.Error()
				return
			}
		}
		ap, err := app.VerifBoot(app.VerifBootOptions{Dir: dir, ConfigText: a.cfg.text(port), Store: st})
		if err != nil {
			res.infra = fmt.Sprintf("boot %s: %v", a.name, err)
			return
		}
		defer ap.Shutdown()
		tr := &dTransport{}
		d := ap.VerifDispatcher(&http.Client{Transport: tr}) // as run() does right after startServers
		hd, ok := d.Deliverer.(*dispatcher.HTTPDeliverer)
		if !ok {
			res.infra = "the dispatcher's deliverer is not the HTTP deliverer"
			return
		}
		hd.Resolver = dResolver{}
		if b != nil {
			if err := os.WriteFile(ap.ConfigPath, []byte(b.cfg.text(port)), 0o644); err != nil {
				res.infra = err.Error()
				return
			}
			res.applied = ap.Reload("verif")
		}
		obs := []string{}
		// ingress: every route path of the family, plus credential / size variants
		type in struct{ path, auth, body string }
		var ins []in
		for _, p := range u.paths {
			ins = append(ins, in{p, "u:p", "in|" + p})
		}
		ins = append(ins, in{"/d1", "", "in|/d1|no-credentials"}, in{"/d1", "u:q", "in|/d1|other-password"},
			in{"/p1", "", "in|/p1|no-credentials"}, in{"/p1", "u:q", "in|/p1|other-password"},
			in{"/p1", "u:p", "in|/p1|" + strings.Repeat("x", 30)}, in{"/p1", "u:p", "in|/p1|" + strings.Repeat("y", 80)},
			in{"/d2", "u:p", "in|/d2|" + strings.Repeat("x", 30)}, in{"/d2", "u:p", "in|/d2|second"}, in{"/d2", "u:p", "in|/d2|third"},
			in{"/nowhere", "u:p", "in|/nowhere"})
		for _, q := range ins {
			rq := httptest.NewRequest("POST", q.path, strings.NewReader(q.body))
			rq.Host = "h"
			rq.RemoteAddr = "10.1.2.3:5555"
			rq.Header.Set("Content-Type", "text/plain")
			if q.auth != "" {
				rq.Header.Set("Authorization", "Basic "+base64.StdEncoding.EncodeToString([]byte(q.auth)))
			}
			w := httptest.NewRecorder()
			ap.Ingress.ServeHTTP(w, rq)
			obs = append(obs, fmt.Sprintf("ingress POST %s [%s] %q -> %d", q.path, q.auth, q.body, w.Code))
		}
		// inbound HMAC (docs/security.md: hex(HMAC-SHA256(secret, timestamp \n METHOD \n path \n sha256hex(body))), default
		// header names, a fresh nonce per request): every path of the family that some member protects that way, signed
		// under every secret of the family, with a body below and a body above the smallest max_body of the family
		for _, p := range u.hmacPaths {
			for _, sec := range strings.Fields(dSecretSet) {
				for _, body := range []string{"s|" + sec, "signed|" + p + "|" + sec} {
					rq := httptest.NewRequest("POST", p, strings.NewReader(body))
					rq.Host = "h"
					rq.RemoteAddr = "10.1.2.3:5555"
					rq.Header.Set("Content-Type", "text/plain")
					ts := strconv.FormatInt(time.Now().Unix(), 10)
					sum := sha256.Sum256([]byte(body))
					mac := hmac.New(sha256.New, []byte(sec))
					mac.Write([]byte(ts + "\nPOST\n" + p + "\n" + hex.EncodeToString(sum[:])))
					rq.Header.Set("X-Timestamp", ts)
					rq.Header.Set("X-Nonce", "n|"+body)
					rq.Header.Set("X-Signature", hex.EncodeToString(mac.Sum(nil)))
					w := httptest.NewRecorder()
					ap.Ingress.ServeHTTP(w, rq)
					obs = append(obs, fmt.Sprintf("ingress POST %s [signed under %s] %q -> %d", p, sec, body, w.Code))
				}
			}
		}
		// the dispatcher built at boot runs for the horizon
		tr.t0 = time.Now()
		d.Start()
		time.Sleep(dHorizon)
		synctest.Wait()
		for _, p := range u.paths {
			obs = append(obs, fmt.Sprintf("dispatcher workers waiting on %s: %d", p, st.waiting(p)))
		}
		if !d.Drain(10 * time.Minute) {
			res.infra = "the dispatcher did not drain"
			return
		}
		time.Sleep(10 * time.Second)
		tr.mu.Lock()
		sent := append([]string{}, tr.lines...)
		tr.mu.Unlock()
		sort.Strings(sent)
		obs = append(obs, sent...)
		// pull: every endpoint of the family with every token of the family
		for _, ep := range u.endpoints {
			for _, tok := range []string{"", "g1", "g2", "x", "y"} {
				rq := httptest.NewRequest("POST", ep+"/dequeue", strings.NewReader(`{"batch":100,"lease_ttl":"1s"}`))
				rq.Host = "h"
				rq.RemoteAddr = "10.1.2.3:5555"
				rq.Header.Set("Content-Type", "application/json")
				if tok != "" {
					rq.Header.Set("Authorization", "Bearer "+tok)
				}
				w := httptest.NewRecorder()
				if ap.Pull == nil {
					obs = append(obs, fmt.Sprintf("pull %s [%s] -> no listener", ep, tok))
					continue
				}
				ap.Pull.ServeHTTP(w, rq)
				var resp struct {
					Items []struct {
						Route      string `json:"route"`
						PayloadB64 string `json:"payload_b64"`
					} `json:"items"`
				}
				var got []string
				if json.Unmarshal(w.Body.Bytes(), &resp) == nil {
					for _, it := range resp.Items {
						pl, _ := base64.StdEncoding.DecodeString(it.PayloadB64)
						got = append(got, fmt.Sprintf("%s@%s", pl, it.Route))
					}
				}
				sort.Strings(got)
				obs = append(obs, fmt.Sprintf("pull %s [%s] -> %d %q", ep, tok, w.Code, got))
			}
		}
		l, err := st.ListMessages(queue.MessageListRequest{Order: "asc", Limit: 1000, IncludePayload: true})
		if err != nil {
			res.infra = "list messages: " + err.Error()
			return
		}
		var left []string
		for _, e := range l.Items {
			left = append(left, fmt.Sprintf("store %q route=%s target=%s state=%s dead_reason=%q", e.Payload, e.Route, e.Target, e.State, e.DeadReason))
		}
		sort.Strings(left)
		obs = append(obs, left...)
		res.obs = obs
	})
	return res
}

// dRaceRun: the free-running side pass (-race). Unlike dRun the dispatcher is STARTED before the reload, as in
// production, and ingress requests arrive while the reload runs; nothing is judged here but what the race detector sees.
func dRaceRun(t *testing.T, u dUniverse, a, b dMember, port int, dir string) {
	synctest.Test(t, func(t *testing.T) {
		os.RemoveAll(dir)
		st := &dStore{Store: queue.NewMemoryStore(), inflight: map[string]int{}}
		for _, k := range u.backlog {
			id := "backlog|" + k[0] + "|" + k[1]
			st.Enqueue(queue.Envelope{ID: id, Route: k[0], Target: k[1], Payload: []byte(id)})
		}
		ap, err := app.VerifBoot(app.VerifBootOptions{Dir: dir, ConfigText: a.cfg.text(port), Store: st})
		if err != nil {
			t.Fatalf("boot %s: %v", a.name, err)
		}
		defer ap.Shutdown()
		d := ap.VerifDispatcher(&http.Client{Transport: &dTransport{t0: time.Now()}})
		if hd, ok := d.Deliverer.(*dispatcher.HTTPDeliverer); ok {
			hd.Resolver = dResolver{}
		}
		d.Start()
		os.WriteFile(ap.ConfigPath, []byte(b.cfg.text(port)), 0o644)
		var wg sync.WaitGroup
		wg.Add(2)
		go func() { defer wg.Done(); ap.Reload("race") }()
		go func() {
			defer wg.Done()
			for _, p := range u.paths {
				rq := httptest.NewRequest("POST", p, strings.NewReader("in|"+p))
				rq.RemoteAddr = "10.1.2.3:5555"
				rq.Header.Set("Authorization", "Basic "+base64.StdEncoding.EncodeToString([]byte("u:p")))
				ap.Ingress.ServeHTTP(httptest.NewRecorder(), rq)
			}
		}()
		wg.Wait()
		time.Sleep(20 * time.Second)
		d.Drain(10 * time.Minute)
	})
}

func dDiff(got, want []string) string {
	inGot, inWant := map[string]int{}, map[string]int{}
	for _, l := range got {
		inGot[l]++
	}
	for _, l := range want {
		inWant[l]++
	}
	var b strings.Builder
	n := 0
	for _, l := range got {
		if inWant[l] > 0 {
			inWant[l]--
			continue
		}
		if n < 6 {
			b.WriteString("\n    observed only:  " + l)
		}
		n++
	}
	for _, l := range want {
		if inGot[l] > 0 {
			inGot[l]--
			continue
		}
		if n < 12 {
			b.WriteString("\n    reference only: " + l)
		}
		n++
	}
	fmt.Fprintf(&b, "\n    (%d differing lines of %d)", n, len(want))
	return b.String()
}

func equalLines(a, b []string) bool {
	if len(a) != len(b) {
		return false
	}
	for i := range a {
		if a[i] != b[i] {
			return false
		}
	}
	return true
}

type dPair struct{ a, b int }

func dispatchDiffPart(r *runner.Run, t *testing.T) {
	tStart := time.Now()
	deadline := time.Now().Add(runner.Pick(r, 45*time.Second, 8*time.Minute))
	vrand.SetFloat64(func() float64 { return 0.75 }) // the jitter draw is a constant: delay * (1 + jitter/2)
	defer vrand.SetFloat64(nil)
	fam := dFamily()
	u := dUniverseOf(fam)
	var pairs []dPair
	if r.Thorough() {
		for i := range fam {
			for j := range fam {
				if i != j {
					pairs = append(pairs, dPair{i, j})
				}
			}
		}
	} else {
		// every edit applied to the member it is one edit away from, and taken back again
		for i := 1; i < len(fam); i++ {
			pairs = append(pairs, dPair{fam[i].parent, i}, dPair{i, fam[i].parent})
		}
	}
	only := ""
	if rp := runner.ReplayPath(); rp != "" {
		var doc struct {
			Replay struct {
				Part, A, B string
			}
		}
		b, _ := os.ReadFile(rp)
		if json.Unmarshal(b, &doc) != nil || doc.Replay.Part != "dispatch-diff" {
			return
		}
		pairs = nil
		for i := range fam {
			for j := range fam {
				if fam[i].name == doc.Replay.A && fam[j].name == doc.Replay.B {
					pairs = append(pairs, dPair{i, j})
				}
			}
		}
		only = doc.Replay.A + " -> " + doc.Replay.B
	}
	scratch := runner.Scratch()
	workers := 8
	// references: one fresh boot per member
	refs := make([]dResult, len(fam))
	need := make([]bool, len(fam))
	for _, p := range pairs {
		need[p.a], need[p.b] = true, true
	}
	var wg sync.WaitGroup
	jobs := make(chan int, len(fam))
	for i := range fam {
		if need[i] {
			jobs <- i
		}
	}
	close(jobs)
	for w := 0; w < workers; w++ {
		wg.Add(1)
		go func(w int) {
			defer wg.Done()
			for i := range jobs {
				refs[i] = dRun(t, u, fam[i], nil, 31000+10*w, filepath.Join(scratch, fmt.Sprintf("c18d-w%d", w)))
			}
		}(w)
	}
	wg.Wait()
	for i := range fam {
		if need[i] && refs[i].infra != "" {
			r.Infra("dispatch part, reference boot of %s: %s", fam[i].name, refs[i].infra)
			return
		}
	}
	distinctRefs := map[string]bool{}
	for i := range fam {
		if need[i] {
			distinctRefs[strings.Join(refs[i].obs, "\n")] = true
		}
	}
	if os.Getenv("VERIF_C18_DEBUG") != "" {
		fmt.Println(strings.Join(refs[0].obs, "\n"))
		for i := range fam {
			if need[i] && i > 0 && equalLines(refs[i].obs, refs[0].obs) {
				fmt.Println("SAME-AS-BASE", fam[i].name)
			}
		}
	}
	pj := make(chan dPair, len(pairs))
	for _, p := range pairs {
		pj <- p
	}
	close(pj)
	var mu sync.Mutex
	ran, skipped, applied, refused, telling := 0, 0, 0, 0, 0
	for w := 0; w < workers; w++ {
		wg.Add(1)
		go func(w int) {
			defer wg.Done()
			dir := filepath.Join(scratch, fmt.Sprintf("c18d-w%d", w))
			for p := range pj {
				if time.Now().After(deadline) && only == "" {
					mu.Lock()
					skipped++
					mu.Unlock()
					continue
				}
				a, b := fam[p.a], fam[p.b]
				run := func() (dResult, []string, string) {
					res := dRun(t, u, a, &b, 31000+10*w, dir)
					if res.applied {
						return res, refs[p.b].obs, "a process started on the new file (" + b.name + ")"
					}
					return res, refs[p.a].obs, "the process as it ran before the reload (" + a.name + ")"
				}
				res, want, what := run()
				if res.infra != "" {
					r.Infra("dispatch part, %s -> %s: %s", a.name, b.name, res.infra)
					continue
				}
				mu.Lock()
				ran++
				if res.applied {
					applied++
				} else {
					refused++
				}
				if !equalLines(refs[p.a].obs, refs[p.b].obs) {
					telling++
				}
				mu.Unlock()
				r.Add("states", 1)
				r.Add("transitions", int64(len(res.obs)))
				r.Add("traces_validated_against_impl", 1)
				r.Distinct(fmt.Sprintf("dispatch-diff:%s->%s:applied=%v", a.name, b.name, res.applied))
				if equalLines(res.obs, want) {
					continue
				}
				verdict := "refused"
				if res.applied {
					verdict = "reported-applied"
				}
				r.Violation(fmt.Sprintf("reload-vs-dispatcher:%s:%s->%s", verdict, a.name, b.name),
					fmt.Sprintf("[dispatch part] running %q, file rewritten to %q, reload %s: ingress, pull API and the dispatcher built at boot together do not behave like %s:%s",
						a.name, b.name, verdict, what, dDiff(res.obs, want)),
					map[string]any{"part": "dispatch-diff", "a": a.name, "b": b.name, "old": a.cfg.text(31000), "new": b.cfg.text(31000)},
					func() bool {
						res, want, _ := run()
						return res.infra == "" && !equalLines(res.obs, want)
					})
			}
		}(w)
	}
	wg.Wait()
	if only != "" {
		if r.Violations() == 0 {
			fmt.Printf("REPLAY property=%s dispatch-diff %s: the pair no longer violates the property\n", r.Prop, only)
		}
		return
	}
	r.Set("dispatch_diff", map[string]any{"family": len(fam), "pairs": ran, "pairs_not_run": skipped, "reload_reported_applied": applied, "reload_refused": refused,
		"pairs_whose_two_references_differ": telling, "distinct_reference_behaviours": len(distinctRefs), "probe_lines_per_run": len(refs[0].obs),
		"backlog_messages": len(u.backlog), "route_paths": len(u.paths), "inbound_hmac_paths": len(u.hmacPaths), "signed_ingress_probes_per_run": len(u.hmacPaths) * len(strings.Fields(dSecretSet)) * 2, "pull_endpoints": len(u.endpoints), "wall_s": time.Since(tStart).Seconds()})
	r.Add("dispatch_reload_applied", int64(applied))
	r.Add("dispatch_reload_refused", int64(refused))
	if skipped > 0 {
		r.NotExhaustive(fmt.Sprintf("dispatch part: time budget reached, %d of %d configuration pairs not run", skipped, len(pairs)))
	}
	r.Sample(map[string]any{"part": "dispatch-diff", "pair": fam[pairs[0].a].name + " -> " + fam[pairs[0].b].name, "reference_lines": refs[0].obs[:min(8, len(refs[0].obs))]})
}
