package c18

import (
	"bytes"
	"context"
	"encoding/json"
	"fmt"
	"net"
	"net/http"
	"os"
	"path/filepath"
	"strings"
	"sync"
	"syscall"
	"time"

	"github.com/nuetzliches/hookaido/internal/mcp"
	"github.com/nuetzliches/hookaido/internal/verifkit/runner"
)

// (e) MCP rewrites against every way the reload verification can end.
//
// "Config-file rewrites made by ... MCP ... put the previous content back when validation or reload fails." In mode
// write_and_reload the tool writes the file and then asks the running instance's admin health endpoint whether the
// reload went through. This part enumerates the product
//
//   tool      config_apply | management_endpoint_upsert | management_endpoint_delete
//   mode      preview_only | write_only | write_and_reload
//   previous  the file holds a compiling configuration | holds bytes that do not parse | does not exist
//   candidate compiles and differs | equals the previous content | does not compile       (config_apply only)
//   admin     the answer of the environment to the verification: a listener that answers 200 (with / without a token),
//             503, 401 (demands another token), 404, or never answers; nothing listening; and every way the admin token reference of the
//             configuration can be unloadable for the MCP process (env variable unset / empty, file missing / empty,
//             a second reference unloadable) with nothing / something listening
//
// on a real loopback listener (the tool builds its own transport) and compares, after the tool answered:
//
//   O1  the configured path holds the previous state (bytes, or absence) or exactly the candidate bytes
//   O2  an answer that does not say "applied" leaves the previous state                (failure => previous content back)
//   O3  an answer that says "applied" leaves exactly the candidate bytes
//   O4  when no listener of the environment can answer 200 (or the candidate does not compile) a write_and_reload
//       is not answered "applied" and leaves the previous state
//
// The timeouts only decide when the tool gives up; an environment that can answer 200 is allowed both outcomes (applied
// and new, or given up and old), so nothing depends on speed.

type mrAdmin struct {
	name      string
	tokens    func(dir string) string // the auth token directives of admin_api
	prepare   func(dir string)        // files / environment the references need
	listener  string                  // "" = nothing listens | "silent" | "200" | "200-token" (wants Bearer t) | "503" | "401" | "404"
	canBeOK   bool                    // some listener of the environment answers 200 to a request the tool can make
	unsetsEnv bool
}

const mrUnsetEnv = "VERIF_C18_MCP_ADMIN_TOKEN_UNSET"
const mrEmptyEnv = "VERIF_C18_MCP_ADMIN_TOKEN_EMPTY"

func mrAdmins() []mrAdmin {
	none := func(string) string { return "" }
	lit := func(s string) func(string) string { return func(string) string { return s } }
	nop := func(string) {}
	return []mrAdmin{
		{name: "healthy-no-token", tokens: none, prepare: nop, listener: "200", canBeOK: true},
		{name: "healthy-token", tokens: lit(`auth token "raw:t"`), prepare: nop, listener: "200-token", canBeOK: true},
		{name: "status-503", tokens: none, prepare: nop, listener: "503"},
		{name: "status-401", tokens: lit(`auth token "raw:other"`), prepare: nop, listener: "200-token"},
		{name: "status-404", tokens: none, prepare: nop, listener: "404"},
		{name: "nothing-listens", tokens: none, prepare: nop},
		{name: "listener-silent", tokens: none, prepare: nop, listener: "silent"},
		{name: "token-env-unset", tokens: lit(`auth token "env:` + mrUnsetEnv + `"`), prepare: nop},
		{name: "token-env-empty", tokens: lit(`auth token "env:` + mrEmptyEnv + `"`), prepare: nop},
		{name: "token-file-missing", tokens: func(d string) string { return `auth token "file:` + filepath.Join(d, "no-such-token") + `"` }, prepare: nop},
		{name: "token-file-empty", tokens: func(d string) string { return `auth token "file:` + filepath.Join(d, "empty-token") + `"` },
			prepare: func(d string) { os.WriteFile(filepath.Join(d, "empty-token"), nil, 0o600) }},
		{name: "second-token-unloadable", tokens: lit(`auth token "raw:t"` + "\n  " + `auth token "env:` + mrUnsetEnv + `"`), prepare: nop},
		// the same with a listener that would answer 200: whether the tool gives up or verifies with what it could load is
		// its choice - answer and file must agree
		{name: "token-env-unset+listener", tokens: lit(`auth token "env:` + mrUnsetEnv + `"`), prepare: nop, listener: "200", canBeOK: true},
		{name: "second-token-unloadable+listener", tokens: lit(`auth token "raw:t"` + "\n  " + `auth token "env:` + mrUnsetEnv + `"`), prepare: nop, listener: "200-token", canBeOK: true},
	}
}

func mrConfig(port int, tokens, routes string) string {
	return fmt.Sprintf("pull_api {\n  auth token \"raw:g1\"\n}\nadmin_api {\n  listen \"127.0.0.1:%d\"\n  %s\n}\n%s", port, tokens, routes)
}

const (
	mrRoutesOld = "/m {\n  application app1\n  endpoint_name ep1\n  pull {\n    path /em\n  }\n}\n/n {\n  pull {\n    path /en\n  }\n}\n"
	mrRoutesNew = mrRoutesOld + "/extra {\n  pull {\n    path /ex\n  }\n}\n"
	mrRoutesBad = mrRoutesOld + "/broken {\n  queue {\n    backend nosuch\n  }\n  pull {\n    path /eb\n  }\n}\n"
)

type mrCase struct {
	tool, mode, previous, candidate string
	admin                           mrAdmin
}

func (c mrCase) class() string {
	return fmt.Sprintf("%s:%s:prev=%s:cand=%s:%s", c.tool, c.mode, c.previous, c.candidate, c.admin.name)
}

func mrCases() []mrCase {
	var cs []mrCase
	for _, ad := range mrAdmins() {
		for _, mode := range []string{"preview_only", "write_only", "write_and_reload"} {
			for _, prev := range []string{"compiles", "garbage", "absent"} {
				for _, cand := range []string{"differs", "same", "does-not-compile"} {
					if cand == "same" && prev != "compiles" {
						continue
					}
					cs = append(cs, mrCase{"config_apply", mode, prev, cand, ad})
				}
			}
			cs = append(cs, mrCase{"management_endpoint_upsert", mode, "compiles", "derived", ad}, mrCase{"management_endpoint_delete", mode, "compiles", "derived", ad})
		}
	}
	return cs
}

type mrAnswer struct {
	transportErr string
	isError      bool
	applied      bool // the tool's own statement that the file now holds the candidate
	mutates      bool
	raw          string
}

func mrCall(cfgPath, dbPath, tool string, args map[string]any) mrAnswer {
	var in, out, audit bytes.Buffer
	writeFrame(&in, map[string]any{"jsonrpc": "2.0", "id": 1, "method": "initialize", "params": map[string]any{"protocolVersion": "2024-11-05", "capabilities": map[string]any{}, "clientInfo": map[string]any{"name": "verif", "version": "0"}}})
	writeFrame(&in, map[string]any{"jsonrpc": "2.0", "method": "notifications/initialized"})
	writeFrame(&in, map[string]any{"jsonrpc": "2.0", "id": 2, "method": "tools/call", "params": map[string]any{"name": tool, "arguments": args}})
	srv := mcp.NewServer(&in, &out, cfgPath, dbPath, mcp.WithPrincipal("ops"), mcp.WithAuditWriter(&audit), mcp.WithMutationsEnabled(true), mcp.WithRole(mcp.Role("admin")))
	srv.Serve(context.Background())
	// frames: Content-Length: n\r\n\r\n<json>
	rest := out.String()
	ans := mrAnswer{transportErr: "no answer to the tool call"}
	for {
		i := strings.Index(rest, "\r\n\r\n")
		if i < 0 {
			break
		}
		var n int
		for _, l := range strings.Split(rest[:i], "\r\n") {
			fmt.Sscanf(strings.ToLower(l), "content-length: %d", &n)
		}
		body := rest[i+4:]
		if n > len(body) {
			n = len(body)
		}
		var msg struct {
			ID     any `json:"id"`
			Error  any `json:"error"`
			Result struct {
				IsError           bool           `json:"isError"`
				StructuredContent map[string]any `json:"structuredContent"`
			} `json:"result"`
		}
		if json.Unmarshal([]byte(body[:n]), &msg) == nil && fmt.Sprint(msg.ID) == "2" {
			ans = mrAnswer{isError: msg.Result.IsError || msg.Error != nil, raw: body[:n], mutates: true}
			sc := msg.Result.StructuredContent
			if m, ok := sc["mutates_config"].(bool); ok {
				ans.mutates = m
			}
			if inner, ok := sc["config_apply"].(map[string]any); ok {
				sc = inner
			}
			if a, ok := sc["applied"].(bool); ok {
				ans.applied = a && !ans.isError
			}
		}
		rest = body[n:]
	}
	return ans
}

// mrListen: the admin endpoint of the environment. Every connection is closed after one answer.
func mrListen(kind string) (port int, stop func(), err error) {
	if kind == "" {
		// nothing listens: the port stays bound (no other process of the machine can take it) but is never listened on,
		// so every connection attempt is refused
		fd, err := syscall.Socket(syscall.AF_INET, syscall.SOCK_STREAM, 0)
		if err != nil {
			return 0, nil, err
		}
		if err := syscall.Bind(fd, &syscall.SockaddrInet4{Addr: [4]byte{127, 0, 0, 1}}); err != nil {
			syscall.Close(fd)
			return 0, nil, err
		}
		sa, err := syscall.Getsockname(fd)
		if err != nil {
			syscall.Close(fd)
			return 0, nil, err
		}
		return sa.(*syscall.SockaddrInet4).Port, func() { syscall.Close(fd) }, nil
	}
	ln, err := net.Listen("tcp", "127.0.0.1:0")
	if err != nil {
		return 0, nil, err
	}
	port = ln.Addr().(*net.TCPAddr).Port
	gone := make(chan struct{})
	srv := &http.Server{Handler: http.HandlerFunc(func(w http.ResponseWriter, r *http.Request) {
		w.Header().Set("Connection", "close")
		code := 200
		switch kind {
		case "silent": // accepts and never answers
			select {
			case <-r.Context().Done():
			case <-gone:
			}
			return
		case "503":
			code = 503
		case "404":
			code = 404
		case "200-token":
			if r.Header.Get("Authorization") != "Bearer t" {
				code = 401
			}
		}
		w.WriteHeader(code)
		w.Write([]byte(`{"ok":true}`))
	})}
	srv.SetKeepAlivesEnabled(false)
	go srv.Serve(ln)
	return port, func() { close(gone); srv.Close() }, nil
}

type mrState struct {
	exists bool
	data   []byte
}

func mrRead(p string) mrState {
	b, err := os.ReadFile(p)
	if err != nil {
		return mrState{}
	}
	return mrState{true, b}
}

func (s mrState) eq(o mrState) bool { return s.exists == o.exists && bytes.Equal(s.data, o.data) }

func (s mrState) String() string {
	if !s.exists {
		return "no file"
	}
	return fmt.Sprintf("%d bytes %q", len(s.data), tailBytes(s.data, 120))
}

// mrRun runs one case in dir and returns the violation class ("" = none), a message, and what happened.
func mrRun(c mrCase, dir string) (verdict, msg, outcome string, infra error) {
	os.RemoveAll(dir)
	if err := os.MkdirAll(dir, 0o755); err != nil {
		return "", "", "", err
	}
	port, stop, err := mrListen(c.admin.listener)
	if err != nil {
		return "", "", "", err
	}
	defer stop()
	c.admin.prepare(dir)
	cfgPath := filepath.Join(dir, "Hookaidofile")
	tokens := c.admin.tokens(dir)
	var prev mrState
	switch c.previous {
	case "compiles":
		prev = mrState{true, []byte(mrConfig(port, tokens, mrRoutesOld))}
	case "garbage":
		prev = mrState{true, []byte("/broken {{{ not a configuration\n")}
	}
	if prev.exists {
		if err := os.WriteFile(cfgPath, prev.data, 0o644); err != nil {
			return "", "", "", err
		}
	}
	timeout := "150ms"
	if c.admin.canBeOK {
		timeout = "10s"
	}
	args := map[string]any{"mode": c.mode}
	if c.mode == "write_and_reload" {
		args["reload_timeout"] = timeout
	}
	var cand []byte // the candidate bytes, when the harness knows them
	candCompiles := true
	switch c.tool {
	case "config_apply":
		switch c.candidate {
		case "differs":
			cand = []byte(mrConfig(port, tokens, mrRoutesNew))
		case "same":
			cand = prev.data
		case "does-not-compile":
			cand = []byte(mrConfig(port, tokens, mrRoutesBad))
			candCompiles = false
		}
		args["content"] = string(cand)
	case "management_endpoint_upsert":
		args["application"], args["endpoint_name"], args["route"], args["reason"] = "app2", "ep2", "/n", "verif"
	case "management_endpoint_delete":
		args["application"], args["endpoint_name"], args["reason"] = "app1", "ep1", "verif"
	}
	ans := mrCall(cfgPath, filepath.Join(dir, "q.db"), c.tool, args)
	if ans.transportErr != "" {
		return "", "", "", fmt.Errorf("%s: %s", c.class(), ans.transportErr)
	}
	after := mrRead(cfgPath)
	isPrev := after.eq(prev)
	isCand := false
	if cand != nil {
		isCand = after.exists && bytes.Equal(after.data, cand)
	} else {
		// the tool derives the candidate: it is whatever compiles and is not the previous content
		isCand = after.exists && !isPrev && compiles(after.data)
	}
	outcome = fmt.Sprintf("answered-applied=%v error=%v file=%s", ans.applied, ans.isError, map[bool]string{true: "previous", false: map[bool]string{true: "candidate", false: "other"}[isCand]}[isPrev])
	where := fmt.Sprintf("[mcp rewrite part] %s mode=%s, previous file: %s, candidate: %s, admin environment %q (listener %q, tokens %q): answered applied=%v isError=%v; the file held %s and holds %s now",
		c.tool, c.mode, c.previous, c.candidate, c.admin.name, c.admin.listener, tokens, ans.applied, ans.isError, prev, after)
	switch {
	case !isPrev && !isCand:
		return "neither-previous-nor-candidate", where + ": neither the previous state nor the complete candidate", outcome, nil
	case !ans.applied && !isPrev:
		return "not-restored", where + ": the rewrite was not reported as applied, yet the previous content was not put back", outcome, nil
	case ans.applied && !isCand:
		return "applied-but-file-not-new", where + ": reported as applied, but the file does not hold the candidate", outcome, nil
	case ans.applied && c.mode == "preview_only":
		return "preview-applied", where + ": a preview reported a write", outcome, nil
	case ans.applied && !candCompiles:
		return "applied-not-compiling", where + ": a candidate that does not compile was applied", outcome, nil
	case ans.applied && c.mode == "write_and_reload" && !c.admin.canBeOK:
		return "reload-cannot-be-verified-but-applied", where + ": nothing in this environment answers the health probe with 200, yet the rewrite is reported applied", outcome, nil
	}
	return "", "", outcome, nil
}

func mcpRewritePart(r *runner.Run) {
	tStart := time.Now()
	os.Unsetenv(mrUnsetEnv)
	os.Setenv(mrEmptyEnv, "")
	cases := mrCases()
	scratch := runner.Scratch()
	jobs := make(chan mrCase, len(cases))
	for _, c := range cases {
		jobs <- c
	}
	close(jobs)
	var wg sync.WaitGroup
	var mu sync.Mutex
	outcomes := map[string]int{}
	var applied, kept, reloadApplied, reloadKept int64
	for w := 0; w < 8; w++ {
		wg.Add(1)
		go func(w int) {
			defer wg.Done()
			dir := filepath.Join(scratch, fmt.Sprintf("c18e-w%d", w))
			for c := range jobs {
				verdict, msg, outcome, err := mrRun(c, dir)
				if err != nil {
					r.Infra("mcp rewrite part: %v", err)
					continue
				}
				r.Add("mcp_rewrite_cases", 1)
				r.Add("states", 1)
				r.Add("transitions", 1)
				r.Add("traces_validated_against_impl", 1)
				r.Distinct(fmt.Sprintf("mcp-rewrite:%s:%s:prev=%s:cand=%s:can-be-verified=%v:%s", c.tool, c.mode, c.previous, c.candidate, c.admin.canBeOK, outcome))
				mu.Lock()
				outcomes[c.mode+" "+outcome]++
				if strings.Contains(outcome, "answered-applied=true") {
					applied++
					if c.mode == "write_and_reload" {
						reloadApplied++
					}
				} else {
					kept++
					if c.mode == "write_and_reload" {
						reloadKept++
					}
				}
				mu.Unlock()
				if verdict != "" {
					cc := c
					r.Violation(fmt.Sprintf("mcp-rewrite:%s:%s", verdict, c.class()), msg,
						map[string]any{"part": "mcp-rewrite", "tool": c.tool, "mode": c.mode, "previous": c.previous, "candidate": c.candidate, "admin": c.admin.name},
						func() bool {
							v, _, _, err := mrRun(cc, dir+"-recheck")
							return err == nil && v != ""
						})
				}
			}
		}(w)
	}
	wg.Wait()
	r.Sample(map[string]any{"part": "mcp-rewrite", "case": cases[len(cases)/2].class(), "outcomes": outcomes})
	r.Add("ref_accepts", applied)
	r.Add("ref_rejects", kept)
	r.Set("mcp_rewrite", map[string]any{"cases": len(cases), "admin_environments": len(mrAdmins()), "answered_applied": applied, "previous_state_kept": kept,
		"write_and_reload_applied": reloadApplied, "write_and_reload_previous_put_back": reloadKept, "outcomes": outcomes, "wall_s": time.Since(tStart).Seconds()})
}
