package c18

import (
	"bufio"
	"bytes"
	"context"
	"encoding/json"
	"fmt"
	"net"
	"net/http"
	"os"
	"os/exec"
	"path/filepath"
	"strings"
	"sync"
	"syscall"
	"time"

	"github.com/nuetzliches/hookaido/internal/app"
	"github.com/nuetzliches/hookaido/internal/verifkit/runner"
	"github.com/nuetzliches/hookaido/internal/verifkit/vnet"
	"github.com/nuetzliches/hookaido/internal/verifkit/vos"
)

// Process part: the REAL entry point app.Main("hookaido run ...") in a child process - run()'s own reload closure,
// signal handling and wiring, which the other parts re-create through VerifBoot - driven by SIGHUP after every edit of
// the configuration file. Every sequence up to the depth over {R: reloadable edit (route replaced), X: edit that needs
// a restart (admin listen address changed, route replaced), I: invalid file, S: no edit, V: valid again with the
// start-up listen address, route replaced}; after every signal the reload's log line and a probe vector over all
// route names are compared with the reference: the configuration in force is the last VALID file content that did not
// need a restart relative to the configuration in force (a refused edit stays refused when signalled again).

func procConfig(route, adminPort int) string {
	return fmt.Sprintf(`
ingress   { listen "127.0.0.1:18080" }
pull_api  { listen "127.0.0.1:19443"  auth token "raw:g1" }
admin_api { listen "127.0.0.1:%d" }
/r%d { queue { backend memory }  pull { path /e%d } }
`, adminPort, route, route)
}

type procStep struct {
	Edit    string `json:"edit"`
	LogKind string `json:"log"`    // config_reloaded_ok | config_reloaded_restart_required | config_reload_failed
	Probe   []int  `json:"probe"`  // status of POST /r0../r5
}

func procProbe() []int {
	cl := &http.Client{Transport: &http.Transport{DisableKeepAlives: true, DialContext: func(ctx context.Context, _, _ string) (net.Conn, error) { return vnet.Dial("127.0.0.1:18080") }}}
	out := make([]int, 6)
	for i := range out {
		resp, err := cl.Post(fmt.Sprintf("http://127.0.0.1:18080/r%d", i), "application/octet-stream", strings.NewReader("x"))
		if err != nil {
			out[i] = -1
			continue
		}
		resp.Body.Close()
		out[i] = resp.StatusCode
	}
	return out
}

func reloadLines(path string) []string {
	b, _ := os.ReadFile(path)
	var out []string
	sc := bufio.NewScanner(bytes.NewReader(b))
	sc.Buffer(make([]byte, 1<<20), 1<<22)
	for sc.Scan() {
		l := sc.Text()
		for _, k := range []string{"config_reloaded_ok", "config_reloaded_restart_required", "config_reload_failed"} {
			if strings.Contains(l, `"`+k+`"`) || strings.Contains(l, "msg="+k) {
				out = append(out, k)
			}
		}
	}
	return out
}

func procChild(seq string) {
	dir := os.Getenv("VERIF_CRASH_DIR")
	cfgPath := filepath.Join(dir, "Hookaidofile")
	logPath := filepath.Join(dir, "stderr.log")
	lf, err := os.Create(logPath)
	if err != nil {
		os.Exit(4)
	}
	realErr := os.Stderr
	os.Stderr = lf
	route, port := 0, 12019
	os.WriteFile(cfgPath, []byte(procConfig(route, port)), 0o644)
	os.Args = []string{"hookaido", "run", "--config", cfgPath, "--db", filepath.Join(dir, "q.db"), "--log-level", "info"}
	vos.Args, vos.Stderr = os.Args, os.Stderr // run.go sees package os through the vos shim in this build (copies of the variables)
	go func() {
		code := app.Main(os.Args)
		fmt.Fprintln(realErr, "app.Main returned", code)
		os.Exit(5)
	}()
	deadline := time.Now().Add(60 * time.Second)
	for {
		up := false
		for _, l := range vnet.Listening() {
			if l == "127.0.0.1:18080" {
				up = true
			}
		}
		if up {
			break
		}
		if time.Now().After(deadline) {
			fmt.Fprintln(realErr, "ingress never started listening")
			os.Exit(4)
		}
		time.Sleep(2 * time.Millisecond)
	}
	var steps []procStep
	steps = append(steps, procStep{Edit: "start", Probe: procProbe()})
	for _, e := range strings.Split(seq, "") {
		switch e {
		case "R":
			route++
			os.WriteFile(cfgPath, []byte(procConfig(route, port)), 0o644)
		case "X":
			route++
			port++
			os.WriteFile(cfgPath, []byte(procConfig(route, port)), 0o644)
		case "I":
			os.WriteFile(cfgPath, []byte("/broken {\n"), 0o644)
		case "S":
		case "V":
			route++
			port = 12019
			os.WriteFile(cfgPath, []byte(procConfig(route, port)), 0o644)
		}
		before := len(reloadLines(logPath))
		syscall.Kill(os.Getpid(), syscall.SIGHUP)
		kind := ""
		deadline := time.Now().Add(60 * time.Second)
		for kind == "" {
			if ls := reloadLines(logPath); len(ls) > before {
				kind = ls[before]
				break
			}
			if time.Now().After(deadline) {
				fmt.Fprintln(realErr, "no reload log line after SIGHUP")
				os.Exit(4)
			}
			time.Sleep(2 * time.Millisecond)
		}
		steps = append(steps, procStep{Edit: e, LogKind: kind, Probe: procProbe()})
	}
	b, _ := json.Marshal(steps)
	os.WriteFile(filepath.Join(dir, "result.json"), b, 0o644)
	os.Exit(0)
}

// procReference: what every step must show.
func procReference(seq string) []procStep {
	type cfg struct {
		route, port int
		valid       bool
	}
	file := cfg{0, 12019, true}
	inForce := file
	probe := func(route int) []int {
		out := make([]int, 6)
		for i := range out {
			out[i] = 404
			if i == route {
				out[i] = 202
			}
		}
		return out
	}
	steps := []procStep{{Edit: "start", Probe: probe(0)}}
	for _, e := range strings.Split(seq, "") {
		switch e {
		case "R":
			file = cfg{file.route + 1, file.port, true}
		case "X":
			file = cfg{file.route + 1, file.port + 1, true}
		case "I":
			file.valid = false
		case "V":
			file = cfg{file.route + 1, 12019, true}
		}
		// R after I: the child keeps counting routes from its own counters, which the invalid file did not change
		kind := "config_reloaded_ok"
		switch {
		case !file.valid:
			kind = "config_reload_failed"
		case file.port != inForce.port:
			kind = "config_reloaded_restart_required"
		default:
			inForce = file
		}
		steps = append(steps, procStep{Edit: e, LogKind: kind, Probe: probe(inForce.route)})
	}
	return steps
}

func processPart(r *runner.Run) {
	depth := runner.Pick(r, 2, 3)
	alphabet := []string{"R", "X", "I", "S", "V"}
	var seqs []string
	var gen func(p string)
	gen = func(p string) {
		if len(p) > 0 {
			seqs = append(seqs, p)
		}
		if len(p) == depth {
			return
		}
		for _, a := range alphabet {
			gen(p + a)
		}
	}
	gen("")
	// only maximal sequences need to run: every prefix is observed on the way
	var maximal []string
	for _, s := range seqs {
		if len(s) == depth {
			maximal = append(maximal, s)
		}
	}
	deadline := time.Now().Add(runner.Pick(r, 60*time.Second, 6*time.Minute))
	scratch := runner.Scratch()
	jobs := make(chan string, len(maximal))
	for _, s := range maximal {
		jobs <- s
	}
	close(jobs)
	var wg sync.WaitGroup
	var mu sync.Mutex
	ran, skipped := 0, 0
	for w := 0; w < 8; w++ {
		wg.Add(1)
		go func(w int) {
			defer wg.Done()
			for seq := range jobs {
				if time.Now().After(deadline) {
					mu.Lock()
					skipped++
					mu.Unlock()
					continue
				}
				dir := filepath.Join(scratch, fmt.Sprintf("c18p-w%d", w))
				os.RemoveAll(dir)
				os.MkdirAll(dir, 0o755)
				cmd := exec.Command(os.Args[0], "-test.run", "^TestCheck$", "-test.timeout", "0")
				cmd.Env = append(os.Environ(), "VERIF_C18_PROC="+seq, "VERIF_CRASH_DIR="+dir)
				var buf bytes.Buffer
				cmd.Stdout, cmd.Stderr = &buf, &buf
				done := make(chan error, 1)
				if err := cmd.Start(); err != nil {
					r.Infra("process part: %v", err)
					continue
				}
				go func() { done <- cmd.Wait() }()
				var err error
				select {
				case err = <-done:
				case <-time.After(5 * time.Minute):
					cmd.Process.Kill()
					err = fmt.Errorf("child hung")
				}
				b, rerr := os.ReadFile(filepath.Join(dir, "result.json"))
				if err != nil || rerr != nil {
					lb, _ := os.ReadFile(filepath.Join(dir, "stderr.log"))
					r.Infra("process part, sequence %s: child failed (%v %v) %s | log tail: %s", seq, err, rerr, buf.String(), tail(string(lb), 400))
					continue
				}
				var got []procStep
				json.Unmarshal(b, &got)
				want := procReference(seq)
				mu.Lock()
				ran++
				mu.Unlock()
				r.Add("states", int64(len(got)))
				r.Add("transitions", int64(len(got)))
				r.Add("traces_validated_against_impl", 1)
				for i := range want {
					if i >= len(got) {
						break
					}
					r.Distinct(fmt.Sprintf("proc:%s:%s", want[i].Edit, got[i].LogKind))
					if got[i].LogKind != want[i].LogKind || fmt.Sprint(got[i].Probe) != fmt.Sprint(want[i].Probe) {
						r.Violation(fmt.Sprintf("process-reload:%s-after-%s", want[i].Edit, prefixKinds(want[:i])),
							fmt.Sprintf("[process part] edits %q, after step %d (%s): the running process logged %q and answers POST /r0../r5 with %v; the reference says %q and %v (a refused or invalid edit leaves everything as it was, also when signalled again)",
								seq, i, want[i].Edit, got[i].LogKind, got[i].Probe, want[i].LogKind, want[i].Probe),
							map[string]any{"engine": "process", "sequence": seq, "step": i}, nil)
						break
					}
				}
			}
		}(w)
	}
	wg.Wait()
	r.Set("process_part", map[string]any{"sequences": ran, "depth": depth, "edits": alphabet, "not_run": skipped})
	if skipped > 0 {
		r.NotExhaustive(fmt.Sprintf("process part: time budget reached, %d sequences not run", skipped))
	}
}

func prefixKinds(steps []procStep) string {
	var k []string
	for _, s := range steps[1:] {
		k = append(k, s.Edit)
	}
	if len(k) == 0 {
		return "start"
	}
	return strings.Join(k, "")
}

func tail(s string, n int) string {
	if len(s) > n {
		return s[len(s)-n:]
	}
	return s
}
