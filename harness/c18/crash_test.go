package c18

import (
	"bytes"
	"context"
	"crypto/sha256"
	"encoding/json"
	"fmt"
	"net/http/httptest"
	"os"
	"os/exec"
	"path/filepath"
	"strings"
	"sync"
	"syscall"
	"time"

	"github.com/nuetzliches/hookaido/internal/app"
	"github.com/nuetzliches/hookaido/internal/config"
	"github.com/nuetzliches/hookaido/internal/mcp"
	"github.com/nuetzliches/hookaido/internal/queue"
	"github.com/nuetzliches/hookaido/internal/verifkit/runner"
	"github.com/nuetzliches/hookaido/internal/verifkit/verifcrash"
)

// (c) file replacement: the child rewrites the config file through the management API or MCP and is SIGKILLed
// before every statement of writeFileAtomic / syncDir / rollbackConfigFile (instrumented by verifgen); afterwards the
// file must hold exactly the old or exactly the new bytes and the new bytes must compile.
//
// Second phase - the replacement flow started from a NON-initial directory: after every crash point the gateway is
// started again by a fresh process on the directory as the killed process left it (staging files and all) and a second,
// different rewrite is made - one whose formatted content is shorter than what the killed rewrite was writing and one
// that is longer. The fresh process must start, the rewrite must be answered as in a clean directory holding the same
// configuration file, and the configured path must then hold byte for byte what the clean directory holds.

const mgmtOld = head + `/m { queue { backend memory }  pull { path /em } }
/n { queue { backend memory }  pull { path /en } }
`

func writeFrame(w *bytes.Buffer, msg any) {
	b, _ := json.Marshal(msg)
	fmt.Fprintf(w, "Content-Length: %d\r\n\r\n", len(b))
	w.Write(b)
}

func mcpApply(cfgPath, dbPath, content, mode string) string {
	var in, out, audit bytes.Buffer
	writeFrame(&in, map[string]any{"jsonrpc": "2.0", "id": 1, "method": "initialize", "params": map[string]any{"protocolVersion": "2024-11-05", "capabilities": map[string]any{}, "clientInfo": map[string]any{"name": "verif", "version": "0"}}})
	writeFrame(&in, map[string]any{"jsonrpc": "2.0", "method": "notifications/initialized"})
	writeFrame(&in, map[string]any{"jsonrpc": "2.0", "id": 2, "method": "tools/call", "params": map[string]any{"name": "config_apply",
		"arguments": map[string]any{"content": content, "mode": mode, "reload_timeout": "200ms"}}})
	srv := mcp.NewServer(&in, &out, cfgPath, dbPath, mcp.WithPrincipal("ops"), mcp.WithAuditWriter(&audit), mcp.WithMutationsEnabled(true), mcp.WithRole(mcp.Role("admin")))
	srv.Serve(context.Background())
	return out.String()
}

func crashChild(scn string) {
	verifcrash.Init()
	dir := os.Getenv("VERIF_CRASH_DIR")
	cfgPath := filepath.Join(dir, "Hookaidofile")
	if err := preparePath(dir, os.Getenv("VERIF_C18_PATHKIND")); err != nil {
		fmt.Fprintln(os.Stderr, "child path setup:", err)
		os.Exit(4)
	}
	if strings.HasPrefix(scn, "second:") {
		secondChild(scn, dir, cfgPath)
		verifcrash.Log(fmt.Sprintf("DONE %d", verifcrash.Count()))
		os.Exit(0)
	}
	switch scn {
	case "admin-upsert", "admin-delete", "admin-upsert-long":
		st := queue.NewMemoryStore()
		text := mgmtOld
		if scn == "admin-delete" {
			text = strings.Replace(mgmtOld, "/m {", "/m { application app1  endpoint_name ep1 ", 1)
		}
		a, err := app.VerifBoot(app.VerifBootOptions{Dir: dir, ConfigText: text, Store: st})
		if err != nil {
			fmt.Fprintln(os.Stderr, "child boot:", err)
			os.Exit(4)
		}
		verifcrash.Arm()
		method, body := "PUT", `{"route":"/m"}`
		if scn == "admin-delete" {
			method, body = "DELETE", ""
		}
		target := "/applications/app1/endpoints/ep1"
		if scn == "admin-upsert-long" {
			target = "/applications/" + longLabel("application") + "/endpoints/" + longLabel("endpoint")
		}
		r := httptest.NewRequest(method, target, strings.NewReader(body))
		r.Header.Set("X-Hookaido-Audit-Reason", "verif")
		r.Header.Set("Content-Type", "application/json")
		w := httptest.NewRecorder()
		a.Admin.ServeHTTP(w, r)
		verifcrash.Disarm()
		verifcrash.Log(fmt.Sprintf("STATUS %d %s", w.Code, strings.TrimSpace(w.Body.String())))
	case "mcp-write-only", "mcp-write-and-reload-fails":
		os.WriteFile(cfgPath, []byte(mgmtOld), 0o644)
		mode := "write_only"
		if scn == "mcp-write-and-reload-fails" {
			mode = "write_and_reload" // no running instance / unreachable admin endpoint: the tool must put the previous content back
		}
		verifcrash.Arm()
		out := mcpApply(cfgPath, filepath.Join(dir, "q.db"), mgmtOld+"/extra { queue { backend memory }  pull { path /ex } }\n", mode)
		verifcrash.Disarm()
		verifcrash.Log("STATUS 0 " + strings.ReplaceAll(out[max(0, len(out)-300):], "\n", " "))
	}
	verifcrash.Log(fmt.Sprintf("DONE %d", verifcrash.Count()))
	os.Exit(0)
}

func spawnCrash(scn, pathKind, dir string, at int) (killed bool, out string, err error) {
	os.RemoveAll(dir)
	os.MkdirAll(dir, 0o755)
	return spawnIn(scn, dir, at, "VERIF_C18_PATHKIND="+pathKind)
}

// pathKinds: what kind of file system object the configured path is when the rewrite starts. The statement speaks of
// the file the configuration is read from, i.e. of what a reader of the configured path gets; it does not depend on the
// path being a regular file. In every kind the content is reached through <dir>/Hookaidofile.
var pathKinds = []string{"regular", "link-same-dir", "link-other-dir", "link-absolute", "link-chain"}

// preparePath builds the object at <dir>/Hookaidofile before the configuration is first written (the initial content
// is then written through the configured path, as an operator's editor would).
func preparePath(dir, kind string) error {
	cfg := filepath.Join(dir, "Hookaidofile")
	touch := func(p string) error {
		if err := os.MkdirAll(filepath.Dir(p), 0o755); err != nil {
			return err
		}
		return os.WriteFile(p, nil, 0o644)
	}
	switch kind {
	case "", "regular":
		return nil
	case "link-same-dir": // relative link to a file next to it
		if err := touch(filepath.Join(dir, "Hookaidofile.real")); err != nil {
			return err
		}
		return os.Symlink("Hookaidofile.real", cfg)
	case "link-other-dir": // relative link into another directory
		if err := touch(filepath.Join(dir, "store.d", "Hookaidofile")); err != nil {
			return err
		}
		return os.Symlink(filepath.Join("store.d", "Hookaidofile"), cfg)
	case "link-absolute": // absolute link into another directory
		if err := touch(filepath.Join(dir, "store.d", "config.txt")); err != nil {
			return err
		}
		return os.Symlink(filepath.Join(dir, "store.d", "config.txt"), cfg)
	case "link-chain": // link -> link in another directory -> file in a third
		if err := touch(filepath.Join(dir, "store.d", "v1", "Hookaidofile")); err != nil {
			return err
		}
		if err := os.Symlink(filepath.Join("v1", "Hookaidofile"), filepath.Join(dir, "store.d", "current")); err != nil {
			return err
		}
		return os.Symlink(filepath.Join("store.d", "current"), cfg)
	}
	return fmt.Errorf("unknown path kind %q", kind)
}

// spawnIn runs the child on the directory as it is.
func spawnIn(scn, dir string, at int, env ...string) (killed bool, out string, err error) {
	cmd := exec.Command(os.Args[0], "-test.run", "^TestCheck$", "-test.timeout", "0")
	cmd.Env = append(os.Environ(), "VERIF_C18_CHILD="+scn, "VERIF_CRASH_DIR="+dir, fmt.Sprintf("VERIF_CRASH_AT=%d", at), "VERIF_CRASH_LOG="+filepath.Join(dir, "side.log"), "VERIF_CRASH_LABELS=1")
	cmd.Env = append(cmd.Env, env...)
	var buf strings.Builder
	cmd.Stdout, cmd.Stderr = &buf, &buf
	if err := cmd.Start(); err != nil {
		return false, "", err
	}
	done := make(chan error, 1)
	go func() { done <- cmd.Wait() }()
	select {
	case e := <-done:
		if e == nil {
			return false, buf.String(), nil
		}
		if ee, ok := e.(*exec.ExitError); ok {
			if ws, ok := ee.Sys().(syscall.WaitStatus); ok && ws.Signaled() && ws.Signal() == syscall.SIGKILL {
				return true, buf.String(), nil
			}
		}
		return false, buf.String(), e
	case <-time.After(4 * time.Minute):
		cmd.Process.Kill()
		return false, buf.String(), fmt.Errorf("child hung")
	}
}

func compiles(b []byte) bool {
	cfg, err := config.Parse(b)
	if err != nil {
		return false
	}
	_, res := config.Compile(cfg)
	return res.OK
}

func crashPart(r *runner.Run) {
	scratch := runner.Scratch()
	refs := &secondRefs{m: map[string]secondOutcome{}, seen: map[string]bool{}}
	var shorter, longer, withLeftovers int64
	var cmu sync.Mutex
	for _, scn := range []string{"admin-upsert", "admin-upsert-long", "admin-delete", "mcp-write-only", "mcp-write-and-reload-fails"} {
		for _, pk := range pathKinds {
			// name: the scenario as it appears in keys; the regular file keeps the keys it always had
			name := scn
			if pk != "regular" {
				name = scn + ":" + pk
			}
			d0 := filepath.Join(scratch, "c18c-"+scn+"-"+pk+"-count")
			killed, out, err := spawnCrash(scn, pk, d0, 0)
			if err != nil || killed {
				r.Infra("%s: counting run failed: %v %s", name, err, out)
				continue
			}
			logb, _ := os.ReadFile(filepath.Join(d0, "side.log"))
			K := 0
			for _, l := range strings.Split(string(logb), "\n") {
				fmt.Sscanf(l, "DONE %d", &K)
			}
			if K == 0 {
				r.Infra("%s: the mutation passed no crash point (not applied?): %s", name, logb)
				continue
			}
			oldB := []byte(mgmtOld)
			if scn == "admin-delete" {
				oldB = []byte(strings.Replace(mgmtOld, "/m {", "/m { application app1  endpoint_name ep1 ", 1))
			}
			newB, _ := os.ReadFile(filepath.Join(d0, "Hookaidofile"))
			final := "new"
			if scn == "mcp-write-and-reload-fails" {
				// the reload cannot succeed (no running instance): the previous content must be back at the end
				final = "old"
				if !bytes.Equal(newB, oldB) {
					r.Violation("file-replace:"+name+":not-rolled-back", fmt.Sprintf("[%s] reload failed but the previous config content was not restored", name), map[string]any{"scenario": scn, "path_kind": pk}, nil)
					continue
				}
			} else if bytes.Equal(newB, oldB) || !compiles(newB) {
				r.Infra("%s: the uncrashed mutation did not produce a new, compiling config (%q)", name, logb)
				continue
			}
			r.Set("file-replace:"+name, map[string]any{"crash_points": K, "final_content": final})
			var wg sync.WaitGroup
			jobs := make(chan int, K)
			for n := 1; n <= K; n++ {
				jobs <- n
			}
			close(jobs)
			for w := 0; w < 8; w++ {
				wg.Add(1)
				go func(w int) {
					defer wg.Done()
					for n := range jobs {
						dir := filepath.Join(scratch, fmt.Sprintf("c18c-%s-w%d", scn, w))
						killed, out, err := spawnCrash(scn, pk, dir, n)
						if err != nil || !killed {
							r.Infra("%s: crash point %d: child was not killed (%v) %s", name, n, err, out)
							continue
						}
						got, rerr := os.ReadFile(filepath.Join(dir, "Hookaidofile"))
						lb, _ := os.ReadFile(filepath.Join(dir, "side.log"))
						label := ""
						for _, l := range strings.Split(string(lb), "\n") {
							if strings.HasPrefix(l, "CRASH ") {
								label = l
							}
						}
						r.Add("file_replace_crash_points", 1)
						if pk != "regular" {
							r.Add("file_replace_crash_points_path_is_a_link", 1)
						}
						which := "other"
						switch {
						case rerr != nil:
							which = "missing"
						case bytes.Equal(got, oldB):
							which = "old"
						case compiles(got) && !bytes.Equal(got, oldB) && (scn == "mcp-write-and-reload-fails" || bytes.Equal(got, newB)):
							which = "new"
						case scn == "mcp-write-and-reload-fails" && compiles(got):
							which = "new"
						}
						r.Distinct(fmt.Sprintf("%s:%s", name, which))
						if which != "old" && which != "new" {
							r.Violation("file-replace:"+name+":"+which, fmt.Sprintf("[%s] killed at %q: the config file is %s (neither the complete old nor the complete new content): %q", name, label, which, truncate(got)),
								map[string]any{"engine": "crash", "scenario": scn, "path_kind": pk, "crash_at": n, "label": label}, nil)
							continue
						}
						// second phase: restart on the directory as it is, then a different rewrite (directories whose configured
						// path was a regular file: the copy is file by file)
						if pk != "regular" {
							continue
						}
						for _, kind := range secondKinds {
							sh, left := secondPhase(r, refs, scn, filepath.Join(scratch, fmt.Sprintf("c18c2-%s-w%d", scn, w)), dir, n, label, got, kind, len(newB))
							cmu.Lock()
							if sh {
								shorter++
							} else {
								longer++
							}
							if left {
								withLeftovers++
							}
							cmu.Unlock()
						}
					}
				}(w)
			}
			wg.Wait()
		}
	}
	r.Set("file-replace:second-rewrite-after-restart", map[string]any{"rewrites": shorter + longer, "shorter_than_the_killed_rewrite": shorter, "not_shorter": longer,
		"started_in_a_directory_with_leftover_files": withLeftovers, "kinds": secondKinds})
	r.Set("file-replace:path-kinds", pathKinds)
}

// ---- second phase ---------------------------------------------------------------------------------------------------

var secondKinds = []string{"shorter", "longer"}

func longLabel(kind string) string { return kind + "-" + strings.Repeat("x", 60) }

// secondContent: what the second MCP config_apply writes.
func secondContent(kind string) string {
	if kind == "shorter" {
		return head + "/only { queue { backend memory }  pull { path /eo } }\n"
	}
	return mgmtOld + "/extra { queue { backend memory }  pull { path /ex } }\n/extra2 { queue { backend memory }  pull { path /ex2 } }\n/extra3 { queue { backend memory }  pull { path /ex3 } }\n"
}

// secondChild: the fresh process. It starts on the directory as it is and rewrites the configuration once.
func secondChild(scn, dir, cfgPath string) {
	parts := strings.SplitN(scn, ":", 3) // second:<first scenario>:<kind>
	first, kind := parts[1], parts[2]
	if strings.HasPrefix(first, "admin-") {
		a, err := app.VerifBoot(app.VerifBootOptions{Dir: dir, Store: queue.NewMemoryStore()})
		if err != nil {
			verifcrash.Log("STATUS does-not-start " + strings.ReplaceAll(err.Error(), "\n", " "))
			return
		}
		application, endpoint := "a", "e"
		if kind == "longer" {
			application, endpoint = longLabel("second-application"), longLabel("second-endpoint")
		}
		rq := httptest.NewRequest("PUT", "/applications/"+application+"/endpoints/"+endpoint, strings.NewReader(`{"route":"/n"}`))
		rq.Header.Set("X-Hookaido-Audit-Reason", "verif")
		rq.Header.Set("Content-Type", "application/json")
		w := httptest.NewRecorder()
		verifcrash.Arm()
		a.Admin.ServeHTTP(w, rq)
		verifcrash.Disarm()
		verifcrash.Log(fmt.Sprintf("STATUS %d", w.Code))
		a.Shutdown()
		return
	}
	verifcrash.Arm()
	out := mcpApply(cfgPath, filepath.Join(dir, "q.db"), secondContent(kind), "write_only")
	verifcrash.Disarm()
	verdict := "not-applied"
	if strings.Contains(strings.NewReplacer("\\", "", " ", "").Replace(out), `"applied":true`) {
		verdict = "applied"
	}
	verifcrash.Log("STATUS " + verdict)
}

type secondOutcome struct {
	status  string
	content []byte
	err     string
	points  int // crash points the rewrite passed
}

type secondRefs struct {
	mu   sync.Mutex
	m    map[string]secondOutcome
	seen map[string]bool // directory states whose second rewrite was itself crashed at every point (thorough)
}

func copyFiles(from, to string) (leftovers []string, sig string) {
	os.RemoveAll(to)
	os.MkdirAll(to, 0o755)
	ents, _ := os.ReadDir(from)
	for _, e := range ents {
		if e.IsDir() {
			continue
		}
		b, err := os.ReadFile(filepath.Join(from, e.Name()))
		if err != nil {
			continue
		}
		info, _ := e.Info()
		mode := os.FileMode(0o644)
		if info != nil {
			mode = info.Mode().Perm()
		}
		os.WriteFile(filepath.Join(to, e.Name()), b, mode)
		os.Chmod(filepath.Join(to, e.Name()), mode)
		if e.Name() != "side.log" {
			// the name with every run of digits blanked (random suffixes), the mode and the bytes
			name := ""
			for _, c := range e.Name() {
				if c >= '0' && c <= '9' {
					if !strings.HasSuffix(name, "#") {
						name += "#"
					}
					continue
				}
				name += string(c)
			}
			sig += fmt.Sprintf("%s|%o|%x;", name, mode, sha256.Sum256(b))
		}
		if e.Name() != "Hookaidofile" && e.Name() != "side.log" {
			leftovers = append(leftovers, fmt.Sprintf("%s(%dB)", e.Name(), len(b)))
		}
	}
	return leftovers, sig
}

func statusOf(dir string) string {
	lb, _ := os.ReadFile(filepath.Join(dir, "side.log"))
	st := ""
	for _, l := range strings.Split(string(lb), "\n") {
		if strings.HasPrefix(l, "STATUS ") {
			st = strings.TrimPrefix(l, "STATUS ")
		}
	}
	return st
}

// runSecond: the second rewrite by a fresh process in dir (as it is).
func runSecond(scn, kind, dir string) secondOutcome {
	os.Remove(filepath.Join(dir, "side.log"))
	killed, out, err := spawnIn("second:"+scn+":"+kind, dir, 0)
	if err != nil || killed {
		return secondOutcome{err: fmt.Sprintf("second-phase child failed: %v %s", err, out)}
	}
	lb, _ := os.ReadFile(filepath.Join(dir, "side.log"))
	points := 0
	for _, l := range strings.Split(string(lb), "\n") {
		fmt.Sscanf(l, "DONE %d", &points)
	}
	o := runSecondRead(dir)
	o.points = points
	return o
}

func runSecondRead(dir string) secondOutcome {
	b, rerr := os.ReadFile(filepath.Join(dir, "Hookaidofile"))
	if rerr != nil {
		return secondOutcome{status: statusOf(dir), err: ""}
	}
	return secondOutcome{status: statusOf(dir), content: b}
}

// get: the same rewrite in a clean directory that holds nothing but the configuration file with the given content.
func (sr *secondRefs) get(scn, kind, scratch string, state []byte) secondOutcome {
	fam := "mcp"
	if strings.HasPrefix(scn, "admin-") {
		fam = "admin"
	}
	key := fam + "|" + kind + "|" + string(state)
	sr.mu.Lock()
	defer sr.mu.Unlock()
	if o, ok := sr.m[key]; ok {
		return o
	}
	dir := filepath.Join(scratch, "c18c2-clean")
	os.RemoveAll(dir)
	os.MkdirAll(dir, 0o755)
	os.WriteFile(filepath.Join(dir, "Hookaidofile"), state, 0o644)
	o := runSecond(scn, kind, dir)
	sr.m[key] = o
	return o
}

// secondPhase reports (the rewrite is shorter than what the killed rewrite was writing, the directory held leftovers).
func secondPhase(r *runner.Run, refs *secondRefs, scn, work, crashed string, n int, label string, state []byte, kind string, abortedLen int) (bool, bool) {
	want := refs.get(scn, kind, filepath.Dir(work), state)
	if want.err != "" || want.content == nil || !compiles(want.content) || bytes.Equal(want.content, state) {
		r.Infra("%s: second rewrite (%s) in a clean directory did not produce a new, compiling config: status %q %s", scn, kind, want.status, want.err)
		return false, false
	}
	leftovers, sig := copyFiles(crashed, work)
	got := runSecond(scn, kind, work)
	r.Add("file_replace_second_rewrites", 1)
	short := len(want.content) < abortedLen
	tag := "not-shorter"
	if short {
		tag = "shorter"
	}
	r.Distinct(fmt.Sprintf("%s:second:%s:leftovers=%v", scn, tag, len(leftovers) > 0))
	if got.err != "" {
		r.Infra("%s: crash point %d, %s", scn, n, got.err)
		return short, len(leftovers) > 0
	}
	replay := map[string]any{"engine": "crash", "scenario": scn, "crash_at": n, "label": label, "second": kind}
	where := fmt.Sprintf("[%s] killed at %q, restarted on the directory as it was left (config file + %v), then a %s rewrite (%d bytes; the killed rewrite was writing %d bytes)", scn, label, leftovers, kind, len(want.content), abortedLen)
	switch {
	case strings.HasPrefix(got.status, "does-not-start"):
		r.Violation("file-replace-after-crash:"+scn+":"+kind+":does-not-start", where+": the fresh process does not start: "+got.status, replay, nil)
	case got.status != want.status:
		r.Violation("file-replace-after-crash:"+scn+":"+kind+":answer", fmt.Sprintf("%s: the rewrite was answered %q; in a clean directory holding the same configuration file it is answered %q", where, got.status, want.status), replay, nil)
	case !bytes.Equal(got.content, want.content):
		r.Violation("file-replace-after-crash:"+scn+":"+kind+":content", fmt.Sprintf("%s: the configured path holds %d bytes that are not what the same rewrite leaves in a clean directory (%d bytes); compiles=%v; tail: %q", where, len(got.content), len(want.content), compiles(got.content), tailBytes(got.content, 160)), replay, nil)
	}
	// thorough: the second rewrite is itself killed at every one of its crash points, once per distinct directory
	// state (file names with their runs of digits blanked, modes, bytes): the configured path must hold the content the
	// fresh process found or the complete second content
	if r.Thorough() && len(leftovers) > 0 && got.points > 0 {
		key := scn + "|" + kind + "|" + sig
		refs.mu.Lock()
		first := !refs.seen[key]
		refs.seen[key] = true
		refs.mu.Unlock()
		if first {
			for k := 1; k <= got.points; k++ {
				copyFiles(crashed, work)
				os.Remove(filepath.Join(work, "side.log"))
				killed, out, err := spawnIn("second:"+scn+":"+kind, work, k)
				if err != nil || !killed {
					r.Infra("%s: second rewrite (%s) after crash point %d, its crash point %d: child was not killed (%v) %s", scn, kind, n, k, err, out)
					continue
				}
				now, rerr := os.ReadFile(filepath.Join(work, "Hookaidofile"))
				r.Add("file_replace_second_rewrite_crash_points", 1)
				if rerr != nil || !(bytes.Equal(now, state) || bytes.Equal(now, want.content)) {
					lb, _ := os.ReadFile(filepath.Join(work, "side.log"))
					label2 := ""
					for _, l := range strings.Split(string(lb), "\n") {
						if strings.HasPrefix(l, "CRASH ") {
							label2 = l
						}
					}
					r.Violation("file-replace-after-crash:"+scn+":"+kind+":killed-again", fmt.Sprintf("%s, killed again at %q: the configured path holds neither the content the fresh process found nor the complete second content (%d bytes, read error %v): %q", where, label2, len(now), rerr, tailBytes(now, 160)),
						map[string]any{"engine": "crash", "scenario": scn, "crash_at": n, "label": label, "second": kind, "second_crash_at": k}, nil)
				}
			}
		}
	}
	return short, len(leftovers) > 0
}

func tailBytes(b []byte, n int) string {
	if len(b) > n {
		return "..." + string(b[len(b)-n:])
	}
	return string(b)
}

func truncate(b []byte) string {
	if len(b) > 200 {
		return string(b[:200]) + "..."
	}
	return string(b)
}
