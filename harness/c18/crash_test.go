package c18

import (
	"bytes"
	"context"
	"encoding/json"
	"fmt"
	"net/http/httptest"
	"os"
	"os/exec"
	"path/filepath"
	"strings"
	"sync"
	"syscall"
	"time"

	"github.com/nuetzliches/hookaido/internal/app"
	"github.com/nuetzliches/hookaido/internal/config"
	"github.com/nuetzliches/hookaido/internal/mcp"
	"github.com/nuetzliches/hookaido/internal/queue"
	"github.com/nuetzliches/hookaido/internal/verifkit/runner"
	"github.com/nuetzliches/hookaido/internal/verifkit/verifcrash"
)

// (c) file replacement: the child rewrites the config file through the management API or MCP and is SIGKILLed
// before every statement of writeFileAtomic / syncDir / rollbackConfigFile (instrumented by verifgen); afterwards the
// file must hold exactly the old or exactly the new bytes and the new bytes must compile.

const mgmtOld = head + `/m { queue { backend memory }  pull { path /em } }
/n { queue { backend memory }  pull { path /en } }
`

func writeFrame(w *bytes.Buffer, msg any) {
	b, _ := json.Marshal(msg)
	fmt.Fprintf(w, "Content-Length: %d\r\n\r\n", len(b))
	w.Write(b)
}

func mcpApply(cfgPath, dbPath, content, mode string) string {
	var in, out, audit bytes.Buffer
	writeFrame(&in, map[string]any{"jsonrpc": "2.0", "id": 1, "method": "initialize", "params": map[string]any{"protocolVersion": "2024-11-05", "capabilities": map[string]any{}, "clientInfo": map[string]any{"name": "verif", "version": "0"}}})
	writeFrame(&in, map[string]any{"jsonrpc": "2.0", "method": "notifications/initialized"})
	writeFrame(&in, map[string]any{"jsonrpc": "2.0", "id": 2, "method": "tools/call", "params": map[string]any{"name": "config_apply",
		"arguments": map[string]any{"content": content, "mode": mode, "reload_timeout": "200ms"}}})
	srv := mcp.NewServer(&in, &out, cfgPath, dbPath, mcp.WithPrincipal("ops"), mcp.WithAuditWriter(&audit), mcp.WithMutationsEnabled(true), mcp.WithRole(mcp.Role("admin")))
	srv.Serve(context.Background())
	return out.String()
}

func crashChild(scn string) {
	verifcrash.Init()
	dir := os.Getenv("VERIF_CRASH_DIR")
	cfgPath := filepath.Join(dir, "Hookaidofile")
	switch scn {
	case "admin-upsert", "admin-delete":
		st := queue.NewMemoryStore()
		text := mgmtOld
		if scn == "admin-delete" {
			text = strings.Replace(mgmtOld, "/m {", "/m { application app1  endpoint_name ep1 ", 1)
		}
		a, err := app.VerifBoot(app.VerifBootOptions{Dir: dir, ConfigText: text, Store: st})
		if err != nil {
			fmt.Fprintln(os.Stderr, "child boot:", err)
			os.Exit(4)
		}
		verifcrash.Arm()
		method, body := "PUT", `{"route":"/m"}`
		if scn == "admin-delete" {
			method, body = "DELETE", ""
		}
		r := httptest.NewRequest(method, "/applications/app1/endpoints/ep1", strings.NewReader(body))
		r.Header.Set("X-Hookaido-Audit-Reason", "verif")
		r.Header.Set("Content-Type", "application/json")
		w := httptest.NewRecorder()
		a.Admin.ServeHTTP(w, r)
		verifcrash.Disarm()
		verifcrash.Log(fmt.Sprintf("STATUS %d %s", w.Code, strings.TrimSpace(w.Body.String())))
	case "mcp-write-only", "mcp-write-and-reload-fails":
		os.WriteFile(cfgPath, []byte(mgmtOld), 0o644)
		mode := "write_only"
		if scn == "mcp-write-and-reload-fails" {
			mode = "write_and_reload" // no running instance / unreachable admin endpoint: the tool must put the previous content back
		}
		verifcrash.Arm()
		out := mcpApply(cfgPath, filepath.Join(dir, "q.db"), mgmtOld+"/extra { queue { backend memory }  pull { path /ex } }\n", mode)
		verifcrash.Disarm()
		verifcrash.Log("STATUS 0 " + strings.ReplaceAll(out[max(0, len(out)-300):], "\n", " "))
	}
	verifcrash.Log(fmt.Sprintf("DONE %d", verifcrash.Count()))
	os.Exit(0)
}

func spawnCrash(scn, dir string, at int) (killed bool, out string, err error) {
	os.RemoveAll(dir)
	os.MkdirAll(dir, 0o755)
	cmd := exec.Command(os.Args[0], "-test.run", "^TestCheck$", "-test.timeout", "0")
	cmd.Env = append(os.Environ(), "VERIF_C18_CHILD="+scn, "VERIF_CRASH_DIR="+dir, fmt.Sprintf("VERIF_CRASH_AT=%d", at), "VERIF_CRASH_LOG="+filepath.Join(dir, "side.log"), "VERIF_CRASH_LABELS=1")
	var buf strings.Builder
	cmd.Stdout, cmd.Stderr = &buf, &buf
	if err := cmd.Start(); err != nil {
		return false, "", err
	}
	done := make(chan error, 1)
	go func() { done <- cmd.Wait() }()
	select {
	case e := <-done:
		if e == nil {
			return false, buf.String(), nil
		}
		if ee, ok := e.(*exec.ExitError); ok {
			if ws, ok := ee.Sys().(syscall.WaitStatus); ok && ws.Signaled() && ws.Signal() == syscall.SIGKILL {
				return true, buf.String(), nil
			}
		}
		return false, buf.String(), e
	case <-time.After(4 * time.Minute):
		cmd.Process.Kill()
		return false, buf.String(), fmt.Errorf("child hung")
	}
}

func compiles(b []byte) bool {
	cfg, err := config.Parse(b)
	if err != nil {
		return false
	}
	_, res := config.Compile(cfg)
	return res.OK
}

func crashPart(r *runner.Run) {
	scratch := runner.Scratch()
	for _, scn := range []string{"admin-upsert", "admin-delete", "mcp-write-only", "mcp-write-and-reload-fails"} {
		d0 := filepath.Join(scratch, "c18c-"+scn+"-count")
		killed, out, err := spawnCrash(scn, d0, 0)
		if err != nil || killed {
			r.Infra("%s: counting run failed: %v %s", scn, err, out)
			continue
		}
		logb, _ := os.ReadFile(filepath.Join(d0, "side.log"))
		K := 0
		for _, l := range strings.Split(string(logb), "\n") {
			fmt.Sscanf(l, "DONE %d", &K)
		}
		if K == 0 {
			r.Infra("%s: the mutation passed no crash point (not applied?): %s", scn, logb)
			continue
		}
		oldB := []byte(mgmtOld)
		if scn == "admin-delete" {
			oldB = []byte(strings.Replace(mgmtOld, "/m {", "/m { application app1  endpoint_name ep1 ", 1))
		}
		newB, _ := os.ReadFile(filepath.Join(d0, "Hookaidofile"))
		final := "new"
		if scn == "mcp-write-and-reload-fails" {
			// the reload cannot succeed (no running instance): the previous content must be back at the end
			final = "old"
			if !bytes.Equal(newB, oldB) {
				r.Violation("file-replace:"+scn+":not-rolled-back", fmt.Sprintf("[%s] reload failed but the previous config content was not restored", scn), map[string]any{"scenario": scn}, nil)
				continue
			}
		} else if bytes.Equal(newB, oldB) || !compiles(newB) {
			r.Infra("%s: the uncrashed mutation did not produce a new, compiling config (%q)", scn, logb)
			continue
		}
		r.Set("file-replace:"+scn, map[string]any{"crash_points": K, "final_content": final})
		var wg sync.WaitGroup
		jobs := make(chan int, K)
		for n := 1; n <= K; n++ {
			jobs <- n
		}
		close(jobs)
		for w := 0; w < 8; w++ {
			wg.Add(1)
			go func(w int) {
				defer wg.Done()
				for n := range jobs {
					dir := filepath.Join(scratch, fmt.Sprintf("c18c-%s-w%d", scn, w))
					killed, out, err := spawnCrash(scn, dir, n)
					if err != nil || !killed {
						r.Infra("%s: crash point %d: child was not killed (%v) %s", scn, n, err, out)
						continue
					}
					got, rerr := os.ReadFile(filepath.Join(dir, "Hookaidofile"))
					lb, _ := os.ReadFile(filepath.Join(dir, "side.log"))
					label := ""
					for _, l := range strings.Split(string(lb), "\n") {
						if strings.HasPrefix(l, "CRASH ") {
							label = l
						}
					}
					r.Add("file_replace_crash_points", 1)
					which := "other"
					switch {
					case rerr != nil:
						which = "missing"
					case bytes.Equal(got, oldB):
						which = "old"
					case compiles(got) && !bytes.Equal(got, oldB) && (scn == "mcp-write-and-reload-fails" || bytes.Equal(got, newB)):
						which = "new"
					case scn == "mcp-write-and-reload-fails" && compiles(got):
						which = "new"
					}
					r.Distinct(fmt.Sprintf("%s:%s", scn, which))
					if which != "old" && which != "new" {
						r.Violation("file-replace:"+scn+":"+which, fmt.Sprintf("[%s] killed at %q: the config file is %s (neither the complete old nor the complete new content): %q", scn, label, which, truncate(got)),
							map[string]any{"engine": "crash", "scenario": scn, "crash_at": n, "label": label}, nil)
					}
				}
			}(w)
		}
		wg.Wait()
	}
}

func truncate(b []byte) string {
	if len(b) > 200 {
		return string(b[:200]) + "..."
	}
	return string(b)
}
