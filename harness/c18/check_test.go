package c18

import (
	"os"
	"testing"

	"github.com/nuetzliches/hookaido/internal/verifkit/runner"
)

func TestCheck(t *testing.T) {
	if scn := os.Getenv("VERIF_C18_CHILD"); scn != "" {
		crashChild(scn)
		return
	}
	if seq := os.Getenv("VERIF_C18_PROC"); seq != "" {
		procChild(seq)
		return
	}
	r := runner.Start("C18", "model_checking")
	if only := os.Getenv("VERIF_C18_ONLY"); only != "" { // development aid: one part alone
		switch only {
		case "dispatch":
			dispatchDiffPart(r, t)
		case "crash":
			crashPart(r)
		case "mcp":
			mcpRewritePart(r)
		}
		r.Finish()
	}
	schedPart(r, t)
	mgmtSchedPart(r, t)
	if _, child := runner.IsShard(); !child && runner.ReplayPath() == "" {
		crashPart(r)
		failurePart(r)
		mcpRewritePart(r)
		processPart(r)
		dispatchDiffPart(r, t)
	} else if runner.ReplayPath() != "" {
		dispatchDiffPart(r, t) // runs only when the replay file names one of its pairs
	}
	r.Assume("scheduling points are the lock operations of the runtime state, the queue store and the per-surface servers; code between them is thread-local (side condition: -race pass)")
	r.Assume("dispatch part: the dispatcher is the value a.VerifDispatcher builds right after boot (the statements of run()); it is started after the reload, the transport, resolver and jitter draw are in-memory stand-ins, time is the bubble's virtual clock; the backlog is put into the store directly")
	r.Assume("second rewrite after a crash: the directory is copied file by file (names, modes, bytes) before the fresh process starts; open file descriptors, locks and page-cache state of the killed process are not part of the state")
	r.Assume("file replacement behind a symbolic link: the oracle reads the configured path only (whether the link survives the rewrite and what the link target holds afterwards is not demanded by the statement); the second rewrite after a restart is made for the regular-file kind only")
	r.Assume("mcp rewrite part: the instance behind the admin endpoint is a stand-in listener whose health answer is the enumerated environment; timeouts only end the tool's polling, an environment that can answer 200 is allowed both consistent outcomes")
	r.Assume("process part: the real app.Main in a child process (in-memory listeners of the build overlay), one SIGHUP per edit, outcome read from the reload's own log line")
	r.Set("rule", "(p) the real entry point app.Main(hookaido run) in a child process, every sequence up to depth 2 (thorough 3) over {reloadable edit, restart-requiring edit, invalid file, no edit, valid-again edit} each followed by SIGHUP: log line and probe vector must equal the reference (a refused edit stays refused when signalled again); (a) 29 reload inputs (unreadable file, parse error, compile errors, unset secret env, every restart-requiring difference each with a reloadable change riding along, and 6 reloadable changes) are applied to a running instance; a probe vector of 61 ingress/pull/admin requests must be answered exactly as by a twin that never reloaded (failed reload) or by a fresh instance started on the new file (successful reload); (b) every interleaving of the real reloadConfig (old -> new) with one in-flight request per config pair, on the handlers wired by the real startServers; oracle: the request's observable result equals the result under the old configuration only or under the new configuration only (both obtained by sequential reference runs of the same build); (c) the config file is rewritten through the management API (endpoint upsert / delete) and through MCP config_apply (write_only, and write_and_reload with a reload that cannot succeed) in a child process that is SIGKILLed before every statement of writeFileAtomic / syncDir / rollbackConfigFile (app and mcp, instrumented at build time): the file must hold exactly the old or exactly the new bytes and the new bytes must compile; a failed reload must restore the previous bytes; every one of these flows runs with the configured path being a regular file, a relative symbolic link to a file in the same directory, a relative and an absolute link into another directory, and a chain of two links across three directories (the content is what a reader of the configured path gets; file mutations of the rewriting code are crash points and writes are torn); for a regular file, after EVERY crash point a fresh process starts on the directory as it was left and makes a second, different rewrite (one shorter than what the killed rewrite was writing, one longer): it must start, be answered and leave byte for byte what the same rewrite leaves in a clean directory holding the same file (thorough: the second rewrite is itself killed at every crash point, once per distinct directory state); (d) dispatcher differential: a family of configurations (base + one edit each: deliver route added / removed / turned into pull / renamed / re-ordered, target added / removed / changed, retry, timeout, signing on / off / secret / header names, deliver_concurrency, defaults.deliver, every egress option and rule edit incl. re-spellings, and reloadable edits); for every ordered pair (quick: base <-> every edit; thorough: all pairs) the real app boots on A, the push dispatcher is built as run() builds it at boot, the file is rewritten to B and reloaded through reloadConfig; ingress answers, dispatcher workers per route, every request an in-memory transport sees in virtual time (URL, body, header names, verifying secret), pull answers and the messages left in the store must equal line by line those of a fresh boot of A (reload refused) or of B (reload reported applied); the family includes inbound HMAC through named secrets (secret retired / not yet valid / value changed / reference dropped / inline secret, alone and with a max_body edit riding along) probed by requests signed under every secret of the family; (e) MCP rewrites: config_apply / management_endpoint_upsert / management_endpoint_delete x {preview_only, write_only, write_and_reload} x previous file {compiles, does not parse, absent} x candidate {differs, same, does not compile} x 14 admin environments (listener answering 200 with/without token, 503, 401, 404, never answering, nothing listening, admin token reference unloadable: env unset / env empty / file missing / file empty / second reference unloadable, the last two kinds also with a listener) on a real loopback listener: the file holds the previous state or exactly the candidate; not answered applied => previous state (bytes or absence) is back; answered applied => candidate bytes; no listener can answer 200 or candidate does not compile => not applied and previous state")
	r.Finish()
}
