package c18

import (
	"testing"

	"github.com/nuetzliches/hookaido/internal/verifkit/runner"
)

func TestCheck(t *testing.T) {
	r := runner.Start("C18", "model_checking")
	schedPart(r, t)
	r.Assume("scheduling points are the lock operations of the runtime state, the queue store and the per-surface servers; code between them is thread-local (side condition: -race pass)")
	r.Set("rule", "(b) every interleaving of the real reloadConfig (old -> new) with one in-flight request per config pair, on the handlers wired by the real startServers; oracle: the request's observable result equals the result under the old configuration only or under the new configuration only (both obtained by sequential reference runs of the same build)")
	r.Finish()
}
