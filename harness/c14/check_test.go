package c14

import (
	"fmt"
	"os"
	"path/filepath"
	"testing"
	"time"

	"github.com/nuetzliches/hookaido/internal/verifkit/qmodel"
	"github.com/nuetzliches/hookaido/internal/verifkit/qsys"
	"github.com/nuetzliches/hookaido/internal/verifkit/runner"
)

// One message kind of a population.
type kind struct {
	route, target, state string
	rcv                  int // 0 = T0, 1 = T1
}

var (
	t0 = qsys.T0 - int64(2*time.Hour)
	t1 = qsys.T0 - int64(time.Hour)
)

func kinds(routes, targets []string) []kind {
	var ks []kind
	for _, r := range routes {
		for _, t := range targets {
			for _, s := range []string{qmodel.Queued, qmodel.Leased, qmodel.Delivered, qmodel.Dead, qmodel.Canceled} {
				for rc := 0; rc < 2; rc++ {
					ks = append(ks, kind{r, t, s, rc})
				}
			}
		}
	}
	return ks
}

// populations: every multiset of size <= n over the kinds (as non-decreasing index vectors).
func populations(nk, n int) [][]int {
	out := [][]int{{}}
	var rec func(start int, cur []int)
	rec = func(start int, cur []int) {
		if len(cur) > 0 {
			out = append(out, append([]int{}, cur...))
		}
		if len(cur) == n {
			return
		}
		for i := start; i < nk; i++ {
			rec(i, append(cur, i))
		}
	}
	rec(0, nil)
	return out
}

var cfg = qmodel.Config{DeliveredMaxAge: 1000 * time.Hour}

type world struct {
	sys *qsys.Sys
	m   *qmodel.Model
	ids []string
	// lease handles of messages that were leased while the population was built (state leased keeps it; others used it)
	leases []string
}

// build creates the population with real operations (messages that need a lease first, queued ones last, so that
// each dequeue sees exactly one ready message), keeping the model in lock step.
func build(sys *qsys.Sys, ks []kind, pop []int) (*world, string) {
	sys.Reset()
	m := qmodel.New(sys.Cfg, qsys.T0)
	m.PostHasLeases = true
	w := &world{sys: sys, m: m}
	do := func(op qmodel.Op) string {
		obs := sys.Do(op)
		if why := m.Apply(op, obs, sys.Snapshot()); why != "" {
			return fmt.Sprintf("while building the population, %s: %s", op, why)
		}
		return ""
	}
	// ids are assigned so that id order is independent of build order: m0, m1, ... in population order
	order := make([]int, 0, len(pop))
	for i, ki := range pop {
		if ks[ki].state != qmodel.Queued {
			order = append(order, i)
		}
	}
	for i, ki := range pop {
		if ks[ki].state == qmodel.Queued {
			order = append(order, i)
		}
	}
	w.ids = make([]string, len(pop))
	for _, i := range order {
		k := ks[pop[i]]
		id := fmt.Sprintf("m%d", i)
		w.ids[i] = id
		rcv := t0
		if k.rcv == 1 {
			rcv = t1
		}
		if why := do(qmodel.Op{Kind: "enq", Envs: []qmodel.EnvSpec{{ID: id, Route: k.route, Target: k.target, ReceivedAt: rcv, Payload: []byte(id)}}}); why != "" {
			return nil, why
		}
		if k.state == qmodel.Queued {
			continue
		}
		if why := do(qmodel.Op{Kind: "deq", Route: k.route, Target: k.target, Batch: 1, TTL: time.Hour}); why != "" {
			return nil, why
		}
		h := id + "#1"
		w.leases = append(w.leases, h)
		var why string
		switch k.state {
		case qmodel.Delivered:
			why = do(qmodel.Op{Kind: "ack", Lease: h})
		case qmodel.Dead:
			why = do(qmodel.Op{Kind: "dead", Lease: h, Reason: "boom"})
		case qmodel.Canceled:
			why = do(qmodel.Op{Kind: "cancel", IDs: []string{id}})
		}
		if why != "" {
			return nil, why
		}
	}
	return w, ""
}

func filters(r *runner.Run, routes, targets []string) []qmodel.Filter {
	var fs []qmodel.Filter
	rs := append([]string{""}, routes...)
	ts := []string{"", targets[0]}
	for _, ro := range rs {
		for _, ta := range ts {
			for _, st := range []string{"", qmodel.Queued, qmodel.Leased, qmodel.Delivered, qmodel.Dead, qmodel.Canceled} {
				for _, be := range []int64{0, t0, t1, t1 + 1} {
					for _, li := range []int{0, 1, 2} {
						for _, pv := range []bool{false, true} {
							fs = append(fs, qmodel.Filter{Route: ro, Target: ta, State: st, Before: be, Limit: li, Preview: pv})
						}
					}
				}
			}
		}
	}
	return fs
}

func idLists(w *world) [][]string {
	ls := [][]string{{}, {"nope"}, {" "}, {"nope", "", " nope "}}
	for _, id := range w.ids {
		ls = append(ls, []string{id}, []string{id, id}, []string{" " + id + " ", "nope"})
	}
	if len(w.ids) >= 2 {
		ls = append(ls, []string{w.ids[1], w.ids[0]}, append([]string{}, w.ids...))
	}
	if len(w.ids) >= 3 {
		// every pair (a list that names a message the operation is defined for next to one it is not)
		for i := range w.ids {
			for j := i + 1; j < len(w.ids); j++ {
				ls = append(ls, []string{w.ids[i], w.ids[j]})
			}
		}
	}
	return ls
}

type counters struct {
	cases, changedCases, rebuilds int64
}

func runPop(r *runner.Run, sys *qsys.Sys, ks []kind, pop []int, fs []qmodel.Filter, c *counters) {
	w, why := build(sys, ks, pop)
	if why != "" {
		r.Violation("population-build:"+sys.Backend, why, map[string]any{"population": pop}, nil)
		return
	}
	popDesc := make([]string, len(pop))
	for i, ki := range pop {
		popDesc[i] = fmt.Sprintf("%s:%+v", w.ids[i], ks[ki])
	}
	dirty := false
	quiet := 0 // operations since the population was built that reported no change
	try := func(op qmodel.Op) {
		if dirty {
			w, why = build(sys, ks, pop)
			c.rebuilds++
			quiet = 0
			if why != "" {
				r.Violation("population-build:"+sys.Backend, why, map[string]any{"population": pop}, nil)
				return
			}
			dirty = false
		}
		pre := w.m.Clone()
		obs := sys.Do(op)
		post := sys.Snapshot()
		c.cases++
		why := w.m.Apply(op, obs, post)
		if obs.N > 0 {
			dirty = true
			c.changedCases++
			r.Distinct(fmt.Sprintf("%s:n%d:m%d", op.Kind, obs.N, obs.Matched))
		} else {
			r.Distinct(fmt.Sprintf("%s:nochange:m%d:preview%v", op.Kind, obs.Matched, obs.Preview))
		}
		if why == "" && (op.Kind == "cancel" || op.Kind == "cancelf") && obs.N > 0 {
			// a canceled leased message: its old lease must be void
			for _, h := range w.leases {
				for _, it := range pre.Items {
					if it.Lease == h && w.m.Items[it.ID] != nil && w.m.Items[it.ID].State == qmodel.Canceled {
						o2 := sys.Do(qmodel.Op{Kind: "ack", Lease: h})
						if why2 := w.m.Apply(qmodel.Op{Kind: "ack", Lease: h}, o2, sys.Snapshot()); why2 != "" {
							why = "after cancel of a leased message, ack with the old lease: " + why2
						}
					}
				}
			}
		}
		if why != "" {
			dirty = true
			key := fmt.Sprintf("%s:%s:%s", sys.Backend, op.Kind, firstWords(why, 5))
			r.Violation(key, fmt.Sprintf("[%s] population %v, %s: %s", sys.Backend, popDesc, op, why),
				map[string]any{"engine": "enum", "backend": sys.Backend, "population": popDesc, "op": op.String()}, nil)
			return
		}
		if !dirty {
			quiet++
			return
		}
		// the operation changed messages and counts + listing are right: is every other message still served later?
		probeLater(r, sys, ks, pop, popDesc, w, &op, quiet)
	}
	for _, kindName := range []string{"cancelf", "requeuef", "resumef"} {
		for _, f := range fs {
			try(qmodel.Op{Kind: kindName, Filter: f})
		}
	}
	for _, kindName := range []string{"cancel", "requeue", "resume", "rqdead", "deldead", "lookup"} {
		for _, l := range idLists(w) {
			try(qmodel.Op{Kind: kindName, IDs: l})
		}
	}
	if !dirty && quiet > 0 {
		// the trailing run of operations that reported no change (previews, misses, lookups) must not have changed
		// what later operations do either
		probeLater(r, sys, ks, pop, popDesc, w, nil, quiet)
	}
}

func firstWords(s string, n int) string {
	out := ""
	cnt := 0
	for _, f := range splitFields(s) {
		if cnt == n {
			break
		}
		if out != "" {
			out += "_"
		}
		out += f
		cnt++
	}
	return out
}

func splitFields(s string) []string {
	var out []string
	cur := ""
	for _, r := range s {
		if r == ' ' || r == '\n' || r == '\t' {
			if cur != "" {
				out = append(out, cur)
				cur = ""
			}
			continue
		}
		if r >= '0' && r <= '9' {
			continue
		}
		cur += string(r)
	}
	if cur != "" {
		out = append(out, cur)
	}
	return out
}

// bulk populations: default limit 100 and maximum 1000.
func bulk(r *runner.Run, sys *qsys.Sys) {
	for _, n := range []int{101, 1000, 1001} {
		for _, lim := range []int{0, 100, 1000, 1001, -5} {
			for _, pv := range []bool{true, false} {
				sys.Reset()
				m := qmodel.New(sys.Cfg, qsys.T0)
				m.PostHasLeases = true
				envs := make([]qmodel.EnvSpec, 0, n)
				for i := 0; i < n; i++ {
					envs = append(envs, qmodel.EnvSpec{ID: fmt.Sprintf("b%04d", i), Route: "/r1", Target: "t1", ReceivedAt: t0 + int64(i%7)})
				}
				for i := 0; i < n; i += 200 {
					j := min(n, i+200)
					op := qmodel.Op{Kind: "enqb", Envs: envs[i:j]}
					if why := m.Apply(op, sys.Do(op), nil); why != "" {
						r.Violation("bulk-build", why, nil, nil)
						return
					}
				}
				op := qmodel.Op{Kind: "cancelf", Filter: qmodel.Filter{Limit: lim, Preview: pv}}
				obs := sys.Do(op)
				why := m.Apply(op, obs, sys.Snapshot())
				r.Add("bulk_cases", 1)
				r.Distinct(fmt.Sprintf("bulk:n%d:lim%d:matched%d", n, lim, obs.Matched))
				if why != "" {
					r.Violation(fmt.Sprintf("%s:bulk:limit", sys.Backend), fmt.Sprintf("[%s] %d queued messages, cancel_by_filter limit=%d preview=%v: %s", sys.Backend, n, lim, pv, why),
						map[string]any{"engine": "enum", "backend": sys.Backend, "n": n, "limit": lim, "preview": pv}, nil)
				}
			}
		}
	}
}

func TestCheck(t *testing.T) {
	r := runner.Start("C14", "exploration")
	routes, targets := []string{"/r1", "/r2"}, []string{"t1", "t2"}
	size := runner.Pick(r, 2, 3)
	ksMem := kinds(routes, targets)
	ksSQL := kinds(routes, targets[:1])
	if r.Thorough() {
		ksSQL = ksMem
		size = 3
	}
	popsMem := populations(len(ksMem), size)
	popsSQL := populations(len(ksSQL), runner.Pick(r, 2, 2))
	fs := filters(r, routes, targets)
	const shards = 16
	deadline := r.Deadline(80*time.Second, 13*time.Minute)
	budget := time.Until(deadline) // the same for the parent and for every job (each counts from its own start)
	if only := os.Getenv("VERIF_C14_ONLY"); only == "mcp-proxy" {
		// development aid: just the "MCP through the Admin API proxy" part; such a run is never a complete check
		if _, child := runner.IsShard(); !child {
			mcpProxyPart(r)
			r.Add("evaluations", r.Counter("mcp_proxy_runs"))
			r.Set("rule", "VERIF_C14_ONLY=mcp-proxy")
			r.NotExhaustive("VERIF_C14_ONLY=mcp-proxy: only the mcp-proxy part was run")
			r.Finish()
		}
	}
	retentionOnly(r) // development aid (VERIF_C14_ONLY=retention), never a complete check
	if ji, ok := runner.Job(); ok {
		var c counters
		mem := qsys.New("memory", cfg, "")
		sql := qsys.New("sqlite", cfg, filepath.Join(runner.Scratch(), "c14"))
		doneMem, doneSQL := 0, 0
		for i := ji; i < len(popsSQL); i += shards {
			if time.Now().After(deadline) {
				r.NotExhaustive(fmt.Sprintf("time budget: shard %d finished %d sqlite populations", ji, doneSQL))
				break
			}
			runPop(r, sql, ksSQL, popsSQL[i], fs, &c)
			doneSQL++
		}
		for i := ji; i < len(popsMem); i += shards {
			if time.Now().After(deadline) {
				r.NotExhaustive(fmt.Sprintf("time budget: shard %d finished %d memory populations", ji, doneMem))
				break
			}
			runPop(r, mem, ksMem, popsMem[i], fs, &c)
			doneMem++
		}
		if ji == 0 {
			bulk(r, mem)
			bulk(r, sql)
		}
		r.Add("evaluations", c.cases)
		r.Add("cases_that_changed_messages", c.changedCases)
		r.Add("populations_memory", int64(doneMem))
		r.Add("populations_sqlite", int64(doneSQL))
		if ji == 1 {
			r.Sample(map[string]any{"population": popsMem[len(popsMem)/2], "kinds": ksMem[popsMem[len(popsMem)/2][0]], "filter_example": fs[len(fs)/3]})
		}
		mem.Close()
		sql.Close()
		// the same by-filter / id mutations on stores opened WITH retention (lazy prune), store-API layer
		retentionStoreJob(r, ji, shards, ji, min(runner.Pick(r, 15*time.Second, 150*time.Second), max(time.Until(deadline), 0)+2*time.Minute))
		r.Finish()
	}
	twoHandlePart14(r, t) // operator mutation through a second SQLite handle against a worker's settlement (schedules)
	if _, child := runner.IsShard(); child {
		return
	}
	// a job counts its budget from its own start and may add two minutes of retention work and the population it was in
	// when the budget ended: the limit is counted from here, not from the start of the parent (which has already spent
	// time on the two-handle part), so that a loaded machine ends with exhaustive:false and not with a killed job
	r.RunJobs(shards, shards, budget+5*time.Minute)
	if _, child := runner.IsShard(); !child {
		rt := make(chan struct{})
		go func() { defer close(rt); retentionLayersPart(r) }() // retention scenarios through Admin HTTP / MCP, next to the admin part
		adminPart(r)
		<-rt
		retentionRule(r)
		px := make(chan struct{})
		go func() { defer close(px); mcpProxyPart(r) }() // MCP through the Admin API proxy, next to the direct-SQLite MCP part
		mcpPart(r)
		<-px
	}
	r.Set("selectors_per_population", len(fs)*3)
	r.Set("rule", fmt.Sprintf("every multiset of <= %d messages over route x target x state(5) x received_at{T0,T1; ties via equal kinds} built with real operations, crossed with every filter route{-,r1,r2} x target{-,t1} x state{-,5} x before{-,T0,T1,T1+1ns} x limit{0,1,2} x preview for cancel/requeue/resume-by-filter and id lists (hit, miss, blank, duplicate, padded, reversed, every pair, all) for cancel/requeue/resume/dlq requeue/dlq delete/lookup, on MemoryStore and SQLiteStore; plus bulk populations 101/1000/1001 x limit{0,100,1000,1001,-5}; oracle = qmodel selection (newest first, id desc in ties, capped, allowed states only) with a full private-state snapshot comparison; every operation that changed messages (and the trailing run of no-change operations of each population) is continued with dequeue-all, resume+requeue all ids, dequeue-all, clock past every lease, dequeue-all, each step judged by qmodel (an untouched message is still served later); non-trivial = distinct (operation, changed count, matched count) classes", size))
	r.Assume("SQLite quick tier uses the reduced kind set (one target); thorough uses the full set")
	r.Assume("Admin HTTP / MCP parsing layer in front of these store calls is exercised by C15/C20 and the admin part of this check when present")
	r.Finish()
}
