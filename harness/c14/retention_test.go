package c14

// C14, retention as a configuration dimension of the populations x selectors enumeration.
//
// Every population of the other parts lives in a store without retention, so the lazy retention prune (it runs
// inside enqueue / dequeue / list / stats when prune_interval has elapsed since the last prune) never has anything
// to do there. Here the store is opened with queue_retention (max_age, prune_interval), dlq_retention (max_age /
// max_depth) and delivered_retention, the population holds messages on both sides of max_age (and one that reaches
// max_age exactly at the instant the prune becomes due), and the injected clock stands before / 1 ns before /
// exactly at / long after the instant the next prune is due when (a) the preview, (b) the real run or (c) both are
// made - optionally with a prune-triggering read between the two. Two time geometries: received_at given
// explicitly (max_age >> prune_interval, everything built in one instant) and received_at stamped by the store
// from the injected clock (max_age < prune_interval, the population built along the clock).
//
// Oracle (written from the property statement, on private-state snapshots; the qmodel by-filter logic is not used):
// the operation affects exactly the messages that match the selector AMONG THE MESSAGES THAT EXIST when it runs.
// Which messages exist is decided by the documented retention rule: a message past retention may or may not have
// been pruned yet (lazy prune), a message inside retention must still be there. Per message consistently:
//   gone afterwards      => it was past retention before the call (pruned before the operation): it is not matched,
//                           not counted; nothing else may make a message disappear (dlq delete aside)
//   still there          => if the reference selection over the surviving messages (every criterion, allowed states,
//                           newest first / id descending in ties, at most limit) picks it: changed as the operation
//                           defines (state, lease voided, dead_reason cleared, next_run_at = now), else untouched in
//                           every column
//   matched == changed == size of that selection; a preview reports the same matched count, changes = 0, touches
//   nothing; preview >= real run, and preview == real run when no message disappeared in between.

import (
	"encoding/json"
	"fmt"
	"os"
	"path/filepath"
	"sort"
	"strings"
	"sync"
	"time"

	"github.com/nuetzliches/hookaido/internal/verifkit/qmodel"
	"github.com/nuetzliches/hookaido/internal/verifkit/qsys"
	"github.com/nuetzliches/hookaido/internal/verifkit/runner"
)

const retTTL = 1000 * time.Hour // leases granted while a population is built never expire inside a scenario

// ---- time geometry ----------------------------------------------------------------------------------------------

type retGeom struct {
	name     string
	explicit bool          // received_at handed to the store (true) or stamped by it from the injected clock (false)
	I, A, D  time.Duration // prune_interval, max_age of queued and dead messages, max_age of delivered messages
	rcv      [3]int64      // received_at of an old / edge / fresh message
	built    [3]int64      // clock while messages of that age class are built (delivery instant of a delivered one)
	base     int64         // clock at the end of the build; the last prune ran at qsys.T0 (arming step)
	pos      [4]int64      // instants of a preview / real run: prune not due, 1 ns before due, due exactly now, overdue
}

var (
	retRcvName = [3]string{"old", "edge", "fresh"}
	retPosName = [4]string{"not-due", "1ns-before-due", "due-exactly-now", "overdue"}
)

func retGeoms() []*retGeom {
	T, m, h := qsys.T0, int64(time.Minute), int64(time.Hour)
	return []*retGeom{
		{name: "explicit", explicit: true, I: time.Minute, A: time.Hour, D: time.Minute,
			rcv: [3]int64{T - 2*h, T + m - h, T - m}, built: [3]int64{T, T, T}, base: T,
			pos: [4]int64{T, T + m - 1, T + m, T + 3*m}},
		{name: "clock-stamped", explicit: false, I: time.Hour, A: 10 * time.Minute, D: 10 * time.Minute,
			rcv: [3]int64{T, T + 50*m, T + 55*m}, built: [3]int64{T, T + 50*m, T + 55*m}, base: T + 55*m,
			pos: [4]int64{T + 55*m, T + 60*m - 1, T + 60*m, T + 64*m}},
	}
}

// selfCheck: the geometry is what the comments say (old always past max_age, fresh never, edge from "due" on; the
// prune is due from pos[2] on). A wrong table is a harness bug, not a violation.
func (g *retGeom) selfCheck() string {
	due := qsys.T0 + int64(g.I)
	for p, now := range g.pos {
		if now < g.base || (p > 0 && now < g.pos[p-1]) {
			return "positions not ascending from the end of the build"
		}
		if (now >= due) != (p >= 2) {
			return fmt.Sprintf("position %s: due-ness wrong", retPosName[p])
		}
		if now-g.rcv[0] < int64(g.A) || now-g.rcv[2] >= int64(g.A) || (now-g.rcv[1] >= int64(g.A)) != (p >= 2) {
			return fmt.Sprintf("position %s: ages wrong", retPosName[p])
		}
	}
	if g.pos[2]-g.rcv[1] != int64(g.A) {
		return "edge message does not reach max_age exactly when the prune becomes due"
	}
	for k := 1; k < 3; k++ {
		if g.built[k] < g.built[k-1] || g.built[k]-qsys.T0 >= int64(g.I) {
			return "build instants must ascend and stay inside the first prune interval"
		}
	}
	return ""
}

type retCfg struct {
	name string
	c    qmodel.Config
}

func retCfgs(g *retGeom) []retCfg {
	return []retCfg{
		{"queue_retention.max_age", qmodel.Config{RetentionMaxAge: g.A, PruneInterval: g.I}},
		{"dlq_retention.max_age", qmodel.Config{DLQMaxAge: g.A, PruneInterval: g.I}},
		{"dlq_retention.max_depth=1", qmodel.Config{DLQMaxDepth: 1, PruneInterval: g.I}},
		{"delivered_retention.max_age", qmodel.Config{DeliveredMaxAge: g.D, PruneInterval: g.I}},
		{"all", qmodel.Config{RetentionMaxAge: g.A, DLQMaxAge: g.A, DLQMaxDepth: 1, DeliveredMaxAge: g.D, PruneInterval: g.I}},
	}
}

// ---- populations ------------------------------------------------------------------------------------------------

type retKind struct {
	route, state string
	rcv          int
}

func (k retKind) String() string {
	return fmt.Sprintf("{%s %s %s}", k.route, k.state, retRcvName[k.rcv])
}

var retStates = []string{qmodel.Queued, qmodel.Leased, qmodel.Delivered, qmodel.Dead, qmodel.Canceled}

func retAllKinds() []retKind {
	var ks []retKind
	for _, ro := range []string{"/r1", "/r2"} {
		for _, st := range retStates {
			for rc := 0; rc < 3; rc++ {
				ks = append(ks, retKind{ro, st, rc})
			}
		}
	}
	return ks
}

func retKindIndex(ks []retKind, route, state string, rcv int) int {
	for i, k := range ks {
		if k.route == route && k.state == state && k.rcv == rcv {
			return i
		}
	}
	panic("c14 retention: no such kind")
}

// retPops: level -1 = level 0 without the singles on /r2;
// level 0 = empty, singles, pairs over {/r1} x {queued, dead} x {old, fresh} (both id orders) and eight fixed pairs;
// level 1 = singles, every pair inside /r1, /r1 x (/r2 {queued, dead} x {old, fresh});
// level 2 = every multiset of <= 2; level 3 = level 2 + triples over {/r1} x {queued, dead, canceled} x {old, fresh}.
func retPops(ks []retKind, level int) [][]int {
	pops := [][]int{{}}
	seen := map[string]bool{"[]": true}
	add := func(p ...int) {
		q := append([]int{}, p...)
		key := fmt.Sprint(q)
		if !seen[key] {
			seen[key] = true
			pops = append(pops, q)
		}
	}
	for i := range ks {
		if level >= 0 || ks[i].route == "/r1" {
			add(i)
		}
	}
	if level >= 2 {
		for i := range ks {
			for j := i; j < len(ks); j++ {
				add(i, j)
			}
		}
	}
	var core, r1, r2core []int
	for i, k := range ks {
		if k.route == "/r1" {
			r1 = append(r1, i)
		}
		if (k.state == qmodel.Queued || k.state == qmodel.Dead) && k.rcv != 1 {
			if k.route == "/r1" {
				core = append(core, i)
			} else {
				r2core = append(r2core, i)
			}
		}
	}
	for a, i := range core {
		for _, j := range core[a:] {
			add(i, j)
			add(j, i) // id order against age order
		}
	}
	ki := func(route, state string, rcv int) int { return retKindIndex(ks, route, state, rcv) }
	for _, p := range [][2]int{
		{ki("/r1", qmodel.Dead, 0), ki("/r2", qmodel.Dead, 0)},     // two routes, both past retention
		{ki("/r1", qmodel.Canceled, 0), ki("/r1", qmodel.Dead, 0)}, // requeue: one candidate past retention, one that retention never touches
		{ki("/r1", qmodel.Leased, 0), ki("/r1", qmodel.Queued, 0)}, // cancel: the leased one is never pruned
		{ki("/r1", qmodel.Delivered, 0), ki("/r1", qmodel.Dead, 0)},
		{ki("/r1", qmodel.Queued, 1), ki("/r1", qmodel.Dead, 1)}, // both reach max_age at the instant the prune becomes due
		{ki("/r1", qmodel.Dead, 1), ki("/r1", qmodel.Dead, 2)},
		{ki("/r1", qmodel.Dead, 2), ki("/r1", qmodel.Dead, 2)}, // tie inside retention: only max_depth can remove one
		{ki("/r2", qmodel.Canceled, 2), ki("/r1", qmodel.Queued, 0)},
	} {
		add(p[0], p[1])
	}
	if level >= 1 {
		for a, i := range r1 {
			for _, j := range r1[a:] {
				add(i, j)
			}
			for _, j := range r2core {
				add(i, j)
			}
		}
	}
	if level >= 3 {
		var tri []int
		for i, k := range ks {
			if k.route == "/r1" && k.rcv != 1 && (k.state == qmodel.Queued || k.state == qmodel.Dead || k.state == qmodel.Canceled) {
				tri = append(tri, i)
			}
		}
		for a, i := range tri {
			for b, j := range tri[a:] {
				for _, k := range tri[a+b:] {
					add(i, j, k)
				}
			}
		}
	}
	return pops
}

type retWorld struct {
	ids         []string
	lease       map[string]string // message id -> handle of the lease it was given while the population was built
	deliveredAt map[string]int64
}

func retDesc(ks []retKind, pop []int) []string {
	d := make([]string, len(pop))
	for i, ki := range pop {
		d[i] = fmt.Sprintf("m%d:%s", i, ks[ki])
	}
	return d
}

// retBuild creates the population with real store operations. Every message has a target of its own ("t<i>") so
// that the dequeue that leases it cannot pick another one; the first step is a worker poll on an unused route at T0:
// it runs the (empty) prune and starts the prune interval at T0 whatever the population is.
func retBuild(sys *qsys.Sys, g *retGeom, ks []retKind, pop []int) (*retWorld, string) {
	sys.Reset()
	w := &retWorld{ids: make([]string, len(pop)), lease: map[string]string{}, deliveredAt: map[string]int64{}}
	if o := sys.Do(qmodel.Op{Kind: "deq", Route: "/zz", Target: "zz", Batch: 1, TTL: time.Minute}); o.Err != qmodel.OK || len(o.Items) != 0 {
		return nil, fmt.Sprintf("arming poll on the empty store: %s %s, %d item(s)", o.Err, o.ErrText, len(o.Items))
	}
	order := make([]int, len(pop))
	for i := range order {
		order[i] = i
	}
	sort.SliceStable(order, func(a, b int) bool { return g.built[ks[pop[order[a]]].rcv] < g.built[ks[pop[order[b]]].rcv] })
	for _, i := range order {
		k := ks[pop[i]]
		id, target := fmt.Sprintf("m%d", i), fmt.Sprintf("t%d", i)
		w.ids[i] = id
		sys.Clk = g.built[k.rcv]
		env := qmodel.EnvSpec{ID: id, Route: k.route, Target: target, Payload: []byte(id)}
		if g.explicit {
			env.ReceivedAt = g.rcv[k.rcv]
		}
		if o := sys.Do(qmodel.Op{Kind: "enq", Envs: []qmodel.EnvSpec{env}}); o.Err != qmodel.OK {
			return nil, fmt.Sprintf("enqueue %s: %s %s", id, o.Err, o.ErrText)
		}
		if k.state == qmodel.Queued {
			continue
		}
		o := sys.Do(qmodel.Op{Kind: "deq", Route: k.route, Target: target, Batch: 1, TTL: retTTL})
		if o.Err != qmodel.OK || len(o.Items) != 1 || o.Items[0].ID != id {
			return nil, fmt.Sprintf("dequeue for %s: %s %s, %d item(s)", id, o.Err, o.ErrText, len(o.Items))
		}
		h := o.Items[0].Lease
		w.lease[id] = h
		var o2 *qmodel.Obs
		switch k.state {
		case qmodel.Delivered:
			o2 = sys.Do(qmodel.Op{Kind: "ack", Lease: h})
			w.deliveredAt[id] = sys.Clk
		case qmodel.Dead:
			o2 = sys.Do(qmodel.Op{Kind: "dead", Lease: h, Reason: "boom"})
		case qmodel.Canceled:
			o2 = sys.Do(qmodel.Op{Kind: "cancel", IDs: []string{id}})
		}
		if o2 != nil && o2.Err != qmodel.OK {
			return nil, fmt.Sprintf("moving %s to %s: %s %s", id, k.state, o2.Err, o2.ErrText)
		}
	}
	sys.Clk = g.base
	snap := sys.Snapshot()
	if len(snap) != len(pop) {
		return nil, fmt.Sprintf("the store holds %d messages after building %d", len(snap), len(pop))
	}
	for i := range snap {
		var idx int
		if _, err := fmt.Sscanf(snap[i].ID, "m%d", &idx); err != nil || idx < 0 || idx >= len(pop) {
			return nil, "unexpected message " + snap[i].ID
		}
		k := ks[pop[idx]]
		if snap[i].State != k.state || snap[i].ReceivedAt != g.rcv[k.rcv] || snap[i].Route != k.route {
			return nil, fmt.Sprintf("%s was built as %s but is stored as {%s %s received_at %s}", snap[i].ID, k, snap[i].Route, snap[i].State, rfc(snap[i].ReceivedAt))
		}
	}
	return w, ""
}

// ---- reference --------------------------------------------------------------------------------------------------

type retCtx struct {
	cfg         qmodel.Config
	deliveredAt map[string]int64
	cmpNext     bool // next_run_at of a changed message is stamped with the injected clock (not in direct MCP mode)
}

// retPrunable: may the documented retention rule remove m at instant now? (queue_retention: queued items older
// than max_age; dlq_retention: dead items older than max_age, and the dead-letter set capped at max_depth, newest
// kept; delivered_retention: delivered items kept for max_age.) "Exactly max_age old" counts as removable.
func retPrunable(x *retCtx, pre []qmodel.Msg, m *qmodel.Msg, now int64) (age, depth bool) {
	c := x.cfg
	if c.PruneInterval <= 0 {
		return false, false
	}
	switch m.State {
	case qmodel.Queued:
		age = c.RetentionMaxAge > 0 && now-m.ReceivedAt >= int64(c.RetentionMaxAge)
	case qmodel.Dead:
		age = c.DLQMaxAge > 0 && now-m.ReceivedAt >= int64(c.DLQMaxAge)
		if c.DLQMaxDepth > 0 {
			others := 0
			for i := range pre {
				if o := &pre[i]; o.ID != m.ID && o.State == qmodel.Dead && o.ReceivedAt >= m.ReceivedAt {
					others++
				}
			}
			depth = others >= c.DLQMaxDepth
		}
	case qmodel.Delivered:
		at, ok := x.deliveredAt[m.ID]
		age = c.DeliveredMaxAge > 0 && ok && now-at >= int64(c.DeliveredMaxAge)
	}
	return age, depth
}

// retSelect: the messages a by-filter operation names among `exist`: every given criterion, only states the
// operation is defined for, newest first (id descending inside a tie), at most limit (default 100, maximum 1000).
func retSelect(exist []*qmodel.Msg, f qmodel.Filter, allowed []string) []*qmodel.Msg {
	var c []*qmodel.Msg
	for _, m := range exist {
		switch {
		case !has(allowed, m.State),
			f.State != "" && m.State != f.State,
			f.Route != "" && m.Route != f.Route,
			f.Target != "" && m.Target != f.Target,
			f.Before != 0 && m.ReceivedAt >= f.Before:
			continue
		}
		c = append(c, m)
	}
	sort.Slice(c, func(i, j int) bool {
		if c[i].ReceivedAt != c[j].ReceivedAt {
			return c[i].ReceivedAt > c[j].ReceivedAt
		}
		return c[i].ID > c[j].ID
	})
	limit := f.Limit
	if limit <= 0 {
		limit = 100
	}
	if limit > 1000 {
		limit = 1000
	}
	if len(c) > limit {
		c = c[:limit]
	}
	return c
}

func retChanged(m *qmodel.Msg, kind string, now int64) qmodel.Msg {
	c := *m
	if kind == "cancel" || kind == "cancelf" {
		c.State = qmodel.Canceled
	} else {
		c.State = qmodel.Queued
	}
	c.Lease, c.LeaseUntil, c.DeadReason, c.NextRunAt = "", 0, "", now
	return c
}

type retJudgement struct {
	what, msg   string
	pruned      []string // messages that were past retention before the step and are gone after it
	sel         int      // size of the reference selection among the surviving messages
	ghostPast   int      // messages the selector would name if nothing were pruned and that are past retention
	changedLeas []string // leased messages the step canceled (their lease must be void)
}

func idsOf(ms []*qmodel.Msg) []string {
	out := make([]string, len(ms))
	for i, m := range ms {
		out[i] = m.ID
	}
	return out
}

// retJudge compares one step (pre snapshot, answer, post snapshot) with the reference. op.Kind "trigger" is a read
// that may run the prune: nothing is selected, nothing is counted.
func retJudge(x *retCtx, op qmodel.Op, obs *qmodel.Obs, pre, post []qmodel.Msg, now int64) (j retJudgement) {
	fail := func(what, f string, a ...any) retJudgement {
		j.what, j.msg = what, fmt.Sprintf(f, a...)
		return j
	}
	if obs.Err != qmodel.OK {
		return fail("call-failed", "answered %s %s", obs.Err, obs.ErrText)
	}
	postBy := make(map[string]*qmodel.Msg, len(post))
	for i := range post {
		if postBy[post[i].ID] != nil {
			return fail("message-stored-twice", "%s is stored twice", post[i].ID)
		}
		postBy[post[i].ID] = &post[i]
	}
	preBy := make(map[string]*qmodel.Msg, len(pre))
	for i := range pre {
		preBy[pre[i].ID] = &pre[i]
	}
	for id, p := range postBy {
		if preBy[id] == nil {
			return fail("message-invented", "%s (%s) is stored after the call but was not before", id, p.State)
		}
	}
	byFilter := op.Kind == "cancelf" || op.Kind == "requeuef" || op.Kind == "resumef"
	named := map[string]bool{}
	for _, raw := range op.IDs {
		if id := strings.TrimSpace(raw); id != "" {
			named[id] = true
		}
	}
	allowed := statesFor(op.Kind)
	// 1. which messages are gone, and does the retention rule explain it
	var all, exist []*qmodel.Msg
	definite, ambiguous, deadPre, deadPruned, depthOnly := 0, 0, 0, 0, 0
	for i := range pre {
		m := &pre[i]
		all = append(all, m)
		if m.State == qmodel.Dead {
			deadPre++
		}
		if postBy[m.ID] != nil {
			exist = append(exist, m)
			continue
		}
		age, depth := retPrunable(x, pre, m, now)
		deleted := op.Kind == "deldead" && named[m.ID] && m.State == qmodel.Dead
		switch {
		case deleted && (age || depth):
			ambiguous++ // deleted as asked (counted) or pruned just before (not counted)
		case deleted:
			definite++
		case age || depth:
			j.pruned = append(j.pruned, m.ID)
			if m.State == qmodel.Dead {
				deadPruned++
				if !age {
					depthOnly++
				}
			}
		default:
			return fail("message-disappeared", "%s (%s, received_at %s) is gone after the call; it is inside retention at %s and the call does not delete messages", m.ID, m.State, rfc(m.ReceivedAt), rfc(now))
		}
	}
	if depthOnly > 0 && deadPre-deadPruned < x.cfg.DLQMaxDepth {
		return fail("dlq-depth-prune-below-cap", "%d dead message(s) inside max_age were removed, %d of %d dead are left, max_depth %d", depthOnly, deadPre-deadPruned, deadPre, x.cfg.DLQMaxDepth)
	}
	unchanged := func(m *qmodel.Msg, what string) bool {
		if d := sameRow(m, postBy[m.ID], false); d != "" {
			fail(what, "%s (%s) is not selected by the call but differs afterwards in %s", m.ID, m.State, d)
			return false
		}
		return true
	}
	changed := func(m *qmodel.Msg) bool {
		want := retChanged(m, op.Kind, now)
		if d := sameRow(&want, postBy[m.ID], !x.cmpNext); d != "" {
			fail("selected-message-not-changed-as-defined", "%s (%s) is selected and still stored, but afterwards it differs from the defined result in %s", m.ID, m.State, d)
			return false
		}
		if m.State == qmodel.Leased && want.State == qmodel.Canceled {
			j.changedLeas = append(j.changedLeas, m.ID)
		}
		return true
	}
	// 2. the reference selection among the messages that exist
	switch {
	case op.Kind == "trigger":
		for _, m := range exist {
			if !unchanged(m, "read-changed-a-message") {
				return j
			}
		}
	case byFilter:
		sel := retSelect(exist, op.Filter, allowed)
		ghost := retSelect(all, op.Filter, allowed)
		j.sel = len(sel)
		for _, m := range ghost {
			if a, d := retPrunable(x, pre, m, now); a || d {
				j.ghostPast++
			}
		}
		countWhat := func(got int, plain string) string {
			if len(j.pruned) > 0 && len(ghost) != len(sel) && got == len(ghost) {
				return "counted-messages-that-retention-removed"
			}
			return plain
		}
		if obs.Matched != len(sel) {
			return fail(countWhat(obs.Matched, "matched-differs-from-selection"), "matched=%d, but the selector names %v among the messages that exist afterwards/inside retention (removed as past retention during the call: %v)", obs.Matched, idsOf(sel), j.pruned)
		}
		if op.Filter.Preview {
			if obs.N != 0 || !obs.Preview {
				return fail("preview-reports-changes", "preview answered changed=%d preview_only=%v", obs.N, obs.Preview)
			}
			for _, m := range exist {
				if !unchanged(m, "preview-changed-a-message") {
					return j
				}
			}
			return j
		}
		if obs.Preview {
			return fail("real-run-reports-preview", "a real run answered preview_only=true")
		}
		if obs.N != len(sel) {
			return fail(countWhat(obs.N, "changed-count-differs-from-selection"), "changed=%d, but %d selected message(s) %v exist (removed as past retention during the call: %v)", obs.N, len(sel), idsOf(sel), j.pruned)
		}
		picked := map[string]bool{}
		for _, m := range sel {
			picked[m.ID] = true
		}
		for _, m := range exist {
			if picked[m.ID] {
				if !changed(m) {
					return j
				}
			} else if !unchanged(m, "unselected-message-changed") {
				return j
			}
		}
	case op.Kind == "deldead":
		for _, m := range exist {
			if named[m.ID] && m.State == qmodel.Dead {
				return fail("dlq-delete-left-a-named-dead-message", "%s is named, dead and still stored", m.ID)
			}
			if !unchanged(m, "unselected-message-changed") {
				return j
			}
		}
		j.sel = definite
		if obs.N < definite || obs.N > definite+ambiguous {
			return fail("changed-count-differs-from-selection", "deleted=%d, but %d named dead message(s) are gone (%d of them past retention)", obs.N, definite+ambiguous, ambiguous)
		}
	default: // id forms
		n := 0
		for _, m := range exist {
			if named[m.ID] && has(allowed, m.State) {
				n++
				if !changed(m) {
					return j
				}
			} else if !unchanged(m, "unselected-message-changed") {
				return j
			}
		}
		j.sel = n
		for _, m := range all {
			if named[m.ID] && has(allowed, m.State) {
				if a, d := retPrunable(x, pre, m, now); a || d {
					j.ghostPast++
				}
			}
		}
		if obs.N != n || (op.Kind != "rqdead" && obs.Matched != n) {
			what := "changed-count-differs-from-selection"
			if len(j.pruned) > 0 && obs.N > n {
				what = "counted-messages-that-retention-removed"
			}
			return fail(what, "changed=%d matched=%d, but %d named message(s) in an allowed state exist (removed as past retention during the call: %v)", obs.N, obs.Matched, n, j.pruned)
		}
	}
	return j
}

// ---- layers -----------------------------------------------------------------------------------------------------

// retEnv is one way to reach the store: the store API itself, the Admin HTTP handler of the booted application,
// the MCP server in direct-SQLite mode, the MCP server through the Admin API proxy.
type retEnv struct {
	layer, backend string
	worker         int
	sys            *qsys.Sys
	adm            *adminEnv
	mcp            *mcpEnv
	px             *proxyEnv
}

func newRetEnv(layer, backend string, worker int) (*retEnv, error) {
	e := &retEnv{layer: layer, backend: backend, worker: worker}
	switch layer {
	case "admin":
		e.adm = newAdminEnv(900+worker, backend)
	case "mcp":
		m, err := newMCPEnv(900 + worker)
		if err != nil {
			return nil, err
		}
		e.mcp = m
	case "mcp-proxy":
		p, err := newProxyEnv(950+worker, false)
		if err != nil {
			return nil, err
		}
		e.px = p
	}
	return e, nil
}

// configure opens a fresh store with the retention settings c (the environments of the other parts are built
// around a qsys instance without retention: it is replaced).
func (e *retEnv) configure(c qmodel.Config) {
	switch e.layer {
	case "store":
		if e.sys != nil {
			e.sys.Close()
		}
		e.sys = qsys.New(e.backend, c, filepath.Join(runner.Scratch(), fmt.Sprintf("c14ret-%s-%d", e.backend, e.worker)))
	case "admin":
		e.adm.sys.Close()
		e.adm.sys = qsys.New(e.backend, c, filepath.Join(e.adm.dir, "q"))
		e.sys = e.adm.sys
	case "mcp":
		e.mcp.sys.Close()
		e.mcp.sys = qsys.New("sqlite", c, filepath.Join(e.mcp.dir, "q"))
		e.sys = e.mcp.sys
	case "mcp-proxy":
		e.px.sys.Close()
		e.px.adminEnv.sys = qsys.New("memory", c, "")
		e.px.front.sys = e.px.adminEnv.sys
		e.sys = e.px.adminEnv.sys
	}
}

func (e *retEnv) close() {
	switch e.layer {
	case "store":
		if e.sys != nil {
			e.sys.Close()
		}
	case "admin":
		e.adm.close()
	case "mcp":
		e.mcp.sys.Close()
	case "mcp-proxy":
		e.px.close()
	}
}

// ready is called after a population was built (qsys may have replaced the store object).
func (e *retEnv) ready() error {
	switch e.layer {
	case "admin":
		return e.adm.ensureBoot()
	case "mcp-proxy":
		return e.px.ensureBoot()
	}
	return nil
}

func retOpDef(kind string) opDef {
	for _, d := range filterOps {
		if d.Kind == kind {
			return d
		}
	}
	for _, d := range idOps {
		if d.Kind == kind {
			return d
		}
	}
	panic("c14 retention: no endpoint for " + kind)
}

func retArgs(op qmodel.Op, byFilter bool) map[string]any {
	a := map[string]any{}
	if !byFilter {
		a["ids"] = op.IDs
		return a
	}
	f := op.Filter
	if f.Route != "" {
		a["route"] = f.Route
	}
	if f.Target != "" {
		a["target"] = f.Target
	}
	if f.State != "" {
		a["state"] = f.State
	}
	if f.Before != 0 {
		a["before"] = rfc(f.Before)
	}
	if f.Limit != 0 {
		a["limit"] = f.Limit
	}
	if f.Preview {
		a["preview_only"] = true
	}
	return a
}

// mutate performs the operator mutation through the layer. infra != nil: the harness could not make the call.
func (e *retEnv) mutate(op qmodel.Op) (obs *qmodel.Obs, infra error) {
	if e.layer == "store" {
		return e.sys.Do(op), nil
	}
	byFilter := op.Kind == "cancelf" || op.Kind == "requeuef" || op.Kind == "resumef"
	def := retOpDef(op.Kind)
	args := retArgs(op, byFilter)
	refused := func(text string) *qmodel.Obs { return &qmodel.Obs{Err: qmodel.Other, ErrText: clip(text, 300)} }
	if e.layer == "admin" {
		body, _ := json.Marshal(args)
		status, raw := httpDo(e.adm.app.Admin, "POST", def.Path, true, string(body))
		if status < 200 || status > 299 {
			return refused(fmt.Sprintf("POST %s %s answered %d %s", def.Path, body, status, strings.TrimSpace(string(raw)))), nil
		}
		var m map[string]any
		if err := json.Unmarshal(raw, &m); err != nil {
			return refused("answer is not JSON: " + string(raw)), nil
		}
		o, bad := obsFromCounts(m, def, byFilter)
		if bad != "" {
			return refused(bad + ": " + string(raw)), nil
		}
		return o, nil
	}
	args["reason"] = "c14 check"
	var ans *mcpAnswer
	var err error
	if e.layer == "mcp" {
		ans, err = mcpCall(e.mcp.configPath, e.mcp.dbPath, def.Tool, args)
	} else {
		ans, _, err = e.px.call("memory", &mcpCase{Op: def, Args: args, Filter: byFilter}, nil)
	}
	if err != nil {
		return nil, err
	}
	if ans.Refused {
		return refused("tools/call " + def.Tool + " refused: " + ans.Text), nil
	}
	o, bad := obsFromCounts(ans.Structured, def, byFilter)
	if bad != "" {
		return refused(bad + ": " + ans.Text), nil
	}
	return o, nil
}

// trigger: a read that runs the lazy prune when it is due - a worker's poll on an unused route (store, MCP: the
// serving instance's own traffic) or the operator's GET /messages (Admin layer).
func (e *retEnv) trigger() *qmodel.Obs {
	if e.layer == "admin" {
		status, raw := httpDo(e.adm.app.Admin, "GET", "/messages?limit=1", false, "")
		if status != 200 {
			return &qmodel.Obs{Err: qmodel.Other, ErrText: fmt.Sprintf("GET /messages?limit=1 answered %d %s", status, clip(string(raw), 200))}
		}
		return &qmodel.Obs{Err: qmodel.OK}
	}
	o := e.sys.Do(qmodel.Op{Kind: "deq", Route: "/zz", Target: "zz", Batch: 1, TTL: time.Minute})
	if o.Err == qmodel.OK && len(o.Items) != 0 {
		return &qmodel.Obs{Err: qmodel.Other, ErrText: "poll on an unused route returned a message"}
	}
	return o
}

// ---- scenarios --------------------------------------------------------------------------------------------------

// retScen: position of the preview (tp; -1 = no preview: id forms), position of the real run (tr >= tp), and a
// prune-triggering read: 0 none, 1 right after the preview (same instant), 2 right before the real run (same instant).
type retScen struct{ tp, tr, trig int }

func (s retScen) String() string {
	t := [3]string{"", ", read right after the preview", ", read right before the real run"}[s.trig]
	if s.tp < 0 {
		return fmt.Sprintf("real run at %s%s", retPosName[s.tr], t)
	}
	return fmt.Sprintf("preview at %s, real run at %s%s", retPosName[s.tp], retPosName[s.tr], t)
}

// scenario levels: -1 = four scenarios (nothing due; due at the real run only; due at both with a read after the
// preview; overdue with a read before the real run), 0 = seven, 1 = the full product.
func retFilterScens(level int) []retScen {
	switch {
	case level < 0:
		return []retScen{{0, 0, 0}, {0, 2, 0}, {2, 2, 1}, {0, 3, 2}}
	case level == 0:
		return []retScen{{0, 0, 0}, {0, 2, 0}, {2, 2, 0}, {2, 2, 1}, {1, 2, 0}, {3, 3, 0}, {0, 3, 2}}
	}
	var out []retScen
	for tp := 0; tp < 4; tp++ {
		for tr := tp; tr < 4; tr++ {
			out = append(out, retScen{tp, tr, 0}, retScen{tp, tr, 1})
			if tr != tp {
				out = append(out, retScen{tp, tr, 2})
			}
		}
	}
	return out
}

func retIDScens(level int) []retScen {
	if level <= 0 {
		return []retScen{{-1, 0, 0}, {-1, 2, 0}, {-1, 3, 2}}
	}
	var out []retScen
	for tr := 0; tr < 4; tr++ {
		out = append(out, retScen{-1, tr, 0}, retScen{-1, tr, 2})
	}
	return out
}

// retFilterOps: level 0: state{-} x limit{-,1} plus one state-specific selector per operation; level 1: state{-,
// every allowed state} x limit{-,1}; level 2: x route{-,/r1} x before{-, received_at of the edge message}.
func retFilterOps(g *retGeom, level int) []qmodel.Op {
	var out []qmodel.Op
	for _, kind := range []string{"cancelf", "requeuef", "resumef"} {
		states := append([]string{""}, statesFor(kind)...)
		if level == 0 {
			states = []string{"", map[string]string{"cancelf": qmodel.Dead, "requeuef": qmodel.Dead, "resumef": qmodel.Canceled}[kind]}
		}
		routes, befores := []string{""}, []int64{0}
		if level >= 2 {
			routes, befores = []string{"", "/r1"}, []int64{0, g.rcv[1]}
		}
		for _, st := range states {
			for _, ro := range routes {
				for _, be := range befores {
					for _, li := range []int{0, 1} {
						if level == 0 && st != "" && li == 1 {
							continue
						}
						out = append(out, qmodel.Op{Kind: kind, Filter: qmodel.Filter{Route: ro, State: st, Before: be, Limit: li}})
					}
				}
			}
		}
	}
	return out
}

func retIDOps(n int) []qmodel.Op {
	var lists [][]string
	if n == 0 {
		lists = [][]string{{"nope"}}
	}
	all := popIDs(n)
	for _, id := range all {
		lists = append(lists, []string{id})
	}
	if n >= 2 {
		lists = append(lists, all)
	}
	var out []qmodel.Op
	for _, kind := range []string{"cancel", "requeue", "resume", "rqdead", "deldead"} {
		for _, l := range lists {
			out = append(out, qmodel.Op{Kind: kind, IDs: l})
		}
	}
	return out
}

type retCounters struct {
	runs, steps, prunedRuns, pastRuns, pastDueRuns, changedRuns, previewGtReal, leaseProbes, pops int64
	distinct                                                                                      map[string]struct{}
	reported                                                                                      map[string]bool
}

func newRetCounters() *retCounters {
	return &retCounters{distinct: map[string]struct{}{}, reported: map[string]bool{}}
}

func (c *retCounters) flush(r *runner.Run, e *retEnv) {
	tag := e.layer + "_" + e.backend
	r.Add("retention_runs", c.runs)
	r.Add("retention_runs_"+tag, c.runs)
	r.Add("retention_populations_"+tag, c.pops)
	r.Add("retention_judged_steps", c.steps)
	r.Add("retention_runs_where_a_prune_removed_messages", c.prunedRuns)
	r.Add("retention_runs_with_selected_messages_past_retention", c.pastRuns)
	r.Add("retention_runs_with_selected_messages_past_retention_and_prune_due_at_the_real_run", c.pastDueRuns)
	r.Add("retention_runs_that_changed_messages", c.changedRuns)
	r.Add("retention_runs_preview_greater_than_real", c.previewGtReal)
	r.Add("retention_lease_void_probes", c.leaseProbes)
	if e.layer != "store" {
		r.Add("evaluations", c.runs)
	}
	for k := range c.distinct {
		r.Distinct(k)
	}
}

type retCase struct {
	g    *retGeom
	cfg  retCfg
	ks   []retKind
	pop  []int
	op   qmodel.Op
	scen retScen
}

type retOutcome struct {
	what, msg, step string
	infra           error
	pruned, changed bool
	past, pastDue   bool
	mp, mr, n       int
	probes          int
}

// run executes one scenario: build, [preview], [read], real run, [lease probe]; every step is judged.
func (e *retEnv) run(cs *retCase) (out retOutcome) {
	g := cs.g
	w, why := retBuild(e.sys, g, cs.ks, cs.pop)
	if why != "" {
		out.what, out.msg, out.step = "population-build", why, "build"
		return out
	}
	if err := e.ready(); err != nil {
		out.infra = err
		return out
	}
	x := &retCtx{cfg: cs.cfg.c, deliveredAt: w.deliveredAt, cmpNext: e.layer != "mcp"}
	cur := e.sys.Snapshot()
	first := len(cur)
	dueReset := false // a prune ran (or could have run) at an instant >= due: the next one is due an interval later
	step := func(name string, op qmodel.Op, obs *qmodel.Obs, now int64) (retJudgement, bool) {
		post := e.sys.Snapshot()
		j := retJudge(x, op, obs, cur, post, now)
		cur = post
		if len(j.pruned) > 0 {
			out.pruned = true
		}
		if j.what != "" {
			out.what, out.msg, out.step = j.what, j.msg, name
			return j, false
		}
		return j, true
	}
	read := func(now int64) bool {
		o := e.trigger()
		_, ok := step("read", qmodel.Op{Kind: "trigger"}, o, now)
		if now >= g.pos[2] {
			dueReset = true
		}
		return ok
	}
	byFilter := cs.scen.tp >= 0
	if byFilter {
		now := g.pos[cs.scen.tp]
		e.sys.Clk = now
		op := cs.op
		op.Filter.Preview = true
		obs, err := e.mutate(op)
		if err != nil {
			out.infra = err
			return out
		}
		if _, ok := step("preview", op, obs, now); !ok {
			return out
		}
		out.mp = obs.Matched
		if cs.scen.trig == 1 && !read(now) {
			return out
		}
	}
	now := g.pos[cs.scen.tr]
	e.sys.Clk = now
	if cs.scen.trig == 2 && !read(now) {
		return out
	}
	op := cs.op
	op.Filter.Preview = false
	obs, err := e.mutate(op)
	if err != nil {
		out.infra = err
		return out
	}
	j, ok := step("real run", op, obs, now)
	if !ok {
		return out
	}
	out.mr, out.n = obs.Matched, obs.N
	out.changed = obs.N > 0
	out.past = j.ghostPast > 0
	out.pastDue = out.past && cs.scen.tr >= 2 && !dueReset
	if byFilter {
		// the statement's relation between a preview and the real run on the same queue
		if out.mp < out.mr {
			out.what, out.step = "preview-smaller-than-real-run", "real run"
			out.msg = fmt.Sprintf("preview matched %d, the real run matched %d although no message was added in between", out.mp, out.mr)
			return out
		}
		if out.mp != out.mr && len(cur) == first {
			out.what, out.step = "preview-differs-from-real-run", "real run"
			out.msg = fmt.Sprintf("preview matched %d, the real run matched %d, and no message disappeared in between", out.mp, out.mr)
			return out
		}
	}
	for _, id := range j.changedLeas {
		// the lease of a canceled message is void: a worker's ack with it must be refused and change nothing
		o := e.sys.Do(qmodel.Op{Kind: "ack", Lease: w.lease[id]})
		post := e.sys.Snapshot()
		out.probes++
		if o.Err == qmodel.OK || snapDiff(cur, post) != "" {
			out.what, out.step = "lease-not-void-after-cancel", "lease probe"
			out.msg = fmt.Sprintf("after the cancel of leased %s, ack with its old lease answered %s and the queue: %s", id, o.Err, snapDiff(cur, post))
			return out
		}
	}
	return out
}

func (e *retEnv) runCase(r *runner.Run, cs *retCase, c *retCounters) bool {
	out := e.run(cs)
	for try := 0; try < 2 && out.infra == nil && out.what == "call-failed" && e.layer == "mcp-proxy"; try++ {
		// the only verdict that real time can produce (as in the mcp-proxy part): on a loaded machine a loopback dial or
		// the MCP client's own timeout may fail although nothing is wrong. A refusal made by the code repeats, a hiccup
		// does not; every run builds its own population, so a re-run is the same case.
		r.Add("retention_mcp-proxy_transient_call_failures", 1)
		out = e.run(cs)
	}
	if out.infra != nil {
		r.Infra("c14 retention (%s/%s): population %v, %s, %s: %v", e.layer, e.backend, retDesc(cs.ks, cs.pop), cs.op, cs.scen, out.infra)
		return false
	}
	c.runs++
	c.steps += 1
	if cs.scen.tp >= 0 {
		c.steps++
	}
	if cs.scen.trig != 0 {
		c.steps++
	}
	if out.pruned {
		c.prunedRuns++
	}
	if out.past {
		c.pastRuns++
	}
	if out.pastDue {
		c.pastDueRuns++
	}
	if out.changed {
		c.changedRuns++
	}
	if out.mp > out.mr {
		c.previewGtReal++
	}
	c.leaseProbes += int64(out.probes)
	if out.what == "" {
		c.distinct[fmt.Sprintf("ret:%s:%s:%s:%s:past=%v:pruned=%v:n%d:mp%d:mr%d", e.layer, e.backend, cs.cfg.name, cs.op.Kind, out.past, out.pruned, out.n, out.mp, out.mr)] = struct{}{}
		return true
	}
	key := fmt.Sprintf("retention:%s:%s:%s:%s", e.layer, e.backend, cs.op.Kind, out.what)
	if c.reported[key] {
		return true
	}
	c.reported[key] = true
	desc := retDesc(cs.ks, cs.pop)
	// which of several equally old dead messages a max_depth prune removes is the implementation's free choice (on the
	// memory backend it follows the map iteration order: about one run in eight goes the other way): a failure that
	// depends on it reproduces only in some re-runs
	recheck := func() bool {
		for i := 0; i < 200; i++ {
			if o2 := e.run(cs); o2.infra == nil && o2.what == out.what {
				return true
			}
		}
		return false
	}
	r.Violation(key, fmt.Sprintf("[%s/%s] retention %s (prune_interval %s, max_age %s, delivered %s; received_at %s), population %v, %s, %s - at the %s: %s",
		e.layer, e.backend, cs.cfg.name, cs.g.I, cs.g.A, cs.g.D, cs.g.name, desc, cs.op, cs.scen, out.step, out.msg),
		map[string]any{"engine": "retention", "layer": e.layer, "backend": e.backend, "retention": cs.cfg.name, "received_at": cs.g.name, "population": desc, "op": cs.op.String(), "scenario": cs.scen.String()}, recheck)
	return true
}

// ---- enumeration ------------------------------------------------------------------------------------------------

type retPlan struct {
	layer, backend string
	geoms          []int    // indexes into retGeoms()
	cfgs           []string // nil = all
	popLevel       int
	opLevel        int
	scenLevel      int
	idOps          bool
	workers        int // layer plans: goroutines, each with an environment of its own (0 = 1)
}

func (p retPlan) wantsCfg(name string) bool {
	if p.cfgs == nil {
		return true
	}
	return has(p.cfgs, name)
}

type retItem struct {
	g   *retGeom
	cfg retCfg
	ks  []retKind
	pop []int
}

// items: the (geometry, configuration, population) triples of a plan. Kinds in state delivered exist only where
// delivered retention keeps such messages.
func (p retPlan) items() []retItem {
	var out []retItem
	gs := retGeoms()
	for _, gi := range p.geoms {
		g := gs[gi]
		for _, cf := range retCfgs(g) {
			if !p.wantsCfg(cf.name) {
				continue
			}
			ks := retAllKinds()
			pops := retPops(ks, p.popLevel)
			// populations with messages that retention can remove come first (only matters when a time budget ends the part early)
			score := func(pop []int) int {
				n := 0
				for _, ki := range pop {
					if k := ks[ki]; k.rcv != 2 && (k.state == qmodel.Dead || k.state == qmodel.Queued) {
						n++
					}
				}
				return n
			}
			sort.SliceStable(pops, func(a, b int) bool { return score(pops[a]) > score(pops[b]) })
			for _, pop := range pops {
				skip := false
				for _, ki := range pop {
					if ks[ki].state == qmodel.Delivered && cf.c.DeliveredMaxAge == 0 {
						skip = true
					}
				}
				if !skip {
					out = append(out, retItem{g, cf, ks, pop})
				}
			}
		}
	}
	return out
}

// runItems runs the items i with i % of == me on one environment.
func (p retPlan) runItems(r *runner.Run, e *retEnv, items []retItem, me, of int, deadline time.Time, c *retCounters) {
	var curG *retGeom
	curCfg := ""
	fsc, isc := retFilterScens(p.scenLevel), retIDScens(p.scenLevel)
	for i := me; i < len(items); i += of {
		it := items[i]
		if time.Now().After(deadline) {
			r.NotExhaustive(fmt.Sprintf("retention part time budget: %s/%s worker %d stopped before item %d of %d", p.layer, p.backend, me, i, len(items)))
			return
		}
		if it.g != curG || it.cfg.name != curCfg {
			e.configure(it.cfg.c)
			curG, curCfg = it.g, it.cfg.name
		}
		for _, op := range retFilterOps(it.g, p.opLevel) {
			for _, sc := range fsc {
				if !e.runCase(r, &retCase{it.g, it.cfg, it.ks, it.pop, op, sc}, c) {
					return
				}
			}
		}
		if p.idOps {
			for _, op := range retIDOps(len(it.pop)) {
				for _, sc := range isc {
					if !e.runCase(r, &retCase{it.g, it.cfg, it.ks, it.pop, op, sc}, c) {
						return
					}
				}
			}
		}
		c.pops++
	}
}

func retStorePlans(r *runner.Run) []retPlan {
	noDeliveredOnly := []string{"queue_retention.max_age", "dlq_retention.max_age", "dlq_retention.max_depth=1", "all"}
	if r.Quick() {
		return []retPlan{
			{layer: "store", backend: "memory", geoms: []int{0}, popLevel: 0, opLevel: 1, scenLevel: 1, idOps: true},
			{layer: "store", backend: "memory", geoms: []int{0}, popLevel: 0, opLevel: 2, scenLevel: 0},
			{layer: "store", backend: "memory", geoms: []int{0}, popLevel: 1, opLevel: 0, scenLevel: 0, idOps: true},
			{layer: "store", backend: "memory", geoms: []int{1}, popLevel: 0, opLevel: 1, scenLevel: 0, idOps: true},
			{layer: "store", backend: "sqlite", geoms: []int{0}, cfgs: noDeliveredOnly, popLevel: -1, opLevel: 0, scenLevel: 0, idOps: true},
			{layer: "store", backend: "sqlite", geoms: []int{1}, cfgs: []string{"all"}, popLevel: -1, opLevel: 0, scenLevel: -1},
		}
	}
	return []retPlan{
		{layer: "store", backend: "memory", geoms: []int{0, 1}, popLevel: 3, opLevel: 2, scenLevel: 1, idOps: true},
		{layer: "store", backend: "sqlite", geoms: []int{0}, popLevel: 1, opLevel: 1, scenLevel: 0, idOps: true},
		{layer: "store", backend: "sqlite", geoms: []int{0, 1}, popLevel: 0, opLevel: 1, scenLevel: 1, idOps: true},
	}
}

func retLayerPlans(r *runner.Run) []retPlan {
	if r.Quick() {
		return []retPlan{
			{layer: "admin", backend: "memory", geoms: []int{0}, popLevel: 0, opLevel: 0, scenLevel: 0, workers: 2},
			{layer: "admin", backend: "sqlite", geoms: []int{0}, cfgs: []string{"all"}, popLevel: -1, opLevel: 0, scenLevel: 0, idOps: true},
			{layer: "mcp-proxy", backend: "memory", geoms: []int{0}, cfgs: []string{"all"}, popLevel: -1, opLevel: 0, scenLevel: 0},
			{layer: "mcp", backend: "sqlite", geoms: []int{0}, cfgs: []string{"all"}, popLevel: -1, opLevel: 0, scenLevel: -1},
		}
	}
	return []retPlan{
		{layer: "admin", backend: "memory", geoms: []int{0, 1}, popLevel: 1, opLevel: 1, scenLevel: 0, idOps: true, workers: 4},
		{layer: "admin", backend: "memory", geoms: []int{0, 1}, popLevel: 0, opLevel: 1, scenLevel: 1, idOps: true, workers: 3},
		{layer: "admin", backend: "sqlite", geoms: []int{0, 1}, popLevel: 0, opLevel: 1, scenLevel: 0, idOps: true, workers: 2},
		{layer: "mcp-proxy", backend: "memory", geoms: []int{0, 1}, popLevel: 0, opLevel: 1, scenLevel: 0, idOps: true, workers: 2},
		{layer: "mcp", backend: "sqlite", geoms: []int{0, 1}, cfgs: []string{"dlq_retention.max_age", "all"}, popLevel: 0, opLevel: 0, scenLevel: 0, idOps: true, workers: 2},
	}
}

func retSelfCheck(r *runner.Run) bool {
	for _, g := range retGeoms() {
		if why := g.selfCheck(); why != "" {
			r.Infra("c14 retention: time geometry %s is inconsistent: %s", g.name, why)
			return false
		}
	}
	return true
}

// retentionStoreJob: the store-API layer, spread over the job children of the store part.
func retentionStoreJob(r *runner.Run, ji, shards, worker int, budget time.Duration) {
	if !retSelfCheck(r) {
		return
	}
	end := time.Now().Add(budget)
	plans := retStorePlans(r)
	for i, p := range plans {
		// every plan gets an equal slice of what is left of the budget; time a plan does not use goes to the later ones
		deadline := time.Now().Add(time.Until(end) / time.Duration(len(plans)-i))
		e, _ := newRetEnv(p.layer, p.backend, worker)
		c := newRetCounters()
		p.runItems(r, e, p.items(), ji, shards, deadline, c)
		c.flush(r, e)
		r.Add("evaluations", c.runs)
		e.close()
	}
}

// retentionLayersPart: the same scenarios through the Admin HTTP handler and the two MCP modes (parent process).
func retentionLayersPart(r *runner.Run) {
	start := time.Now()
	if !retSelfCheck(r) {
		return
	}
	deadline := start.Add(runner.Pick(r, 30*time.Second, 5*time.Minute))
	var wg sync.WaitGroup
	for pi, p := range retLayerPlans(r) {
		workers := max(p.workers, 1)
		items := p.items()
		for wi := 0; wi < workers; wi++ {
			wg.Add(1)
			go func(p retPlan, wi, workers int) {
				defer wg.Done()
				e, err := newRetEnv(p.layer, p.backend, pi*8+wi) // scratch directories are named by layer and worker number
				if err != nil {
					r.Infra("c14 retention (%s/%s): %v", p.layer, p.backend, err)
					return
				}
				defer e.close()
				c := newRetCounters()
				p.runItems(r, e, items, wi, workers, deadline, c)
				c.flush(r, e)
			}(p, wi, workers)
		}
	}
	wg.Wait()
	r.Set("retention_layers_wall_s", time.Since(start).Seconds())
}

func retentionRule(r *runner.Run) {
	gs := retGeoms()
	r.Set("retention_rule", fmt.Sprintf("stores opened WITH retention: configurations {queue_retention.max_age, dlq_retention.max_age, dlq_retention.max_depth=1, delivered_retention.max_age, all of them} with a prune_interval; "+
		"two time geometries: received_at explicit (prune_interval %s, max_age %s, delivered %s, population built in one instant) and received_at stamped from the injected clock (prune_interval %s, max_age %s: the population is built along the clock); "+
		"populations of <= 2 (thorough: + triples) messages over route{/r1,/r2} x state(5) x age{old: past max_age, edge: reaches max_age exactly when the prune becomes due, fresh}; "+
		"cancel/requeue/resume-by-filter with state{-, allowed states} x route x before{-, edge} x limit{-,1} as preview then real run, clock at {prune not due, 1 ns before due, due exactly now, overdue} for the preview and (>=) for the real run x prune-triggering read {none, right after the preview, right before the real run}; "+
		"id forms (cancel, requeue, resume, dlq requeue, dlq delete; single ids and all) at the four clock positions x read before; layers: store API on MemoryStore and SQLiteStore (job children), Admin HTTP on both, MCP direct-SQLite, MCP through the Admin proxy; "+
		"oracle: per message 'gone => was past retention before the call, not counted' / 'still there => changed iff the reference selection over the surviving messages picks it', matched == changed == size of that selection, preview touches nothing, preview >= real and equal when nothing disappeared, canceled lease void",
		gs[0].I, gs[0].A, gs[0].D, gs[1].I, gs[1].A))
	r.Assume("retention part: a message exactly max_age old counts as removable (the implementation's comparison; the documentation says 'older than'); the lazy prune may remove any subset of the removable messages at any call (no claim about WHEN a due prune runs), but a message that is counted by an operator mutation must exist afterwards in the changed state")
	r.Assume("retention part: in direct-SQLite mode the MCP server opens the database without retention options and with the wall clock; the retention settings act through the serving store handle (the prune-triggering read), next_run_at of changed rows is not compared there")
}

// retentionOnly is a development aid (VERIF_C14_ONLY=retention): the retention part alone, in process.
func retentionOnly(r *runner.Run) {
	if os.Getenv("VERIF_C14_ONLY") != "retention" {
		return
	}
	if _, child := runner.IsShard(); child {
		return
	}
	which := os.Getenv("VERIF_C14_RET") // "", "store", "layers"
	done := make(chan struct{})
	go func() {
		defer close(done)
		if which != "store" {
			retentionLayersPart(r)
		}
	}()
	var wg sync.WaitGroup
	n := 8
	for ji := 0; ji < n && which != "layers"; ji++ {
		wg.Add(1)
		go func(ji int) { defer wg.Done(); retentionStoreJob(r, ji, n, 100+ji, 10*time.Minute) }(ji)
	}
	wg.Wait()
	<-done
	retentionRule(r)
	r.Set("rule", "VERIF_C14_ONLY=retention")
	r.NotExhaustive("VERIF_C14_ONLY=retention: only the retention part was run")
	r.Finish()
}
