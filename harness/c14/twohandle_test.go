package c14

import (
	"fmt"
	"path/filepath"
	"testing"
	"time"

	"github.com/nuetzliches/hookaido/internal/verifkit/lin"
	"github.com/nuetzliches/hookaido/internal/verifkit/qmodel"
	"github.com/nuetzliches/hookaido/internal/verifkit/qsched"
	"github.com/nuetzliches/hookaido/internal/verifkit/runner"
	"github.com/nuetzliches/hookaido/internal/verifkit/sched"
	"github.com/nuetzliches/hookaido/internal/verifkit/schedrun"
)

// C14 instance of the two-handle exploration (see harness/c02/sched_test.go): an operator mutation through the MCP
// server's direct SQLite handle against a worker's settlement through the gateway's handle - "voids the lease of a
// leased message it cancels", "reported counts equal messages actually changed", whatever the interleaving.
// Two handles on one SQLite file: the gateway's store and the store the MCP server's direct mode opens on the same
// file (queue.NewSQLiteStore(path) with default options; it cancels / requeues / resumes / deletes and lists). Every
// interleaving of the two handles' statements that SQLite's locking admits is explored: reads and BEGIN IMMEDIATE
// outside a write transaction are the scheduling points (vsql statement mode). Oracle: linearizability of the recorded
// calls against qmodel (which is the C02 state machine: an operation acts on the state some serial order produced,
// never on a row it looked up before another handle changed it) plus the lease monitor.

const sec = time.Second

func envH(id string) qmodel.EnvSpec {
	return qmodel.EnvSpec{ID: id, Route: "/r", Target: "pull", Payload: []byte(id)}
}

func deqH(batch int) qsched.Step {
	return qsched.Step{Op: qmodel.Op{Kind: "deq", Route: "/r", Batch: batch, TTL: sec}}
}

func opH(kind string, ids ...string) qsched.Step {
	return qsched.Step{Op: qmodel.Op{Kind: kind, IDs: ids}}
}

func twoHandleScenarios14(thorough bool) []qsched.Scenario {
	mk := func(name string, gateway [][]qsched.Step, mcp []qsched.Step, ticks []time.Duration, setup ...string) qsched.Scenario {
		sc := qsched.Scenario{Name: "two-handles-" + name, Backend: "sqlite", SecondHandle: true, Ticks: ticks,
			Dir: filepath.Join(runner.Scratch(), "c14-"+name)}
		for _, id := range setup {
			sc.Setup = append(sc.Setup, qmodel.Op{Kind: "enq", Envs: []qmodel.EnvSpec{envH(id)}})
		}
		for i, steps := range gateway {
			sc.Threads = append(sc.Threads, qsched.Thread{Name: fmt.Sprintf("gw%d", i+1), Steps: steps})
		}
		sc.Threads = append(sc.Threads, qsched.Thread{Name: "mcp", Steps: mcp, Second: true})
		return sc
	}
	own := func(kind string) qsched.Step { return qsched.Step{Op: qmodel.Op{Kind: kind, Lease: "own"}} }
	ownb := func(kind string, hs ...string) qsched.Step { return qsched.Step{Op: qmodel.Op{Kind: kind, Leases: hs}} }
	out := []qsched.Scenario{
		// a batch settlement racing with an operator cancel + requeue of the same message
		mk("ackb-vs-cancel-requeue", [][]qsched.Step{{deqH(1), ownb("ackb", "own")}}, []qsched.Step{opH("cancel", "a"), opH("requeue", "a")}, nil, "a", "b"),
		mk("nackb-vs-cancel-requeue", [][]qsched.Step{{deqH(2), ownb("nackb", "own", "own2")}}, []qsched.Step{opH("cancel", "a"), opH("requeue", "a")}, nil, "a", "b"),
		// single settlements
		mk("ack-vs-cancel-resume", [][]qsched.Step{{deqH(1), own("ack")}}, []qsched.Step{opH("cancel", "a"), opH("resume", "a")}, nil, "a"),
		// dead-letter + DLQ operations from the other handle
		mk("dead-vs-dlq", [][]qsched.Step{{deqH(1), own("dead")}}, []qsched.Step{opH("rqdead", "a"), opH("deldead", "a")}, nil, "a", "b"),
	}
	if thorough {
		out = append(out,
			mk("deadb-vs-cancel-requeue", [][]qsched.Step{{deqH(2), ownb("deadb", "own", "own2")}}, []qsched.Step{opH("cancel", "a", "b"), opH("requeue", "b")}, nil, "a", "b"),
			mk("two-consumers-vs-cancel", [][]qsched.Step{{deqH(1), own("ack")}, {deqH(1), own("nack")}}, []qsched.Step{opH("cancel", "a"), opH("requeue", "a")}, nil, "a", "b"),
			mk("expiry-ext-vs-requeue", [][]qsched.Step{{deqH(1), own("ext"), own("ack")}}, []qsched.Step{opH("cancel", "a"), opH("requeue", "a")}, []time.Duration{sec}, "a"),
			mk("filter-cancel-vs-nack", [][]qsched.Step{{deqH(1), own("nack"), deqH(1)}},
				[]qsched.Step{{Op: qmodel.Op{Kind: "cancelf", Filter: qmodel.Filter{Route: "/r"}}}, {Op: qmodel.Op{Kind: "resumef", Filter: qmodel.Filter{Route: "/r"}}}}, nil, "a", "b"),
		)
		// the gateway handle's "queue is probably full" flag against space freed through the other handle
		full := mk("full-flag-vs-cancel", [][]qsched.Step{{
			{Op: qmodel.Op{Kind: "enq", Envs: []qmodel.EnvSpec{envH("c")}}}, {Op: qmodel.Op{Kind: "enq", Envs: []qmodel.EnvSpec{envH("c")}}}, deqH(2)}},
			[]qsched.Step{opH("cancel", "a"), opH("requeue", "a")}, nil, "a", "b")
		full.Cfg = qmodel.Config{MaxDepth: 2}
		out = append(out, full)
	}
	return out
}

func twoHandlePart14(r *runner.Run, t *testing.T) {
	scs := twoHandleScenarios14(r.Thorough())
	budget := runner.Pick(r, 40*time.Second, 10*time.Minute) / time.Duration(len(scs))
	for _, sc := range scs {
		body, rec := qsched.Body(sc)
		oracle := func(x *sched.Exec) {
			if why := qsched.Exclusivity(rec, sec); why != "" {
				sched.Failf("lease exclusivity: %s", why)
			}
			if why := lin.Check(rec.Init, rec.Events); why != "" {
				sched.Failf("%s", why)
			}
		}
		schedrun.Run(r, t, schedrun.Spec{Name: sc.Name, Bound: -1, Sleep: true, Shards: 16, Budget: budget, Body: body, Oracle: oracle,
			VioKey: func(f *sched.Failure) string { return "operator-vs-worker-two-handles:" + sc.Name }})
	}
	r.Assume("two-handle part: the second handle stays open for the whole scenario (the MCP server opens and closes it per tool call; open/migrate/close themselves are not interleaved), both handles live in one process (SQLite's locking between connections of one process and between processes follows the same protocol), unbounded interleavings under sleep-set reduction")
}
