package c14

import (
	"fmt"
	"time"

	"github.com/nuetzliches/hookaido/internal/verifkit/qmodel"
	"github.com/nuetzliches/hookaido/internal/verifkit/qsys"
	"github.com/nuetzliches/hookaido/internal/verifkit/runner"
)

// "Untouched" also means: what a LATER operation does with a message is what it would have done without the operator
// mutation. A store may keep bookkeeping next to the rows (arrival order, lease table, counters, indexes) that no listing
// shows; a mutation that damages it for a message it did not select leaves the listing right and the message stuck.
//
// laterProbe therefore continues every history of the enumeration with the fixed continuation below, each step judged by
// the reference model (full snapshot comparison included). The continuation is chosen so that every message that is not
// delivered is handed to a consumer at least once, whatever state the mutation left it in:
//
//	1. dequeue everything (no route/target filter)          -> every queued message is served now
//	2. resume all ids, requeue all ids, dequeue everything  -> every canceled / dead message is served after its operator step
//	3. clock past every lease, dequeue everything           -> every leased message (old leases and those of 1./2.) is served again
//
// It returns the step that failed and the model's complaint.
const probeTTL = time.Hour

func laterProbe(sys *qsys.Sys, w *world, served *[3]int) (step, why string) {
	do := func(op qmodel.Op) (*qmodel.Obs, string) {
		obs := sys.Do(op)
		return obs, w.m.Apply(op, obs, sys.Snapshot())
	}
	all := append([]string{}, w.ids...)
	deqAll := qmodel.Op{Kind: "deq", Batch: 100, TTL: probeTTL}
	obs, why := do(deqAll)
	if why != "" {
		return "dequeue", why
	}
	served[0] = len(obs.Items)
	if len(all) > 0 {
		if _, why = do(qmodel.Op{Kind: "resume", IDs: all}); why != "" {
			return "resume-all", why
		}
		if _, why = do(qmodel.Op{Kind: "requeue", IDs: all}); why != "" {
			return "requeue-all", why
		}
	}
	if obs, why = do(deqAll); why != "" {
		return "dequeue-after-resume+requeue", why
	}
	served[1] = len(obs.Items)
	if _, why = do(qmodel.Op{Kind: "tick", Dur: probeTTL + time.Second}); why != "" {
		return "tick", why
	}
	if obs, why = do(deqAll); why != "" {
		return "dequeue-after-lease-expiry", why
	}
	served[2] = len(obs.Items)
	return "", ""
}

// probeLater runs the continuation on the world as it is (after `last`, preceded by `quiet` operations since the
// population was built that reported no change). On a failure it decides whom to blame by replaying only `last` on a
// freshly built population: if the continuation still fails the key names that operation, otherwise the run of
// operations that reported "nothing changed".
func probeLater(r *runner.Run, sys *qsys.Sys, ks []kind, pop []int, popDesc []string, w *world, last *qmodel.Op, quiet int) {
	var served [3]int
	step, why := laterProbe(sys, w, &served)
	r.Add("later_probes", 1)
	r.Add("later_probe_messages_served", int64(served[0]+served[1]+served[2]))
	name := "quiet-run"
	if last != nil {
		name = last.Kind
	}
	if why == "" {
		r.Distinct(fmt.Sprintf("later:%s:served%d+%d+%d", name, served[0], served[1], served[2]))
		return
	}
	blame, opText := "quiet-run", fmt.Sprintf("%d operation(s) that reported no change", quiet)
	if last != nil {
		opText = fmt.Sprintf("%s (after %d operation(s) that reported no change)", last, quiet)
		if w2, bwhy := build(sys, ks, pop); bwhy == "" {
			obs := sys.Do(*last)
			if w2.m.Apply(*last, obs, sys.Snapshot()) == "" {
				var s2 [3]int
				if step2, why2 := laterProbe(sys, w2, &s2); why2 != "" {
					blame, step, why = last.Kind, step2, why2
					opText = last.String()
				}
			}
		}
	}
	key := fmt.Sprintf("%s:%s:later:%s:%s", sys.Backend, blame, step, firstWords(why, 4))
	r.Violation(key, fmt.Sprintf("[%s] population %v, %s was judged correct by counts and listing, but the queue does not behave as if the other messages were untouched; continuation step %q: %s",
		sys.Backend, popDesc, opText, step, why),
		map[string]any{"engine": "enum", "backend": sys.Backend, "population": popDesc, "op": opText, "continuation_step": step}, nil)
}
