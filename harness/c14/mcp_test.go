package c14

// C14, MCP layer (reduced): the queue mutation tools of `hookaido mcp` driven through framed JSON-RPC tools/call
// (role operate, mutations enabled, principal set, reason given) against the SQLite database file that qsys
// built, i.e. the "direct SQLite access" mode of docs/mcp.md. The MCP server opens its own SQLiteStore with the
// wall clock, so next_run_at of a row the call changed is not compared (no wall-clock oracle); everything else
// (state, lease columns, attempt, dead_reason, payload, every untouched row completely) is.

import (
	"bufio"
	"bytes"
	"context"
	"encoding/json"
	"errors"
	"fmt"
	"io"
	"os"
	"path/filepath"
	"strconv"
	"strings"
	"sync"
	"sync/atomic"
	"time"

	"github.com/nuetzliches/hookaido/internal/mcp"
	"github.com/nuetzliches/hookaido/internal/verifkit/qmodel"
	"github.com/nuetzliches/hookaido/internal/verifkit/qsys"
	"github.com/nuetzliches/hookaido/internal/verifkit/runner"
)

type mcpCase struct {
	Op     opDef
	Args   map[string]any
	Expect int
	Label  string
	MOp    qmodel.Op
	Filter bool
}

func mcpArgs(kv ...any) map[string]any {
	m := map[string]any{"reason": "c14 check"}
	for i := 0; i+1 < len(kv); i += 2 {
		m[kv[i].(string)] = kv[i+1]
	}
	return m
}

// mcpFilterCases: union of two full products (A) route x state x before{-,T1} x preview and
// (B) target x before x limit x preview, per by-filter tool.
func mcpFilterCases() []mcpCase {
	var out []mcpCase
	for _, op := range filterOps {
		allowed := statesFor(op.Kind)
		seen := map[string]bool{}
		add := func(ro, ta, st string, be int64, li optInt, pv bool) {
			a := mcpArgs()
			if ro != "" {
				a["route"] = ro
			}
			if ta != "" {
				a["target"] = ta
			}
			if st != "" {
				a["state"] = st
			}
			if be != 0 {
				a["before"] = rfc(be)
			}
			if li.Set {
				a["limit"] = li.V
			}
			if pv {
				a["preview_only"] = true
			}
			k, _ := json.Marshal(a)
			if seen[string(k)] {
				return
			}
			seen[string(k)] = true
			c := mcpCase{Op: op, Args: a, Expect: mustOK, Label: "plain", Filter: true,
				MOp: qmodel.Op{Kind: op.Kind, Filter: qmodel.Filter{Route: ro, Target: ta, State: st, Before: be, Limit: li.V, Preview: pv}}}
			if lbl, o := limitLabel(li); o {
				c.Expect, c.Label = either, lbl
			}
			if st == "bogus" {
				c.Expect, c.Label = either, "state-unknown"
			} else if st != "" && !has(allowed, st) {
				c.Expect, c.Label = either, "state-not-defined-for-operation"
			}
			out = append(out, c)
		}
		for _, pv := range []bool{false, true} {
			for _, ro := range []string{"", "/r1", "/r2"} {
				for _, st := range stateDomain {
					for _, be := range []int64{0, t1} {
						add(ro, "", st, be, optInt{}, pv)
					}
				}
			}
			for _, ta := range []string{"", pullTarget} {
				for _, be := range []int64{0, t0, t1, t1 + 1} {
					for _, li := range limitDomain {
						add("", ta, "", be, li, pv)
					}
				}
			}
		}
	}
	return out
}

func mcpIDCases(n int) []mcpCase {
	var out []mcpCase
	ids := popIDs(n)
	sel := ids
	if n == 0 {
		sel = []string{"nope"}
	}
	for _, op := range idOps {
		for _, l := range adminIDLists(n) {
			if l.Label == "ids-1000-entries" {
				continue
			}
			a := mcpArgs()
			if l.IDs != nil {
				a["ids"] = l.IDs
			}
			out = append(out, mcpCase{Op: op, Args: a, Expect: l.Expect, Label: l.Label, MOp: qmodel.Op{Kind: op.Kind, IDs: l.IDs}})
		}
		// documented refusals: unknown argument, missing reason
		out = append(out, mcpCase{Op: op, Args: mcpArgs("ids", sel, "bogus_field", 1), Expect: mustReject, Label: "unknown-argument"},
			mcpCase{Op: op, Args: mcpArgs("ids", sel, "preview_only", true), Expect: mustReject, Label: "unknown-argument-preview_only"},
			mcpCase{Op: op, Args: map[string]any{"ids": sel}, Expect: mustReject, Label: "no-reason"})
	}
	for _, op := range filterOps {
		out = append(out, mcpCase{Op: op, Args: mcpArgs("limit", 2, "bogus_field", 1), Expect: mustReject, Label: "unknown-argument", Filter: true},
			mcpCase{Op: op, Args: mcpArgs("limit", 2, "ids", sel), Expect: mustReject, Label: "unknown-argument-ids", Filter: true},
			mcpCase{Op: op, Args: map[string]any{"limit": 2}, Expect: mustReject, Label: "no-reason", Filter: true})
	}
	return out
}

// ---- framed JSON-RPC session ------------------------------------------------------------------------------------

func mcpWriteFrame(w *bytes.Buffer, msg any) {
	b, err := json.Marshal(msg)
	if err != nil {
		panic(err)
	}
	fmt.Fprintf(w, "Content-Length: %d\r\n\r\n", len(b))
	w.Write(b)
}

func mcpReadFrames(b []byte) ([]map[string]any, error) {
	r := bufio.NewReader(bytes.NewReader(b))
	var out []map[string]any
	for {
		n := -1
		sawHeader := false
		for {
			line, err := r.ReadString('\n')
			if err != nil {
				if err == io.EOF && !sawHeader && strings.TrimSpace(line) == "" {
					return out, nil
				}
				return out, fmt.Errorf("truncated frame header: %v", err)
			}
			sawHeader = true
			line = strings.TrimRight(line, "\r\n")
			if line == "" {
				break
			}
			if i := strings.IndexByte(line, ':'); i > 0 && strings.EqualFold(strings.TrimSpace(line[:i]), "Content-Length") {
				v, err := strconv.Atoi(strings.TrimSpace(line[i+1:]))
				if err != nil {
					return out, fmt.Errorf("bad content length %q", line)
				}
				n = v
			}
		}
		if n < 0 {
			return out, errors.New("frame without content length")
		}
		payload := make([]byte, n)
		if _, err := io.ReadFull(r, payload); err != nil {
			return out, fmt.Errorf("truncated frame body: %v", err)
		}
		var m map[string]any
		if err := json.Unmarshal(payload, &m); err != nil {
			return out, fmt.Errorf("frame is not a JSON object: %v", err)
		}
		out = append(out, m)
	}
}

type mcpAnswer struct {
	Refused    bool // JSON-RPC error or result.isError
	Structured map[string]any
	Text       string
}

// mcpCall runs one session: initialize, notifications/initialized, one tools/call.
func mcpCall(configPath, dbPath, tool string, args map[string]any) (*mcpAnswer, error) {
	var in, out bytes.Buffer
	mcpWriteFrame(&in, map[string]any{"jsonrpc": "2.0", "id": 1, "method": "initialize", "params": map[string]any{
		"protocolVersion": "2024-11-05", "capabilities": map[string]any{}, "clientInfo": map[string]any{"name": "verif-c14", "version": "0"}}})
	mcpWriteFrame(&in, map[string]any{"jsonrpc": "2.0", "method": "notifications/initialized"})
	mcpWriteFrame(&in, map[string]any{"jsonrpc": "2.0", "id": 2, "method": "tools/call", "params": map[string]any{"name": tool, "arguments": args}})
	srv := mcp.NewServer(&in, &out, configPath, dbPath,
		mcp.WithRole(mcp.RoleOperate), mcp.WithMutationsEnabled(true), mcp.WithPrincipal("c14-operator"), mcp.WithAuditWriter(io.Discard))
	if err := srv.Serve(context.Background()); err != nil {
		return nil, fmt.Errorf("serve: %v", err)
	}
	frames, err := mcpReadFrames(out.Bytes())
	if err != nil {
		return nil, err
	}
	for _, f := range frames {
		id, ok := f["id"].(float64)
		if !ok || int(id) != 2 {
			continue
		}
		b, _ := json.Marshal(f)
		a := &mcpAnswer{Text: string(b)}
		if f["error"] != nil {
			a.Refused = true
			return a, nil
		}
		res, _ := f["result"].(map[string]any)
		if res == nil {
			return nil, fmt.Errorf("tools/call answered with neither result nor error: %s", b)
		}
		if v, ok := res["isError"].(bool); ok && v {
			a.Refused = true
			return a, nil
		}
		a.Structured, _ = res["structuredContent"].(map[string]any)
		if a.Structured == nil {
			return nil, fmt.Errorf("tools/call result without structuredContent: %s", b)
		}
		return a, nil
	}
	return nil, fmt.Errorf("no response for the tools/call request (%d frames)", len(frames))
}

// ---- comparison -------------------------------------------------------------------------------------------------

// sameRow compares every column; next_run_at only when the row is one the call must not have touched.
func sameRow(want *qmodel.Msg, got *qmodel.Msg, touched bool) string {
	switch {
	case want.Route != got.Route:
		return "route"
	case want.Target != got.Target:
		return "target"
	case want.State != got.State:
		return fmt.Sprintf("state %s/%s", want.State, got.State)
	case want.ReceivedAt != got.ReceivedAt:
		return "received_at"
	case want.Attempt != got.Attempt:
		return fmt.Sprintf("attempt %d/%d", want.Attempt, got.Attempt)
	case !bytes.Equal(want.Payload, got.Payload):
		return "payload"
	case !eqStrMap(want.Headers, got.Headers):
		return "headers"
	case !eqStrMap(want.Trace, got.Trace):
		return "trace"
	case want.DeadReason != got.DeadReason:
		return fmt.Sprintf("dead_reason %q/%q", want.DeadReason, got.DeadReason)
	case want.SchemaVersion != got.SchemaVersion:
		return "schema_version"
	case want.Lease != got.Lease:
		return fmt.Sprintf("lease %q/%q", want.Lease, got.Lease)
	case want.LeaseUntil != got.LeaseUntil:
		return fmt.Sprintf("lease_until %d/%d", want.LeaseUntil, got.LeaseUntil)
	case !touched && want.NextRunAt != got.NextRunAt:
		return fmt.Sprintf("next_run_at %d/%d", want.NextRunAt, got.NextRunAt)
	}
	return ""
}

func eqStrMap(a, b map[string]string) bool {
	if len(a) != len(b) {
		return false
	}
	for k, v := range a {
		if w, ok := b[k]; !ok || w != v {
			return false
		}
	}
	return true
}

// rowsVsModel: the database rows must be the model contents; a row counts as touched when the model changed its state.
func rowsVsModel(pre, now *qmodel.Model, rows []qmodel.Msg) string {
	seen := map[string]bool{}
	for i := range rows {
		g := &rows[i]
		if seen[g.ID] {
			return "row " + g.ID + " twice"
		}
		seen[g.ID] = true
		want := now.Items[g.ID]
		if want == nil {
			if pre.Items[g.ID] != nil {
				return fmt.Sprintf("message %s (%s) still stored, the contract removes it", g.ID, g.State)
			}
			return fmt.Sprintf("message %s (%s) stored but unknown to the contract", g.ID, g.State)
		}
		before := pre.Items[g.ID]
		touched := before == nil || before.State != want.State
		if d := sameRow(want, g, touched); d != "" {
			return fmt.Sprintf("message %s differs from the contract in %s", g.ID, d)
		}
	}
	for id, it := range now.Items {
		if !seen[id] {
			return fmt.Sprintf("message %s (%s) disappeared", id, it.State)
		}
	}
	return ""
}

// ---- enumeration ------------------------------------------------------------------------------------------------

type mcpEnv struct {
	worker     int
	dir        string
	sys        *qsys.Sys
	configPath string
	dbPath     string
}

func newMCPEnv(worker int) (*mcpEnv, error) {
	e := &mcpEnv{worker: worker, dir: filepath.Join(runner.Scratch(), fmt.Sprintf("c14mcp-%d", worker))}
	if err := os.MkdirAll(e.dir, 0o755); err != nil {
		return nil, err
	}
	qdir := filepath.Join(e.dir, "q")
	e.sys = qsys.New("sqlite", cfg, qdir)
	e.dbPath = filepath.Join(qdir, "q.db")
	if _, err := os.Stat(e.dbPath); err != nil {
		return nil, fmt.Errorf("qsys database file: %v", err)
	}
	e.configPath = filepath.Join(e.dir, "Hookaidofile")
	text := "ingress { listen \"127.0.0.1:18080\" }\npull_api { listen \"127.0.0.1:19443\"\n auth token \"raw:g1\" }\nadmin_api { listen \"127.0.0.1:12019\" }\n" +
		"queue_retention {\n max_age off\n}\ndelivered_retention {\n max_age 1000h\n}\n" +
		"/r1 {\n queue { backend sqlite }\n pull { path /e1 }\n}\n/r2 {\n queue { backend sqlite }\n pull { path /e2 }\n}\n"
	if err := os.WriteFile(e.configPath, []byte(text), 0o644); err != nil {
		return nil, err
	}
	return e, nil
}

type mcpVerdict struct {
	what, msg string
	refused   bool
	n, m      int
	dirty     bool
	probe     bool
}

func (e *mcpEnv) judge(w *world, c *mcpCase, pre []qmodel.Msg) (mcpVerdict, []qmodel.Msg, error) {
	ans, err := mcpCall(e.configPath, e.dbPath, c.Op.Tool, c.Args)
	if err != nil {
		return mcpVerdict{dirty: true}, nil, err
	}
	post := e.sys.Snapshot()
	v := mcpVerdict{refused: ans.Refused}
	if ans.Refused {
		if d := snapDiff(pre, post); d != "" {
			v.what, v.msg, v.dirty = "refused-but-database-changed", "answer "+clip(ans.Text, 300)+" but "+d, true
			return v, post, nil
		}
		if c.Expect == mustOK {
			v.what, v.msg = "valid-call-refused:"+c.Label, "answer "+clip(ans.Text, 300)
		}
		return v, post, nil
	}
	if c.Expect == mustReject {
		v.what, v.msg, v.dirty = "invalid-call-accepted:"+c.Label, "answer "+clip(ans.Text, 300), true
		return v, post, nil
	}
	obs, bad := obsFromCounts(ans.Structured, c.Op, c.Filter)
	if bad != "" {
		v.what, v.msg, v.dirty = bad, clip(ans.Text, 300), true
		return v, post, nil
	}
	v.n, v.m = obs.N, obs.Matched
	before := w.m.Clone()
	why := w.m.Apply(c.MOp, obs, nil)
	if why == "" {
		why = rowsVsModel(before, w.m, post)
	}
	v.dirty = obs.N > 0 || why != ""
	if why != "" {
		v.what, v.msg = firstWords(why, 5), why+"; answer "+clip(ans.Text, 300)
		return v, post, nil
	}
	if c.Op.Field == "canceled" {
		for id, was := range before.Items {
			if it := w.m.Items[id]; was.State == qmodel.Leased && it != nil && it.State == qmodel.Canceled {
				// the lease of a canceled message is void: ack with the old lease (on the serving store) must be refused and change nothing
				ack := qmodel.Op{Kind: "ack", Lease: was.Lease}
				o2 := e.sys.Do(ack)
				post = e.sys.Snapshot()
				why2 := w.m.Apply(ack, o2, nil)
				if why2 == "" {
					why2 = rowsVsModel(before, w.m, post)
				}
				if why2 != "" {
					v.what, v.msg = "lease-not-void-after-cancel", "after cancel of leased "+id+", ack with the old lease: "+why2
					return v, post, nil
				}
				v.probe = true
			}
		}
	}
	return v, post, nil
}

func clip(s string, n int) string {
	if len(s) > n {
		return s[:n] + "…"
	}
	return s
}

func snapDiff(a, b []qmodel.Msg) string {
	if len(a) != len(b) {
		return fmt.Sprintf("the database holds %d rows, before %d", len(b), len(a))
	}
	for i := range a {
		if a[i].ID != b[i].ID {
			return fmt.Sprintf("row %s replaced by %s", a[i].ID, b[i].ID)
		}
		if d := sameRow(&a[i], &b[i], false); d != "" {
			return fmt.Sprintf("row %s changed in %s", a[i].ID, d)
		}
	}
	return ""
}

type mcpShared struct {
	r        *runner.Run
	ks       []kind
	filter   []mcpCase
	byN      map[int][]mcpCase
	deadline time.Time
	mu       sync.Mutex
	sampled  map[string]bool
}

func (e *mcpEnv) runPop(s *mcpShared, pop []int, c *adminCounters) bool {
	r := s.r
	w, why := build(e.sys, s.ks, pop)
	if why != "" {
		r.Violation("population-build:sqlite", why, map[string]any{"population": pop}, nil)
		return true
	}
	pre := e.sys.Snapshot()
	desc := popDesc(w, s.ks, pop)
	dirty := false
	for _, group := range [][]mcpCase{s.filter, s.byN[len(pop)]} {
		for i := range group {
			cs := &group[i]
			if dirty {
				if w, why = build(e.sys, s.ks, pop); why != "" {
					r.Violation("population-build:sqlite", why, map[string]any{"population": pop}, nil)
					return true
				}
				pre = e.sys.Snapshot()
				c.rebuilds++
				dirty = false
			}
			v, post, err := e.judge(w, cs, pre)
			if err != nil {
				r.Infra("c14 mcp: population %v tool %s args %v: %v", desc, cs.Op.Tool, cs.Args, err)
				return false
			}
			pre, dirty = post, v.dirty
			c.cases++
			switch cs.Expect {
			case mustOK:
				c.mustOK++
			case either:
				c.either++
			default:
				c.mustReject++
			}
			if v.refused {
				c.rejected++
			} else {
				c.accepted++
			}
			if v.n != 0 {
				c.changed++
			}
			if v.probe {
				c.leaseVoid++
			}
			c.distinct[fmt.Sprintf("mcp:%s:%s:refused=%v:n%d:m%d:pv%v", cs.Op.Tool, cs.Label, v.refused, v.n, v.m, cs.MOp.Filter.Preview)] = struct{}{}
			if v.what == "" {
				if v.n != 0 || cs.Expect != mustOK {
					s.sample(cs, desc, v)
				}
				continue
			}
			key := "mcp:" + cs.Op.Tool + ":" + v.what
			if c.reported[key] {
				continue
			}
			c.reported[key] = true
			args, _ := json.Marshal(cs.Args)
			recheck := func() bool {
				w2, why := build(e.sys, s.ks, pop)
				if why != "" {
					return true
				}
				v2, _, err := e.judge(w2, cs, e.sys.Snapshot())
				return err == nil && v2.what == v.what
			}
			r.Violation(key, fmt.Sprintf("[mcp/sqlite] population %v, tools/call %s %s (%s, %s): %s", desc, cs.Op.Tool, clip(string(args), 300), expectName[cs.Expect], cs.Label, v.msg),
				map[string]any{"engine": "mcp", "backend": "sqlite", "population": desc, "tool": cs.Op.Tool, "arguments": clip(string(args), 300)}, recheck)
			dirty = true
		}
	}
	return true
}

func (s *mcpShared) sample(c *mcpCase, desc []string, v mcpVerdict) {
	k := c.Op.Tool + "|" + c.Label
	s.mu.Lock()
	defer s.mu.Unlock()
	if s.sampled[k] || len(s.sampled) >= 3 {
		return
	}
	s.sampled[k] = true
	args, _ := json.Marshal(c.Args)
	s.r.Sample(map[string]any{"layer": "mcp", "population": desc, "tool": c.Op.Tool, "arguments": clip(string(args), 200), "expect": expectName[c.Expect], "refused": v.refused, "changed": v.n, "matched": v.m})
}

func mcpPart(r *runner.Run) {
	start := time.Now()
	s := &mcpShared{r: r, ks: kinds([]string{"/r1", "/r2"}, []string{pullTarget}), filter: mcpFilterCases(), byN: map[int][]mcpCase{}, sampled: map[string]bool{},
		deadline: start.Add(runner.Pick(r, 60*time.Second, 6*time.Minute))}
	size := runner.Pick(r, 1, 2)
	for n := 0; n <= 2; n++ {
		s.byN[n] = mcpIDCases(n)
	}
	pops := populations(len(s.ks), size)
	{
		// six fixed two-message populations (both tiers) so that limit, newest-first and tie order bind in the quick tier too
		ki := func(route, state string, rcv int) int {
			for i, k := range s.ks {
				if k.route == route && k.state == state && k.rcv == rcv {
					return i
				}
			}
			panic("c14: no such kind")
		}
		for _, p := range [][2]int{
			{ki("/r1", qmodel.Queued, 0), ki("/r1", qmodel.Queued, 1)},     // newest = m1
			{ki("/r1", qmodel.Queued, 1), ki("/r1", qmodel.Queued, 0)},     // newest = m0 (id order differs from age order)
			{ki("/r1", qmodel.Dead, 0), ki("/r1", qmodel.Dead, 0)},         // tie: id descending
			{ki("/r1", qmodel.Canceled, 0), ki("/r2", qmodel.Canceled, 1)}, // two routes
			{ki("/r1", qmodel.Leased, 1), ki("/r2", qmodel.Dead, 0)},
			{ki("/r2", qmodel.Dead, 1), ki("/r2", qmodel.Canceled, 1)},
		} {
			pops = append(pops, []int{p[0], p[1]})
		}
	}
	workers := runner.Pick(r, 6, 8)
	var next, done atomic.Int64
	var wg sync.WaitGroup
	for wi := 0; wi < workers; wi++ {
		wg.Add(1)
		go func(wi int) {
			defer wg.Done()
			e, err := newMCPEnv(wi)
			if err != nil {
				r.Infra("c14 mcp: %v", err)
				return
			}
			defer e.sys.Close()
			c := newAdminCounters()
			for {
				i := int(next.Add(1)) - 1
				if i >= len(pops) {
					break
				}
				if time.Now().After(s.deadline) {
					r.NotExhaustive(fmt.Sprintf("mcp part time budget: worker %d stopped before population %d of %d", wi, i, len(pops)))
					break
				}
				if !e.runPop(s, pops[len(pops)-1-i], c) {
					break
				}
				done.Add(1)
			}
			c.flush(r, "mcp")
		}(wi)
	}
	wg.Wait()
	r.Add("mcp_populations", done.Load())
	r.Set("mcp_wall_s", time.Since(start).Seconds())
	r.Set("mcp_selectors_per_population", len(s.filter)+len(s.byN[size]))
	r.Set("mcp_rule", fmt.Sprintf("mcp.NewServer(...).Serve over a framed JSON-RPC session (initialize, tools/call) with role operate, mutations enabled, principal and reason, on the SQLite file qsys built (direct SQLite mode, sqlite routes in the config file); "+
		"every multiset of <= %d messages over route{/r1,/r2} x state(5) x received_at{T0,T1} (plus six fixed two-message populations, one with id order opposite to age order) x per by-filter tool the union of the full products route{-,/r1,/r2} x state{-,5,bogus} x before{-,T1} x preview and target{-,pull} x before{-,T0,T1,T1+1ns} x limit{-,0,1,2,1000,1001,-1} x preview (%d calls), "+
		"id lists (absent, empty, miss, blank, hit, duplicate, padded, reversed, all, 1001 entries) for messages_cancel/requeue/resume, dlq_requeue/delete, documented refusals (unknown argument, missing reason); "+
		"oracle: qmodel counts, database rows = model (all columns; next_run_at only for rows the call must not touch because the MCP process stamps with its own wall clock), refused call leaves every row identical",
		size, len(s.filter)))
	r.Assume("MCP documentation is silent on limit <= 0 or > 1000, inapplicable/unknown state filters and blank/empty/oversized id lists for mutation tools: a refused call that changed nothing and an accepted call obeying the model are both accepted")
	r.Assume("this part is the direct-SQLite mode of the MCP server; MCP through the Admin API proxy (memory/postgres backends) is the mcp-proxy part (proxy_test.go)")
}
