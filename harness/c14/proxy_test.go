package c14

// C14, MCP through the Admin API proxy: with a memory or postgres queue backend `hookaido mcp` does not open the
// queue itself, it forwards every queue mutation tool as an HTTP request to the Admin API of the running instance
// (docs/mcp.md). Here the real mcp.Server (framed JSON-RPC session, role operate, mutations enabled) talks over a
// real loopback TCP connection to a front that hands the request to the production-wired Admin handler
// (app.VerifBoot, startServers) over the MemoryStore that qsys built - and the front is the TRANSPORT: for every
// forwarded request it plays one behaviour of a fixed alphabet (deliver and answer; run the handler and lose the
// answer by close / by reset / after half of the body; run the handler, let a worker move messages, lose the answer;
// lose the request before the handler ran; answer 429/503 without running the handler; run the handler and answer
// 500/502/504 like a gateway that lost its upstream). The behaviour tree is enumerated as far as the client goes:
// a run with script s tells how many requests the client really made, every position the client reached gets every
// behaviour (depth <= 3).
//
// Oracle (from the property statement, independent of the client): one operator call is at most ONE application of
// the request. The harness knows whether the Admin handler ran at all during the call (it is the transport), so the
// queue afterwards must be exactly
//     the queue before                                            if no forwarded request was applied,
//     reference(one application of the selector) [+ worker step]  if one was,
// whatever the transport did and however often the client re-sent; a call that reports success must report exactly
// the counts of that one application; a call that reports failure may leave zero or one application, never more.
// With an undisturbed transport a well-formed call must be accepted (positive probe).

import (
	"bytes"
	"encoding/json"
	"fmt"
	"io"
	"log"
	"net"
	"net/http"
	"net/http/httptest"
	"os"
	"path/filepath"
	"strings"
	"sync"
	"sync/atomic"
	"time"

	"github.com/nuetzliches/hookaido/internal/verifkit/qmodel"
	"github.com/nuetzliches/hookaido/internal/verifkit/qsys"
	"github.com/nuetzliches/hookaido/internal/verifkit/runner"
)

// ---- transport behaviours ---------------------------------------------------------------------------------------

type beh int

const (
	bDeliver          beh = iota // handler runs, answer relayed
	bApplyClose                  // handler runs, connection closed without a byte (client: EOF)
	bApplyReset                  // handler runs, connection reset (client: ECONNRESET)
	bApplyWorkerClose            // handler runs, a worker dequeues one message per route and marks it dead, connection closed
	bApplyTruncated              // handler runs, status line + headers + half of the body, then closed
	bLoseRequest                 // connection closed before the handler runs
	bRefuse429                   // 429 without running the handler
	bRefuse503                   // 503 without running the handler
	bApply500                    // handler runs, the answer is replaced by 500
	bApply502                    // handler runs, the answer is replaced by 502 (gateway lost the upstream answer)
	bApply504                    // handler runs, the answer is replaced by 504
	nBeh
	// bApplyHang is played only in the slow lane (it costs the client's whole timeout): the handler runs and no byte is
	// ever answered; the front waits until the client has given up and closed the connection.
	bApplyHang beh = nBeh
)

var behName = [nBeh + 1]string{nBeh: "apply-then-silence-until-the-client-gives-up", 0: "deliver", "apply-then-close", "apply-then-reset", "apply+worker-then-close", "apply-then-truncated-answer",
	"close-before-handler", "429-not-applied", "503-not-applied", "apply-then-500", "apply-then-502", "apply-then-504"}

const proxyMaxDepth = 3

func scriptName(s []beh) string {
	if len(s) == 0 {
		return behName[bDeliver]
	}
	n := make([]string, len(s))
	for i, b := range s {
		n[i] = behName[b]
	}
	return strings.Join(n, ",")
}

func faultFree(s []beh) bool {
	for _, b := range s {
		if b != bDeliver {
			return false
		}
	}
	return true
}

// wStep is one worker operation the front executed between two attempts, with what the store answered.
type wStep struct {
	op   qmodel.Op
	obs  *qmodel.Obs
	post []qmodel.Msg
}

type frontLog struct {
	requests int      // forwarded requests that arrived
	seq      []beh    // behaviour played per request
	statuses []int    // what the Admin handler answered per request, 0 = handler not run
	applied  int      // handler runs answered 2xx
	wsteps   []wStep  // worker operations, in order
	paths    []string // method + path per request
	err      string   // front malfunction (infrastructure)
}

type proxyFront struct {
	mu      sync.Mutex
	sys     *qsys.Sys
	handler http.Handler
	script  []beh
	log     frontLog
}

func (f *proxyFront) arm(h http.Handler, script []beh) {
	f.mu.Lock()
	f.handler, f.script, f.log = h, script, frontLog{}
	f.mu.Unlock()
}

func (f *proxyFront) take() frontLog {
	f.mu.Lock()
	defer f.mu.Unlock()
	return f.log
}

func (f *proxyFront) workerStep() {
	for _, route := range []string{"/r1", "/r2"} {
		op := qmodel.Op{Kind: "deq", Route: route, Target: pullTarget, Batch: 1, TTL: time.Hour}
		obs := f.sys.Do(op)
		f.log.wsteps = append(f.log.wsteps, wStep{op, obs, f.sys.Snapshot()})
		if obs.Err == qmodel.OK && len(obs.Items) == 1 {
			op2 := qmodel.Op{Kind: "dead", Lease: obs.Items[0].Lease, Reason: "worker"}
			obs2 := f.sys.Do(op2)
			f.log.wsteps = append(f.log.wsteps, wStep{op2, obs2, f.sys.Snapshot()})
		}
	}
}

func (f *proxyFront) ServeHTTP(w http.ResponseWriter, r *http.Request) {
	f.mu.Lock()
	defer f.mu.Unlock()
	i := f.log.requests
	f.log.requests++
	b := bDeliver
	if i < len(f.script) {
		b = f.script[i]
	}
	f.log.seq = append(f.log.seq, b)
	f.log.paths = append(f.log.paths, r.Method+" "+r.URL.Path)
	body, _ := io.ReadAll(r.Body)
	status := 0
	run := func() *httptest.ResponseRecorder {
		inner := r.Clone(r.Context())
		inner.Body = io.NopCloser(bytes.NewReader(body))
		rec := httptest.NewRecorder()
		f.handler.ServeHTTP(rec, inner)
		status = rec.Code
		if rec.Code >= 200 && rec.Code <= 299 {
			f.log.applied++
		}
		return rec
	}
	hijack := func() net.Conn {
		hj, ok := w.(http.Hijacker)
		if !ok {
			f.log.err = "response writer cannot be hijacked"
			return nil
		}
		conn, _, err := hj.Hijack()
		if err != nil {
			f.log.err = "hijack: " + err.Error()
			return nil
		}
		return conn
	}
	answer := func(code int) {
		w.Header().Set("Content-Type", "application/json")
		w.WriteHeader(code)
		fmt.Fprintf(w, `{"code":"transport","detail":"answer %d made by the transport"}`+"\n", code)
	}
	switch b {
	case bDeliver:
		rec := run()
		for k, vs := range rec.Header() {
			for _, v := range vs {
				w.Header().Add(k, v)
			}
		}
		w.WriteHeader(rec.Code)
		w.Write(rec.Body.Bytes())
	case bApplyClose, bApplyReset, bApplyWorkerClose:
		rec := run()
		if b == bApplyWorkerClose && rec.Code >= 200 && rec.Code <= 299 {
			f.workerStep()
		}
		if conn := hijack(); conn != nil {
			if tc, ok := conn.(*net.TCPConn); ok && b == bApplyReset {
				tc.SetLinger(0)
			}
			conn.Close()
		}
	case bApplyTruncated:
		rec := run()
		if conn := hijack(); conn != nil {
			full := rec.Body.Bytes()
			fmt.Fprintf(conn, "HTTP/1.1 %d %s\r\nContent-Type: application/json\r\nContent-Length: %d\r\nConnection: close\r\n\r\n", rec.Code, http.StatusText(rec.Code), len(full))
			conn.Write(full[:len(full)/2])
			conn.Close()
		}
	case bLoseRequest:
		if conn := hijack(); conn != nil {
			conn.Close()
		}
	case bApplyHang:
		run()
		select {
		case <-r.Context().Done(): // the client closed the connection (its timeout)
		case <-time.After(30 * time.Second): // safety net only, not an expectation
		}
		if conn := hijack(); conn != nil {
			conn.Close()
		}
	case bRefuse429:
		answer(http.StatusTooManyRequests)
	case bRefuse503:
		answer(http.StatusServiceUnavailable)
	case bApply500:
		run()
		answer(http.StatusInternalServerError)
	case bApply502:
		run()
		answer(http.StatusBadGateway)
	case bApply504:
		run()
		answer(http.StatusGatewayTimeout)
	}
	f.log.statuses = append(f.log.statuses, status)
}

// ---- environment: store + application + front + MCP configuration ------------------------------------------------

var proxyBackends = []string{"memory", "postgres"}

const (
	proxyApp      = "app1"
	proxyEndpoint = "ep2"
	proxyManaged  = "/r2" // the route that carries the management labels in the managed flavour
)

type proxyEnv struct {
	*adminEnv
	managed bool // /r2 is labelled application app1 / endpoint_name ep2 (in the application and in the MCP configuration)
	front   *proxyFront
	srv     *http.Server
	addr    string
	config  map[string]string // MCP-side queue backend -> configuration file
	conns   int
	listens int64
}

func proxyLabels(managed bool) string {
	if !managed {
		return ""
	}
	return fmt.Sprintf(" application %q\n endpoint_name %q\n", proxyApp, proxyEndpoint)
}

func proxyMCPConfig(addr, backend string, managed bool) string {
	return "ingress { listen \"127.0.0.1:18080\" }\npull_api { listen \"127.0.0.1:19443\"\n auth token \"raw:g1\" }\n" +
		fmt.Sprintf("admin_api { listen %q }\n", addr) +
		"queue_retention {\n max_age off\n}\ndelivered_retention {\n max_age 1000h\n}\n" +
		fmt.Sprintf("/r1 {\n queue { backend %s }\n pull { path /e1 }\n}\n/r2 {\n%s queue { backend %s }\n pull { path /e2 }\n}\n", backend, proxyLabels(managed), backend)
}

// proxyAppDSL: adminDSL with the management labels on /r2.
func proxyAppDSL(backend string, port int) string {
	return strings.Replace(adminDSL(backend, port), "/r2 {\n", "/r2 {\n"+proxyLabels(true), 1)
}

func newProxyEnv(worker int, managed bool) (*proxyEnv, error) {
	// worker numbers (scratch directories) of this part: 500.. plain, 600.. managed, 700.. slow lane
	e := &proxyEnv{managed: managed, config: map[string]string{}, adminEnv: newAdminEnv(worker, "memory")}
	if managed {
		e.adminEnv.dsl = proxyAppDSL
	}
	e.front = &proxyFront{sys: e.sys}
	for _, b := range proxyBackends {
		e.config[b] = filepath.Join(e.dir, "Hookaidofile.mcp-"+b)
	}
	if err := e.listen(); err != nil {
		e.adminEnv.close()
		return nil, err
	}
	return e, nil
}

// listen opens a fresh loopback listener for the front and points the MCP configuration at it. It is repeated every
// few thousand connections: the front closes every connection first, so each one leaves a TIME_WAIT entry for the
// (front port, client port) pair; a new front port starts with an empty set.
func (e *proxyEnv) listen() error {
	ln, err := net.Listen("tcp", "127.0.0.1:0")
	if err != nil {
		return fmt.Errorf("listen: %v", err)
	}
	srv := &http.Server{Handler: e.front, ErrorLog: log.New(io.Discard, "", 0)}
	srv.SetKeepAlivesEnabled(false)
	go srv.Serve(ln)
	if e.srv != nil {
		e.srv.Close()
	}
	e.srv, e.addr, e.conns = srv, ln.Addr().String(), 0
	e.listens++
	for _, b := range proxyBackends {
		if err := os.WriteFile(e.config[b], []byte(proxyMCPConfig(e.addr, b, e.managed)), 0o644); err != nil {
			return err
		}
	}
	return nil
}

func (e *proxyEnv) close() {
	if e.srv != nil {
		e.srv.Close()
	}
	e.adminEnv.close()
}

// call runs one MCP session with one tools/call while the front plays script.
func (e *proxyEnv) call(backend string, c *mcpCase, script []beh) (*mcpAnswer, frontLog, error) {
	if e.conns >= 6000 {
		if err := e.listen(); err != nil {
			return nil, frontLog{}, err
		}
	}
	e.front.arm(e.app.Admin, script)
	ans, err := mcpCall(e.config[backend], "", c.Op.Tool, c.Args)
	lg := e.front.take()
	e.conns += lg.requests
	if err == nil && lg.err != "" {
		err = fmt.Errorf("front: %s", lg.err)
	}
	return ans, lg, err
}

// ---- oracle -----------------------------------------------------------------------------------------------------

// predict: the reference outcome of ONE application of op on m0: successor and the counts it must report. The count
// is found by asking the reference which observation it accepts (k = 0..number of messages).
func predict(m0 *qmodel.Model, op qmodel.Op) (*qmodel.Model, *qmodel.Obs) {
	for k := 0; k <= len(m0.Items); k++ {
		c := m0.Clone()
		o := &qmodel.Obs{Err: qmodel.OK, N: k, Matched: k}
		if op.Filter.Preview {
			o.N, o.Preview = 0, true
		}
		if c.Apply(op, o, nil) == "" {
			return c, o
		}
	}
	return nil, nil
}

type proxyVerdict struct {
	what, msg string
	refused   bool
	seen      int // forwarded requests the client made
	applied   int // of them answered 2xx by the Admin handler
	n, m      int
	changed   bool // the queue differs from before
	wsteps    int
	dirty     bool
}

func (e *proxyEnv) judge(w *world, c *mcpCase, backend string, script []beh, pre []qmodel.Msg) (proxyVerdict, []qmodel.Msg, error) {
	ans, lg, err := e.call(backend, c, script)
	if err != nil {
		return proxyVerdict{dirty: true}, nil, err
	}
	post := e.sys.Snapshot()
	v := proxyVerdict{refused: ans.Refused, seen: lg.requests, applied: lg.applied, wsteps: len(lg.wsteps)}
	v.changed = snapDiff(pre, post) != ""
	v.dirty = v.changed || len(lg.wsteps) > 0
	transport := fmt.Sprintf("transport %v, Admin handler answered %v", behNames(lg.seq), lg.statuses)
	fail := func(what, msg string) (proxyVerdict, []qmodel.Msg, error) {
		v.what, v.msg, v.dirty = what, msg+"; "+transport+"; tool answer "+clip(ans.Text, 300), true
		return v, post, nil
	}
	if c.Expect == mustReject {
		switch {
		case v.changed:
			return fail("refused-call-changed-the-queue", snapDiff(pre, post))
		case !ans.Refused:
			return fail("invalid-call-accepted:"+c.Label, "the call must be refused")
		}
		return v, post, nil
	}
	m1, _ := predict(w.m, c.MOp)
	if m1 == nil {
		return v, post, fmt.Errorf("reference accepts no count for %s", c.MOp)
	}
	// the queue: before, or exactly one application (then the worker step the transport made)
	exp := w.m.Clone()
	if lg.applied > 0 {
		exp = m1
		for _, ws := range lg.wsteps {
			if why := exp.Apply(ws.op, ws.obs, ws.post); why != "" {
				return fail("first-application-differs-from-reference", "worker step "+ws.op.String()+" after the first application: "+why)
			}
		}
	}
	if d := rowsVsModel(exp, exp, post); d != "" {
		what := "queue-differs-from-one-application"
		if lg.applied == 0 {
			what = "queue-changed-without-an-applied-request"
		}
		return fail(what, fmt.Sprintf("%d forwarded request(s), %d applied: %s", lg.requests, lg.applied, d))
	}
	if ans.Refused {
		if c.Expect == mustOK && faultFree(lg.seq) {
			return fail("valid-call-refused:"+c.Label, "undisturbed transport")
		}
		return v, post, nil
	}
	// success: the counts of exactly that one application
	obs, bad := obsFromCounts(ans.Structured, c.Op, c.Filter)
	if bad != "" {
		return fail(bad, "answer counts")
	}
	v.n, v.m = obs.N, obs.Matched
	if why := w.m.Clone().Apply(c.MOp, obs, nil); why != "" {
		return fail("success-"+firstWords(why, 5), "the call reports success with counts that are not the counts of one application: "+why)
	}
	return v, post, nil
}

func behNames(s []beh) []string {
	n := make([]string, len(s))
	for i, b := range s {
		n[i] = behName[b]
	}
	return n
}

// ---- enumeration ------------------------------------------------------------------------------------------------

type proxyCounters struct {
	*adminCounters
	byLabel                                                                                               map[string]int64
	runs, faultRuns, forwarded, applied, success, failure, failApplied, failNotApplied, successAfterFault int64
	retried, depthCapped, workerSteps, transient, pgRuns, managedRuns, managedPops                        int64
}

type proxyShared struct {
	r          *runner.Run
	ks         []kind
	filter     []mcpCase
	byN        map[int][]mcpCase
	scoped     []mcpCase
	deadline   time.Time
	budgetHit  atomic.Bool
	mu         sync.Mutex
	sampled    map[string]bool
	transients []string        // refusals on an undisturbed transport that did not repeat (environment), first three
	fullPops   map[string]bool // populations that get the whole selector set under every transport behaviour (thorough)
}

// faultCase: the selector subset that is crossed with every transport behaviour in the quick tier: for the
// by-filter tools route{-,/r1,/r2} x state{-, each state the operation is defined for} x preview and limit{1,2} x
// preview (no target/before criterion, limits inside 1..1000), for the id tools miss, hit, duplicate, padded,
// reversed, all.
func faultCase(c *mcpCase) bool {
	if c.Expect == mustReject {
		return false
	}
	if c.Filter {
		f := c.MOp.Filter
		return c.Label == "plain" && f.Target == "" && f.Before == 0 && f.Limit <= 2
	}
	switch c.Label {
	case "miss", "hit", "duplicate", "padded", "all", "all-reversed":
		return true
	}
	return false
}

// proxyScopedCases: the managed flavour. docs/mcp.md "Managed Selectors": application + endpoint_name select the
// labelled endpoint's route; the call is forwarded to /applications/{app}/endpoints/{ep}/messages/<op>_by_filter.
// docs/admin-api.md: a route selector that resolves to a labelled route, and an unscoped selector while labelled
// routes exist, are rejected (here: either refused with nothing changed, or obeying the model).
func proxyScopedCases() []mcpCase {
	var out []mcpCase
	for _, op := range filterOps {
		for _, st := range append([]string{""}, statesFor(op.Kind)...) {
			for _, li := range []optInt{{}, {true, 1}} {
				for _, pv := range []bool{false, true} {
					mk := func(label string, expect int, route string, kv ...any) {
						a := mcpArgs(kv...)
						if st != "" {
							a["state"] = st
						}
						if li.Set {
							a["limit"] = li.V
						}
						if pv {
							a["preview_only"] = true
						}
						out = append(out, mcpCase{Op: op, Args: a, Expect: expect, Label: label, Filter: true,
							MOp: qmodel.Op{Kind: op.Kind, Filter: qmodel.Filter{Route: route, State: st, Limit: li.V, Preview: pv}}})
					}
					mk("scoped", mustOK, proxyManaged, "application", proxyApp, "endpoint_name", proxyEndpoint)
					if li.Set {
						continue
					}
					mk("managed-route-by-path", either, proxyManaged, "route", proxyManaged)
					mk("unscoped-while-managed-routes-exist", either, "")
					mk("unmanaged-route-by-path", either, "/r1", "route", "/r1")
				}
			}
		}
	}
	return out
}

type popState struct {
	pop   []int
	w     *world
	pre   []qmodel.Msg
	desc  []string
	dirty bool
}

func (e *proxyEnv) rebuildPop(s *proxyShared, st *popState) string {
	w, why := build(e.sys, s.ks, st.pop)
	if why != "" {
		return why
	}
	if err := e.ensureBoot(); err != nil {
		return "INFRA " + err.Error()
	}
	st.w, st.pre, st.dirty = w, e.sys.Snapshot(), false
	return ""
}

func popKey(pop []int) string { return fmt.Sprint(pop) }

// interleaveTools orders cases round-robin over the tools (a stable order that reaches every tool early; on a tree
// where the client re-sends, every disturbed run costs the client's back-off sleep and the budget ends the part).
func interleaveTools(groups ...[]mcpCase) []*mcpCase {
	byTool := map[string][]*mcpCase{}
	var tools []string
	for _, g := range groups {
		for i := range g {
			t := g[i].Op.Tool
			if _, ok := byTool[t]; !ok {
				tools = append(tools, t)
			}
			byTool[t] = append(byTool[t], &g[i])
		}
	}
	var out []*mcpCase
	for k := 0; ; k++ {
		any := false
		for _, t := range tools {
			if k < len(byTool[t]) {
				out = append(out, byTool[t][k])
				any = true
			}
		}
		if !any {
			return out
		}
	}
}

// deeper is a node of the behaviour tree whose run showed that the client made further requests: its continuations
// are enumerated in the second pass.
type deeper struct {
	cs      *mcpCase
	backend string
	script  []beh
	seen    int
}

func (e *proxyEnv) runPop(s *proxyShared, pop []int, c *proxyCounters) bool {
	r := s.r
	st := &popState{pop: pop}
	failBuild := func(why string) bool {
		if strings.HasPrefix(why, "INFRA ") {
			r.Infra("c14 mcp-proxy: %s", why)
			return false
		}
		r.Violation("population-build:memory", why, map[string]any{"population": pop}, nil)
		return true
	}
	if why := e.rebuildPop(s, st); why != "" {
		return failBuild(why)
	}
	st.desc = popDesc(st.w, s.ks, pop)
	allFaults := s.fullPops[popKey(pop)]
	// run plays one script on a clean population: (verdict, case still clean, keep going at all)
	run := func(cs *mcpCase, backend string, script []beh) (proxyVerdict, bool, bool) {
		for try := 0; ; try++ {
			if time.Now().After(s.deadline) {
				s.budgetHit.Store(true)
				return proxyVerdict{}, false, false
			}
			if st.dirty {
				if why := e.rebuildPop(s, st); why != "" {
					return proxyVerdict{}, false, failBuild(why)
				}
				c.rebuilds++
			}
			v, post, err := e.judge(st.w, cs, backend, script, st.pre)
			if err != nil {
				r.Infra("c14 mcp-proxy: population %v tool %s args %v transport %s: %v", st.desc, cs.Op.Tool, cs.Args, scriptName(script), err)
				return v, false, false
			}
			st.pre, st.dirty = post, v.dirty
			if strings.HasPrefix(v.what, "valid-call-refused:") && try < 2 {
				// the only verdict that real time can produce: on a loaded machine a loopback dial or the client's
				// 5 s timeout may fail although nothing is wrong. A refusal made by the code repeats, a hiccup does not.
				c.transient++
				s.noteTransient(v.msg)
				st.dirty = true
				continue
			}
			e.count(s, cs, backend, script, v, c, st)
			if v.seen > 1 {
				c.retried++
			}
			if v.seen > proxyMaxDepth {
				c.depthCapped++
			}
			if v.what == "" {
				return v, true, true
			}
			e.report(s, st, cs, backend, script, v, c)
			return v, false, true
		}
	}
	// pass 1: every case with the undisturbed transport and, for the transport-crossed selectors, every behaviour
	// for the first forwarded request
	var later []deeper
	cases := interleaveTools(s.filter, s.byN[len(pop)])
	if e.managed {
		cases = interleaveTools(s.scoped)
	}
	for _, cs := range cases {
		backends := proxyBackends[:1]
		faults := allFaults && cs.Expect != mustReject || faultCase(cs) || e.managed && cs.Label == "scoped"
		if faults && len(pop) == 2 && !e.managed && (cs.Filter && cs.MOp.Filter.Limit > 0 || cs.Label == "hit" || cs.Label == "all") {
			backends = proxyBackends // the MCP-side backend dimension: two-message populations, selectors with a limit / id hits
		}
	nextCase:
		for _, backend := range backends {
			v, ok, cont := run(cs, backend, nil)
			if !cont {
				return false
			}
			if !ok || !faults || v.seen == 0 {
				continue
			}
			var mine []deeper
			if v.seen > 1 {
				mine = append(mine, deeper{cs, backend, []beh{bDeliver}, v.seen})
			}
			for b := beh(1); b < nBeh; b++ {
				v, ok, cont := run(cs, backend, []beh{b})
				if !cont {
					return false
				}
				if !ok {
					continue nextCase // a case that failed is not explored further
				}
				if v.seen > 1 {
					mine = append(mine, deeper{cs, backend, []beh{b}, v.seen})
				}
			}
			later = append(later, mine...)
		}
	}
	// pass 2: the client went on after the first request: every behaviour at every further position it reached
	var expand func(d deeper) (bool, bool)
	expand = func(d deeper) (bool, bool) {
		for pos := len(d.script); pos < min(d.seen, proxyMaxDepth); pos++ {
			prefix := append([]beh{}, d.script...)
			for len(prefix) < pos {
				prefix = append(prefix, bDeliver)
			}
			for b := beh(1); b < nBeh; b++ {
				script := append(append([]beh{}, prefix...), b)
				v, ok, cont := run(d.cs, d.backend, script)
				if !ok {
					return false, cont
				}
				if ok, cont := expand(deeper{d.cs, d.backend, script, v.seen}); !ok {
					return false, cont
				}
			}
		}
		return true, true
	}
	failed := map[*mcpCase]bool{}
	for _, d := range later {
		if failed[d.cs] {
			continue
		}
		if ok, cont := expand(d); !cont {
			return false
		} else if !ok {
			failed[d.cs] = true
		}
	}
	return true
}

func (e *proxyEnv) count(s *proxyShared, cs *mcpCase, backend string, script []beh, v proxyVerdict, c *proxyCounters, st *popState) {
	c.cases++
	c.runs++
	if !faultFree(script) {
		c.faultRuns++
	}
	if backend != proxyBackends[0] {
		c.pgRuns++
	}
	flavour := "plain"
	if e.managed {
		c.managedRuns++
		flavour = "managed:" + cs.Label
		if faultFree(script) {
			// what the undisturbed managed flavour answers per selector class (accepted / refused) is part of the evidence
			k := fmt.Sprintf("mcp_proxy_managed_%s_%s", cs.Label, map[bool]string{false: "accepted", true: "refused"}[v.refused])
			if v.changed {
				k += "_and_changed"
			}
			c.byLabel[k]++
		}
	}
	c.forwarded += int64(v.seen)
	c.applied += int64(v.applied)
	c.workerSteps += int64(v.wsteps)
	switch cs.Expect {
	case mustOK:
		c.mustOK++
	case either:
		c.either++
	default:
		c.mustReject++
	}
	if v.refused {
		c.rejected++
		c.failure++
		if v.seen > 0 {
			if v.changed {
				c.failApplied++
			} else {
				c.failNotApplied++
			}
		}
	} else {
		c.accepted++
		c.success++
		if !faultFree(script) {
			c.successAfterFault++
		}
	}
	if v.changed {
		c.changed++
	}
	c.distinct[fmt.Sprintf("mcp-proxy:%s:%s:%s:forwarded=%d:refused=%v:changed=%v", flavour, cs.Op.Tool, scriptName(script), v.seen, v.refused, v.changed)] = struct{}{}
	if v.what == "" && v.changed && v.refused {
		s.sample(cs, st.desc, backend, script, v)
	}
}

func (e *proxyEnv) report(s *proxyShared, st *popState, cs *mcpCase, backend string, script []beh, v proxyVerdict, c *proxyCounters) {
	key := "mcp-proxy:" + cs.Op.Tool + ":" + v.what
	if c.reported[key] {
		return
	}
	c.reported[key] = true
	args, _ := json.Marshal(cs.Args)
	pop := st.pop
	recheck := func() bool {
		st2 := &popState{pop: pop}
		if why := e.rebuildPop(s, st2); why != "" {
			return true
		}
		v2, _, err := e.judge(st2.w, cs, backend, script, st2.pre)
		st.dirty = true
		return err == nil && v2.what == v.what
	}
	s.r.Violation(key, fmt.Sprintf("[mcp via admin proxy, MCP-side backend %s] population %v, tools/call %s %s (%s, %s), transport script %s: %s",
		backend, st.desc, cs.Op.Tool, clip(string(args), 300), expectName[cs.Expect], cs.Label, scriptName(script), v.msg),
		map[string]any{"engine": "mcp-proxy", "mcp_backend": backend, "population": st.desc, "tool": cs.Op.Tool, "arguments": clip(string(args), 300), "transport": behNames(script)}, recheck)
	st.dirty = true
}

func (s *proxyShared) noteTransient(msg string) {
	s.mu.Lock()
	defer s.mu.Unlock()
	if len(s.transients) < 3 {
		s.transients = append(s.transients, clip(msg, 400))
	}
}

func (s *proxyShared) sample(c *mcpCase, desc []string, backend string, script []beh, v proxyVerdict) {
	k := c.Op.Tool + "|" + scriptName(script)
	s.mu.Lock()
	defer s.mu.Unlock()
	if s.sampled[k] || len(s.sampled) >= 2 {
		return
	}
	s.sampled[k] = true
	args, _ := json.Marshal(c.Args)
	s.r.Sample(map[string]any{"layer": "mcp-proxy", "mcp_backend": backend, "population": desc, "tool": c.Op.Tool, "arguments": clip(string(args), 200),
		"transport": behNames(script), "forwarded": v.seen, "applied": v.applied, "tool_reported_failure": v.refused, "queue_changed": v.changed})
}

// slowCase: the selectors of the slow lane: per by-filter tool "limit 1, nothing else", per id tool "the first message".
func slowCase(c *mcpCase) bool {
	if c.Filter {
		f := c.MOp.Filter
		return c.Label == "plain" && f.Limit == 1 && !f.Preview && f.Route == "" && f.State == "" && f.Target == "" && f.Before == 0
	}
	return c.Label == "hit" && len(c.MOp.IDs) == 1 && c.MOp.IDs[0] == "m0"
}

// slowLane: the client's own timeout as a transport behaviour (handler runs, silence). One run costs the client's
// timeout in wall time and no CPU, so every (population, tool) gets its own goroutine and environment and they all
// wait side by side. A selector is played when the undisturbed run of it changed a message.
func (s *proxyShared) slowLane(pops [][]int, wg *sync.WaitGroup) {
	r := s.r
	n := 0
	for _, pop := range pops {
		for _, cs := range interleaveTools(s.filter, s.byN[len(pop)]) {
			if !slowCase(cs) {
				continue
			}
			n++
			wg.Add(1)
			go func(id int, pop []int, cs *mcpCase) {
				defer wg.Done()
				e, err := newProxyEnv(700+id, false)
				if err != nil {
					r.Infra("c14 mcp-proxy slow lane: %v", err)
					return
				}
				defer e.close()
				c := &proxyCounters{adminCounters: newAdminCounters(), byLabel: map[string]int64{}}
				st := &popState{pop: pop}
				for _, script := range [][]beh{nil, {bApplyHang}} {
					var v proxyVerdict
					for try := 0; ; try++ {
						if why := e.rebuildPop(s, st); why != "" {
							r.Infra("c14 mcp-proxy slow lane: %s", why)
							return
						}
						st.desc = popDesc(st.w, s.ks, pop)
						var err error
						if v, _, err = e.judge(st.w, cs, proxyBackends[0], script, st.pre); err != nil {
							r.Infra("c14 mcp-proxy slow lane: population %v tool %s transport %s: %v", st.desc, cs.Op.Tool, scriptName(script), err)
							return
						}
						if !strings.HasPrefix(v.what, "valid-call-refused:") || try >= 2 {
							break
						}
						c.transient++ // see runPop
						s.noteTransient(v.msg)
					}
					e.count(s, cs, proxyBackends[0], script, v, c, st)
					if v.what != "" {
						e.report(s, st, cs, proxyBackends[0], script, v, c)
						break
					}
					if !v.changed {
						break // this selector changes nothing on this population: a replay could not show
					}
					if script != nil {
						r.Add("mcp_proxy_slow_lane_runs", 1)
						if v.refused {
							r.Add("mcp_proxy_slow_lane_client_gave_up", 1)
						}
						if v.seen > 1 {
							r.Add("mcp_proxy_slow_lane_runs_with_a_further_attempt_by_the_client", 1)
						}
					}
				}
				for k := range c.distinct {
					r.Distinct(k)
				}
				r.Add("mcp_proxy_transient_dial_failures", c.transient)
			}(n, pop, cs)
		}
	}
}

func mcpProxyPart(r *runner.Run) {
	start := time.Now()
	s := &proxyShared{r: r, ks: kinds([]string{"/r1", "/r2"}, []string{pullTarget}), filter: mcpFilterCases(), byN: map[int][]mcpCase{}, sampled: map[string]bool{}, fullPops: map[string]bool{},
		deadline: start.Add(runner.Pick(r, 30*time.Second, 6*time.Minute))}
	for n := 0; n <= 2; n++ {
		s.byN[n] = mcpIDCases(n)
	}
	small := populations(len(s.ks), 1)
	ki := func(route, state string, rcv int) int {
		for i, k := range s.ks {
			if k.route == route && k.state == state && k.rcv == rcv {
				return i
			}
		}
		panic("c14: no such kind")
	}
	// fixed two-message populations (both tiers): more matching messages than a limit of 1, id order against age
	// order, ties, two routes, mixed states - a second application of the same request changes further messages
	fixed := [][]int{
		{ki("/r1", qmodel.Queued, 0), ki("/r1", qmodel.Queued, 1)},
		{ki("/r1", qmodel.Queued, 1), ki("/r1", qmodel.Queued, 0)},
		{ki("/r1", qmodel.Dead, 0), ki("/r1", qmodel.Dead, 0)},
		{ki("/r1", qmodel.Canceled, 0), ki("/r2", qmodel.Canceled, 1)},
		{ki("/r1", qmodel.Leased, 1), ki("/r2", qmodel.Dead, 0)},
		{ki("/r2", qmodel.Dead, 1), ki("/r2", qmodel.Canceled, 1)},
		{ki("/r2", qmodel.Queued, 0), ki("/r2", qmodel.Queued, 1)}, // two matching messages on the route that is labelled in the managed flavour
	}
	var pops [][]int
	seen := map[string]bool{}
	add := func(p []int, full bool) {
		if seen[popKey(p)] {
			return
		}
		seen[popKey(p)] = true
		pops = append(pops, p)
		if full && r.Thorough() {
			s.fullPops[popKey(p)] = true
		}
	}
	for _, p := range fixed {
		add(p, true)
	}
	for _, p := range small {
		add(p, true)
	}
	if r.Thorough() {
		for _, p := range populations(len(s.ks), 2) {
			add(p, false)
		}
	}
	s.scoped = proxyScopedCases()
	type item struct {
		pop     []int
		managed bool
	}
	var items []item
	for _, p := range pops {
		items = append(items, item{p, false})
		if len(p) <= 1 || s.fullPops[popKey(p)] || r.Quick() {
			items = append(items, item{p, true}) // managed flavour: populations <= 1 and the fixed ones
		}
	}
	workers := runner.Pick(r, 8, 10)
	var next, done atomic.Int64
	var wg sync.WaitGroup
	s.slowLane(runner.Pick(r, [][]int{fixed[0], fixed[2], fixed[3]}, fixed), &wg)
	for wi := 0; wi < workers; wi++ {
		wg.Add(1)
		go func(wi int) {
			defer wg.Done()
			envs := map[bool]*proxyEnv{}
			defer func() {
				for _, e := range envs {
					e.close()
				}
			}()
			c := &proxyCounters{adminCounters: newAdminCounters(), byLabel: map[string]int64{}}
			for {
				i := int(next.Add(1)) - 1
				if i >= len(items) || s.budgetHit.Load() {
					break
				}
				e := envs[items[i].managed]
				if e == nil {
					var err error
					if e, err = newProxyEnv(map[bool]int{false: 500, true: 600}[items[i].managed]+wi, items[i].managed); err != nil {
						r.Infra("c14 mcp-proxy: %v", err)
						return
					}
					envs[items[i].managed] = e
				}
				if !e.runPop(s, items[i].pop, c) {
					break
				}
				if !s.budgetHit.Load() {
					done.Add(1)
					if items[i].managed {
						c.managedPops++
					}
				}
			}
			var listens, boots int64
			for _, e := range envs {
				listens += e.listens
				boots += e.boots
			}
			for k := range c.distinct {
				r.Distinct(k)
			}
			for k, n := range c.byLabel {
				r.Add(k, n)
			}
			r.Add("mcp_proxy_runs", c.runs)
			r.Add("mcp_proxy_runs_with_disturbed_transport", c.faultRuns)
			r.Add("mcp_proxy_runs_mcp_backend_postgres", c.pgRuns)
			r.Add("mcp_proxy_forwarded_requests", c.forwarded)
			r.Add("mcp_proxy_requests_applied_by_admin", c.applied)
			r.Add("mcp_proxy_tool_reported_success", c.success)
			r.Add("mcp_proxy_tool_reported_success_on_disturbed_transport", c.successAfterFault)
			r.Add("mcp_proxy_tool_reported_failure", c.failure)
			r.Add("mcp_proxy_failure_with_one_application_left", c.failApplied)
			r.Add("mcp_proxy_failure_with_queue_unchanged", c.failNotApplied)
			r.Add("mcp_proxy_runs_that_changed_messages", c.changed)
			r.Add("mcp_proxy_runs_with_a_further_attempt_by_the_client", c.retried)
			r.Add("mcp_proxy_runs_beyond_depth_cap", c.depthCapped)
			r.Add("mcp_proxy_worker_operations", c.workerSteps)
			r.Add("mcp_proxy_transient_dial_failures", c.transient)
			r.Add("mcp_proxy_rebuilds", c.rebuilds)
			r.Add("mcp_proxy_must_accept_runs", c.mustOK)
			r.Add("mcp_proxy_either_runs", c.either)
			r.Add("mcp_proxy_must_reject_runs", c.mustReject)
			r.Add("mcp_proxy_front_listeners", listens)
			r.Add("mcp_proxy_boots", boots)
			r.Add("mcp_proxy_runs_managed_flavour", c.managedRuns)
			r.Add("mcp_proxy_populations_managed_flavour", c.managedPops)
		}(wi)
	}
	wg.Wait()
	if s.budgetHit.Load() {
		r.NotExhaustive(fmt.Sprintf("mcp-proxy part time budget: %d of %d (population, flavour) items finished", done.Load(), len(items)))
	}
	if len(s.transients) > 0 {
		r.Set("mcp_proxy_transient_examples", s.transients)
	}
	r.Add("mcp_proxy_populations", done.Load())
	r.Set("mcp_proxy_wall_s", time.Since(start).Seconds())
	nFault := 0
	for _, g := range [][]mcpCase{s.filter, s.byN[2]} {
		for i := range g {
			if faultCase(&g[i]) {
				nFault++
			}
		}
	}
	r.Set("mcp_proxy_selectors_per_population", len(s.filter)+len(s.byN[2]))
	r.Set("mcp_proxy_selectors_crossed_with_transport", nFault)
	r.Set("mcp_proxy_transport_alphabet", behName[:])
	r.Set("mcp_proxy_rule", fmt.Sprintf("mcp.NewServer(...).Serve (framed JSON-RPC, role operate, mutations enabled) in admin-proxy mode (MCP-side route backend memory; also postgres for the by-filter selectors with a limit and the id hits on two-message populations) -> real loopback TCP -> front -> production Admin handler (app.VerifBoot) over the qsys MemoryStore; "+
		"populations: empty, every single message over route{/r1,/r2} x state(5) x received_at{T0,T1}, seven fixed two-message populations%s; "+
		"managed flavour (route /r2 labelled application/endpoint_name in the application and in the MCP configuration, populations <= 1 and the fixed ones): %d by-filter calls with application+endpoint_name x state x limit{-,1} x preview (forwarded to the endpoint-scoped path), crossed with the transport, and route-path / unscoped selectors on the undisturbed transport; "+
		"undisturbed transport x the whole selector set of the direct MCP part (%d by-filter calls, id lists, documented refusals); "+
		"transport behaviour tree per forwarded request over %d behaviours, expanded at every position the client really reached (depth <= %d), x %s; slow lane: the client's own timeout (handler ran, silence) x tool x {limit 1 | first id} x fixed two-message populations; "+
		"oracle: queue afterwards = queue before (no request applied by the Admin handler) or = reference(one application)[+ the worker step the transport made], full private-state snapshot; reported success => exactly the counts of that one application; "+
		"undisturbed transport + well-formed call => accepted; non-trivial = distinct (tool, transport script, forwarded requests, reported failure, queue changed)",
		runner.Pick(r, "", ", every multiset of two messages (thorough)"), len(s.scoped), len(s.filter), int(nBeh), proxyMaxDepth,
		runner.Pick(r, fmt.Sprintf("the %d selectors of faultCase (by-filter: route x state defined for the operation x limit{-,1,2} x preview; ids: miss, hit, duplicate, padded, reversed, all)", nFault),
			"every selector that is not a documented refusal on populations <= 1 and the fixed ones, the faultCase subset on the other two-message populations")))
	r.Assume("mcp-proxy: the client's timeout (handler ran, no answer until the client gives up) costs the timeout in wall time per run and is played in a slow lane only: per tool one selector (by-filter: limit 1; ids: the first message) on the fixed two-message populations where that selector changes a message, first request only. The proxied publish tool and its compensating cancel are not queue-selection mutations and are not driven")
	r.Assume("mcp-proxy, managed flavour: docs/admin-api.md rejects route selectors that resolve to a labelled route and unscoped selectors while labelled routes exist; these calls and a path selector for the unlabelled route are judged 'refused and nothing changed, or obeying the model'; id tools are not driven in the managed flavour")
}
