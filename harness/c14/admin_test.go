package c14

// C14, Admin HTTP layer: the operator mutations and listings of the Admin API, driven through the real handler
// chain wired by the production startServers (app.VerifBoot) over a store that qsys built, for every population
// of messages x every selector, against the qmodel reference and a private-state snapshot.
//
// What the documentation (docs/admin-api.md) fixes and what it leaves open is encoded in the `expect` of a case:
//   mustOK     the request is well-formed by every documented rule: it must be answered 2xx and obey the model
//   either     the docs are silent about this input (limit <= 0 or > 1000, a state the operation is not defined
//              for, an unknown state, blank/empty/oversized id lists): "4xx and nothing changed" and "2xx obeying
//              the model with the clamped/normalised value" are both accepted
//   mustReject the docs demand a rejection (unknown JSON field, trailing JSON document, missing audit reason
//              header): 4xx and nothing changed

import (
	"bufio"
	"bytes"
	"encoding/json"
	"fmt"
	"net/http"
	"net/http/httptest"
	"net/url"
	"os"
	"path/filepath"
	"reflect"
	"runtime"
	"sort"
	"strings"
	"sync"
	"sync/atomic"
	"time"

	"github.com/nuetzliches/hookaido/internal/app"
	"github.com/nuetzliches/hookaido/internal/queue"
	"github.com/nuetzliches/hookaido/internal/verifkit/qmodel"
	"github.com/nuetzliches/hookaido/internal/verifkit/qsys"
	"github.com/nuetzliches/hookaido/internal/verifkit/runner"
)

const (
	mustOK = iota
	either
	mustReject
)

var expectName = []string{"must-accept", "either", "must-reject"}

const pullTarget = "pull"

type opDef struct {
	Name  string // endpoint name used in keys
	Kind  string // qmodel op kind
	Field string // response field carrying the number of changed messages
	Path  string
	Tool  string // MCP tool name
}

var filterOps = []opDef{
	{"cancel_by_filter", "cancelf", "canceled", "/messages/cancel_by_filter", "messages_cancel_by_filter"},
	{"requeue_by_filter", "requeuef", "requeued", "/messages/requeue_by_filter", "messages_requeue_by_filter"},
	{"resume_by_filter", "resumef", "resumed", "/messages/resume_by_filter", "messages_resume_by_filter"},
}

var idOps = []opDef{
	{"cancel", "cancel", "canceled", "/messages/cancel", "messages_cancel"},
	{"requeue", "requeue", "requeued", "/messages/requeue", "messages_requeue"},
	{"resume", "resume", "resumed", "/messages/resume", "messages_resume"},
	{"dlq_requeue", "rqdead", "requeued", "/dlq/requeue", "dlq_requeue"},
	{"dlq_delete", "deldead", "deleted", "/dlq/delete", "dlq_delete"},
}

var changeFields = []string{"canceled", "requeued", "resumed", "deleted"}

// statesFor: the states an operation is defined for (property statement).
func statesFor(kind string) []string {
	switch kind {
	case "cancel", "cancelf":
		return []string{qmodel.Queued, qmodel.Leased, qmodel.Dead}
	case "requeue", "requeuef":
		return []string{qmodel.Dead, qmodel.Canceled}
	case "resume", "resumef":
		return []string{qmodel.Canceled}
	}
	return []string{qmodel.Dead}
}

func has(set []string, s string) bool {
	for _, x := range set {
		if x == s {
			return true
		}
	}
	return false
}

type adminCase struct {
	Op      opDef
	Method  string
	URL     string
	Body    string
	NoAudit bool
	Expect  int
	Label   string // selector class (keys, distinct classes)
	MOp     qmodel.Op
	List    bool // GET /messages or GET /dlq
	Dead    bool // GET /dlq
}

type optInt struct {
	Set bool
	V   int
}

var limitDomain = []optInt{{}, {true, 0}, {true, 1}, {true, 2}, {true, 1000}, {true, 1001}, {true, -1}}

func (o optInt) String() string {
	if !o.Set {
		return "absent"
	}
	return fmt.Sprint(o.V)
}

func rfc(ns int64) string { return time.Unix(0, ns).UTC().Format(time.RFC3339Nano) }

func jstr(s string) string {
	b, _ := json.Marshal(s)
	return string(b)
}

var stateDomain = []string{"", qmodel.Queued, qmodel.Leased, qmodel.Delivered, qmodel.Dead, qmodel.Canceled, "bogus"}

func limitLabel(l optInt) (string, bool) {
	if l.Set && (l.V <= 0 || l.V > 1000) {
		return "limit-outside-1..1000", true
	}
	return "", false
}

// filterCases: every by-filter body of the product (population independent).
func filterCases() []adminCase {
	var out []adminCase
	for _, op := range filterOps {
		allowed := statesFor(op.Kind)
		for _, ro := range []string{"", "/r1", "/r2"} {
			for _, ta := range []string{"", pullTarget} {
				for _, st := range stateDomain {
					for _, be := range []int64{0, t0, t1, t1 + 1} {
						for _, li := range limitDomain {
							for _, pv := range []bool{false, true} {
								var parts []string
								if ro != "" {
									parts = append(parts, `"route":`+jstr(ro))
								}
								if ta != "" {
									parts = append(parts, `"target":`+jstr(ta))
								}
								if st != "" {
									parts = append(parts, `"state":`+jstr(st))
								}
								if be != 0 {
									parts = append(parts, `"before":`+jstr(rfc(be)))
								}
								if li.Set {
									parts = append(parts, fmt.Sprintf(`"limit":%d`, li.V))
								}
								if pv {
									parts = append(parts, `"preview_only":true`)
								}
								c := adminCase{Op: op, Method: "POST", URL: op.Path, Body: "{" + strings.Join(parts, ",") + "}", Expect: mustOK, Label: "plain",
									MOp: qmodel.Op{Kind: op.Kind, Filter: qmodel.Filter{Route: ro, Target: ta, State: st, Before: be, Limit: li.V, Preview: pv}}}
								if lbl, out := limitLabel(li); out {
									c.Expect, c.Label = either, lbl
								}
								if st == "bogus" {
									c.Expect, c.Label = either, "state-unknown"
								} else if st != "" && !has(allowed, st) {
									c.Expect, c.Label = either, "state-not-defined-for-operation"
								}
								out = append(out, c)
							}
						}
					}
				}
			}
		}
	}
	return out
}

func idsBody(ids []string) string {
	if ids == nil {
		return "{}"
	}
	b, _ := json.Marshal(map[string]any{"ids": ids})
	return string(b)
}

func popIDs(n int) []string {
	ids := make([]string, n)
	for i := range ids {
		ids[i] = fmt.Sprintf("m%d", i)
	}
	return ids
}

type idList struct {
	IDs    []string
	Expect int
	Label  string
}

// idLists for a population of n messages (ids m0..m<n-1>): hit, miss, blank, duplicate, padded, empty, absent,
// and 1000 / 1001 entries with the only hit in the last position.
func adminIDLists(n int) []idList {
	ids := popIDs(n)
	ls := []idList{
		{nil, either, "ids-absent"},
		{[]string{}, either, "ids-empty"},
		{[]string{"nope"}, mustOK, "miss"},
		{[]string{" "}, either, "ids-blank-entry"},
		{[]string{"nope", "", " nope "}, either, "ids-blank-entry"},
	}
	for _, id := range ids {
		ls = append(ls, idList{[]string{id}, mustOK, "hit"}, idList{[]string{id, id}, mustOK, "duplicate"}, idList{[]string{" " + id + " ", "nope"}, mustOK, "padded"})
		ls = append(ls, idList{[]string{id, " "}, either, "ids-blank-entry"})
	}
	if n >= 2 {
		rev := make([]string, n)
		for i := range ids {
			rev[n-1-i] = ids[i]
		}
		ls = append(ls, idList{rev, mustOK, "all-reversed"}, idList{append([]string{}, ids...), mustOK, "all"})
	}
	last := "nope"
	if n > 0 {
		last = ids[n-1]
	}
	for _, size := range []int{1000, 1001} {
		big := make([]string, 0, size)
		for i := 0; i < size-1; i++ {
			big = append(big, fmt.Sprintf("x%04d", i))
		}
		big = append(big, last)
		ls = append(ls, idList{big, either, fmt.Sprintf("ids-%d-entries", size)})
	}
	return ls
}

func idCases(n int) []adminCase {
	var out []adminCase
	for _, op := range idOps {
		for _, l := range adminIDLists(n) {
			out = append(out, adminCase{Op: op, Method: "POST", URL: op.Path, Body: idsBody(l.IDs), Expect: l.Expect, Label: l.Label, MOp: qmodel.Op{Kind: op.Kind, IDs: l.IDs}})
		}
	}
	return out
}

// rejectCases: requests the documentation says are refused; each of them names messages that a tolerant
// implementation would change.
func rejectCases(n int) []adminCase {
	var out []adminCase
	ids := popIDs(n)
	if n == 0 {
		ids = []string{"nope"}
	}
	idSel := strings.TrimSuffix(strings.TrimPrefix(idsBody(ids), "{"), "}")
	for _, op := range filterOps {
		sel := `"limit":2`
		out = append(out,
			adminCase{Op: op, Method: "POST", URL: op.Path, Body: "{" + sel + `,"bogus_field":1}`, Expect: mustReject, Label: "unknown-field"},
			adminCase{Op: op, Method: "POST", URL: op.Path, Body: "{" + sel + "," + idSel + "}", Expect: mustReject, Label: "unknown-field-ids"},
			adminCase{Op: op, Method: "POST", URL: op.Path, Body: "{" + sel + "}{" + sel + "}", Expect: mustReject, Label: "trailing-document"},
			adminCase{Op: op, Method: "POST", URL: op.Path, Body: "{" + sel + "}", NoAudit: true, Expect: mustReject, Label: "no-audit-reason"},
		)
	}
	for _, op := range idOps {
		out = append(out,
			adminCase{Op: op, Method: "POST", URL: op.Path, Body: "{" + idSel + `,"bogus_field":1}`, Expect: mustReject, Label: "unknown-field"},
			adminCase{Op: op, Method: "POST", URL: op.Path, Body: "{" + idSel + `,"preview_only":true}`, Expect: mustReject, Label: "unknown-field-preview_only"},
			adminCase{Op: op, Method: "POST", URL: op.Path, Body: "{" + idSel + "}{" + idSel + "}", Expect: mustReject, Label: "trailing-document"},
			adminCase{Op: op, Method: "POST", URL: op.Path, Body: "{" + idSel + "}", NoAudit: true, Expect: mustReject, Label: "no-audit-reason"},
		)
	}
	return out
}

var (
	listMessagesOp = opDef{Name: "list_messages", Path: "/messages"}
	listDLQOp      = opDef{Name: "list_dlq", Path: "/dlq"}
)

func listCases() []adminCase {
	var out []adminCase
	mk := func(op opDef, dead bool, ro, ta, st string, be int64, li optInt) {
		q := url.Values{}
		if ro != "" {
			q.Set("route", ro)
		}
		if ta != "" {
			q.Set("target", ta)
		}
		if st != "" {
			q.Set("state", st)
		}
		if be != 0 {
			q.Set("before", rfc(be))
		}
		if li.Set {
			q.Set("limit", fmt.Sprint(li.V))
		}
		u := op.Path
		if len(q) > 0 {
			u += "?" + q.Encode()
		}
		c := adminCase{Op: op, Method: "GET", URL: u, Expect: mustOK, Label: "plain", List: true, Dead: dead,
			MOp: qmodel.Op{Kind: "list", List: qmodel.ListSpec{Route: ro, Target: ta, State: st, Before: be, Limit: li.V}}}
		if lbl, out := limitLabel(li); out {
			c.Expect, c.Label = either, lbl
		}
		if st == "bogus" {
			c.Expect, c.Label = either, "state-unknown"
		}
		out = append(out, c)
	}
	for _, ro := range []string{"", "/r1", "/r2"} {
		for _, be := range []int64{0, t0, t1, t1 + 1} {
			for _, li := range limitDomain {
				for _, ta := range []string{"", pullTarget} {
					for _, st := range stateDomain {
						mk(listMessagesOp, false, ro, ta, st, be, li)
					}
				}
				mk(listDLQOp, true, ro, "", "", be, li)
			}
		}
	}
	return out
}

// ---- the booted application -------------------------------------------------------------------------------------

var adminBootSeq atomic.Int64

type adminEnv struct {
	worker  int
	backend string
	dir     string
	sys     *qsys.Sys
	app     *app.VerifApp
	booted  queue.Store
	boots   int64
	dsl     func(backend string, port int) string // nil = adminDSL
}

func adminDSL(backend string, port int) string {
	var b strings.Builder
	fmt.Fprintf(&b, "ingress { listen \"127.0.0.1:%d\" }\n", port)
	fmt.Fprintf(&b, "pull_api { listen \"127.0.0.1:%d\"\n auth token \"raw:g1\" }\n", port+1)
	fmt.Fprintf(&b, "admin_api { listen \"127.0.0.1:%d\" }\n", port+2)
	b.WriteString("queue_retention {\n max_age off\n}\n")
	b.WriteString("delivered_retention {\n max_age 1000h\n}\n")
	fmt.Fprintf(&b, "/r1 {\n queue { backend %s }\n pull { path /e1 }\n}\n", backend)
	fmt.Fprintf(&b, "/r2 {\n queue { backend %s }\n pull { path /e2 }\n}\n", backend)
	return b.String()
}

func newAdminEnv(worker int, backend string) *adminEnv {
	e := &adminEnv{worker: worker, backend: backend, dir: filepath.Join(runner.Scratch(), fmt.Sprintf("c14admin-%s-%d", backend, worker))}
	os.MkdirAll(e.dir, 0o755)
	e.sys = qsys.New(backend, cfg, filepath.Join(e.dir, "q"))
	return e
}

// ensureBoot (re)boots the application when qsys replaced the store object (every Reset of the memory backend,
// every 2000th of SQLite).
func (e *adminEnv) ensureBoot() error {
	if e.app != nil && e.booted == e.sys.Store {
		return nil
	}
	if e.app != nil {
		e.app.Shutdown()
		e.app = nil
	}
	var a *app.VerifApp
	var err error
	for try := 0; try < 50; try++ {
		port := 20000 + int(adminBootSeq.Add(1)%13000)*3
		dsl := adminDSL
		if e.dsl != nil {
			dsl = e.dsl
		}
		a, err = app.VerifBoot(app.VerifBootOptions{Dir: filepath.Join(e.dir, "app"), ConfigText: dsl(e.backend, port), Store: e.sys.Store,
			Now: func() time.Time { return time.Unix(0, e.sys.Clk).UTC() }})
		if err == nil || !strings.Contains(err.Error(), "address already in use") {
			break
		}
		runtime.Gosched()
	}
	if err != nil {
		return fmt.Errorf("boot: %w", err)
	}
	if a.Admin == nil {
		a.Shutdown()
		return fmt.Errorf("boot: admin handler not found")
	}
	e.app, e.booted = a, e.sys.Store
	e.boots++
	return nil
}

func (e *adminEnv) close() {
	if e.app != nil {
		e.app.Shutdown()
		e.app = nil
	}
	e.sys.Close()
}

func httpDo(h http.Handler, method, u string, audit bool, body string) (int, []byte) {
	var b bytes.Buffer
	fmt.Fprintf(&b, "%s %s HTTP/1.1\r\nHost: admin.test\r\n", method, u)
	if audit {
		b.WriteString("X-Hookaido-Audit-Reason: c14 check\r\n")
	}
	if method != "GET" {
		fmt.Fprintf(&b, "Content-Type: application/json\r\nContent-Length: %d\r\n", len(body))
	}
	b.WriteString("\r\n")
	b.WriteString(body)
	req, err := http.ReadRequest(bufio.NewReader(&b))
	if err != nil {
		panic(fmt.Sprintf("c14: cannot build request: %v", err))
	}
	req.RemoteAddr = "127.0.0.1:40000"
	rec := httptest.NewRecorder()
	h.ServeHTTP(rec, req)
	return rec.Code, rec.Body.Bytes()
}

// ---- judging ----------------------------------------------------------------------------------------------------

func numField(m map[string]any, k string) (int, bool) {
	v, ok := m[k]
	if !ok {
		return 0, true
	}
	f, ok := v.(float64)
	if !ok || f != float64(int(f)) {
		return 0, false
	}
	return int(f), true
}

// obsFromCounts turns a JSON answer {matched, <field>, preview_only} into the model's observation.
func obsFromCounts(body map[string]any, op opDef, byFilter bool) (*qmodel.Obs, string) {
	o := &qmodel.Obs{Err: qmodel.OK}
	n, ok := numField(body, op.Field)
	if !ok {
		return nil, "count-not-a-number"
	}
	o.N = n
	for _, f := range changeFields {
		if f == op.Field {
			continue
		}
		if v, ok := numField(body, f); !ok || v != 0 {
			return nil, "foreign-count-reported"
		}
	}
	if byFilter {
		mt, ok := numField(body, "matched")
		if !ok {
			return nil, "count-not-a-number"
		}
		o.Matched = mt
		if v, ok := body["preview_only"]; ok {
			b, isBool := v.(bool)
			if !isBool {
				return nil, "preview_only-not-a-bool"
			}
			o.Preview = b
		}
	} else {
		o.Matched = n // id forms report no separate matched count
	}
	return o, ""
}

// refList is the reference listing written from docs/admin-api.md: filters ANDed, "before" exclusive, newest
// first, at most limit (default 100, max 1000). It returns all candidates in order and the cap.
func refList(m *qmodel.Model, l qmodel.ListSpec, dead bool) ([]*qmodel.Msg, int) {
	limit := l.Limit
	if limit <= 0 {
		limit = 100
	}
	if limit > 1000 {
		limit = 1000
	}
	var c []*qmodel.Msg
	for _, it := range m.Items {
		switch {
		case dead && it.State != qmodel.Dead,
			l.State != "" && it.State != l.State,
			l.Route != "" && it.Route != l.Route,
			l.Target != "" && it.Target != l.Target,
			l.Before != 0 && it.ReceivedAt >= l.Before:
			continue
		}
		c = append(c, it)
	}
	sort.Slice(c, func(i, j int) bool {
		if c[i].ReceivedAt != c[j].ReceivedAt {
			return c[i].ReceivedAt > c[j].ReceivedAt
		}
		return c[i].ID > c[j].ID
	})
	return c, limit
}

type listItem struct {
	ID         string     `json:"id"`
	Route      string     `json:"route"`
	Target     string     `json:"target"`
	State      string     `json:"state"`
	ReceivedAt time.Time  `json:"received_at"`
	Attempt    int        `json:"attempt"`
	NextRunAt  *time.Time `json:"next_run_at"`
	DeadReason string     `json:"dead_reason"`
}

func checkListing(m *qmodel.Model, c *adminCase, raw []byte) (what, msg string) {
	var resp struct {
		Items []listItem `json:"items"`
	}
	if err := json.Unmarshal(raw, &resp); err != nil {
		return "response-not-json", err.Error()
	}
	cand, limit := refList(m, c.MOp.List, c.Dead)
	want := cand
	if len(want) > limit {
		want = want[:limit]
	}
	gotIDs := make([]string, len(resp.Items))
	for i, it := range resp.Items {
		gotIDs[i] = it.ID
	}
	wantIDs := make([]string, len(want))
	for i, it := range want {
		wantIDs[i] = it.ID
	}
	if len(gotIDs) != len(wantIDs) {
		return "listing-length", fmt.Sprintf("listed %v, reference %v", gotIDs, wantIDs)
	}
	seen := map[string]bool{}
	for i, g := range resp.Items {
		it := m.Items[g.ID]
		if it == nil || seen[g.ID] {
			return "listing-membership", fmt.Sprintf("listed %v, reference %v", gotIDs, wantIDs)
		}
		seen[g.ID] = true
		if c.Dead {
			// inside one received_at tie group GET /dlq documents no order: positions must agree in received_at, members must be candidates
			ok := false
			for _, x := range cand {
				if x.ID == g.ID {
					ok = true
				}
			}
			if !ok || g.ReceivedAt.UnixNano() != want[i].ReceivedAt {
				return "listing-order-or-membership", fmt.Sprintf("listed %v, reference %v (ties in any order)", gotIDs, wantIDs)
			}
		} else if g.ID != want[i].ID {
			return "listing-order-or-membership", fmt.Sprintf("listed %v, reference %v", gotIDs, wantIDs)
		}
		switch {
		case g.Route != it.Route:
			return "listing-item-route", fmt.Sprintf("%s: route %q, stored %q", g.ID, g.Route, it.Route)
		case g.Target != it.Target:
			return "listing-item-target", fmt.Sprintf("%s: target %q, stored %q", g.ID, g.Target, it.Target)
		case g.ReceivedAt.UnixNano() != it.ReceivedAt:
			return "listing-item-received_at", fmt.Sprintf("%s: received_at %s, stored %s", g.ID, g.ReceivedAt, rfc(it.ReceivedAt))
		case g.Attempt != it.Attempt:
			return "listing-item-attempt", fmt.Sprintf("%s: attempt %d, stored %d", g.ID, g.Attempt, it.Attempt)
		case g.DeadReason != it.DeadReason:
			return "listing-item-dead_reason", fmt.Sprintf("%s: dead_reason %q, stored %q", g.ID, g.DeadReason, it.DeadReason)
		}
		if !c.Dead {
			if g.State != it.State {
				return "listing-item-state", fmt.Sprintf("%s: state %q, stored %q", g.ID, g.State, it.State)
			}
			if g.NextRunAt == nil || g.NextRunAt.UnixNano() != it.NextRunAt {
				return "listing-item-next_run_at", fmt.Sprintf("%s: next_run_at %v, stored %s", g.ID, g.NextRunAt, rfc(it.NextRunAt))
			}
		}
	}
	return "", ""
}

type adminCounters struct {
	cases, changed, accepted, rejected, lists, rebuilds, mustOK, either, mustReject, leaseVoid int64
	distinct                                                                                   map[string]struct{}
	reported                                                                                   map[string]bool
}

func newAdminCounters() *adminCounters {
	return &adminCounters{distinct: map[string]struct{}{}, reported: map[string]bool{}}
}

type verdict struct {
	what, msg string
	status    int
	n, m      int
	dirty     bool
}

// judge sends one request and compares the answer and the private state with the reference.
func (e *adminEnv) judge(w *world, c *adminCase, pre []qmodel.Msg) (verdict, []qmodel.Msg) {
	status, raw := httpDo(e.app.Admin, c.Method, c.URL, !c.NoAudit, c.Body)
	post := e.sys.Snapshot()
	v := verdict{status: status}
	switch {
	case status >= 200 && status <= 299:
		if c.Expect == mustReject {
			v.what, v.msg, v.dirty = "invalid-request-accepted:"+c.Label, fmt.Sprintf("answered %d %s", status, strings.TrimSpace(string(raw))), true
			return v, post
		}
		if c.List {
			if !reflect.DeepEqual(pre, post) {
				v.what, v.msg, v.dirty = "listing-changed-the-queue", "private state differs after a GET", true
				return v, post
			}
			if c.MOp.List.State == "bogus" {
				// an unknown state matches no message
				var resp struct {
					Items []listItem `json:"items"`
				}
				if err := json.Unmarshal(raw, &resp); err != nil || len(resp.Items) != 0 {
					v.what, v.msg = "listing-unknown-state-lists-messages", strings.TrimSpace(string(raw))
				}
				return v, post
			}
			v.what, v.msg = checkListing(w.m, c, raw)
			return v, post
		}
		var body map[string]any
		if err := json.Unmarshal(raw, &body); err != nil {
			v.what, v.msg, v.dirty = "response-not-json", err.Error(), true
			return v, post
		}
		obs, bad := obsFromCounts(body, c.Op, c.MOp.Kind == "cancelf" || c.MOp.Kind == "requeuef" || c.MOp.Kind == "resumef")
		if bad != "" {
			v.what, v.msg, v.dirty = bad, strings.TrimSpace(string(raw)), true
			return v, post
		}
		v.n, v.m = obs.N, obs.Matched
		type held struct{ id, lease string }
		var leased []held
		if c.Op.Field == "canceled" {
			for _, it := range w.m.Items {
				if it.State == qmodel.Leased {
					leased = append(leased, held{it.ID, it.Lease})
				}
			}
		}
		why := w.m.Apply(c.MOp, obs, post)
		v.dirty = obs.N > 0 || why != ""
		if why != "" {
			v.what, v.msg = firstWords(why, 5), why+"; answer "+strings.TrimSpace(string(raw))
			return v, post
		}
		for _, h := range leased {
			if it := w.m.Items[h.id]; it != nil && it.State == qmodel.Canceled {
				// the lease of a canceled message is void: ack with the old lease must be refused and change nothing
				ack := qmodel.Op{Kind: "ack", Lease: h.lease}
				o2 := e.sys.Do(ack)
				post = e.sys.Snapshot()
				v.dirty = true
				if why2 := w.m.Apply(ack, o2, post); why2 != "" {
					v.what, v.msg = "lease-not-void-after-cancel", "after cancel of leased "+h.id+", ack with the old lease: "+why2
					return v, post
				}
				v.n = -v.n // marks the lease probe in the distinct class
			}
		}
		return v, post
	case status >= 400 && status <= 499:
		if !reflect.DeepEqual(pre, post) {
			v.what, v.msg, v.dirty = "rejected-but-queue-changed", fmt.Sprintf("answered %d %s but the private state differs", status, strings.TrimSpace(string(raw))), true
			return v, post
		}
		if c.Expect == mustOK {
			v.what, v.msg = "valid-request-rejected:"+c.Label, fmt.Sprintf("answered %d %s", status, strings.TrimSpace(string(raw)))
		}
		return v, post
	}
	v.what, v.msg, v.dirty = fmt.Sprintf("status-%dxx", status/100), fmt.Sprintf("answered %d %s", status, strings.TrimSpace(string(raw))), true
	return v, post
}

type adminShared struct {
	r        *runner.Run
	ks       []kind
	filter   []adminCase
	list     []adminCase
	byN      map[int][]adminCase // id + reject cases per population size
	deadline time.Time
	sampleMu sync.Mutex
	sampled  map[string]bool
}

func (s *adminShared) casesFor(n int) [][]adminCase {
	return [][]adminCase{s.filter, s.byN[n], s.list}
}

func popDesc(w *world, ks []kind, pop []int) []string {
	d := make([]string, len(pop))
	for i, ki := range pop {
		d[i] = fmt.Sprintf("%s:%+v", w.ids[i], ks[ki])
	}
	return d
}

func (e *adminEnv) rebuild(s *adminShared, pop []int) (*world, []qmodel.Msg, string) {
	w, why := build(e.sys, s.ks, pop)
	if why != "" {
		return nil, nil, why
	}
	if err := e.ensureBoot(); err != nil {
		return nil, nil, "INFRA " + err.Error()
	}
	return w, e.sys.Snapshot(), ""
}

func (e *adminEnv) runPop(s *adminShared, pop []int, c *adminCounters) {
	r := s.r
	w, pre, why := e.rebuild(s, pop)
	fail := func(why string) {
		if strings.HasPrefix(why, "INFRA ") {
			r.Infra("c14 admin (%s): %s", e.backend, why)
		} else {
			r.Violation("population-build:"+e.backend, why, map[string]any{"population": pop}, nil)
		}
	}
	if why != "" {
		fail(why)
		return
	}
	desc := popDesc(w, s.ks, pop)
	dirty := false
	for _, group := range s.casesFor(len(pop)) {
		for i := range group {
			cs := &group[i]
			if dirty {
				if w, pre, why = e.rebuild(s, pop); why != "" {
					fail(why)
					return
				}
				c.rebuilds++
				dirty = false
			}
			v, post := e.judge(w, cs, pre)
			pre, dirty = post, v.dirty
			c.cases++
			switch cs.Expect {
			case mustOK:
				c.mustOK++
			case either:
				c.either++
			default:
				c.mustReject++
			}
			if cs.List {
				c.lists++
			}
			if v.status/100 == 2 {
				c.accepted++
			} else if v.status/100 == 4 {
				c.rejected++
			}
			if v.n != 0 {
				c.changed++
			}
			if v.n < 0 {
				c.leaseVoid++
			}
			if cs.List {
				c.distinct[fmt.Sprintf("admin:%s:%s:%dxx", cs.Op.Name, cs.Label, v.status/100)] = struct{}{}
			} else {
				c.distinct[fmt.Sprintf("admin:%s:%s:%dxx:n%d:m%d:pv%v", cs.Op.Name, cs.Label, v.status/100, v.n, v.m, cs.MOp.Filter.Preview)] = struct{}{}
			}
			if v.what == "" {
				if cs.Expect != mustOK || v.n != 0 {
					s.sample(cs, e.backend, desc, v)
				}
				continue
			}
			key := "admin:" + cs.Op.Name + ":" + v.what
			if c.reported[key] {
				continue
			}
			c.reported[key] = true
			body := cs.Body
			if len(body) > 300 {
				body = body[:300] + "…"
			}
			recheck := func() bool {
				w2, pre2, why := e.rebuild(s, pop)
				if why != "" {
					return true
				}
				v2, _ := e.judge(w2, cs, pre2)
				return v2.what == v.what
			}
			r.Violation(key, fmt.Sprintf("[%s] population %v, %s %s %s (audit header %v, %s, %s): %s", e.backend, desc, cs.Method, cs.URL, body, !cs.NoAudit, expectName[cs.Expect], cs.Label, v.msg),
				map[string]any{"engine": "admin", "backend": e.backend, "population": desc, "method": cs.Method, "url": cs.URL, "body": body, "audit_header": !cs.NoAudit}, recheck)
			dirty = true
		}
	}
}

func (s *adminShared) sample(c *adminCase, backend string, desc []string, v verdict) {
	k := c.Op.Name + "|" + c.Label
	s.sampleMu.Lock()
	defer s.sampleMu.Unlock()
	if s.sampled[k] || len(s.sampled) >= 3 {
		return
	}
	s.sampled[k] = true
	body := c.Body
	if len(body) > 200 {
		body = body[:200] + "…"
	}
	s.r.Sample(map[string]any{"layer": "admin", "backend": backend, "population": desc, "request": c.Method + " " + c.URL + " " + body, "expect": expectName[c.Expect], "status": v.status, "changed": v.n, "matched": v.m})
}

// adminBulk: the default (100) and maximum (1000) limit need more than 1000 matching messages.
func (e *adminEnv) adminBulk(s *adminShared, sizes []int, c *adminCounters) {
	r := s.r
	for _, n := range sizes {
		for _, li := range []optInt{{}, {true, 0}, {true, 100}, {true, 1000}, {true, 1001}, {true, -1}} {
			for _, pv := range []bool{true, false} {
				e.sys.Reset()
				if err := e.ensureBoot(); err != nil {
					r.Infra("c14 admin bulk: %v", err)
					return
				}
				m := qmodel.New(e.sys.Cfg, qsys.T0)
				m.PostHasLeases = true
				envs := make([]qmodel.EnvSpec, 0, n)
				for i := 0; i < n; i++ {
					envs = append(envs, qmodel.EnvSpec{ID: fmt.Sprintf("b%04d", i), Route: "/r1", Target: pullTarget, ReceivedAt: t0 + int64(i%7)})
				}
				for i := 0; i < n; i += 200 {
					op := qmodel.Op{Kind: "enqb", Envs: envs[i:min(n, i+200)]}
					if why := m.Apply(op, e.sys.Do(op), nil); why != "" {
						r.Violation("bulk-build", why, nil, nil)
						return
					}
				}
				w := &world{sys: e.sys, m: m}
				pre := e.sys.Snapshot()
				var cases []adminCase
				var parts []string
				if li.Set {
					parts = append(parts, fmt.Sprintf(`"limit":%d`, li.V))
				}
				if pv {
					parts = append(parts, `"preview_only":true`)
				}
				cf := adminCase{Op: filterOps[0], Method: "POST", URL: filterOps[0].Path, Body: "{" + strings.Join(parts, ",") + "}", Expect: mustOK, Label: "bulk",
					MOp: qmodel.Op{Kind: "cancelf", Filter: qmodel.Filter{Limit: li.V, Preview: pv}}}
				if _, out := limitLabel(li); out {
					cf.Expect = either
				}
				u := "/messages"
				if li.Set {
					u += fmt.Sprintf("?limit=%d", li.V)
				}
				cl := adminCase{Op: listMessagesOp, Method: "GET", URL: u, Expect: cf.Expect, Label: "bulk", List: true, MOp: qmodel.Op{Kind: "list", List: qmodel.ListSpec{Limit: li.V}}}
				cases = append(cases, cl, cf)
				for i := range cases {
					cs := &cases[i]
					v, post := e.judge(w, cs, pre)
					pre = post
					c.cases++
					c.distinct[fmt.Sprintf("admin:bulk:%s:n%d:limit=%s:%dxx:n%d:m%d", cs.Op.Name, n, li, v.status/100, v.n, v.m)] = struct{}{}
					if v.what != "" {
						r.Violation("admin:"+cs.Op.Name+":bulk:"+v.what, fmt.Sprintf("[%s] %d queued messages, %s %s %s: %s", e.backend, n, cs.Method, cs.URL, cs.Body, v.msg),
							map[string]any{"engine": "admin-bulk", "backend": e.backend, "n": n, "method": cs.Method, "url": cs.URL, "body": cs.Body}, nil)
					}
				}
			}
		}
	}
}

func (c *adminCounters) flush(r *runner.Run, prefix string) {
	r.Add(prefix+"_cases", c.cases)
	r.Add(prefix+"_cases_that_changed_messages", c.changed)
	r.Add(prefix+"_answered_2xx", c.accepted)
	r.Add(prefix+"_answered_4xx", c.rejected)
	r.Add(prefix+"_listing_cases", c.lists)
	r.Add(prefix+"_rebuilds", c.rebuilds)
	r.Add(prefix+"_must_accept_cases", c.mustOK)
	r.Add(prefix+"_either_cases", c.either)
	r.Add(prefix+"_must_reject_cases", c.mustReject)
	r.Add(prefix+"_lease_void_probes", c.leaseVoid)
	for k := range c.distinct {
		r.Distinct(k)
	}
}

func adminPart(r *runner.Run) {
	start := time.Now()
	s := &adminShared{r: r, ks: kinds([]string{"/r1", "/r2"}, []string{pullTarget}), filter: filterCases(), list: listCases(), byN: map[int][]adminCase{}, sampled: map[string]bool{},
		deadline: start.Add(runner.Pick(r, 90*time.Second, 9*time.Minute))}
	memSize, sqlSize := runner.Pick(r, 2, 3), runner.Pick(r, 1, 2)
	for n := 0; n <= 3; n++ {
		s.byN[n] = append(idCases(n), rejectCases(n)...)
	}
	type job struct {
		backend string
		pops    [][]int
		workers int
		bulk    []int
	}
	jobs := []job{
		{"sqlite", populations(len(s.ks), sqlSize), runner.Pick(r, 4, 6), []int{1001}},
		{"memory", populations(len(s.ks), memSize), max(2, runtime.NumCPU()-2), []int{101, 1001}},
	}
	var wg sync.WaitGroup
	for _, j := range jobs {
		var next atomic.Int64
		var done atomic.Int64
		// bulk first on worker 0 of each backend; populations are handed out largest first
		for wi := 0; wi < j.workers; wi++ {
			wg.Add(1)
			go func(j job, wi int, next, done *atomic.Int64) {
				defer wg.Done()
				e := newAdminEnv(wi, j.backend)
				defer e.close()
				c := newAdminCounters()
				if wi == 0 {
					e.adminBulk(s, j.bulk, c)
				}
				for {
					i := int(next.Add(1)) - 1
					if i >= len(j.pops) {
						break
					}
					if time.Now().After(s.deadline) {
						r.NotExhaustive(fmt.Sprintf("admin part time budget: %s worker %d stopped before population %d of %d", j.backend, wi, i, len(j.pops)))
						break
					}
					e.runPop(s, j.pops[len(j.pops)-1-i], c)
					done.Add(1)
				}
				c.flush(r, "admin")
				r.Add("admin_cases_"+j.backend, c.cases)
				r.Add("admin_boots", e.boots)
			}(j, wi, &next, &done)
		}
		defer func(j job, done *atomic.Int64) { r.Add("admin_populations_"+j.backend, done.Load()) }(j, &done)
	}
	wg.Wait()
	r.Set("admin_wall_s", time.Since(start).Seconds())
	r.Set("admin_selectors_per_population", len(s.filter)+len(s.list)+len(s.byN[2]))
	r.Set("admin_rule", fmt.Sprintf("real application (app.VerifBoot, production startServers) over the qsys store, fixed clock; every multiset of <= %d (memory) / <= %d (sqlite) messages over route{/r1,/r2} x target{pull} x state(5) x received_at{T0,T1} built through the store, "+
		"crossed with POST /messages/{cancel,requeue,resume}_by_filter bodies route{-,/r1,/r2} x target{-,pull} x state{-,5 states,bogus} x before{-,T0,T1,T1+1ns} x limit{-,0,1,2,1000,1001,-1} x preview_only (%d), "+
		"POST /messages/{cancel,requeue,resume} and /dlq/{requeue,delete} id lists (absent, empty, miss, blank, hit, duplicate, padded, hit+blank, reversed, all, 1000 and 1001 entries with the hit last), "+
		"documented refusals (unknown field, foreign field, trailing JSON document, missing X-Hookaido-Audit-Reason), GET /messages route x target x state x before x limit (%d incl. GET /dlq route x before x limit); "+
		"bulk 101/1001 queued messages x limit{-,0,100,1000,1001,-1} x preview for cancel_by_filter and GET /messages; "+
		"oracle: status class by documentation (must-accept / either / must-reject), on 2xx counts and full private-state snapshot = qmodel (allowed states, ANDed criteria, newest first id desc, capped, preview changes nothing, cancel voids lease: old lease ack refused), on 4xx snapshot unchanged, listings = reference listing (ids in order; GET /dlq ties in any order)",
		memSize, sqlSize, len(s.filter), len(s.list)))
	r.Assume("Admin API documentation is silent on: by-filter limit <= 0 or > 1000, a state filter the operation is not defined for or an unknown state, blank/empty/absent/more than 1000 ids, list limit <= 0 or > 1000: both '4xx and nothing changed' and '2xx obeying the model with default 100 / cap 1000 / blank ids skipped / no message matching' are accepted (observed answers are in the distinct classes)")
	r.Assume("GET /messages has no order parameter in the Admin API: newest first (received_at desc, id desc) is the only order checked; GET /dlq ties may come in any order (SQLite orders by received_at only)")
	r.Assume("managed (application/endpoint labelled) routes and the endpoint-scoped paths are not part of the admin enumeration: the configuration has two unlabelled pull routes")
}
