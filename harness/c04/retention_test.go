package c04

import (
	"fmt"
	"os"
	"sort"
	"strconv"
	"strings"
	"time"

	"github.com/nuetzliches/hookaido/internal/verifkit/qmodel"
	"github.com/nuetzliches/hookaido/internal/verifkit/runner"
)

// Retained rows: the store configurations under which a settled message does NOT leave the store. With
// delivered_retention an acknowledged message stays as a delivered row, so every lease operation presented afterwards
// under the lease it was acknowledged with (or under an older lease of that message) finds a row to look at. C04 treats
// such a lease as stale ("already settled"): nack, dead-letter and positive extend are conflicts, and an ack is a
// success only as the remembered duplicate of the ack that succeeded - a nack/dead-letter/extend after an ack is NOT a
// duplicate of anything. The searches of check_test.go run without any retention block (the row is deleted by the ack);
// the jobs of this file run the same engine, judge and listing comparison with the block in the configuration file and
// the contract model told that delivered rows stay.
//
// Every entry is one store configuration; the search is repeated per entry and backend.
var retentionCfgs = []storeConfig{
	// max_age far beyond the virtual time any bounded history can let pass (hours vs. seconds): pruning never interferes
	{Name: "delivered_retention", DSL: "delivered_retention { max_age 1h }", DeliveredMaxAge: time.Hour},
}

const retShards = 3

// retentionFocus selects the alphabet of the retained-row searches (set per job process).
var retentionFocus bool

// enabledRetention: dequeues, every single lease operation (ack, nack, dead-letter, extend) with each of the three
// newest lease ids handed out - whether current, expired, settled or superseded -, the batch forms over the two oldest
// of them in both orders, with a duplicate and next to an unknown id, operator cancel/requeue of the message that may
// be a retained row, and the expiry of a lease.
func enabledRetention(s st) []op {
	ops := []op{{Kind: "deq", Batch: 1}, {Kind: "deq", Batch: 2}}
	hs := make([]string, 0, len(s.M.Issued))
	for h := range s.M.Issued {
		hs = append(hs, h)
	}
	sort.Strings(hs)
	if len(hs) > 3 {
		hs = hs[len(hs)-3:]
	}
	for _, h := range hs {
		for _, k := range []string{"ack", "nack", "nackdead", "ext"} {
			ops = append(ops, op{Kind: k, Lease: h})
		}
	}
	if len(hs) >= 1 {
		ops = append(ops, op{Kind: "ackb", Leases: []string{hs[0], hs[0]}}, op{Kind: "nackb", Leases: []string{hs[len(hs)-1], "lease_unknown"}})
	}
	if len(hs) >= 2 {
		ops = append(ops, op{Kind: "ackb", Leases: []string{hs[0], hs[1]}}, op{Kind: "nackb", Leases: []string{hs[1], hs[0]}})
	}
	ops = append(ops, op{Kind: "cancel", IDs: []string{"a"}}, op{Kind: "requeue", IDs: []string{"a"}})
	ops = append(ops, op{Kind: "tick", Dur: ttl + time.Second})
	return ops
}

// retStats counts, per job process, the lease operations presented under a lease whose message is a retained row at
// that moment (the situations this part exists for), by operation and answer class.
var retStats = map[string]int64{}

// retentionCount is called for every validated transition of a retained-row job. pre is the state before the call.
func retentionCount(pre st, o op, h httpObs) {
	rowState := func(handle string) string {
		id, _, _ := strings.Cut(handle, "#")
		it := pre.M.Items[id]
		if it == nil || !pre.M.Issued[handle] || currentLease(pre.M, handle) {
			return ""
		}
		return string(it.State)
	}
	answer := func(handle string) string {
		if len(o.Leases) == 0 {
			return h.Obs.Err
		}
		if conflictHas(h.Obs.Conflicts, handle) {
			return qmodel.ConflictErr
		}
		return h.Obs.Err
	}
	one := func(handle string) {
		if stt := rowState(handle); stt != "" {
			retStats[fmt.Sprintf("stale-lease-of-a-%s-row:%s:%s", stt, o.Kind, answer(handle))]++
		}
	}
	if o.Lease != "" {
		one(o.Lease)
	}
	seen := map[string]bool{}
	for _, l := range o.Leases {
		if !seen[l] {
			seen[l] = true
			one(l)
		}
	}
}

func retentionCoverage(r *runner.Run, label string, outcomes map[string]int64) {
	for k, v := range retStats {
		r.Add("retained-rows:"+k, v)
		r.Distinct("retained-rows:" + k)
	}
}

// jobEnd: a job that starts late (queued behind others) ends with the HTTP part of the run, like the transport jobs.
func jobEnd(own time.Time) time.Time {
	if v, err := strconv.ParseInt(os.Getenv(xportEndEnv), 10, 64); err == nil && v > 0 && time.Unix(0, v).Before(own) {
		return time.Unix(0, v)
	}
	return own
}

func retentionRule(r *runner.Run) {
	names := []string{}
	for _, c := range retentionCfgs {
		names = append(names, c.Name+" ("+c.DSL+")")
	}
	r.Set("rule:retained-rows", "store configurations in which a settled message stays in the store: "+strings.Join(names, ", ")+"; per configuration and backend every history up to the depth of the HTTP search (memory 5 / SQLite 4 quick, 7 / 6 thorough) over {dequeue batch 1/2, ack / nack / dead-letter / extend with each of the 3 newest lease ids, batch ack/nack (duplicate, two ids in both orders, next to an unknown id), operator cancel/requeue, clock +ttl+1 s} through the pull HTTP handler of an application booted with that block; oracle: the C04 judge unchanged (contract model with retained delivered rows + idempotent-duplicate rule keyed by lease AND operation class, so a nack/dead-letter/extend after an ack is never a duplicate; full listing compared after every step); counters retained-rows:stale-lease-of-a-<state>-row:<operation>:<answer> = lease operations presented under a no longer current lease of a message that is a retained row")
	r.Assume("retained rows: only delivered_retention (dead and canceled rows are kept under every configuration and are part of all searches); max_age is far beyond the virtual time of a bounded history, so pruning of retained rows does not occur inside these histories (pruning is C02/C03 ground); worker gRPC and re-spelled ids are not repeated under this configuration")
}
