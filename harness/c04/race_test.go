package c04

import (
	"os"
	"path/filepath"
	"sync"
	"testing"
	"time"

	"github.com/nuetzliches/hookaido/internal/verifkit/runner"
	workerapipb "github.com/nuetzliches/hookaido/internal/workerapi/proto"
	"google.golang.org/protobuf/types/known/durationpb"
)

// TestRace: side condition of the C04 schedule exploration (overlapping duplicate settlements at the pull API): the
// same thread bodies as free goroutines under -race. bin/check reports a printed data race as a violation.
func TestRace(t *testing.T) {
	if os.Getenv("VERIF_RACE") == "" {
		t.Skip("race pass only")
	}
	for _, kind := range []string{"ack", "nackdead", "nack", "ext"} {
		for it := 0; it < 30; it++ {
			w, err := boot("memory", filepath.Join(runner.Scratch(), "race04"))
			if err != nil {
				t.Fatal(err)
			}
			ho := w.do(op{Kind: "deq", Batch: 1})
			if len(ho.Obs.Items) != 1 {
				t.Fatalf("setup dequeue returned %d items", len(ho.Obs.Items))
			}
			// raw requests: the harness's own handle tables (world.do) are not meant to be shared between goroutines
			lease := w.real(ho.Obs.Items[0].Lease)
			path, body := endpoint+"/ack", map[string]any{"lease_id": lease}
			switch kind {
			case "nack":
				path, body = endpoint+"/nack", map[string]any{"lease_id": lease, "delay": "0s"}
			case "nackdead":
				path, body = endpoint+"/nack", map[string]any{"lease_id": lease, "dead": true, "reason": "boom"}
			case "ext":
				path, body = endpoint+"/extend", map[string]any{"lease_id": lease, "extend_by": "1s"}
			}
			var wg sync.WaitGroup
			wg.Add(3)
			for i := 0; i < 2; i++ {
				go func() { defer wg.Done(); w.post(path, body) }()
			}
			go func() { defer wg.Done(); w.post(endpoint+"/dequeue", map[string]any{"batch": 1, "lease_ttl": "1s"}) }()
			wg.Wait()
			w.a.Shutdown()
		}
	}
	// Both transports at once on one pullapi.Server (transport_test.go): the lease is settled over HTTP while the
	// worker gRPC server gets it in a batch, padded, next to a padded id nobody was handed, and a gRPC dequeue runs.
	// Whatever the interleaving, the id nobody was handed must still be refused afterwards (witness only; the deciding
	// enumeration is the transport search).
	withGRPC = true
	for _, kind := range []string{"ack", "nack", "nackdead"} {
		for it := 0; it < 20; it++ {
			w, err := boot("memory", filepath.Join(runner.Scratch(), "race04x"))
			if err != nil {
				t.Fatal(err)
			}
			ho := w.do(op{Kind: "deq", Batch: 1})
			if len(ho.Obs.Items) != 1 {
				t.Fatalf("setup dequeue returned %d items", len(ho.Obs.Items))
			}
			lease := w.real(ho.Obs.Items[0].Lease)
			if _, err := w.grpcClient(); err != nil { // connected before the goroutines start: they only read the world
				t.Fatal(err)
			}
			var wg sync.WaitGroup
			wg.Add(4)
			go func() { defer wg.Done(); w.call(kind, "", []string{lease}, false) }()
			go func() { defer wg.Done(); w.call(kind, "grpc", []string{lease + "\n", " lease_unknown"}, true) }()
			go func() { defer wg.Done(); w.call(kind, "grpc", []string{"\t" + lease}, false) }()
			go func() {
				defer wg.Done()
				ctx, cancel := grpcCtx()
				defer cancel()
				w.cli.Dequeue(ctx, &workerapipb.DequeueRequest{Endpoint: endpoint, Batch: 1, LeaseTtl: durationpb.New(time.Second)})
			}()
			wg.Wait()
			for _, via := range []string{"", "grpc"} {
				if x := w.call(kind, via, []string{"lease_unknown"}, false); x.Class != "conflict" {
					t.Errorf("%s of a lease id nobody was handed answered %s over %q after it had been refused in a padded batch", kind, x.Label, via)
				}
			}
			w.shutdown()
		}
	}
}
