package c04

import (
	"fmt"
	"path/filepath"
	"testing"
	"time"

	"github.com/nuetzliches/hookaido/internal/verifkit/lin"
	"github.com/nuetzliches/hookaido/internal/verifkit/qmodel"
	"github.com/nuetzliches/hookaido/internal/verifkit/qsched"
	"github.com/nuetzliches/hookaido/internal/verifkit/runner"
	"github.com/nuetzliches/hookaido/internal/verifkit/sched"
	"github.com/nuetzliches/hookaido/internal/verifkit/schedrun"
)

// Schedules: worker A presents lease a#1 (single and batch forms of ack / nack / dead-letter / extend) while the
// clock passes its expiry, worker B's dequeue re-leases the message (a#2) and settles it, and an operator cancels and
// requeues. Every interleaving at lock / connection-acquisition points; the recorded history must be linearizable
// against the contract: a#1 may take effect only while it is the current, unexpired lease.
func schedPart(r *runner.Run, t *testing.T) {
	env := func(id string) qmodel.EnvSpec {
		return qmodel.EnvSpec{ID: id, Route: "/r", Target: "pull", Payload: []byte(id)}
	}
	aOps := map[string]qmodel.Op{
		"ack":   {Kind: "ack", Lease: "a#1"},
		"nack":  {Kind: "nack", Lease: "a#1"},
		"dead":  {Kind: "dead", Lease: "a#1", Reason: "boom"},
		"ext":   {Kind: "ext", Lease: "a#1", Delay: time.Second},
		"ackb":  {Kind: "ackb", Leases: []string{"a#1", "lease_unknown"}},
		"nackb": {Kind: "nackb", Leases: []string{"a#1"}},
		"deadb": {Kind: "deadb", Leases: []string{"a#1"}, Reason: "boom"},
	}
	kinds := []string{"ackb", "nackb", "deadb", "ack", "nack"}
	if r.Thorough() {
		kinds = []string{"ackb", "nackb", "deadb", "ack", "nack", "dead", "ext"}
	}
	for _, backend := range []string{"sqlite", "memory"} {
		for _, k := range kinds {
			for _, withOp := range []bool{false, true} {
				if withOp && r.Quick() && backend == "sqlite" {
					continue
				}
				sc := qsched.Scenario{
					Name: fmt.Sprintf("stale-%s-%s-op%v", backend, k, withOp), Backend: backend, Dir: filepath.Join(runner.Scratch(), "c04s"),
					Setup: []qmodel.Op{{Kind: "enq", Envs: []qmodel.EnvSpec{env("a")}}, {Kind: "deq", Route: "/r", Batch: 1, TTL: time.Second}},
					Threads: []qsched.Thread{
						{Name: "A", Steps: []qsched.Step{{Op: aOps[k]}}},
						{Name: "B", Steps: []qsched.Step{{Op: qmodel.Op{Kind: "deq", Route: "/r", Batch: 1, TTL: time.Second}}, {Op: qmodel.Op{Kind: "ack", Lease: "own"}}}},
					},
					Ticks: []time.Duration{time.Second},
				}
				if withOp {
					sc.Threads = append(sc.Threads, qsched.Thread{Name: "op", Steps: []qsched.Step{{Op: qmodel.Op{Kind: "cancel", IDs: []string{"a"}}}, {Op: qmodel.Op{Kind: "requeue", IDs: []string{"a"}}}}})
				}
				body, rec := qsched.Body(sc)
				oracle := func(x *sched.Exec) {
					if why := lin.Check(rec.Init, rec.Events); why != "" {
						sched.Failf("%s", why)
					}
				}
				bound, shards := runner.Pick(r, 2, 3), 8
				if backend == "memory" {
					bound, shards = -1, 2
				}
				schedrun.Run(r, t, schedrun.Spec{Name: sc.Name, Bound: bound, Shards: shards, Budget: runner.Pick(r, 10*time.Second, 2*time.Minute), Body: body, Oracle: oracle,
					VioKey: func(f *sched.Failure) string { return "stale-lease-race:" + backend + ":" + k }})
			}
		}
	}
}

// Pull-API level: two workers present the SAME lease at the same time (a client retry overlapping its original) while
// the clock may pass the lease expiry in between. An acknowledged ack/nack must have taken effect: if any of the two
// calls answered 204, the message must be settled accordingly at the end (acked: gone; dead-lettered: dead); the
// idempotent duplicate answer is only legal for an operation that itself already succeeded.
// pullStaleDuplicates: the lease has expired and the message was handed to another worker; the OLD holder's
// settlement arrives twice, overlapping. Both must be refused (409) and the new holder's lease must be untouched - a
// stale call may only succeed as the duplicate of an operation that already SUCCEEDED.
func pullStaleDuplicates(r *runner.Run, t *testing.T) {
	for _, kind := range []string{"ack", "nack", "nackdead"} {
		kind := kind
		dir := filepath.Join(runner.Scratch(), "c04stale")
		body := func(x *sched.Exec) {
			w, err := boot("memory", dir)
			if err != nil {
				x.Err = err
				return
			}
			ho := w.do(op{Kind: "deq", Batch: 1})
			if len(ho.Obs.Items) != 1 {
				x.Err = fmt.Errorf("setup dequeue returned %d items", len(ho.Obs.Items))
				w.a.Shutdown()
				return
			}
			stale := ho.Obs.Items[0].Lease
			id := ho.Obs.Items[0].ID
			time.Sleep(ttl + time.Second)
			h2 := w.do(op{Kind: "deq", Batch: 2})
			cur := ""
			for _, it := range h2.Obs.Items {
				if it.ID == id {
					cur = it.Lease
				}
			}
			if cur == "" {
				x.Err = fmt.Errorf("setup: message %s was not handed out again after its lease expired", id)
				w.a.Shutdown()
				return
			}
			for i := 0; i < 2; i++ {
				x.Go(fmt.Sprintf("old%d", i), func() {
					h := w.do(op{Kind: kind, Lease: stale})
					x.Logf("status=%d", h.Code)
				})
			}
			x.Run()
			x.Finish()
			state, lease := "gone", ""
			for _, m := range w.listing() {
				if m.ID == id {
					state, lease = m.State, m.Lease
				}
			}
			_ = lease
			x.Logf("final=%s", state)
			w.a.Shutdown()
		}
		oracle := func(x *sched.Exec) {
			for _, l := range x.Log {
				switch {
				case l == "status=409":
				case len(l) > 6 && l[:6] == "final=":
					if l[6:] != "leased" {
						sched.Failf("the old holder's stale %s changed the message the new holder has leased: state %s", kind, l[6:])
					}
				default:
					sched.Failf("a %s with a lease that expired and was handed to another worker answered %s, want 409 (no identical operation on it ever succeeded)", kind, l)
				}
			}
		}
		schedrun.Run(r, t, schedrun.Spec{Name: "pull-stale-duplicate-" + kind, Bound: runner.Pick(r, 3, -1), Shards: 8, Budget: runner.Pick(r, 15*time.Second, 3*time.Minute), Body: body, Oracle: oracle,
			VioKey: func(f *sched.Failure) string { return "overlapping-stale-duplicate:" + kind }})
	}
}

func pullDuplicates(r *runner.Run, t *testing.T) {
	for _, kind := range []string{"ack", "nackdead"} {
		kind := kind
		dir := filepath.Join(runner.Scratch(), "c04dup")
		body := func(x *sched.Exec) {
			w, err := boot("memory", dir)
			if err != nil {
				x.Err = err
				return
			}
			ho := w.do(op{Kind: "deq", Batch: 1})
			if len(ho.Obs.Items) != 1 {
				x.Err = fmt.Errorf("setup dequeue returned %d items", len(ho.Obs.Items))
				w.a.Shutdown()
				return
			}
			lease := ho.Obs.Items[0].Lease
			id := ho.Obs.Items[0].ID
			for i := 0; i < 2; i++ {
				x.Go(fmt.Sprintf("w%d", i), func() {
					h := w.do(op{Kind: kind, Lease: lease})
					x.Logf("status=%d", h.Code)
				})
			}
			x.Go("clock", func() { x.Advance(ttl) })
			x.Run()
			x.Finish()
			state := "gone"
			for _, m := range w.listing() {
				if m.ID == id {
					state = m.State
				}
			}
			x.Logf("final=%s", state)
			w.a.Shutdown()
		}
		oracle := func(x *sched.Exec) {
			ok := 0
			final := ""
			for _, l := range x.Log {
				switch {
				case l == "status=204":
					ok++
				case l == "status=409":
				case len(l) > 6 && l[:6] == "final=":
					final = l[6:]
				default:
					sched.Failf("unexpected answer %s", l)
				}
			}
			want := "gone"
			if kind == "nackdead" {
				want = "dead"
			}
			if ok > 0 && final != want {
				sched.Failf("%s of lease answered 204 to %d caller(s) but the message is %q at the end (want %s): an acknowledged settlement did not take effect", kind, ok, final, want)
			}
			if ok == 0 && final == want {
				sched.Failf("message is %s although no caller was told so", final)
			}
		}
		schedrun.Run(r, t, schedrun.Spec{Name: "pull-duplicate-" + kind, Bound: runner.Pick(r, 3, -1), Shards: 8, Budget: runner.Pick(r, 15*time.Second, 3*time.Minute), Body: body, Oracle: oracle,
			VioKey: func(f *sched.Failure) string { return "overlapping-duplicate:" + kind }})
	}
}
