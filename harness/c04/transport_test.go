package c04

// Transport and spelling dimensions of the C04 history search (added after the seeded miss R of round 4).
//
// (1) The worker gRPC server is a second way in to the same pullapi.Server (same store, same idempotency cache).
//     Every lease operation of the alphabet (dequeue, ack, nack, delayed nack, dead-letter, extend, batch ack/nack)
//     is offered over the pull HTTP handler AND over the real grpc.Server that startServers wires behind the in-memory
//     listener, per operation, inside one history - an id handed out or refused through one transport is presented
//     again through the other.
// (2) In the lease-id positions of the last two operations of a history the id may be spelled differently from how
//     it was handed out (blanks, tab, newline, CR LF, both sides, upper-cased, twice with different padding in one
//     batch, blank-only). The documents leave open whether a padded id means the trimmed id or is just an unknown
//     id, so the oracle accepts either - but ONE reading per call, and under the reading taken the usual rule
//     applies (a stale id changes nothing and is refused, now and later).
// (3) "Later" is decided after every step: every id that is stale in the contract state (and every spelling the
//     step just used) is presented again in single and batch form over both transports; it may answer success only
//     if an identical operation on that very lease really succeeded less than RecentLeaseOpTTL ago, and the listing
//     must not move. The probes run on the throw-away instance of the step (every transition boots afresh and
//     replays its history without them), so they cost no states.

import (
	"context"
	"encoding/json"
	"fmt"
	"net"
	"os"
	"path/filepath"
	"runtime/debug"
	"sort"
	"strconv"
	"strings"
	"testing"
	"testing/synctest"
	"time"

	"github.com/nuetzliches/hookaido/internal/queue"
	"github.com/nuetzliches/hookaido/internal/verifkit/bfs"
	"github.com/nuetzliches/hookaido/internal/verifkit/qmodel"
	"github.com/nuetzliches/hookaido/internal/verifkit/runner"
	"github.com/nuetzliches/hookaido/internal/verifkit/vnet"
	workerapipb "github.com/nuetzliches/hookaido/internal/workerapi/proto"
	"google.golang.org/grpc"
	"google.golang.org/grpc/codes"
	"google.golang.org/grpc/credentials/insecure"
	"google.golang.org/grpc/metadata"
	"google.golang.org/grpc/status"
	"google.golang.org/protobuf/types/known/durationpb"
)

// withGRPC: boots of this process also listen for the worker gRPC transport (set per job process / race pass).
var withGRPC bool

func grpcAddr(port int) string { return fmt.Sprintf("127.0.0.1:%d", port+3) }

// xshards: number of root shards per backend. At the root the alphabet is 7 transport-bearing operations over HTTP,
// the same 7 over gRPC, then the rest: with 7 shards both transports of one operation land in the same shard, whose
// de-duplication then merges the (equal) subtrees below them.
const xshards = 7

// The subtrees below the two dequeues (root shards 0 and 1) hold most of the states: they are split once more by the
// second operation of the history (xsub processes each; the two transports of one operation stay together again).
const xsub = 4

type xjob struct {
	Backend         string
	Root, Sub, Subs int
}

func xjobs(backends []string) []xjob {
	var out []xjob
	for _, b := range backends {
		for root := 0; root < xshards; root++ {
			if root < 2 {
				for sub := 0; sub < xsub; sub++ {
					out = append(out, xjob{b, root, sub, xsub})
				}
				continue
			}
			out = append(out, xjob{b, root, 0, 1})
		}
	}
	return out
}

const invalidClass = "invalid"

const xportEndEnv = "C04_XPORT_END" // unix nanoseconds; set by the parent process for its job children

type xcfg struct {
	Name       string
	Depth      int      // longest history (transport choice on every operation)
	SpellDepth int      // longest history with a re-spelled lease id; re-spelled ids only in its last two operations
	Spellings  []string // spellings of one lease-id position (besides exact and blank-only)
	Wide       bool     // thorough: delayed nack in the re-spelled singles, every batch form for every spelling
}

// xconfigs: the bounds a job searches one after the other. Thorough starts with the quick bounds (so that it covers
// what quick covers whatever the load on the machine) and spends the rest of its budget on the wide ones.
func xconfigs(r *runner.Run, backend string) []xcfg {
	quickSp := []string{"lsp", "nl", "wrap", "upper"}
	fullSp := []string{"lsp", "nl", "wrap", "upper", "tsp", "tab", "crlf", "both", "nbsp", "vt", "zwsp"}
	quick := xcfg{Name: "quick-bounds", Depth: 4, SpellDepth: 3, Spellings: quickSp}
	wide := xcfg{Name: "wide-bounds", Depth: 5, SpellDepth: 4, Spellings: fullSp, Wide: true}
	if backend == "sqlite" {
		quick = xcfg{Name: "quick-bounds", Depth: 3, SpellDepth: 2, Spellings: quickSp}
		wide = xcfg{Name: "wide-bounds", Depth: 4, SpellDepth: 3, Spellings: fullSp, Wide: true}
	}
	if r.Thorough() {
		return []xcfg{quick, wide}
	}
	return []xcfg{quick}
}

// ---- spellings ---------------------------------------------------------------------------------------------------

var spellFns = map[string]func(string) string{
	"":      func(x string) string { return x },
	"lsp":   func(x string) string { return " " + x },
	"tsp":   func(x string) string { return x + " " },
	"tab":   func(x string) string { return "\t" + x },
	"nl":    func(x string) string { return x + "\n" },
	"crlf":  func(x string) string { return x + "\r\n" },
	"both":  func(x string) string { return " " + x + " " },
	"wrap":  func(x string) string { return "\t " + x + " \r\n" },
	"upper": strings.ToUpper,
	"nbsp":  func(x string) string { return x + "\u00a0" },
	"vt":    func(x string) string { return "\v" + x + "\f" },
	"zwsp":  func(x string) string { return x + "\u200b" },
	"blank": func(string) string { return " \t " },
}

func (o op) spAt(i int) string {
	if i < len(o.Sp) {
		return o.Sp[i]
	}
	return ""
}

func (o op) spelled() bool {
	for _, s := range o.Sp {
		if s != "" {
			return true
		}
	}
	return false
}

func (o op) spKey() string {
	if !o.spelled() {
		return "exact"
	}
	parts := make([]string, len(o.Sp))
	for i, s := range o.Sp {
		if s == "" {
			s = "exact"
		}
		parts[i] = s
	}
	return strings.Join(parts, "+")
}

// spClass: the coarse class used in violation keys (one key per failure class, not per spelling).
func (o op) spClass() string {
	if o.spelled() {
		return "respelled"
	}
	return "exact"
}

func (o op) via() string {
	if o.Via == "" {
		return "http"
	}
	return o.Via
}

func (o op) plain() op {
	c := o
	c.Via, c.Sp = "", nil
	return c
}

func (o op) xString() string {
	s := o.plain().String() + " over " + o.via()
	if o.spelled() {
		s += " spelled " + o.spKey()
	}
	return s
}

func isLeaseKind(k string) bool {
	switch k {
	case "ack", "nack", "nackd", "nackdead", "ext", "ackb", "nackb":
		return true
	}
	return false
}

func (o op) positions() []string {
	if o.Kind == "ackb" || o.Kind == "nackb" {
		return o.Leases
	}
	return []string{o.Lease}
}

// ---- the two transports ----------------------------------------------------------------------------------------------

type rawConf struct {
	ID      string
	Expired bool
}

// xout: what one call answered, transport-neutral. Class: qmodel.OK / qmodel.ConflictErr / invalidClass / anything else
// verbatim; batch forms that were processed carry Class OK plus the per-id conflict list (HTTP 200/409 with a body,
// gRPC OK with conflicts).
type xout struct {
	H     httpObs // complete for operations without a lease id; Code only otherwise
	Label string
	Class string
	N     int
	Conf  []rawConf
	Raw   []string // the ids as sent
	Infra string
}

func (w *world) shutdown() {
	if w.conn != nil {
		w.conn.Close()
		w.conn, w.cli = nil, nil
	}
	w.a.Shutdown()
}

func (w *world) grpcClient() (workerapipb.WorkerServiceClient, error) {
	if w.cli != nil {
		return w.cli, nil
	}
	addr := grpcAddr(18080)
	conn, err := grpc.NewClient("passthrough:///c04", grpc.WithTransportCredentials(insecure.NewCredentials()),
		grpc.WithContextDialer(func(ctx context.Context, _ string) (net.Conn, error) { return vnet.Dial(addr) }))
	if err != nil {
		return nil, err
	}
	w.conn, w.cli = conn, workerapipb.NewWorkerServiceClient(conn)
	return w.cli, nil
}

func grpcCtx() (context.Context, context.CancelFunc) {
	return context.WithTimeout(metadata.AppendToOutgoingContext(context.Background(), "authorization", "Bearer g1"), time.Minute)
}

func grpcClass(err error) (class, label string) {
	c := status.Code(err)
	label = "grpc:" + c.String()
	switch c {
	case codes.OK:
		return qmodel.OK, label
	case codes.FailedPrecondition:
		return qmodel.ConflictErr, label
	case codes.InvalidArgument:
		return invalidClass, label
	}
	return label, label
}

func httpClass(code int) string {
	if code == 400 {
		return invalidClass
	}
	return class(code)
}

// register enters a lease id a dequeue handed out into the handle tables (same naming as world.do).
func (w *world) register(id string, attempt int, leaseID string) string {
	base := fmt.Sprintf("%s#%d", id, attempt)
	h := qmodel.HandleName(base, w.bases[base])
	if _, used := w.reverse[leaseID]; used || leaseID == "" {
		return "REUSED:" + leaseID
	}
	w.bases[base]++
	w.handles[h] = leaseID
	w.reverse[leaseID] = h
	return h
}

// call sends one lease operation with the ids exactly as given. kind: ack nack nackd nackdead ext; batch: lease_ids form.
func (w *world) call(kind, via string, ids []string, batch bool) xout {
	out := xout{Raw: ids}
	t0 := time.Now()
	defer func() {
		if !time.Now().Equal(t0) && out.Infra == "" {
			out.Infra = fmt.Sprintf("the virtual clock moved by %s during a %s call over %s", time.Since(t0), kind, via)
		}
	}()
	if via != "grpc" {
		path, body := endpoint+"/ack", map[string]any{}
		switch kind {
		case "nack":
			path, body = endpoint+"/nack", map[string]any{"delay": "0s"}
		case "nackd":
			path, body = endpoint+"/nack", map[string]any{"delay": "5s"}
		case "nackdead":
			path, body = endpoint+"/nack", map[string]any{"dead": true, "reason": "boom"}
		case "ext":
			path, body = endpoint+"/extend", map[string]any{"extend_by": "1s"}
		}
		if batch {
			body["lease_ids"] = ids
		} else {
			body["lease_id"] = ids[0]
		}
		code, raw := w.post(path, body)
		out.H.Code, out.Label, out.Class = code, fmt.Sprint(code), httpClass(code)
		if batch && (code == 200 || code == 409) {
			var resp struct {
				Acked     int `json:"acked"`
				Succeeded int `json:"succeeded"`
				Conflicts []struct {
					LeaseID string `json:"lease_id"`
					Reason  string `json:"reason"`
				} `json:"conflicts"`
			}
			json.Unmarshal(raw, &resp)
			out.Class, out.N = qmodel.OK, resp.Acked+resp.Succeeded
			for _, c := range resp.Conflicts {
				out.Conf = append(out.Conf, rawConf{c.LeaseID, c.Reason == "lease_expired"})
			}
		} else if !batch && out.Class == qmodel.OK {
			out.N = 1
		}
		return out
	}
	cli, err := w.grpcClient()
	if err != nil {
		out.Infra = "grpc client: " + err.Error()
		return out
	}
	ctx, cancel := grpcCtx()
	defer cancel()
	single, list := "", []string(nil)
	if batch {
		list = ids
	} else {
		single = ids[0]
	}
	var confs []*workerapipb.LeaseConflict
	switch kind {
	case "ack":
		var resp *workerapipb.AckResponse
		resp, err = cli.Ack(ctx, &workerapipb.AckRequest{Endpoint: endpoint, LeaseId: single, LeaseIds: list})
		out.N, confs = int(resp.GetAcked()), resp.GetConflicts()
	case "nack", "nackd", "nackdead":
		req := &workerapipb.NackRequest{Endpoint: endpoint, LeaseId: single, LeaseIds: list, Delay: durationpb.New(0)}
		if kind == "nackd" {
			req.Delay = durationpb.New(5 * time.Second)
		}
		if kind == "nackdead" {
			req.Delay, req.Dead, req.Reason = nil, true, "boom"
		}
		var resp *workerapipb.NackResponse
		resp, err = cli.Nack(ctx, req)
		out.N, confs = int(resp.GetSucceeded()), resp.GetConflicts()
	case "ext":
		_, err = cli.Extend(ctx, &workerapipb.ExtendRequest{Endpoint: endpoint, LeaseId: single, ExtendBy: durationpb.New(time.Second)})
		if err == nil {
			out.N = 1
		}
	}
	out.Class, out.Label = grpcClass(err)
	for _, c := range confs {
		out.Conf = append(out.Conf, rawConf{c.GetLeaseId(), c.GetExpired()})
	}
	if !batch && out.Class == qmodel.OK && (out.N != 1 || len(out.Conf) != 0) {
		out.Class = fmt.Sprintf("grpc:OK-with-count-%d-and-%d-conflicts-for-a-single-lease", out.N, len(out.Conf))
	}
	return out
}

// doX performs one operation of the transport alphabet.
func (w *world) doX(o op) xout {
	if isLeaseKind(o.Kind) {
		pos := o.positions()
		ids := make([]string, len(pos))
		for i, h := range pos {
			f := spellFns[o.spAt(i)]
			if f == nil {
				return xout{Infra: "unknown spelling " + o.spAt(i)}
			}
			ids[i] = f(w.real(h))
		}
		switch o.Kind {
		case "ackb":
			return w.call("ack", o.Via, ids, true)
		case "nackb":
			return w.call("nack", o.Via, ids, true)
		}
		return w.call(o.Kind, o.Via, ids, false)
	}
	if o.Kind == "deq" && o.Via == "grpc" {
		cli, err := w.grpcClient()
		if err != nil {
			return xout{Infra: "grpc client: " + err.Error()}
		}
		ctx, cancel := grpcCtx()
		defer cancel()
		t0 := time.Now()
		resp, err := cli.Dequeue(ctx, &workerapipb.DequeueRequest{Endpoint: endpoint, Batch: uint32(o.Batch), LeaseTtl: durationpb.New(ttl)})
		cls, label := grpcClass(err)
		out := xout{Class: cls, Label: label, H: httpObs{Obs: &qmodel.Obs{Err: cls}}}
		if !time.Now().Equal(t0) {
			out.Infra = "the virtual clock moved during a gRPC dequeue"
		}
		for _, it := range resp.GetItems() {
			h := w.register(it.GetId(), int(it.GetAttempt()), it.GetLeaseId())
			out.H.Obs.Items = append(out.H.Obs.Items, qmodel.Msg{ID: it.GetId(), Route: it.GetRoute(), Target: "pull", State: qmodel.Leased, Attempt: int(it.GetAttempt()),
				ReceivedAt: it.GetReceivedAt().AsTime().UnixNano(), NextRunAt: it.GetNextRunAt().AsTime().UnixNano(), LeaseUntil: it.GetNextRunAt().AsTime().UnixNano(),
				Payload: it.GetPayload(), Lease: h, SchemaVersion: 1})
		}
		return out
	}
	h := w.do(o.plain())
	return xout{H: h, Label: fmt.Sprint(h.Code), Class: h.Obs.Err}
}

// ---- oracle: one reading per call -----------------------------------------------------------------------------------

// reading of the re-spelled positions of one call. Pad: "same" (a padded / re-cased id means the id) or "unknown" (it
// is some id nobody was handed). Blank: "skip" (a blank-only id is no id: dropped from a batch, a call left without
// any id is malformed) or "unknown".
type reading struct{ Pad, Blank string }

func readingsFor(o op) []reading {
	pad, blank := false, false
	for i := range o.positions() {
		switch o.spAt(i) {
		case "":
		case "blank":
			blank = true
		default:
			pad = true
		}
	}
	out := []reading{{"same", "skip"}}
	if pad {
		out = append(out, reading{"unknown", "skip"})
	}
	if blank {
		out = append(out, reading{"same", "unknown"})
		if pad {
			out = append(out, reading{"unknown", "unknown"})
		}
	}
	return out
}

// rewrite: the operation in handle terms under a reading. handles[i] is the handle position i stands for ("" =
// dropped); malformed = the call carries no id at all under this reading.
func rewrite(o op, rd reading, raws []string) (o2 op, handles []string, malformed bool) {
	pos := o.positions()
	handles = make([]string, len(pos))
	pseudo := map[string]string{} // raw spelling -> name of the unknown id it is under this reading
	taken := map[string]bool{}
	for i, h := range pos { // ids of the call that are what they are
		if o.spAt(i) == "" || (o.spAt(i) != "blank" && rd.Pad == "same") {
			taken[h] = true
		}
	}
	unknownName := func(raw string) string {
		if n, ok := pseudo[raw]; ok {
			return n
		}
		n := "lease_unknown"
		for k := 2; taken[n]; k++ {
			n = fmt.Sprintf("lease_unknown~%d", k)
		}
		taken[n] = true
		pseudo[raw] = n
		return n
	}
	for i, h := range pos {
		raw := ""
		if i < len(raws) {
			raw = raws[i]
		}
		switch sp := o.spAt(i); {
		case sp == "":
			handles[i] = h
		case sp == "blank":
			if rd.Blank == "unknown" {
				handles[i] = unknownName(raw)
			}
		case rd.Pad == "same":
			handles[i] = h
		default:
			handles[i] = unknownName(raw)
		}
	}
	o2 = o.plain()
	if o.Kind == "ackb" || o.Kind == "nackb" {
		o2.Leases = nil
		for _, h := range handles {
			if h != "" {
				o2.Leases = append(o2.Leases, h)
			}
		}
		return o2, handles, len(o2.Leases) == 0
	}
	o2.Lease = handles[0]
	return o2, handles, handles[0] == ""
}

func copyMsgs(in []qmodel.Msg) []qmodel.Msg { return append([]qmodel.Msg(nil), in...) }

// judgeX: the existing C04 judge (contract model + idempotent-duplicate rule + listing), applied to the operation in
// handle terms under each reading of its re-spelled ids; the answer must be explained by one of them as a whole.
func judgeX(pre st, o op, x xout, post []qmodel.Msg, rev func(string) (string, bool)) (st, string, reading) {
	if x.Infra != "" {
		return pre, "INFRA " + x.Infra, reading{}
	}
	if !isLeaseKind(o.Kind) {
		next, why := judge(pre, o.plain(), x.H, post)
		return next, why, reading{}
	}
	batch := o.Kind == "ackb" || o.Kind == "nackb"
	first := ""
	for _, rd := range readingsFor(o) {
		o2, handles, malformed := rewrite(o, rd, x.Raw)
		why := ""
		var next st
		switch {
		case malformed:
			next = pre.clone()
			if x.Class != invalidClass {
				why = fmt.Sprintf("%s without any lease id answered %s, want a refusal as malformed", o.Kind, x.Label)
			} else if d := unchanged(pre.M, copyMsgs(post)); d != "" {
				why = "a call refused as malformed had an effect: " + d
			}
		case x.Class == invalidClass:
			why = fmt.Sprintf("%s refused as malformed (%s) although it names a lease id", o.Kind, x.Label)
		default:
			obs := &qmodel.Obs{Err: x.Class}
			if batch && x.Class == qmodel.OK {
				obs.N = x.N
				// conflict ids back to handles: first as sent, then trimmed, then any id ever handed out
				byID := map[string]string{}
				for i, h := range handles {
					if h != "" {
						byID[x.Raw[i]] = h
					}
				}
				for i, h := range handles {
					if t := strings.TrimSpace(x.Raw[i]); h != "" {
						if _, ok := byID[t]; !ok {
							byID[t] = h
						}
					}
				}
				for _, c := range x.Conf {
					h, ok := byID[c.ID]
					if !ok {
						h, ok = byID[strings.TrimSpace(c.ID)]
					}
					if !ok {
						if h, ok = rev(strings.TrimSpace(c.ID)); !ok {
							h = "NOT-SENT:" + c.ID
						}
					}
					obs.Conflicts = append(obs.Conflicts, qmodel.Conflict{Lease: h, Expired: c.Expired})
				}
			}
			next, why = judge(pre, o2, httpObs{Code: x.H.Code, Obs: obs}, copyMsgs(post))
			if why == "" {
				// how the stale presentations of this call arrived (part of the de-duplication key)
				if next.PVia == nil {
					next.PVia = map[string]string{}
				}
				mark := "/" + o.via()
				if o.spelled() {
					mark += "/respelled"
				}
				for _, h := range o2.positions() {
					if !currentLease(pre.M, h) {
						next.PVia[h+"|"+opClass(o.Kind)] = mark
					}
				}
			}
		}
		if why == "" {
			return next, "", rd
		}
		if first == "" {
			first = why
		}
	}
	first += " [answer " + x.Label + " over " + o.via() + "]"
	if o.spelled() {
		first += " [ids re-spelled " + o.spKey() + ": neither as the same ids nor as unknown ids is this answer the contract's]"
	}
	return pre, first, reading{}
}

// ---- "or later": probes after the step ----------------------------------------------------------------------------

func (w *world) rawListing() string {
	resp, err := w.store.ListMessages(queue.MessageListRequest{Order: "asc", Limit: 1000, IncludePayload: true, IncludeHeaders: true, IncludeTrace: true})
	if err != nil {
		return "ERR " + err.Error()
	}
	var b strings.Builder
	for _, e := range resp.Items {
		fmt.Fprintf(&b, "%s|%s|%s|%d|%d|%d|%s|%d|%s|%x\n", e.ID, e.Route, e.State, e.Attempt, e.ReceivedAt.UnixNano(), e.NextRunAt.UnixNano(), e.LeaseID, e.LeaseUntil.UnixNano(), e.DeadReason, e.Payload)
	}
	return b.String()
}

type probeStats struct{ sent, refused, duplicates int64 }

// probes presents, on the instance the step ran on, every id that is stale in the contract state s (and the spellings
// the step used, under the reading its answer was explained by) once more: single ack / nack over HTTP and - when the
// history used it - gRPC, then all of them in one batch per class. Success is the idempotent duplicate answer and is
// legal only for an operation that really succeeded on that lease inside the window; nothing may move.
func (w *world) probes(s st, o op, rd reading, raws []string, ps *probeStats) (why, key string) {
	type cand struct{ id, handle, note string }
	var cands []cand
	hs := make([]string, 0, len(s.M.Issued)+1)
	for h := range s.M.Issued {
		hs = append(hs, h)
	}
	sort.Strings(hs)
	for _, h := range append(hs, "lease_unknown") {
		if !currentLease(s.M, h) {
			cands = append(cands, cand{w.real(h), h, "exact"})
		}
	}
	if isLeaseKind(o.Kind) && o.spelled() {
		_, handles, _ := rewrite(o, rd, raws)
		seen := map[string]bool{}
		for i, h := range handles {
			if o.spAt(i) == "" || o.spAt(i) == "blank" || h == "" || seen[raws[i]] || currentLease(s.M, h) {
				continue
			}
			seen[raws[i]] = true
			cands = append(cands, cand{raws[i], h, "as spelled " + o.spAt(i)})
		}
	}
	if len(cands) == 0 {
		return "", ""
	}
	before := w.rawListing()
	vias := []string{""}
	if o.Via == "grpc" && w.cli != nil { // the transport under test in this step
		vias = append(vias, "grpc")
	}
	live := func(h, cls string) bool { exp, ok := s.Remembered[h+"|"+cls]; return ok && s.M.Now < exp }
	vname := func(v string) string {
		if v == "" {
			return "http"
		}
		return v
	}
	for _, cls := range []string{"ack", "nack"} {
		for _, via := range vias {
			for _, c := range cands {
				x := w.call(cls, via, []string{c.id}, false)
				ps.sent++
				switch {
				case x.Infra != "":
					return "INFRA " + x.Infra, ""
				case x.Class == qmodel.ConflictErr:
					ps.refused++
				case x.Class == qmodel.OK && live(c.handle, cls):
					ps.duplicates++
				case x.Class == qmodel.OK:
					return fmt.Sprintf("afterwards a single %s over %s with lease %q (%s), which is not a current lease, answered %s although no %s of that lease succeeded within the idempotency window", cls, vname(via), c.handle, c.note, x.Label, cls),
						"later-success:" + cls + ":single:" + vname(via)
				default:
					return fmt.Sprintf("afterwards a single %s over %s with the stale lease %q (%s) answered %s, want a conflict", cls, vname(via), c.handle, c.note, x.Label),
						"later-unexpected:" + cls + ":single:" + vname(via)
				}
			}
			// all exact stale ids in one batch
			var ids []string
			allowed := 0
			for _, c := range cands {
				if c.note == "exact" {
					ids = append(ids, c.id)
					if live(c.handle, cls) {
						allowed++
					}
				}
			}
			if len(ids) == 0 {
				continue
			}
			x := w.call(cls, via, ids, true)
			ps.sent++
			switch {
			case x.Infra != "":
				return "INFRA " + x.Infra, ""
			case x.Class != qmodel.OK:
				return fmt.Sprintf("afterwards a batch %s over %s with %d stale leases answered %s, want a per-id result", cls, vname(via), len(ids), x.Label), "later-unexpected:" + cls + ":batch:" + vname(via)
			case x.N > allowed:
				return fmt.Sprintf("afterwards a batch %s over %s with %d leases none of which is current counted %d as succeeded (conflicts %v) although only %d of them had a %s that succeeded within the idempotency window", cls, vname(via), len(ids), x.N, x.Conf, allowed, cls),
					"later-success:" + cls + ":batch:" + vname(via)
			case x.N+len(x.Conf) != len(ids):
				return fmt.Sprintf("afterwards a batch %s over %s with %d distinct stale leases answered succeeded=%d and %d conflicts", cls, vname(via), len(ids), x.N, len(x.Conf)), "later-miscount:" + cls + ":batch:" + vname(via)
			}
			ps.refused += int64(len(x.Conf))
			ps.duplicates += int64(x.N)
		}
	}
	if after := w.rawListing(); after != before {
		return fmt.Sprintf("presenting stale lease ids again moved the queue:\nbefore:\n%safter:\n%s", before, after), "later-effect"
	}
	return "", ""
}

// ---- alphabet -------------------------------------------------------------------------------------------------------

func newestHandles(s st) []string {
	hs := make([]string, 0, len(s.M.Issued))
	for h := range s.M.Issued {
		hs = append(hs, h)
	}
	sort.Strings(hs)
	if len(hs) > 3 {
		hs = hs[len(hs)-3:]
	}
	return hs
}

func enabledX(s st, hist []op, c xcfg, sub, subs int) []op {
	mine := func(i int) bool { return subs <= 1 || len(hist) != 1 || i%subs == sub }
	hs := newestHandles(s)
	all := append(append([]string{}, hs...), "lease_unknown")
	// transport-bearing operations (the alphabet of the HTTP search), first all over HTTP, then all over gRPC
	var base []op
	base = append(base, op{Kind: "deq", Batch: 1}, op{Kind: "deq", Batch: 2})
	for _, h := range all {
		for _, k := range []string{"ack", "nack", "nackd", "nackdead", "ext"} {
			base = append(base, op{Kind: k, Lease: h})
		}
	}
	if len(hs) >= 1 {
		base = append(base, op{Kind: "ackb", Leases: []string{hs[0], hs[0]}}, op{Kind: "nackb", Leases: []string{hs[len(hs)-1], "lease_unknown"}})
	}
	if len(hs) >= 2 {
		base = append(base, op{Kind: "ackb", Leases: []string{hs[0], hs[1]}}, op{Kind: "nackb", Leases: []string{hs[1], hs[0]}})
	}
	var ops []op
	for i, o := range base {
		if mine(i) {
			ops = append(ops, o)
		}
	}
	for i, o := range base {
		if o.Via = "grpc"; mine(i) {
			ops = append(ops, o)
		}
	}
	rest := []op{{Kind: "cancel", IDs: []string{"a"}}, {Kind: "requeue", IDs: []string{"a"}},
		{Kind: "tick", Dur: time.Second}, {Kind: "tick", Dur: ttl}, {Kind: "tick", Dur: ttl + time.Second}, {Kind: "tick", Dur: 1}}
	earliest := int64(0)
	for _, exp := range s.Remembered {
		if exp > s.M.Now && (earliest == 0 || exp < earliest) {
			earliest = exp
		}
	}
	if earliest > s.M.Now+1 {
		rest = append(rest, op{Kind: "tick", Dur: time.Duration(earliest - 1 - s.M.Now)})
	}
	// re-spelled lease ids: only as one of the last two operations of a history of the spelling depth
	if d := len(hist); d >= c.SpellDepth-2 && d < c.SpellDepth {
		rest = append(rest, spelledOps(all, c)...)
	}
	for i, o := range rest {
		if mine(i) {
			ops = append(ops, o)
		}
	}
	return ops
}

func spelledOps(all []string, c xcfg) []op {
	var ops []op
	singles := []string{"ack", "nack", "nackdead", "ext"}
	if c.Wide {
		singles = []string{"ack", "nack", "nackd", "nackdead", "ext"}
	}
	sp0, sp1 := c.Spellings[0], c.Spellings[1]
	for _, via := range []string{"", "grpc"} {
		for _, k := range singles {
			for _, h := range all {
				for _, sp := range c.Spellings {
					ops = append(ops, op{Kind: k, Lease: h, Via: via, Sp: []string{sp}})
				}
			}
			ops = append(ops, op{Kind: k, Lease: "lease_unknown", Via: via, Sp: []string{"blank"}})
		}
		for _, k := range []string{"ackb", "nackb"} {
			for i, h := range all {
				other := all[(i+1)%len(all)]
				for _, sp := range c.Spellings {
					ops = append(ops, op{Kind: k, Leases: []string{h}, Via: via, Sp: []string{sp}}) // alone
					if other != h && (c.Wide || sp == sp1) {
						ops = append(ops, op{Kind: k, Leases: []string{other, h}, Via: via, Sp: []string{"", sp}}) // next to an id as handed out
					}
				}
				ops = append(ops,
					op{Kind: k, Leases: []string{h, h}, Via: via, Sp: []string{sp0, sp1}},                  // the id twice, differently padded
					op{Kind: k, Leases: []string{h, h}, Via: via, Sp: []string{"", sp1}},                   // as handed out and padded
					op{Kind: k, Leases: []string{h, "lease_unknown"}, Via: via, Sp: []string{"", "blank"}}) // next to a blank-only id
			}
			ops = append(ops, op{Kind: k, Leases: []string{"lease_unknown", "lease_unknown"}, Via: via, Sp: []string{"blank", "blank"}})
		}
	}
	return ops
}

// whyClass: the leading plain words of an oracle message (no handles, ids, counts): one violation key per failure class.
func whyClass(why string) string {
	var out []string
	for _, f := range strings.Fields(why) {
		if strings.ContainsAny(f, "[]{}()\"=:,#") || len(out) == 5 {
			break
		}
		if len(f) > 1 {
			out = append(out, f)
		}
	}
	return firstWords(strings.Join(out, " "))
}

// ---- search -------------------------------------------------------------------------------------------------------

func initModel(backend string) *qmodel.Model {
	m := qmodel.New(qmodel.Config{SweepGranularity: sweep(backend)}, bubbleStart.UnixNano())
	m.Items["a"] = &qmodel.Msg{ID: "a", Route: "/r", Target: "pull", State: qmodel.Queued, ReceivedAt: m.Now, NextRunAt: m.Now, Payload: []byte("p-a"), SchemaVersion: 1}
	m.Items["b"] = &qmodel.Msg{ID: "b", Route: "/r", Target: "pull", State: qmodel.Queued, ReceivedAt: m.Now, NextRunAt: m.Now, Payload: []byte("p-b"), SchemaVersion: 1}
	return m
}

func xStateKey(next st) string {
	var kb strings.Builder
	fmt.Fprintf(&kb, "%d|", next.M.Now)
	for _, it := range next.M.Sorted() {
		fmt.Fprintf(&kb, "%s,%s,%d,%d,%s,%d;", it.ID, it.State, it.Attempt, it.NextRunAt, it.Lease, it.LeaseUntil)
	}
	rk := make([]string, 0, len(next.Remembered))
	for k, v := range next.Remembered {
		if v > next.M.Now {
			rk = append(rk, fmt.Sprintf("%s=%d", k, v))
		}
	}
	sort.Strings(rk)
	hk := make([]string, 0, len(next.M.Issued))
	for k := range next.M.Issued {
		hk = append(hk, k)
	}
	sort.Strings(hk)
	pk := make([]string, 0, len(next.Presented))
	for k, v := range next.Presented {
		if v+int64(idemTTL) > next.M.Now {
			pk = append(pk, fmt.Sprintf("%s@%d%s", k, v, next.PVia[k]))
		}
	}
	sort.Strings(pk)
	kb.WriteString(strings.Join(rk, ",") + "|" + strings.Join(hk, ",") + "|" + strings.Join(pk, ","))
	return kb.String()
}

type xStepOut struct {
	Next   st
	Why    string
	VioKey string
	Label  string
}

// xRun boots the application with both transports, replays hist, performs o, judges it and probes. With judgeAll (replay
// of a recorded case) the contract state is rebuilt from the start by judging every operation of hist as well.
func xRun(t *testing.T, backend, dir string, hist []op, s st, o op, judgeAll bool, ps *probeStats, count func(o op, rd reading)) xStepOut {
	var res xStepOut
	synctest.Test(t, func(t *testing.T) {
		w, err := boot(backend, dir)
		if err != nil {
			res.Why = "INFRA boot: " + err.Error()
			return
		}
		defer w.shutdown()
		rev := func(id string) (string, bool) { h, ok := w.reverse[id]; return h, ok }
		if s.M == nil || judgeAll {
			s = st{M: initModel(backend), Remembered: map[string]int64{}, Presented: map[string]int64{}}
		}
		for i, h := range hist {
			x := w.doX(h)
			if judgeAll {
				next, why, _ := judgeX(s, h, x, w.listing(), rev)
				if why != "" {
					res.Why = fmt.Sprintf("already at operation %d of the history (%s): %s", i+1, h, why)
					res.VioKey = fmt.Sprintf("x:%s:%s:%s:%s:%s", backend, h.Kind, h.via(), h.spClass(), whyClass(why))
					return
				}
				s = next
			} else if x.Infra != "" {
				res.Why = "INFRA " + x.Infra
				return
			}
		}
		x := w.doX(o)
		post := w.listing()
		next, why, rd := judgeX(s, o, x, post, rev)
		res.Next, res.Why, res.Label = next, why, x.Label
		if o.Via == "" && (isLeaseKind(o.Kind) || o.Kind == "deq") {
			res.Label = "http:" + x.Label
		}
		if why != "" {
			res.VioKey = fmt.Sprintf("x:%s:%s:%s:%s:%s", backend, o.Kind, o.via(), o.spClass(), whyClass(why))
			return
		}
		if count != nil {
			count(o, rd)
		}
		if why, key := w.probes(next, o, rd, x.Raw, ps); why != "" {
			res.Why = why
			res.VioKey = fmt.Sprintf("x:%s:%s:after:%s:%s:%s", backend, key, o.Kind, o.via(), o.spClass())
		}
	})
	return res
}

func xportJob(r *runner.Run, t *testing.T, backends []string, k int) {
	defer debug.SetGCPercent(debug.SetGCPercent(400))
	withGRPC = true
	job := xjobs(backends)[k]
	backend := job.Backend
	curBackend = backend
	dir := filepath.Join(runner.Scratch(), "c04x")
	end := time.Now().Add(runner.Pick(r, 50*time.Second, 11*time.Minute))
	// quick: the transport jobs queue behind the HTTP jobs; whenever one starts, the part ends with the HTTP part (TestCheck)
	if v, err := strconv.ParseInt(os.Getenv(xportEndEnv), 10, 64); err == nil && v > 0 && time.Unix(0, v).Before(end) {
		end = time.Unix(0, v)
	}
	cfgs := xconfigs(r, backend)
	for ci, cfg := range cfgs {
		deadline := end
		if ci < len(cfgs)-1 { // the quick bounds inside a thorough run
			if d := time.Now().Add(3 * time.Minute); d.Before(deadline) {
				deadline = d
			}
		}
		xportSearch(r, t, job, cfg, dir, deadline)
	}
	r.Finish()
}

func xportSearch(r *runner.Run, t *testing.T, job xjob, cfg xcfg, dir string, deadline time.Time) {
	backend, shard := job.Backend, job.Root
	var ps probeStats
	count := func(o op, rd reading) {
		if o.Via == "grpc" {
			r.Add("xport:operations_over_grpc", 1)
		}
		if isLeaseKind(o.Kind) && o.spelled() {
			r.Add("xport:operations_with_respelled_ids", 1)
			for _, sp := range o.Sp {
				if sp != "" {
					r.Add("xport:spelling:"+sp, 1)
				}
			}
			r.Add("xport:explained_by_reading:pad="+rd.Pad+",blank="+rd.Blank, 1)
		}
	}
	eng := &bfs.Engine[st, op]{
		Name: "c04x-" + backend, Workers: 1, MaxDepth: cfg.Depth, MaxTrans: runner.Pick(r, int64(2_000_000), int64(30_000_000)),
		Deadline: deadline, RootShard: shard, RootShards: xshards,
		Init:    func() st { return st{Remembered: map[string]int64{}, Presented: map[string]int64{}} },
		InitKey: "init",
		OpName: func(o op) string {
			if o.spelled() {
				return "x:" + o.Kind + "[respelled]"
			}
			return "x:" + o.Kind
		},
		Enabled: func(s st, hist []op) []op {
			if s.M == nil {
				s.M = initModel(backend)
			}
			return enabledX(s, hist, cfg, job.Sub, job.Subs)
		},
		Step: func(wi int, hist []op, s st, o op) bfs.StepResult[st] {
			out := xRun(t, backend, dir, hist, s, o, false, &ps, count)
			res := bfs.StepResult[st]{Next: out.Next, Violation: out.Why, VioKey: out.VioKey, Label: out.Label}
			if out.Why != "" {
				return res
			}
			res.Key = xStateKey(out.Next)
			// a history that contains a re-spelled id ends at the spelling depth
			if len(hist)+1 >= cfg.SpellDepth {
				for _, h := range append(append([]op{}, hist...), o) {
					if h.spelled() {
						res.NoExtend = true
					}
				}
			}
			return res
		},
	}
	res := eng.Run()
	label := fmt.Sprintf("xport/%s/shard%d-of-%d", backend, shard, xshards)
	if job.Subs > 1 {
		label += fmt.Sprintf("/second-op-%d-of-%d", job.Sub, job.Subs)
	}
	if r.Thorough() {
		label += "/" + cfg.Name
	}
	r.Add("states", res.States)
	r.Add("transitions", res.Transitions)
	r.Add("traces_validated_against_impl", res.Transitions)
	r.Add("xport:transitions", res.Transitions)
	r.Add("xport:stale_ids_presented_again", ps.sent)
	r.Add("xport:presented_again_refused", ps.refused)
	r.Add("xport:presented_again_idempotent_duplicate", ps.duplicates)
	r.Set("run:"+label, map[string]any{"states": res.States, "transitions": res.Transitions, "depth_completed": res.DepthCompleted, "depth_target": cfg.Depth, "respelled_ids_up_to_depth": cfg.SpellDepth,
		"spellings": append([]string{"exact", "blank"}, cfg.Spellings...), "per_depth_new_states": res.PerDepth, "exhaustive": res.Exhaustive, "cap_hit": res.CapHit})
	if !res.Exhaustive {
		r.NotExhaustive(label + ": " + res.CapHit + fmt.Sprintf(" after depth %d", res.DepthCompleted))
	}
	for k, v := range res.Outcomes {
		r.Add("outcome:"+k, v)
		r.Distinct("outcome:" + k)
	}
	for _, h := range res.SampleHists {
		txt := []string{}
		for _, o := range h {
			txt = append(txt, o.String())
		}
		r.Sample(map[string]any{"run": label, "history": txt})
	}
	for _, v := range res.Violations {
		if strings.HasPrefix(v.Message, "INFRA") {
			r.Infra("%s", v.Message)
			continue
		}
		txt := []string{}
		for _, o := range v.Hist {
			txt = append(txt, o.String())
		}
		r.Violation(v.Key, fmt.Sprintf("[%s] after %v, %s: %s", backend, txt, v.Op, v.Message),
			map[string]any{"engine": "xport", "backend": backend, "history": v.Hist, "op": v.Op, "history_text": txt, "op_text": v.Op.String()}, nil)
	}
}

// replayXport re-runs the case of a --replay document written by this part: the recorded history from a fresh boot,
// every operation judged, the probes after the last one.
func replayXport(r *runner.Run, t *testing.T) bool {
	var doc struct {
		Key    string `json:"key"`
		Replay struct {
			Engine  string `json:"engine"`
			Backend string `json:"backend"`
			History []op   `json:"history"`
			Op      op     `json:"op"`
		} `json:"replay"`
	}
	b, err := os.ReadFile(runner.ReplayPath())
	if err != nil || json.Unmarshal(b, &doc) != nil || doc.Replay.Engine != "xport" {
		return false
	}
	withGRPC = true
	curBackend = doc.Replay.Backend
	var ps probeStats
	out := xRun(t, doc.Replay.Backend, filepath.Join(runner.Scratch(), "c04x-replay"), doc.Replay.History, st{}, doc.Replay.Op, true, &ps, nil)
	txt := []string{}
	for _, o := range doc.Replay.History {
		txt = append(txt, o.String())
	}
	r.Add("states", int64(len(doc.Replay.History)+2))
	r.Add("transitions", int64(len(doc.Replay.History)+1))
	r.Add("traces_validated_against_impl", 1)
	r.Add("xport:stale_ids_presented_again", ps.sent)
	r.Sample(map[string]any{"replayed": txt, "op": doc.Replay.Op.String(), "outcome": out.Label, "violation": out.Why})
	r.NotExhaustive("replay of one recorded case")
	switch {
	case strings.HasPrefix(out.Why, "INFRA"):
		r.Infra("%s", out.Why)
	case out.Why != "":
		r.Violation(out.VioKey, fmt.Sprintf("[%s] after %v, %s: %s", doc.Replay.Backend, txt, doc.Replay.Op, out.Why),
			map[string]any{"engine": "xport", "backend": doc.Replay.Backend, "history": doc.Replay.History, "op": doc.Replay.Op, "history_text": txt, "op_text": doc.Replay.Op.String()}, nil)
	default:
		fmt.Printf("REPLAY property=C04 the recorded case holds on this tree: after %v, %s -> %s\n", txt, doc.Replay.Op, out.Label)
	}
	return true
}
