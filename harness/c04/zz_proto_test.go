package c04

import (
	"context"
	"fmt"
	"net"
	"os"
	"path/filepath"
	"testing"
	"testing/synctest"
	"time"

	"github.com/nuetzliches/hookaido/internal/app"
	"github.com/nuetzliches/hookaido/internal/queue"
	"github.com/nuetzliches/hookaido/internal/verifkit/runner"
	"github.com/nuetzliches/hookaido/internal/verifkit/vnet"
	pb "github.com/nuetzliches/hookaido/internal/workerapi/proto"
	"google.golang.org/grpc"
	"google.golang.org/grpc/credentials/insecure"
	"google.golang.org/grpc/metadata"
	"google.golang.org/protobuf/types/known/durationpb"
)

func TestProto(t *testing.T) {
	if os.Getenv("C04_PROTO") == "" {
		t.Skip()
	}
	for _, mode := range []string{"nogrpc", "listen", "rpc"} {
	for _, backend := range []string{"memory", "sqlite"} {
		dir := filepath.Join(runner.Scratch(), "proto")
		text := fmt.Sprintf(`
ingress   { listen "127.0.0.1:18080" }
pull_api  { listen "127.0.0.1:18081" grpc_listen "127.0.0.1:18083" auth token "raw:g1" }
admin_api { listen "127.0.0.1:18082" }
/r { queue { backend %s }  pull { path /e } }
`, backend)
		if mode == "nogrpc" {
			text = dsl(backend, 18080)
		}
		start := time.Now()
		n := 200
		for i := 0; i < n; i++ {
			synctest.Test(t, func(t *testing.T) {
				os.RemoveAll(dir)
				os.MkdirAll(dir, 0o755)
				a, err := app.VerifBoot(app.VerifBootOptions{Dir: dir, ConfigText: text})
				if err != nil {
					t.Fatal(err)
				}
				a.Store.Enqueue(queue.Envelope{ID: "a", Route: "/r", Target: "pull", Payload: []byte("p")})
				if mode != "rpc" {
					w := &world{a: a, backend: backend, dir: dir, store: a.Store, handles: map[string]string{}, reverse: map[string]string{}, bases: map[string]int{}}
					w.do(op{Kind: "deq", Batch: 1})
					time.Sleep(3 * time.Second)
					w.do(op{Kind: "ack", Lease: "a#1"})
					w.do(op{Kind: "ack", Lease: "a#1"})
					time.Sleep(2 * time.Minute)
					a.Shutdown()
					return
				}
				conn, err := grpc.NewClient("passthrough:///c04", grpc.WithTransportCredentials(insecure.NewCredentials()),
					grpc.WithContextDialer(func(ctx context.Context, _ string) (net.Conn, error) { return vnet.Dial("127.0.0.1:18083") }))
				if err != nil {
					t.Fatal(err)
				}
				cli := pb.NewWorkerServiceClient(conn)
				t0 := time.Now()
				ctx := metadata.AppendToOutgoingContext(context.Background(), "authorization", "Bearer g1")
				resp, err := cli.Dequeue(ctx, &pb.DequeueRequest{Endpoint: "/e", Batch: 1, LeaseTtl: durationpb.New(2 * time.Second)})
				if err != nil || len(resp.GetItems()) != 1 {
					t.Fatalf("deq: %v %v", resp, err)
				}
				lease := resp.GetItems()[0].GetLeaseId()
				time.Sleep(3 * time.Second)
				ar, err := cli.Ack(ctx, &pb.AckRequest{Endpoint: "/e", LeaseIds: []string{lease + "\n", "lease_unknown"}})
				if i == 0 {
					t.Logf("%s ack expired: %v %v; clock moved during calls (besides the sleep): %v", backend, ar, err, time.Since(t0)-3*time.Second)
				}
				_, err = cli.Ack(ctx, &pb.AckRequest{Endpoint: "/e", LeaseId: lease})
				if i == 0 {
					t.Logf("single: %v", err)
				}
				time.Sleep(2 * time.Minute)
				conn.Close()
				a.Shutdown()
			})
		}
		t.Logf("%s %s: %v per iteration", mode, backend, time.Since(start)/time.Duration(n))
	}
	}
}
