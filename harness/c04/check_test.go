package c04

import (
	"bytes"
	"encoding/base64"
	"encoding/json"
	"fmt"
	"net/http"
	"net/http/httptest"
	"os"
	"path/filepath"
	"sort"
	"strings"
	"testing"
	"testing/synctest"
	"time"

	"github.com/nuetzliches/hookaido/internal/app"
	"github.com/nuetzliches/hookaido/internal/queue"
	"github.com/nuetzliches/hookaido/internal/verifkit/bfs"
	"github.com/nuetzliches/hookaido/internal/verifkit/qmodel"
	"github.com/nuetzliches/hookaido/internal/verifkit/runner"
	workerapipb "github.com/nuetzliches/hookaido/internal/workerapi/proto"
	"google.golang.org/grpc"
)

const (
	ttl      = 2 * time.Second
	idemTTL  = 2 * time.Minute // pullapi RecentLeaseOpTTL default (not configurable through the DSL)
	endpoint = "/e"
)

func dsl(backend string, port int) string {
	grpcListen := ""
	if withGRPC { // transport_test.go: the worker gRPC server next to the pull HTTP server, both in front of one pullapi.Server
		grpcListen = fmt.Sprintf(" grpc_listen %q", grpcAddr(port))
	}
	return fmt.Sprintf(`
ingress   { listen "127.0.0.1:%d" }
pull_api  { listen "127.0.0.1:%d"%s  auth token "raw:g1" }
admin_api { listen "127.0.0.1:%d" }
%s
/r { queue { backend %s }  pull { path %s } }
`, port, port+1, grpcListen, port+2, storeCfg.DSL, backend, endpoint)
}

// storeConfig: one configuration of the queue store under which the histories run (retention_test.go). The zero value is
// the configuration of the other searches (no block in the file: an acknowledged message leaves the store).
type storeConfig struct {
	Name string
	DSL  string
	// what the configuration means for the contract model
	DeliveredMaxAge time.Duration
}

// storeCfg is the configuration of the boots of this process (set per job process).
var storeCfg storeConfig

func modelCfg(backend string) qmodel.Config {
	return qmodel.Config{SweepGranularity: sweep(backend), DeliveredMaxAge: storeCfg.DeliveredMaxAge}
}

// op of the search alphabet (pull API level).
type op struct {
	Kind   string // deq ack nack nackdead ext ackb nackb cancel requeue tick tickidem
	Batch  int
	Lease  string // handle
	Leases []string
	IDs    []string
	Dur    time.Duration
	// transport_test.go: Via "" = pull HTTP handler, "grpc" = worker gRPC server; Sp = spelling of the lease id in
	// each lease-id position (index 0 for the single forms), "" = exactly as handed out
	Via string   `json:",omitempty"`
	Sp  []string `json:",omitempty"`
}

func (o op) String() string {
	if o.Via != "" || len(o.Sp) > 0 {
		return o.xString()
	}
	switch o.Kind {
	case "deq":
		return fmt.Sprintf("dequeue(batch=%d)", o.Batch)
	case "ackb", "nackb":
		return fmt.Sprintf("%s(%q)", o.Kind, o.Leases)
	case "cancel", "requeue":
		return fmt.Sprintf("operator-%s(%v)", o.Kind, o.IDs)
	case "tick":
		return fmt.Sprintf("clock+%s", o.Dur)
	case "tickidem":
		return "clock->idempotency-expiry-1ns"
	case "restart":
		return "restart-of-the-gateway"
	case "enq":
		return fmt.Sprintf("enqueue(%v)", o.IDs)
	}
	return fmt.Sprintf("%s(%q)", o.Kind, o.Lease)
}

// search state: the store contract model plus what the idempotency rule needs.
type st struct {
	M          *qmodel.Model
	Remembered map[string]int64 // "<handle>|<ack or nack>" -> instant at which the duplicate answer stops being allowed
	// Presented: "<handle>|<ack or nack>" -> last instant at which that operation was presented at all (whatever the
	// answer). Part of the de-duplication key only: the pull server's idempotency cache is private to a closure and
	// can depend on nothing but this, so states that differ in it are kept apart even if a correct cache would not.
	Presented map[string]int64
	// Gen: number of restarts so far (the pull server's idempotency cache does not survive one); part of the key
	Gen int
	// PVia (transport search only): how the presentation recorded in Presented arrived (transport, padded or not);
	// part of the de-duplication key for the same reason
	PVia map[string]string
}

func (s st) clone() st {
	c := st{M: s.M.Clone(), Remembered: map[string]int64{}, Presented: map[string]int64{}, Gen: s.Gen}
	if s.PVia != nil {
		c.PVia = make(map[string]string, len(s.PVia))
		for k, v := range s.PVia {
			c.PVia[k] = v
		}
	}
	c.M.Edges = map[string]int{}
	for k, v := range s.Remembered {
		c.Remembered[k] = v
	}
	for k, v := range s.Presented {
		c.Presented[k] = v
	}
	return c
}

func opClass(kind string) string {
	switch kind {
	case "ack", "ackb":
		return "ack"
	case "nack", "nackd", "nackdead", "nackb":
		return "nack"
	}
	return ""
}

// world: one booted application in a bubble.
type world struct {
	a       *app.VerifApp
	backend string
	dir     string
	store   queue.Store
	handles map[string]string
	reverse map[string]string
	bases   map[string]int
	// transport_test.go: client of the worker gRPC server of this boot (connected on first use)
	conn *grpc.ClientConn
	cli  workerapipb.WorkerServiceClient
}

func boot(backend, dir string) (*world, error) {
	os.RemoveAll(dir)
	os.MkdirAll(dir, 0o755)
	a, err := app.VerifBoot(app.VerifBootOptions{Dir: dir, ConfigText: dsl(backend, 18080)})
	if err != nil {
		return nil, err
	}
	w := &world{a: a, backend: backend, dir: dir, store: a.Store, handles: map[string]string{}, reverse: map[string]string{}, bases: map[string]int{}}
	for _, id := range []string{"a", "b"} {
		if err := w.store.Enqueue(queue.Envelope{ID: id, Route: "/r", Target: "pull", Payload: []byte("p-" + id)}); err != nil {
			return nil, err
		}
	}
	return w, nil
}

func (w *world) real(h string) string {
	if r, ok := w.handles[h]; ok {
		return r
	}
	return h
}

func (w *world) post(path string, body any) (int, []byte) {
	b, _ := json.Marshal(body)
	r := httptest.NewRequest("POST", path, bytes.NewReader(b))
	r.Header.Set("Authorization", "Bearer g1")
	r.Header.Set("Content-Type", "application/json")
	rec := httptest.NewRecorder()
	w.a.Pull.ServeHTTP(rec, r)
	return rec.Code, rec.Body.Bytes()
}

type httpObs struct {
	Code int
	Obs  *qmodel.Obs
}

func class(code int) string {
	switch code {
	case 200, 204:
		return qmodel.OK
	case 409:
		return qmodel.ConflictErr
	}
	return fmt.Sprintf("http%d", code)
}

func (w *world) do(o op) httpObs {
	switch o.Kind {
	case "restart":
		// the gateway process ends and a new one starts on the same files through the production boot path; the
		// workers outside keep the lease ids they hold (the handle tables stay)
		w.a.Shutdown()
		a, err := app.VerifBoot(app.VerifBootOptions{Dir: w.dir, ConfigText: dsl(w.backend, 18080)})
		if err != nil {
			return httpObs{-1, &qmodel.Obs{Err: qmodel.Other, ErrText: "restart: " + err.Error()}}
		}
		w.a, w.store = a, a.Store
		return httpObs{0, &qmodel.Obs{Err: qmodel.OK}}
	case "enq":
		err := w.store.Enqueue(queue.Envelope{ID: o.IDs[0], Route: "/r", Target: "pull", Payload: []byte("p-" + o.IDs[0])})
		return httpObs{0, &qmodel.Obs{Err: qmodel.ErrClass(err)}}
	case "tick":
		time.Sleep(o.Dur)
		return httpObs{0, &qmodel.Obs{Err: qmodel.OK}}
	case "cancel":
		r, err := w.store.CancelMessages(queue.MessageCancelRequest{IDs: o.IDs})
		return httpObs{0, &qmodel.Obs{Err: qmodel.ErrClass(err), N: r.Canceled, Matched: r.Matched}}
	case "requeue":
		r, err := w.store.RequeueMessages(queue.MessageRequeueRequest{IDs: o.IDs})
		return httpObs{0, &qmodel.Obs{Err: qmodel.ErrClass(err), N: r.Requeued, Matched: r.Matched}}
	case "deq":
		code, body := w.post(endpoint+"/dequeue", map[string]any{"batch": o.Batch, "lease_ttl": ttl.String()})
		obs := &qmodel.Obs{Err: class(code)}
		var resp struct {
			Items []struct {
				ID, Route  string
				LeaseID    string    `json:"lease_id"`
				Attempt    int       `json:"attempt"`
				ReceivedAt time.Time `json:"received_at"`
				NextRunAt  time.Time `json:"next_run_at"`
				PayloadB64 string    `json:"payload_b64"`
			} `json:"items"`
		}
		json.Unmarshal(body, &resp)
		for _, it := range resp.Items {
			p, _ := base64.StdEncoding.DecodeString(it.PayloadB64)
			base := fmt.Sprintf("%s#%d", it.ID, it.Attempt)
			h := qmodel.HandleName(base, w.bases[base])
			if _, used := w.reverse[it.LeaseID]; used || it.LeaseID == "" {
				h = "REUSED:" + it.LeaseID
			} else {
				w.bases[base]++
				w.handles[h] = it.LeaseID
				w.reverse[it.LeaseID] = h
			}
			obs.Items = append(obs.Items, qmodel.Msg{ID: it.ID, Route: it.Route, Target: "pull", State: qmodel.Leased, Attempt: it.Attempt,
				ReceivedAt: it.ReceivedAt.UnixNano(), NextRunAt: it.NextRunAt.UnixNano(), LeaseUntil: it.NextRunAt.UnixNano(), Payload: p, Lease: h, SchemaVersion: 1})
		}
		return httpObs{code, obs}
	case "ack":
		code, _ := w.post(endpoint+"/ack", map[string]any{"lease_id": w.real(o.Lease)})
		return httpObs{code, &qmodel.Obs{Err: class(code)}}
	case "nack":
		code, _ := w.post(endpoint+"/nack", map[string]any{"lease_id": w.real(o.Lease), "delay": "0s"})
		return httpObs{code, &qmodel.Obs{Err: class(code)}}
	case "nackd":
		code, _ := w.post(endpoint+"/nack", map[string]any{"lease_id": w.real(o.Lease), "delay": "5s"})
		return httpObs{code, &qmodel.Obs{Err: class(code)}}
	case "nackdead":
		code, _ := w.post(endpoint+"/nack", map[string]any{"lease_id": w.real(o.Lease), "dead": true, "reason": "boom"})
		return httpObs{code, &qmodel.Obs{Err: class(code)}}
	case "ext":
		code, _ := w.post(endpoint+"/extend", map[string]any{"lease_id": w.real(o.Lease), "extend_by": "1s"})
		return httpObs{code, &qmodel.Obs{Err: class(code)}}
	case "ackb", "nackb":
		ids := make([]string, len(o.Leases))
		for i, h := range o.Leases {
			ids[i] = w.real(h)
		}
		path, body := endpoint+"/ack", map[string]any{"lease_ids": ids}
		if o.Kind == "nackb" {
			path, body = endpoint+"/nack", map[string]any{"lease_ids": ids, "delay": "0s"}
		}
		code, raw := w.post(path, body)
		var resp struct {
			Acked     int `json:"acked"`
			Succeeded int `json:"succeeded"`
			Conflicts []struct {
				LeaseID string `json:"lease_id"`
				Reason  string `json:"reason"`
			} `json:"conflicts"`
		}
		json.Unmarshal(raw, &resp)
		obs := &qmodel.Obs{Err: qmodel.OK, N: resp.Acked + resp.Succeeded}
		if code != 200 && code != 409 {
			obs.Err = class(code)
		}
		for _, c := range resp.Conflicts {
			h := c.LeaseID
			if x, ok := w.reverse[c.LeaseID]; ok {
				h = x
			}
			obs.Conflicts = append(obs.Conflicts, qmodel.Conflict{Lease: h, Expired: c.Reason == "lease_expired"})
		}
		return httpObs{code, obs}
	}
	return httpObs{-1, &qmodel.Obs{Err: qmodel.Other}}
}

func (w *world) listing() []qmodel.Msg {
	resp, err := w.store.ListMessages(queue.MessageListRequest{Order: "asc", Limit: 1000, IncludePayload: true, IncludeHeaders: true, IncludeTrace: true})
	if err != nil {
		panic(err)
	}
	out := make([]qmodel.Msg, 0, len(resp.Items))
	for _, e := range resp.Items {
		out = append(out, qmodel.FromEnvelope(e))
	}
	return out
}

func enabled(s st, hist []op) []op {
	if restartFocus {
		return enabledRestart(s)
	}
	if retentionFocus {
		return enabledRetention(s)
	}
	ops := []op{{Kind: "deq", Batch: 1}, {Kind: "deq", Batch: 2}}
	hs := make([]string, 0, len(s.M.Issued))
	for h := range s.M.Issued {
		hs = append(hs, h)
	}
	sort.Strings(hs)
	if len(hs) > 3 {
		hs = hs[len(hs)-3:]
	}
	for _, h := range append(append([]string{}, hs...), "lease_unknown") {
		for _, k := range []string{"ack", "nack", "nackd", "nackdead", "ext"} {
			ops = append(ops, op{Kind: k, Lease: h})
		}
	}
	if len(hs) >= 1 {
		ops = append(ops, op{Kind: "ackb", Leases: []string{hs[0], hs[0]}}, op{Kind: "nackb", Leases: []string{hs[len(hs)-1], "lease_unknown"}})
	}
	if len(hs) >= 2 {
		ops = append(ops, op{Kind: "ackb", Leases: []string{hs[0], hs[1]}}, op{Kind: "nackb", Leases: []string{hs[1], hs[0]}})
	}
	ops = append(ops, op{Kind: "cancel", IDs: []string{"a"}}, op{Kind: "requeue", IDs: []string{"a"}})
	ops = append(ops, op{Kind: "tick", Dur: time.Second}, op{Kind: "tick", Dur: ttl}, op{Kind: "tick", Dur: ttl + time.Second}, op{Kind: "tick", Dur: 1})
	earliest := int64(0)
	for _, exp := range s.Remembered {
		if exp > s.M.Now && (earliest == 0 || exp < earliest) {
			earliest = exp
		}
	}
	if earliest > s.M.Now+1 {
		ops = append(ops, op{Kind: "tick", Dur: time.Duration(earliest - 1 - s.M.Now)})
	}
	return ops
}

// restartFocus selects the alphabet of the restart searches (set per job process).
var restartFocus bool
var curBackend string

// enabledRestart: dequeues, settlements with every lease id a worker may still hold, a fresh enqueue, the expiry of
// the lease and - at most twice per history - a restart of the gateway process.
func enabledRestart(s st) []op {
	ops := []op{{Kind: "deq", Batch: 1}, {Kind: "deq", Batch: 2}}
	hs := make([]string, 0, len(s.M.Issued))
	for h := range s.M.Issued {
		hs = append(hs, h)
	}
	sort.Strings(hs)
	if len(hs) > 3 {
		hs = hs[len(hs)-3:]
	}
	for _, h := range hs {
		for _, k := range []string{"ack", "nack", "ext"} {
			ops = append(ops, op{Kind: k, Lease: h})
		}
	}
	ops = append(ops, op{Kind: "enq", IDs: []string{"c"}})
	if s.Gen < 2 {
		ops = append(ops, op{Kind: "restart"})
	}
	ops = append(ops, op{Kind: "tick", Dur: ttl + time.Second})
	return ops
}

func unchanged(pre *qmodel.Model, post []qmodel.Msg) string {
	c := pre.Clone()
	c.Edges = map[string]int{}
	// "no effect" = the listing equals the contract state before the call
	return c.Apply(qmodel.Op{Kind: "lookup", IDs: nil}, &qmodel.Obs{Err: qmodel.OK}, post)
}

// judge validates one transition against C04: stale/foreign leases change nothing and conflict, the only
// success a stale call may get is the idempotent duplicate answer inside the window, per id in batches.
func judge(pre st, o op, h httpObs, post []qmodel.Msg) (st, string) {
	s := pre.clone()
	now := s.M.Now
	if cls := opClass(o.Kind); cls != "" {
		// presentations of the current lease are covered by Remembered (success) or change the store state (expiry)
		if o.Lease != "" && !currentLease(pre.M, o.Lease) {
			s.Presented[o.Lease+"|"+cls] = now
		}
		for _, l := range o.Leases {
			if !currentLease(pre.M, l) {
				s.Presented[l+"|"+cls] = now
			}
		}
	}
	toModel := func() qmodel.Op {
		switch o.Kind {
		case "deq":
			return qmodel.Op{Kind: "deq", Route: "/r", Batch: o.Batch, TTL: ttl}
		case "ack":
			return qmodel.Op{Kind: "ack", Lease: o.Lease}
		case "nack":
			return qmodel.Op{Kind: "nack", Lease: o.Lease}
		case "nackd":
			return qmodel.Op{Kind: "nack", Lease: o.Lease, Delay: 5 * time.Second}
		case "nackdead":
			return qmodel.Op{Kind: "dead", Lease: o.Lease, Reason: "boom"}
		case "ext":
			return qmodel.Op{Kind: "ext", Lease: o.Lease, Delay: time.Second}
		case "cancel":
			return qmodel.Op{Kind: "cancel", IDs: o.IDs}
		case "requeue":
			return qmodel.Op{Kind: "requeue", IDs: o.IDs}
		case "tick":
			return qmodel.Op{Kind: "tick", Dur: o.Dur}
		}
		return qmodel.Op{}
	}
	switch o.Kind {
	case "restart":
		s.Gen++
		if h.Obs.Err != qmodel.OK {
			return s, "the gateway did not start again: " + h.Obs.ErrText
		}
		if curBackend == "memory" {
			// the memory backend starts empty; every lease id a worker still holds is foreign from now on
			s.M.Items = map[string]*qmodel.Msg{}
			if len(post) != 0 {
				return s, fmt.Sprintf("%d message(s) in a freshly started memory backend", len(post))
			}
			return s, ""
		}
		// SQLite: a restart changes nothing - in particular a lease a worker holds stays that worker's lease
		if why := s.M.Apply(qmodel.Op{Kind: "reopen"}, h.Obs, post); why != "" {
			return s, why
		}
		return s, ""
	case "enq":
		if why := s.M.Apply(qmodel.Op{Kind: "enq", Envs: []qmodel.EnvSpec{{ID: o.IDs[0], Route: "/r", Target: "pull", Payload: []byte("p-" + o.IDs[0])}}}, h.Obs, post); why != "" {
			return s, why
		}
		return s, ""
	case "ack", "nack", "nackd", "nackdead":
		cur := currentLease(s.M, o.Lease)
		key := o.Lease + "|" + opClass(o.Kind)
		if !cur {
			exp, rem := s.Remembered[key]
			if h.Obs.Err == qmodel.OK {
				if !rem || now >= exp {
					return s, fmt.Sprintf("%s with a lease that is not current answered %d although no identical operation on it succeeded within the idempotency window", o.Kind, h.Code)
				}
				if d := unchanged(s.M, post); d != "" {
					return s, "idempotent duplicate answer had an effect: " + d
				}
				return s, ""
			}
		}
		if why := s.M.Apply(toModel(), h.Obs, post); why != "" {
			return s, why
		}
		if cur && h.Obs.Err == qmodel.OK && !expired(pre.M, o.Lease) {
			s.Remembered[key] = now + int64(idemTTL)
		}
		return s, ""
	case "ackb", "nackb":
		// per lease id: remembered duplicates count as succeeded without effect, the rest follows the store contract
		var rest []string
		dup := 0
		cls := opClass(o.Kind)
		seen := map[string]bool{}
		// the API layer trims and de-duplicates lease_ids before anything else (documented request normalisation)
		var uniq []string
		for _, l := range o.Leases {
			if !seen[l] {
				seen[l] = true
				uniq = append(uniq, l)
			}
		}
		for _, l := range uniq {
			exp, rem := s.Remembered[l+"|"+cls]
			if rem && now < exp && !currentLease(s.M, l) {
				dup++
				continue
			}
			rest = append(rest, l)
			seen[l] = true
		}
		mo := qmodel.Op{Kind: o.Kind, Leases: rest}
		obs := *h.Obs
		obs.N -= dup
		pm := s.M.Clone()
		if len(rest) == 0 {
			if h.Obs.N != dup || len(h.Obs.Conflicts) != 0 {
				return s, fmt.Sprintf("batch of remembered duplicates answered succeeded=%d conflicts=%v, want %d and none", h.Obs.N, h.Obs.Conflicts, dup)
			}
			if d := unchanged(s.M, post); d != "" {
				return s, "idempotent duplicate batch had an effect: " + d
			}
			return s, ""
		}
		if why := s.M.Apply(mo, &obs, post); why != "" {
			return s, why
		}
		// remember what succeeded now
		for _, l := range rest {
			if currentLease(pm, l) && !expired(pm, l) && !conflictHas(h.Obs.Conflicts, l) {
				s.Remembered[l+"|"+cls] = now + int64(idemTTL)
			}
		}
		return s, ""
	default:
		if why := s.M.Apply(toModel(), h.Obs, postOrNil(o, post)); why != "" {
			return s, why
		}
		return s, ""
	}
}

func postOrNil(o op, post []qmodel.Msg) []qmodel.Msg {
	if o.Kind == "tick" {
		return nil
	}
	return post
}

func conflictHas(cs []qmodel.Conflict, l string) bool {
	for _, c := range cs {
		if c.Lease == l {
			return true
		}
	}
	return false
}

func currentLease(m *qmodel.Model, h string) bool {
	for _, it := range m.Items {
		if it.State == qmodel.Leased && it.Lease == h {
			return true
		}
	}
	return false
}

func expired(m *qmodel.Model, h string) bool {
	for _, it := range m.Items {
		if it.State == qmodel.Leased && it.Lease == h {
			return m.Now >= it.LeaseUntil
		}
	}
	return false
}

func TestCheck(t *testing.T) {
	r := runner.Start("C04", "model_checking")
	if runner.ReplayPath() != "" && replayXport(r, t) {
		r.Finish()
	}
	backends := []string{"memory", "sqlite"}
	depth := map[string]int{"memory": runner.Pick(r, 5, 7), "sqlite": runner.Pick(r, 4, 6)}
	budget := runner.Pick(r, 110*time.Second, 12*time.Minute)
	shards := 12
	const rshards = 3
	nret := len(backends) * len(retentionCfgs) * retShards
	retFirst := len(backends)*shards + len(backends)*rshards
	njobs := retFirst + nret // + restart-focus jobs + retained-row jobs (retention_test.go)
	if ji, ok := runner.Job(); ok && ji >= njobs {
		xportJob(r, t, backends, ji-njobs) // transport_test.go: the same operations over HTTP and gRPC, padded lease ids
	}
	if ji, ok := runner.Job(); ok {
		label := ""
		backend := ""
		rootShard, rootShards := 0, shards
		vioPrefix := ""
		if ji >= retFirst {
			k := ji - retFirst
			cfg := retentionCfgs[(k/retShards)%len(retentionCfgs)]
			backend, rootShard, rootShards = backends[k/(retShards*len(retentionCfgs))], k%retShards, retShards
			retentionFocus, storeCfg = true, cfg
			label = "retained-rows/" + cfg.Name + "/"
			vioPrefix = cfg.Name + ":"
			depth[backend] = map[string]int{"memory": runner.Pick(r, 5, 7), "sqlite": runner.Pick(r, 4, 6)}[backend]
		} else if ji >= len(backends)*shards {
			restartFocus = true
			label = "restart-focus/"
			k := ji - len(backends)*shards
			backend, rootShard, rootShards = backends[k/rshards], k%rshards, rshards
			depth[backend] = map[string]int{"memory": runner.Pick(r, 5, 7), "sqlite": runner.Pick(r, 4, 6)}[backend]
		} else {
			backend, rootShard = backends[ji/shards], ji%shards
		}
		curBackend = backend
		dir := filepath.Join(runner.Scratch(), "c04")
		eng := &bfs.Engine[st, op]{
			Name: "c04-" + backend, Workers: 1, MaxDepth: depth[backend], MaxTrans: runner.Pick(r, int64(2_000_000), int64(30_000_000)),
			Deadline: jobEnd(time.Now().Add(budget)), RootShard: rootShard, RootShards: rootShards,
			Init: func() st {
				return st{Remembered: map[string]int64{}, Presented: map[string]int64{}}
			}, InitKey: "init", OpName: func(o op) string { return o.Kind },
			Enabled: func(s st, hist []op) []op {
				if s.M == nil {
					// initial state: the model is created inside the first bubble (it needs the bubble's start instant)
					m := qmodel.New(modelCfg(backend), bubbleStart.UnixNano())
					m.Items["a"] = &qmodel.Msg{ID: "a", Route: "/r", Target: "pull", State: qmodel.Queued, ReceivedAt: m.Now, NextRunAt: m.Now, Payload: []byte("p-a"), SchemaVersion: 1}
					m.Items["b"] = &qmodel.Msg{ID: "b", Route: "/r", Target: "pull", State: qmodel.Queued, ReceivedAt: m.Now, NextRunAt: m.Now, Payload: []byte("p-b"), SchemaVersion: 1}
					s.M = m
				}
				return enabled(s, hist)
			},
			Step: func(wi int, hist []op, s st, o op) bfs.StepResult[st] {
				var res bfs.StepResult[st]
				synctest.Test(t, func(t *testing.T) {
					w, err := boot(backend, dir)
					if err != nil {
						res.Violation = "INFRA boot: " + err.Error()
						return
					}
					defer func() { w.a.Shutdown() }()
					if s.M == nil {
						m := qmodel.New(modelCfg(backend), bubbleStart.UnixNano())
						m.Items["a"] = &qmodel.Msg{ID: "a", Route: "/r", Target: "pull", State: qmodel.Queued, ReceivedAt: m.Now, NextRunAt: m.Now, Payload: []byte("p-a"), SchemaVersion: 1}
						m.Items["b"] = &qmodel.Msg{ID: "b", Route: "/r", Target: "pull", State: qmodel.Queued, ReceivedAt: m.Now, NextRunAt: m.Now, Payload: []byte("p-b"), SchemaVersion: 1}
						s.M = m
					}
					for _, h := range hist {
						w.do(h)
					}
					ho := w.do(o)
					post := w.listing()
					next, why := judge(s, o, ho, post)
					res.Next, res.Violation, res.Label = next, why, fmt.Sprint(ho.Code)
					if retentionFocus && why == "" {
						retentionCount(s, o, ho)
					}
					if why != "" {
						res.VioKey = fmt.Sprintf("%s%s:%s:%s", vioPrefix, backend, o.Kind, firstWords(why))
					}
					// key: contract state + clock + remembered duplicates + issued leases (the pull server's cache is a
					// function of these; the store state equals the validated model state)
					var kb strings.Builder
					fmt.Fprintf(&kb, "%d|g%d|", next.M.Now, next.Gen)
					for _, it := range next.M.Sorted() {
						fmt.Fprintf(&kb, "%s,%s,%d,%d,%s,%d;", it.ID, it.State, it.Attempt, it.NextRunAt, it.Lease, it.LeaseUntil)
					}
					rk := make([]string, 0, len(next.Remembered))
					for k, v := range next.Remembered {
						if v > next.M.Now {
							rk = append(rk, fmt.Sprintf("%s=%d", k, v))
						}
					}
					sort.Strings(rk)
					hk := make([]string, 0, len(next.M.Issued))
					for k := range next.M.Issued {
						hk = append(hk, k)
					}
					sort.Strings(hk)
					pk := make([]string, 0, len(next.Presented))
					for k, v := range next.Presented {
						if v+int64(idemTTL) > next.M.Now {
							pk = append(pk, fmt.Sprintf("%s@%d", k, v))
						}
					}
					sort.Strings(pk)
					kb.WriteString(strings.Join(rk, ",") + "|" + strings.Join(hk, ",") + "|" + strings.Join(pk, ","))
					res.Key = kb.String()
				})
				return res
			},
		}
		res := eng.Run()
		label += fmt.Sprintf("%s/shard%d-of-%d", backend, rootShard, rootShards)
		r.Add("states", res.States)
		r.Add("transitions", res.Transitions)
		r.Add("traces_validated_against_impl", res.Transitions)
		r.Set("run:"+label, map[string]any{"states": res.States, "transitions": res.Transitions, "depth_completed": res.DepthCompleted, "depth_target": depth[backend], "exhaustive": res.Exhaustive, "cap_hit": res.CapHit})
		if !res.Exhaustive {
			r.NotExhaustive(label + ": " + res.CapHit + fmt.Sprintf(" after depth %d", res.DepthCompleted))
		}
		for k, v := range res.Outcomes {
			r.Add("outcome:"+k, v)
			r.Distinct("outcome:" + k)
		}
		for _, h := range res.SampleHists {
			txt := []string{}
			for _, o := range h {
				txt = append(txt, o.String())
			}
			r.Sample(map[string]any{"run": label, "history": txt})
		}
		for _, v := range res.Violations {
			if strings.HasPrefix(v.Message, "INFRA") {
				r.Infra("%s", v.Message)
				continue
			}
			txt := []string{}
			for _, o := range v.Hist {
				txt = append(txt, o.String())
			}
			r.Violation(v.Key, fmt.Sprintf("[%s%s] after %v, %s: %s", vioPrefix, backend, txt, v.Op, v.Message), map[string]any{"engine": "bfs", "backend": backend, "store_config": storeCfg.Name, "history": v.Hist, "op": v.Op, "history_text": txt}, nil)
		}
		if retentionFocus {
			retentionCoverage(r, label, res.Outcomes)
		}
		r.Finish()
	}
	if _, child := runner.IsShard(); !child && runner.ReplayPath() == "" {
		// the transport jobs come last and take the places of the HTTP jobs as these finish; their own budget runs from
		// their start, but none runs past the end of the HTTP part
		os.Setenv(xportEndEnv, fmt.Sprint(time.Now().Add(budget+10*time.Second).UnixNano()))
		// (thorough: the HTTP jobs use their whole budget, so all jobs start together)
		r.RunJobs(njobs+len(xjobs(backends)), runner.Pick(r, 30+nret, 30+nret+len(xjobs(backends))), budget+3*time.Minute)
	}
	retentionRule(r)
	schedPart(r, t)
	pullDuplicates(r, t)
	pullStaleDuplicates(r, t)
	r.Assume("operator cancel/requeue are applied through the Store (the Admin layer in front of them is C14/C15)")
	r.Assume("the deep HTTP search (depth 5/4 quick) uses lease ids exactly as handed out; the worker gRPC transport and re-spelled lease ids are part of the transport search only (one operation less deep; re-spelled ids in the last two operations of histories of the spelling depth); the controlled-scheduler part stays at the Store / pull HTTP level (a grpc.Server runs goroutines the scheduler does not own), overlapping calls over both transports only run free under -race")
	r.Assume("a padded or re-cased lease id may be read as the id itself or as an id nobody was handed, a blank-only id as no id or as an unknown id (the documents do not say); the oracle accepts whichever reading explains the whole answer of the call")
	r.Set("rule:transport", "every history up to the transport depth (memory 4 / SQLite 3 quick, 5 / 4 thorough) over the HTTP alphabet with every lease operation (dequeue 1/2, ack, nack, delayed nack, dead-letter, extend, batch ack/nack) issued over the pull HTTP handler or over the real worker grpc.Server behind the in-memory listener, per operation, both in front of the one pullapi.Server that startServers builds; in the last two operations of histories up to the spelling depth (memory 3 / SQLite 2 quick, 4 / 3 thorough) the ids in the lease-id positions are also re-spelled: leading blank, trailing newline, tab+blank .. blank+CR LF, upper-cased, blank-only (thorough adds trailing blank, tab, CR LF, blank both sides, NBSP, VT/FF, zero-width space), alone, next to an id as handed out, the same id twice with different padding, next to a blank-only id; oracle: the C04 judge (contract model + idempotent-duplicate rule + full listing) on the call in handle terms under ONE reading of its re-spelled ids (same id / unknown id; blank-only: no id / unknown id), gRPC OK / FailedPrecondition / InvalidArgument and the per-id conflict list mapped onto ok / conflict / malformed; after every step every id that is stale in the contract state and every spelling just used is presented again (single and batch, ack and nack, HTTP and - after a gRPC step - gRPC): success only as the duplicate of an identical operation that really succeeded inside the window, listing byte-identical")
	r.Set("rule", "every history up to the depth over {dequeue batch 1/2, ack/nack/dead-letter/extend with each of the 3 newest lease ids and an unknown id, batch ack/nack with duplicates, stale and unknown ids mixed, operator cancel/requeue, clock +1 ns/+1 s/+ttl/+ttl+1 s/to the idempotency-window end - 1 ns} through the pull HTTP handler wired by startServers, on memory and SQLite, in a virtual-time bubble; oracle: qmodel for the store contract plus the idempotent-duplicate rule (a stale call may succeed only as a duplicate of an identical operation that succeeded less than RecentLeaseOpTTL ago, and then without effect), full listing compared after every step; states de-duplicated on contract state + clock + remembered duplicates + issued leases; plus schedules: every interleaving (memory: all; SQLite: within the preemption bound) of a worker presenting lease a#1 in single and batch form while the clock passes its expiry, a second worker re-leases and settles the message and an operator cancels/requeues, linearizability against qmodel")
	r.Finish()
}

var bubbleStart = time.Date(2000, 1, 1, 0, 0, 0, 0, time.UTC)

func sweep(backend string) time.Duration {
	if backend == "sqlite" {
		return 10 * time.Millisecond
	}
	return 0
}

func firstWords(s string) string {
	f := strings.Fields(s)
	if len(f) > 6 {
		f = f[:6]
	}
	out := strings.Join(f, "_")
	return strings.Map(func(r rune) rune {
		if r >= '0' && r <= '9' {
			return -1
		}
		return r
	}, out)
}

var _ = http.StatusOK
