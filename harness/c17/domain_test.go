package c17

// Domains of the C17 enumeration and the reference ("oracle") written from the
// property text and /repo/docs (delivery.md "Outbound Signing", security.md
// "Named Secrets with Rotation", ingress.md "String-to-sign"). Nothing in this
// file calls the code under test.

import (
	"crypto/sha256"
	"encoding/hex"
	"fmt"
	"strconv"
	"strings"
	"time"
)

// ---- time lattice -----------------------------------------------------------

// The lattice starts one minute after the start of a synctest bubble
// (2000-01-01T00:00:00Z) so that the inbound part, whose clock is time.Now, can
// reach every instant by sleeping forward; the four points are 10 s apart so
// that every pair (clock, signed timestamp) stays far inside the default
// inbound tolerance of 5 minutes.
var latT0 = time.Date(2000, 1, 1, 0, 1, 0, 0, time.UTC)

const latStep = 10 * time.Second

func lat(i int) time.Time { return latT0.Add(time.Duration(i) * latStep) }

type instant struct {
	Label string
	Off   string // offset class: "-1s", "-1ns", "+0", "+1ns", "+1s"
	At    time.Time
}

var offsets = []struct {
	name string
	d    time.Duration
}{{"-1s", -time.Second}, {"-1ns", -time.Nanosecond}, {"+0", 0}, {"+1ns", time.Nanosecond}, {"+1s", time.Second}}

// clockInstants: every t_i and t_i ± 1 ns, ± 1 s, ascending (20 instants).
func clockInstants() []instant {
	var out []instant
	for i := 0; i <= 3; i++ {
		for _, o := range offsets {
			out = append(out, instant{Label: fmt.Sprintf("t%d%s", i, o.name), Off: o.name, At: lat(i).Add(o.d)})
		}
	}
	return out
}

// secondInstants: every t_i and t_i ± 1 s, ascending (12 instants); signed
// timestamps are whole unix seconds.
func secondInstants() []instant {
	var out []instant
	for _, c := range clockInstants() {
		if c.At.Nanosecond() == 0 {
			out = append(out, c)
		}
	}
	return out
}

// ---- secret versions --------------------------------------------------------

// win is the validity window of one secret version on the lattice.
type win struct {
	From  int `json:"from"`  // valid_from = t<From>, From in 0..2
	Until int `json:"until"` // valid_until = t<Until> (> From), -1: no valid_until
}

func (w win) String() string {
	if w.Until < 0 {
		return fmt.Sprintf("%d-inf", w.From)
	}
	return fmt.Sprintf("%d-%d", w.From, w.Until)
}

// allWindows: valid_from in {t0,t1,t2} x valid_until in {none,t1,t2,t3}, until > from (9 windows).
func allWindows() []win {
	var out []win
	for f := 0; f <= 2; f++ {
		for _, u := range []int{-1, 1, 2, 3} {
			if u >= 0 && u <= f {
				continue
			}
			out = append(out, win{f, u})
		}
	}
	return out
}

// allSets: every ordered tuple of 1..maxN windows. Position i of a tuple is the
// version with id ids[i]; because all ordered tuples are produced, every
// assignment of windows to ids (incl. equal valid_from under every id order)
// occurs.
func allSets(maxN int) [][]win {
	ws := allWindows()
	var out [][]win
	var rec func(cur []win)
	rec = func(cur []win) {
		if len(cur) > 0 {
			out = append(out, append([]win(nil), cur...))
		}
		if len(cur) == maxN {
			return
		}
		for _, w := range ws {
			rec(append(cur, w))
		}
	}
	rec(nil)
	return out
}

func pattern(set []win) string {
	p := make([]string, len(set))
	for i, w := range set {
		p[i] = w.String()
	}
	return strings.Join(p, ",")
}

// ids are ordered the same way under every sensible comparison.
var ids = []string{"k1", "k2", "k3"}

// distinct secret values, so that a signature identifies the version that made it.
var secretValues = []string{"alpha-secret-0001", "bravo-secret-000022", "charlie-secret-0333"}

// stamp writes an instant for the DSL. The spelling depends on the version so
// that equal instants are not equal strings (and not equal time.Time values):
// k1 UTC "Z", k2 with a +01:00 zone offset, k3 with a fractional part.
func stamp(t time.Time, version int) string {
	switch version % 3 {
	case 1:
		return t.In(time.FixedZone("", 3600)).Format(time.RFC3339)
	case 2:
		return t.UTC().Format("2006-01-02T15:04:05.000Z07:00")
	}
	return t.UTC().Format(time.RFC3339)
}

func permutations(n int) [][]int {
	var out [][]int
	var rec func(cur []int, used int)
	rec = func(cur []int, used int) {
		if len(cur) == n {
			out = append(out, append([]int(nil), cur...))
			return
		}
		for i := 0; i < n; i++ {
			if used&(1<<i) == 0 {
				rec(append(cur, i), used|1<<i)
			}
		}
	}
	rec(nil, 0)
	return out
}

// ---- reference --------------------------------------------------------------

// refValid: a version is valid at an instant iff valid_from <= at < valid_until
// (valid_from inclusive, valid_until exclusive, no valid_until = no end).
// Integer nanoseconds since the epoch; no time.Time comparison methods.
func refValid(w win, atNs int64) bool {
	if atNs < lat(w.From).UnixNano() {
		return false
	}
	return w.Until < 0 || atNs < lat(w.Until).UnixNano()
}

// refGroup returns the versions the configured rule may pick at atNs: among the
// valid versions those with the greatest (newest_valid, also the documented
// default) or smallest (oldest_valid) valid_from. More than one element = a tie
// that has to be broken by id. Indices are ascending = ids ascending.
func refGroup(set []win, sel string, atNs int64) []int {
	have := false
	best := 0
	for _, w := range set {
		if !refValid(w, atNs) {
			continue
		}
		switch {
		case !have:
			best, have = w.From, true
		case sel == "oldest_valid" && w.From < best:
			best = w.From
		case sel != "oldest_valid" && w.From > best:
			best = w.From
		}
	}
	if !have {
		return nil
	}
	var g []int
	for i, w := range set {
		if refValid(w, atNs) && w.From == best {
			g = append(g, i)
		}
	}
	return g
}

// refHMAC is HMAC-SHA256 written out from RFC 2104 (no crypto/hmac).
func refHMAC(key, msg []byte) []byte {
	const block = 64
	k := make([]byte, block)
	if len(key) > block {
		s := sha256.Sum256(key)
		copy(k, s[:])
	} else {
		copy(k, key)
	}
	inner := make([]byte, 0, block+len(msg))
	outer := make([]byte, 0, block+sha256.Size)
	for _, b := range k {
		inner = append(inner, b^0x36)
		outer = append(outer, b^0x5c)
	}
	in := sha256.Sum256(append(inner, msg...))
	res := sha256.Sum256(append(outer, in[:]...))
	return res[:]
}

func hexSHA256(b []byte) string {
	s := sha256.Sum256(b)
	return hex.EncodeToString(s[:])
}

// refOutboundSig: hex HMAC-SHA256(secret, METHOD \n escaped-path \n unix-seconds \n hex-sha256(body)).
func refOutboundSig(secret []byte, method, escapedPath string, unix int64, body []byte) string {
	msg := strings.ToUpper(method) + "\n" + escapedPath + "\n" + strconv.FormatInt(unix, 10) + "\n" + hexSHA256(body)
	return hex.EncodeToString(refHMAC(secret, []byte(msg)))
}

// refInboundSig: docs/ingress.md — TIMESTAMP \n METHOD \n PATH \n hex(sha256(body)).
func refInboundSig(secret []byte, unix int64, method, path string, body []byte) string {
	msg := strconv.FormatInt(unix, 10) + "\n" + method + "\n" + path + "\n" + hexSHA256(body)
	return hex.EncodeToString(refHMAC(secret, []byte(msg)))
}

// unixFloor: unix seconds of an instant given in nanoseconds (all instants are after 1970).
func unixFloor(ns int64) int64 { return ns / 1_000_000_000 }

// ---- request shapes (outbound) ----------------------------------------------

const targetOrigin = "https://203.0.113.7" // public documentation address: passes the default egress policy without DNS

// urlPaths: what is written after the origin in `deliver "<url>"`, and the
// escaped path a receiver has to see in the request line (hand-written).
var urlPaths = []struct{ Raw, Wire string }{
	{"", "/"},
	{"/", "/"},
	{"/a b", "/a%20b"},
	{"/a%20b", "/a%20b"},
	{"/a%2Fb", "/a%2Fb"},
	{"/ä", "/%C3%A4"},
	{"/p/q?x=1&y=%2F", "/p/q"},
	{"?q=1", "/"},
}

// methods the Deliverer API takes; "" is what stands for the default (POST,
// the only method the push dispatcher itself uses).
var methods = []string{"", "POST", "PUT"}

var bodies = [][]byte{nil, []byte(`{"hello":"world"}`), {0x00, 0x01, 0xff, '\n', 0x00, '{', '}'}}

type headerNames struct{ Sig, Ts string }

// route 0 uses the documented default header names, route 1 custom ones
// (configured in lower/mixed case; HTTP header names are case-insensitive).
var outRoutes = []struct {
	Route    string
	CfgSig   string
	CfgTs    string
	Expected headerNames
}{
	{"/out/std", "", "", headerNames{"X-Hookaido-Signature", "X-Hookaido-Timestamp"}},
	{"/out/custom", "x-c17-sig", "X-C17-Time", headerNames{"X-C17-Sig", "X-C17-Time"}},
}

type shape struct {
	Route  int `json:"route"`
	Path   int `json:"path"`
	Method int `json:"method"`
	Body   int `json:"body"`
	PreHdr int `json:"prehdr"` // 1: the delivery already carries (bogus) headers of the signing names
}

func fullShapes() []shape {
	var out []shape
	for r := range outRoutes {
		for p := range urlPaths {
			for m := range methods {
				for b := range bodies {
					for h := 0; h < 2; h++ {
						out = append(out, shape{r, p, m, b, h})
					}
				}
			}
		}
	}
	return out
}

// slimShapes: every route x path with one method/body/pre-header combination (a subset of fullShapes).
func slimShapes() []shape {
	var out []shape
	for r := range outRoutes {
		for p := range urlPaths {
			out = append(out, shape{r, p, 1, 2, r})
		}
	}
	return out
}
