package c17

// TestRace: free-running -race side pass (bin/check builds it with -race in both
// tiers and reports a printed DATA RACE as a violation, key data-race). The
// deciding enumeration presents requests one after another; state that routes /
// targets / requests share without synchronisation (a memoised selection, a
// scratch buffer reused by the per-route selectors, an in-place sort) is
// invisible to it when every single answer still comes out right. Here the same
// bodies run as plain goroutines: signed requests to three HMAC routes with
// different secret lists, Deliver calls for three targets with different lists
// on the one HTTPDeliverer, and reloads that reorder the routes, all at once.
//
// The verifier's clock is the real one here, so the windows are years away from
// it: k1 expired in 2001, k2 valid since 2001 without end, k3 valid from 2999.
// No verdict depends on when the pass runs; the assertions are the reference of
// the deciding part (own + valid -> accepted, anything else -> rejected).

import (
	"context"
	"fmt"
	"net/http"
	"net/http/httptest"
	"os"
	"strings"
	"sync"
	"testing"
	"time"

	"github.com/nuetzliches/hookaido/internal/dispatcher"
)

var raceFrom = []string{"2000-01-01T00:00:00Z", "2001-01-01T00:00:00Z", "2999-01-01T00:00:00Z"}
var raceUntil = []string{"2001-01-01T00:00:00Z", "", ""}

// raceValid: k2 (index 1) is the only version valid at any time this pass can run.
func raceValid(v int) bool { return v == 1 }

func raceDSL(listen string, order []int) string {
	var b strings.Builder
	b.WriteString(listen)
	b.WriteString("secrets {\n")
	for i := range ids {
		fmt.Fprintf(&b, "  secret %q {\n    value %q\n    valid_from %q\n", ids[i], "raw:"+secretValues[i], raceFrom[i])
		if raceUntil[i] != "" {
			fmt.Fprintf(&b, "    valid_until %q\n", raceUntil[i])
		}
		b.WriteString("  }\n")
	}
	b.WriteString("}\n")
	routes := raceRoutes()
	for _, ri := range order {
		rt := routes[ri]
		nm := mNames[rt.Name]
		fmt.Fprintf(&b, "%s {\n", nm.Route)
		for _, x := range rt.Refs {
			fmt.Fprintf(&b, "  auth hmac secret_ref %q\n", ids[x])
		}
		if rt.Inline {
			fmt.Fprintf(&b, "  auth hmac %q\n", "raw:"+nm.Inline)
		}
		fmt.Fprintf(&b, "  pull { path %s }\n}\n", nm.Pull)
	}
	return b.String()
}

// the three routes: a lists k1,k2; b lists k3,k2,k1 and its inline secret; c lists k3 and k1 (nothing of it is valid now)
func raceRoutes() []mRoute {
	return []mRoute{{Name: 0, Refs: []int{0, 1}}, {Name: 1, Refs: []int{2, 1, 0}, Inline: true}, {Name: 2, Refs: []int{2, 0}}}
}

func raceRequest(rt mRoute, signer int, nonce string) *http.Request {
	nm := mNames[rt.Name]
	unix := time.Now().Unix()
	body := "race-body"
	sig := refInboundSig([]byte(mSignerSecret(signer)), unix, "POST", nm.Route, []byte(body))
	req := httptest.NewRequest("POST", nm.Route, strings.NewReader(body))
	// this pass writes the default header names for all three routes (lines form)
	req.Header.Set("X-Timestamp", fmt.Sprint(unix))
	req.Header.Set("X-Signature", sig)
	req.Header.Set("X-Nonce", nonce)
	req.RemoteAddr = "198.51.100.9:40004"
	return req
}

func TestRace(t *testing.T) {
	if os.Getenv("VERIF_RACE") == "" {
		t.Skip("race pass only")
	}
	const rounds = 40
	routes := raceRoutes()
	for it := 0; it < rounds; it++ {
		// inbound: three routes, two goroutines each, reloads reordering the routes in between
		listen := listenBlock()
		a, err := bootRaw(raceDSL(listen, []int{0, 1, 2}), recheckWorker+10)
		if err != nil {
			t.Fatal(err)
		}
		var wg sync.WaitGroup
		for ri := range routes {
			for g := 0; g < 2; g++ {
				wg.Add(1)
				go func(ri, g int) {
					defer wg.Done()
					rt := routes[ri]
					for n := 0; n < 40; n++ {
						signer := n % mSigners
						rec := httptest.NewRecorder()
						a.Ingress.ServeHTTP(rec, raceRequest(rt, signer, fmt.Sprintf("r%d-%d-%d-%d", it, ri, g, n)))
						want := false
						switch {
						case signer < mPoolSize:
							want = member(rt.Refs, signer) && raceValid(signer)
						case signer < 2*mPoolSize:
							want = rt.Inline && rt.Name == signer-mPoolSize
						}
						if (rec.Code == 202) != want || (rec.Code != 202 && rec.Code != 401) {
							t.Errorf("route %s signer %s: status %d, own lines say accept=%v", mNames[rt.Name].Route, mSignerName(signer), rec.Code, want)
						}
					}
				}(ri, g)
			}
		}
		wg.Add(1)
		go func() {
			defer wg.Done()
			for n := 0; n < 4; n++ {
				order := []int{2, 1, 0}
				if n%2 == 1 {
					order = []int{1, 2, 0}
				}
				if err := os.WriteFile(a.ConfigPath, []byte(raceDSL(listen, order)), 0o644); err != nil {
					t.Error(err)
					return
				}
				if !a.Reload("c17-race") {
					t.Errorf("reload not applied")
				}
			}
		}()
		wg.Wait()
		a.Shutdown()

		// outbound: three targets with different lists on one deliverer, real clock
		cfg := oConfig{Pool: 0, Groups: [][]oTarget{{{Refs: []int{0, 1}, Sel: "newest_valid"}, {Refs: []int{2, 1, 0}, Sel: "oldest_valid"}}, {{Refs: []int{2, 0}, Sel: "newest_valid"}}}}
		dsl := oDSL(cfg, recheckWorker+10)
		// replace the lattice windows of the secrets block by the far-away ones
		dsl = dsl[strings.Index(dsl, "/mo/r0"):]
		dsl = raceDSL(listenBlock(), nil) + dsl
		env, err := bootOutText(dsl, recheckWorker+10, false)
		if err != nil {
			t.Fatal(err)
		}
		ts, group := cfg.flat()
		type out struct {
			j    int
			seen seen
		}
		var outs []out
		for j := range ts {
			for g := 0; g < 2; g++ {
				wg.Add(1)
				go func(j int) {
					defer wg.Done()
					tgt, err := env.target(oRoute(group[j]), oURL(j))
					if err != nil {
						t.Error(err)
						return
					}
					for n := 0; n < 20; n++ {
						hdr := http.Header{}
						hdr.Set("Content-Type", "text/plain")
						_ = env.deliv.Deliver(context.Background(), dispatcher.Delivery{ID: "m1", Target: tgt.URL, Method: "POST", URL: tgt.URL, Header: hdr, Body: []byte("race"), Sign: tgt.SignHMAC})
					}
				}(j)
			}
		}
		wg.Wait()
		for _, s := range env.rec.take() {
			var j int
			if _, err := fmt.Sscanf(s.path(), "/mt/%d", &j); err != nil || j < 0 || j >= len(ts) {
				t.Errorf("unexpected push %q", s.Target)
				continue
			}
			outs = append(outs, out{j, s})
		}
		env.close()
		perTarget := map[int]int{}
		for _, o := range outs {
			perTarget[o.j]++
			names := oNames(o.j)
			unix := o.seen.Header.Get(names.Ts)
			var u int64
			fmt.Sscan(unix, &u)
			// k2 is the only valid version; a target that lists it must sign with it
			if want := refOutboundSig([]byte(secretValues[1]), o.seen.Method, o.seen.path(), u, o.seen.Body); o.seen.Header.Get(names.Sig) != want {
				t.Errorf("target %d: signature is not the one of k2 (the only valid version of its list)", o.j)
			}
		}
		for j := range ts {
			want := 0
			if member(ts[j].Refs, 1) {
				want = 40
			}
			if perTarget[j] != want {
				t.Errorf("target %d (lists %v): %d push requests, want %d", j, ts[j].Refs, perTarget[j], want)
			}
		}
	}
}
