package c17

// End-to-end part: ingress -> queue -> the running PushDispatcher ->
// HTTPDeliverer with its default clock (time.Now, virtual inside the bubble) ->
// recording transport. It shows that a push request of the dispatcher itself
// (not only a direct Deliver call) is signed under the configuration.

import (
	"bufio"
	"fmt"
	"net/http"
	"net/http/httptest"
	"strings"
	"testing"
	"testing/synctest"
	"time"
)

type e2eObs struct {
	Clock instant
	Var   int // variant index
	Route int // header-name scheme (index into outRoutes)
	Got   []seen
}

func e2eRequest(vi, route int, ci int) (*http.Request, error) {
	body := fmt.Sprintf("%s|%d|\x00payload", routeOf(vi, route), ci)
	// the inbound request already carries headers with the signing names: they are forwarded with the
	// message and must not survive as the signature of the push request
	raw := fmt.Sprintf("POST %s HTTP/1.1\r\nHost: hooks.test\r\nContent-Type: text/plain\r\n%s: 00bogus\r\n%s: 12345\r\nContent-Length: %d\r\n\r\n%s",
		routeOf(vi, route), outRoutes[route].Expected.Sig, outRoutes[route].Expected.Ts, len(body), body)
	req, err := http.ReadRequest(bufio.NewReader(strings.NewReader(raw)))
	if err != nil {
		return nil, err
	}
	req.RemoteAddr = "198.51.100.9:40001"
	return req, nil
}

// runE2E: one bubble per configuration; at every clock instant (ascending) one
// message per route is accepted by the ingress and the dispatcher pushes it to
// the 8 targets of that route at that very (virtual) instant.
func runE2E(t *testing.T, windows []win, worker int, vars []variant, clocks []instant) (obs []e2eObs, infra error) {
	synctest.Test(t, func(t *testing.T) {
		env, err := bootOut(windows, -1, worker, vars, false)
		if err != nil {
			infra = fmt.Errorf("boot: %v", err)
			return
		}
		defer env.close()
		env.pd.Start()
		defer env.pd.Drain(10 * time.Second)
		for ci, clk := range clocks {
			if d := time.Until(clk.At); d > 0 {
				time.Sleep(d)
			}
			synctest.Wait()
			if !time.Now().Equal(clk.At) {
				infra = fmt.Errorf("virtual clock is %s, want %s", time.Now(), clk.At)
				return
			}
			if stale := env.rec.take(); len(stale) > 0 {
				infra = fmt.Errorf("%d pushes between the instants (retry configured 1h)", len(stale))
				return
			}
			for vi := range vars {
				for r := range outRoutes {
					req, err := e2eRequest(vi, r, ci)
					if err != nil {
						infra = err
						return
					}
					rec := httptest.NewRecorder()
					env.app.Ingress.ServeHTTP(rec, req)
					if rec.Code != http.StatusAccepted {
						infra = fmt.Errorf("ingress answered %d for %s", rec.Code, routeOf(vi, r))
						return
					}
					synctest.Wait() // dispatcher has pushed to all targets and is idle again
					got := env.rec.take()
					for _, g := range got {
						if !g.At.Equal(clk.At) {
							infra = fmt.Errorf("push observed at %s, clock %s", g.At, clk.At)
							return
						}
					}
					obs = append(obs, e2eObs{Clock: clk, Var: vi, Route: r, Got: got})
				}
			}
		}
	})
	return obs, infra
}

// judgeE2E: without a selectable version no push request may be observed; with
// one, every observed push request has to be correctly signed (and all targets
// of the route by the same version). That all 8 targets were actually reached
// is a vacuity guard of the harness (missing > 0 is reported as an
// infrastructure error by the caller), not part of the property.
func judgeE2E(spec outSpec, o e2eObs) (pick int, tie string, missing int, fl *failure) {
	names := outRoutes[o.Route].Expected
	group := refGroup(spec.Windows, spec.Sel, o.Clock.At.UnixNano())
	if len(group) == 0 {
		if len(o.Got) == 0 {
			return pickNone, noTie, 0, nil
		}
		_, _, fl = judge(spec, o.Clock.At, names, o.Got[:1]) // any request is a failure
		if fl != nil {
			fl.Key = "e2e:" + fl.Key
		}
		return pickFailed, noTie, 0, fl
	}
	missing = len(urlPaths) - len(o.Got)
	want := routeOf(o.Var, o.Route) + "|"
	pick = pickFailed
	for _, g := range o.Got {
		if !strings.HasPrefix(string(g.Body), want) {
			return pickFailed, noTie, missing, &failure{"e2e:foreign-message", fmt.Sprintf("body %q on route %s", g.Body, routeOf(o.Var, o.Route))}
		}
		p, tdir, f := judge(spec, o.Clock.At, names, []seen{g})
		if f != nil {
			f.Key = "e2e:" + f.Key
			return pickFailed, tdir, missing, f
		}
		if pick != pickFailed && p != pick {
			return pickFailed, tdir, missing, &failure{"e2e:targets-signed-with-different-versions", fmt.Sprintf("%s and %s at the same instant; %s clock=%s", ids[pick], ids[p], spec, o.Clock.Label)}
		}
		pick, tie = p, tdir
	}
	return pick, tie, missing, nil
}
