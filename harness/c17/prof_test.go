package c17

import (
	"os"
	"runtime/pprof"
)

func startProf() func() {
	p := os.Getenv("C17_PROF")
	if p == "" {
		return func() {}
	}
	f, _ := os.Create(p)
	pprof.StartCPUProfile(f)
	return func() { pprof.StopCPUProfile(); f.Close() }
}
