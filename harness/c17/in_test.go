package c17

// Inbound part: the ingress handler as wired by startServers (app.VerifBoot),
// routes authenticated with `auth hmac secret_ref ...`; the verifier's clock is
// time.Now, so every secret set runs in its own synctest bubble.

import (
	"bufio"
	"fmt"
	"net/http"
	"net/http/httptest"
	"strings"
	"testing"
	"testing/synctest"
	"time"

	"github.com/nuetzliches/hookaido/internal/app"
	"github.com/nuetzliches/hookaido/internal/queue"
	"github.com/nuetzliches/hookaido/internal/verifkit/runner"
)

const (
	inlineSecret  = "inline-secret-without-window"
	unknownSecret = "a-secret-that-is-not-configured"
)

// inRoutes: 0 = shorthand form with default header names, 1 = block form with
// custom header names and an additional inline (window-less) secret.
var inRoutes = []struct {
	Route, Sig, Ts, Nonce string
	Inline                bool
}{
	{"/in/std", "X-Signature", "X-Timestamp", "X-Nonce", false},
	{"/in/custom", "X-C17-Sig", "X-C17-Ts", "X-C17-Nonce", true},
}

func inDSL(windows []win, worker int) string {
	var b strings.Builder
	b.WriteString(listenBlock())
	b.WriteString(secretsBlock(windows, -1, worker))
	b.WriteString("/in/std {\n")
	for i := range windows {
		fmt.Fprintf(&b, "  auth hmac secret_ref %q\n", ids[i])
	}
	b.WriteString("  pull { path /e/std }\n}\n")
	b.WriteString("/in/custom {\n  auth hmac {\n")
	for i := len(windows) - 1; i >= 0; i-- {
		fmt.Fprintf(&b, "    secret_ref %q\n", ids[i])
	}
	fmt.Fprintf(&b, "    secret %q\n    signature_header \"x-c17-sig\"\n    timestamp_header \"X-C17-Ts\"\n    nonce_header \"X-C17-Nonce\"\n  }\n", "raw:"+inlineSecret)
	b.WriteString("  pull { path /e/custom }\n}\n")
	return b.String()
}

// inCase: a request signed with `Signer` for signed timestamp Ts, presented when the clock shows Clock.
type inCase struct {
	Route  int `json:"route"`
	Clock  int `json:"clock"`  // index into secondInstants()
	Ts     int `json:"ts"`     // index into secondInstants()
	Signer int `json:"signer"` // version index; -1 inline secret; -2 a secret that is not configured
}

func (c inCase) signerName() string {
	switch c.Signer {
	case -1:
		return "inline"
	case -2:
		return "unknown"
	}
	return ids[c.Signer]
}

var inBodies = [][]byte{[]byte(`{"n":1}`), {}, {0x00, 0xfe, 'x'}}

// refInboundAccept: accepted iff the signing secret is valid at the signed
// timestamp (inline secrets have no window; an unconfigured secret is never valid).
func refInboundAccept(windows []win, c inCase, insts []instant) bool {
	switch c.Signer {
	case -2:
		return false
	case -1:
		return inRoutes[c.Route].Inline
	}
	return refValid(windows[c.Signer], insts[c.Ts].At.UnixNano())
}

func inRequest(c inCase, insts []instant, seq int) (*http.Request, error) {
	rt := inRoutes[c.Route]
	var secret string
	switch c.Signer {
	case -1:
		secret = inlineSecret
	case -2:
		secret = unknownSecret
	default:
		secret = secretValues[c.Signer]
	}
	body := inBodies[seq%len(inBodies)]
	unix := insts[c.Ts].At.Unix()
	sig := refInboundSig([]byte(secret), unix, "POST", rt.Route, body)
	raw := fmt.Sprintf("POST %s HTTP/1.1\r\nHost: hooks.test\r\nContent-Type: application/octet-stream\r\n%s: %d\r\n%s: %s\r\n%s: n-%d\r\nContent-Length: %d\r\n\r\n%s",
		rt.Route, rt.Ts, unix, rt.Sig, sig, rt.Nonce, seq, len(body), body)
	req, err := http.ReadRequest(bufio.NewReader(strings.NewReader(raw)))
	if err != nil {
		return nil, err
	}
	req.RemoteAddr = "198.51.100.9:40000"
	return req, nil
}

type inResult struct {
	Case   inCase
	Status int
	Want   bool
}

// runInboundSet boots the app for one secret set inside a bubble and presents
// `cases` (must be ordered by ascending Clock). Returns status per case.
func runInboundSet(t *testing.T, windows []win, worker int, cases []inCase) (res []inResult, infra error) {
	insts := secondInstants()
	synctest.Test(t, func(t *testing.T) {
		a, err := app.VerifBoot(app.VerifBootOptions{Dir: fmt.Sprintf("%s/w%d", runner.Scratch(), worker), ConfigText: inDSL(windows, worker), Store: queue.NewMemoryStore()})
		if err != nil {
			infra = fmt.Errorf("boot %s: %v", pattern(windows), err)
			return
		}
		defer a.Shutdown()
		if a.Ingress == nil {
			infra = fmt.Errorf("no ingress handler")
			return
		}
		for seq, c := range cases {
			at := insts[c.Clock].At
			if d := time.Until(at); d > 0 {
				time.Sleep(d)
			} else if d < 0 {
				infra = fmt.Errorf("cases not ordered by clock")
				return
			}
			if !time.Now().Equal(at) {
				infra = fmt.Errorf("virtual clock is %s, want %s", time.Now(), at)
				return
			}
			req, err := inRequest(c, insts, seq)
			if err != nil {
				infra = err
				return
			}
			rec := httptest.NewRecorder()
			a.Ingress.ServeHTTP(rec, req)
			res = append(res, inResult{Case: c, Status: rec.Code, Want: refInboundAccept(windows, c, insts)})
		}
	})
	return res, infra
}

// inboundCases: clock x signed timestamp x route x signer, ordered by clock.
// skew=false keeps only clock == signed timestamp.
func inboundCases(n int, skew bool) []inCase {
	insts := secondInstants()
	var out []inCase
	for ci := range insts {
		for ti := range insts {
			if !skew && ci != ti {
				continue
			}
			for r := range inRoutes {
				for s := -2; s < n; s++ {
					if s == -1 && !inRoutes[r].Inline {
						continue
					}
					out = append(out, inCase{Route: r, Clock: ci, Ts: ti, Signer: s})
				}
			}
		}
	}
	return out
}

// inFailure classifies an inbound mismatch (the caller has made sure the status is 202 or 401).
func inFailure(windows []win, r inResult, insts []instant) *failure {
	c := r.Case
	accepted := r.Status == http.StatusAccepted
	ctx := fmt.Sprintf("set %s route %s signer %s signed-ts %s clock %s status %d", pattern(windows), inRoutes[c.Route].Route, c.signerName(), insts[c.Ts].Label, insts[c.Clock].Label, r.Status)
	if accepted == r.Want {
		return nil
	}
	rel := "clock=ts"
	if c.Clock != c.Ts {
		rel = "clock!=ts"
	}
	if accepted {
		switch {
		case c.Signer == -2:
			return &failure{"in:accepted-unconfigured-secret", ctx}
		case insts[c.Ts].At.UnixNano() < lat(windows[c.Signer].From).UnixNano():
			return &failure{"in:accepted-not-yet-valid-secret:" + rel + ":ts@from" + relOff(insts[c.Ts], windows[c.Signer].From), ctx}
		default:
			return &failure{"in:accepted-expired-secret:" + rel + ":ts@until" + relOff(insts[c.Ts], windows[c.Signer].Until), ctx}
		}
	}
	if c.Signer == -1 {
		return &failure{"in:rejected-inline-secret:" + rel, ctx}
	}
	return &failure{"in:rejected-valid-secret:" + rel, ctx}
}

// relOff names the offset of an instant to lattice point i when it is within 1 s of it ("" otherwise).
func relOff(x instant, i int) string {
	if i < 0 {
		return ""
	}
	d := x.At.Sub(lat(i))
	switch d {
	case -time.Second:
		return "-1s"
	case 0:
		return "+0"
	case time.Second:
		return "+1s"
	}
	return ""
}
