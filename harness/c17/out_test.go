package c17

// Outbound part: the real dispatcher.HTTPDeliverer, with the signing
// configuration that the production mapping (config.Parse/Compile ->
// buildDispatchRoutes, via app.VerifBoot + VerifDispatcher) derives from DSL text.

import (
	"bufio"
	"bytes"
	"context"
	"encoding/hex"
	"fmt"
	"io"
	"net/http"
	"os"
	"strconv"
	"strings"
	"sync"
	"sync/atomic"
	"time"

	"github.com/nuetzliches/hookaido/internal/app"
	"github.com/nuetzliches/hookaido/internal/dispatcher"
	"github.com/nuetzliches/hookaido/internal/queue"
	"github.com/nuetzliches/hookaido/internal/verifkit/runner"
)

// outSpec is one signing configuration.
type outSpec struct {
	Windows []win  `json:"windows"` // version i has id ids[i]
	Order   []int  `json:"order"`   // order of the `sign hmac secret_ref` lines
	Sel     string `json:"sel"`     // "default" (no secret_selection line) | "newest_valid" | "oldest_valid"
	Unload  int    `json:"unload"`  // -1, or the version whose value ref can be loaded at boot but no longer at signing time
}

func (s outSpec) String() string {
	return fmt.Sprintf("windows=%s order=%v sel=%s unload=%d", pattern(s.Windows), s.Order, s.Sel, s.Unload)
}

// variant: what may differ between the routes of one booted configuration
// (the secrets block — windows, loadability — is shared).
type variant struct {
	Sel   string `json:"sel"`
	Order []int  `json:"order"`
}

// allVariants: selection {absent, newest_valid, oldest_valid} x every order of the secret_ref lines; selection-major.
func allVariants(n int) []variant {
	var out []variant
	for _, sel := range selections {
		for _, p := range permutations(n) {
			out = append(out, variant{sel, p})
		}
	}
	return out
}

// bootSeq makes the (in-memory, placeholder) listen addresses of every boot of
// this process unique, so that no boot can collide with a listener of an
// earlier one that net/http closes asynchronously.
var bootSeq atomic.Int64

func listenBlock() string {
	n := bootSeq.Add(1)
	host := fmt.Sprintf("127.%d.%d.%d", (n>>16)&255, (n>>8)&255, n&255)
	return fmt.Sprintf("ingress   { listen \"%s:18080\" }\npull_api  { listen \"%s:19443\"  auth token \"raw:g1\" }\nadmin_api { listen \"%s:12019\" }\n", host, host, host)
}

func envName(worker, version int) string { return fmt.Sprintf("C17_W%d_K%d", worker, version+1) }

func envValue(version int) string { return "env-" + secretValues[version] }

// secretsBlock renders the `secrets` block; version `unload` (if >= 0) takes its value from an environment variable.
func secretsBlock(windows []win, unload, worker int) string {
	var b strings.Builder
	b.WriteString("secrets {\n")
	for i, w := range windows {
		val := "raw:" + secretValues[i]
		if i == unload {
			val = "env:" + envName(worker, i)
		}
		fmt.Fprintf(&b, "  secret %q {\n    value %q\n    valid_from %q\n", ids[i], val, stamp(lat(w.From), i))
		if w.Until >= 0 {
			fmt.Fprintf(&b, "    valid_until %q\n", stamp(lat(w.Until), i))
		}
		b.WriteString("  }\n")
	}
	b.WriteString("}\n")
	return b.String()
}

const (
	directSecret  = "direct-inline-secret"
	neverSetEnv   = "C17_NEVER_SET_VARIABLE"
	retryLongLine = "    retry exponential max 1 base 1h cap 1h jitter 0\n"
)

// routeOf: the route that carries variant vi with header-name scheme h (index into outRoutes).
func routeOf(vi, h int) string { return fmt.Sprintf("/o/v%d%s", vi, outRoutes[h].Route) }

func outDSL(windows []win, unload, worker int, vars []variant) string {
	var b strings.Builder
	b.WriteString(listenBlock())
	b.WriteString(secretsBlock(windows, unload, worker))
	for vi, v := range vars {
		for h, rt := range outRoutes {
			fmt.Fprintf(&b, "%s {\n  deliver_concurrency 1\n", routeOf(vi, h))
			for _, p := range urlPaths {
				fmt.Fprintf(&b, "  deliver %q {\n", targetOrigin+p.Raw)
				b.WriteString(retryLongLine)
				for _, x := range v.Order {
					fmt.Fprintf(&b, "    sign hmac secret_ref %q\n", ids[x])
				}
				if v.Sel != modeDefault {
					fmt.Fprintf(&b, "    sign secret_selection %s\n", v.Sel)
				}
				if rt.CfgSig != "" {
					fmt.Fprintf(&b, "    sign signature_header %q\n    sign timestamp_header %q\n", rt.CfgSig, rt.CfgTs)
				}
				b.WriteString("  }\n")
			}
			b.WriteString("}\n")
		}
	}
	// fixed targets: unsigned control, a direct (window-less) secret, a direct secret that cannot be loaded
	fmt.Fprintf(&b, "/out/plain {\n  deliver %q {\n%s  }\n}\n", targetOrigin+"/control", retryLongLine)
	fmt.Fprintf(&b, "/out/direct {\n  deliver %q {\n%s    sign hmac %q\n  }\n}\n", targetOrigin+"/direct%2Fx", retryLongLine, "raw:"+directSecret)
	fmt.Fprintf(&b, "/out/unset {\n  deliver %q {\n%s    sign hmac %q\n  }\n}\n", targetOrigin+"/unset", retryLongLine, "env:"+neverSetEnv)
	return b.String()
}

// ---- recording transport ----------------------------------------------------

// seen is one request as the push target receives it: the request is
// serialised to its HTTP/1.1 wire form and read back, so path, headers and body
// are the transmitted ones, not fields of the sender's *http.Request.
type seen struct {
	Method string
	Target string // request-target of the request line
	Header http.Header
	Body   []byte
	At     time.Time
}

func (s seen) path() string {
	if i := strings.IndexByte(s.Target, '?'); i >= 0 {
		return s.Target[:i]
	}
	return s.Target
}

type recorder struct {
	mu   sync.Mutex
	got  []seen
	errs []string
	buf  bytes.Buffer
	rd   *bufio.Reader
}

func (rc *recorder) RoundTrip(req *http.Request) (*http.Response, error) {
	rc.mu.Lock()
	defer rc.mu.Unlock()
	rc.buf.Reset()
	s := seen{At: time.Now()}
	if err := req.Write(&rc.buf); err != nil {
		rc.errs = append(rc.errs, "serialise: "+err.Error())
	} else {
		if rc.rd == nil {
			rc.rd = bufio.NewReader(&rc.buf)
		} else {
			rc.rd.Reset(&rc.buf)
		}
		if rr, err := http.ReadRequest(rc.rd); err != nil {
			rc.errs = append(rc.errs, "read back: "+err.Error())
		} else {
			body, _ := io.ReadAll(rr.Body)
			s.Method, s.Target, s.Header, s.Body = rr.Method, rr.RequestURI, rr.Header, body
		}
	}
	rc.got = append(rc.got, s)
	return &http.Response{StatusCode: 200, Status: "200 OK", Proto: "HTTP/1.1", ProtoMajor: 1, ProtoMinor: 1,
		Header: http.Header{}, Body: http.NoBody, Request: req}, nil
}

func (rc *recorder) take() []seen {
	rc.mu.Lock()
	defer rc.mu.Unlock()
	g := rc.got
	rc.got = nil
	return g
}

func (rc *recorder) problems() []string {
	rc.mu.Lock()
	defer rc.mu.Unlock()
	return append([]string(nil), rc.errs...)
}

// ---- environment of one booted configuration --------------------------------

type outEnv struct {
	windows []win
	unload  int
	vars    []variant
	dsl     string
	app     *app.VerifApp
	pd      *dispatcher.PushDispatcher
	deliv   *dispatcher.HTTPDeliverer
	rec     *recorder
	now     time.Time
	targets map[string]map[string]dispatcher.TargetConfig // route -> url -> target

	routeNames [][]string // [variant][header scheme]
}

var targetURLs = func() []string {
	out := make([]string, len(urlPaths))
	for i, p := range urlPaths {
		out[i] = targetOrigin + p.Raw
	}
	return out
}()

func (e *outEnv) spec(vi int) outSpec {
	return outSpec{Windows: e.windows, Order: e.vars[vi].Order, Sel: e.vars[vi].Sel, Unload: e.unload}
}

// bootOut boots the application with the configuration and builds the
// dispatcher as run() does. useNowSeam: drive the deliverer's clock through
// its exported Now field (otherwise it stays time.Now).
func bootOut(windows []win, unload, worker int, vars []variant, useNowSeam bool) (*outEnv, error) {
	e := &outEnv{windows: windows, unload: unload, vars: vars, dsl: outDSL(windows, unload, worker, vars), rec: &recorder{}}
	if unload >= 0 {
		os.Setenv(envName(worker, unload), envValue(unload))
	}
	a, err := bootRaw(e.dsl, worker)
	if unload >= 0 {
		os.Unsetenv(envName(worker, unload)) // from here on the ref cannot be loaded
	}
	if err != nil {
		return nil, err
	}
	e.app = a
	e.pd = a.VerifDispatcher(&http.Client{Transport: e.rec})
	hd, ok := e.pd.Deliverer.(*dispatcher.HTTPDeliverer)
	if !ok {
		a.Shutdown()
		return nil, fmt.Errorf("dispatcher deliverer is %T", e.pd.Deliverer)
	}
	e.deliv = hd
	if useNowSeam {
		hd.Now = func() time.Time { return e.now }
	}
	for vi := range vars {
		var names []string
		for h := range outRoutes {
			names = append(names, routeOf(vi, h))
		}
		e.routeNames = append(e.routeNames, names)
	}
	e.targets = map[string]map[string]dispatcher.TargetConfig{}
	for _, rt := range e.pd.Routes {
		m := map[string]dispatcher.TargetConfig{}
		for _, t := range rt.Targets {
			m[t.URL] = t
		}
		e.targets[rt.Route] = m
	}
	return e, nil
}

// bootRaw boots a configuration text as it is (no environment preparation).
func bootRaw(dsl string, worker int) (*app.VerifApp, error) {
	return app.VerifBoot(app.VerifBootOptions{Dir: fmt.Sprintf("%s/w%d", runner.Scratch(), worker), ConfigText: dsl, Store: queue.NewMemoryStore()})
}

func (e *outEnv) close() {
	if e.app != nil {
		e.app.Shutdown()
	}
}

func (e *outEnv) target(route, url string) (dispatcher.TargetConfig, error) {
	t, ok := e.targets[route][url]
	if !ok {
		return t, fmt.Errorf("no dispatch target %s %s", route, url)
	}
	return t, nil
}

// ---- verdicts ---------------------------------------------------------------

type failure struct {
	Key string
	Msg string
}

const (
	pickNone    = -1 // nothing sent
	pickFailed  = -2
	tieMin      = "smallest-id"
	tieMax      = "largest-id"
	tieMiddle   = "middle-id"
	noTie       = ""
	modeDefault = "default"
)

func tieDirOf(group []int, pick int) string {
	if len(group) < 2 {
		return noTie
	}
	switch pick {
	case group[0]:
		return tieMin
	case group[len(group)-1]:
		return tieMax
	}
	return tieMiddle
}

func member(group []int, i int) bool {
	for _, g := range group {
		if g == i {
			return true
		}
	}
	return false
}

// judge compares what the target received with the reference for a delivery
// signed at `at` under spec s. names: the header names the configuration asks
// for. It returns the version that signed (or pickNone), the tie direction
// that pick implies (if the rule left a tie) and a failure, if any.
func judge(s outSpec, at time.Time, names headerNames, got []seen) (pick int, tie string, fl *failure) {
	atNs := at.UnixNano()
	group := refGroup(s.Windows, s.Sel, atNs)
	mustNotSend := len(group) == 0 || (len(group) == 1 && group[0] == s.Unload)
	ctx := func() string { return fmt.Sprintf("%s clock=%s", s, at.Format(time.RFC3339Nano)) }

	if len(got) == 0 {
		switch {
		case mustNotSend:
			return pickNone, noTie, nil
		case s.Unload >= 0 && member(group, s.Unload):
			// a tie whose winner cannot be loaded: not sending means the unloadable member was the pick
			d := tieDirOf(group, s.Unload)
			if d == tieMiddle {
				return pickFailed, d, &failure{"out:tie-not-by-id", "nothing sent, i.e. the pick among tied versions " + fmt.Sprint(group) + " was the unloadable one, which has neither the smallest nor the largest id; " + ctx()}
			}
			return pickNone, d, nil
		}
		return pickFailed, noTie, &failure{"out:not-sent-though-valid-version-exists", "no request reached the target although version(s) " + fmt.Sprint(group) + " are valid and loadable; " + ctx()}
	}
	if len(got) > 1 {
		return pickFailed, noTie, &failure{"out:sent-more-than-once", fmt.Sprintf("%d requests for one delivery; %s", len(got), ctx())}
	}
	g := got[0]
	if len(group) == 0 {
		return pickFailed, noTie, &failure{"out:sent-without-valid-version", "a request was sent although no version is valid at signing time; " + ctx()}
	}
	unix := unixFloor(atNs)
	if ts := g.Header.Get(names.Ts); ts != strconv.FormatInt(unix, 10) {
		return pickFailed, noTie, &failure{"out:timestamp-header", fmt.Sprintf("header %s = %q, want unix seconds of the signing time %d; %s", names.Ts, ts, unix, ctx())}
	}
	sig := g.Header.Get(names.Sig)
	msg := []byte(strings.ToUpper(g.Method) + "\n" + g.path() + "\n" + strconv.FormatInt(unix, 10) + "\n" + hexSHA256(g.Body))
	pick = pickFailed
	for i := range s.Windows {
		val := secretValues[i]
		if i == s.Unload {
			val = envValue(i)
		}
		if sig == hex.EncodeToString(refHMAC([]byte(val), msg)) {
			pick = i
		}
	}
	if pick == pickFailed {
		return pickFailed, noTie, &failure{"out:signature-matches-no-version:" + g.path(), fmt.Sprintf("header %s = %q is not the reference HMAC of (%s, %s, %d, sha256 of the %d body bytes sent) under any configured version; %s", names.Sig, sig, g.Method, g.path(), unix, len(g.Body), ctx())}
	}
	w := s.Windows[pick]
	switch {
	case atNs < lat(w.From).UnixNano():
		return pickFailed, noTie, &failure{"out:signed-with-not-yet-valid-version", fmt.Sprintf("signed with %s (%s) before its valid_from; %s", ids[pick], w, ctx())}
	case !refValid(w, atNs):
		return pickFailed, noTie, &failure{"out:signed-with-expired-version", fmt.Sprintf("signed with %s (%s) at or after its valid_until; %s", ids[pick], w, ctx())}
	case !member(group, pick):
		return pickFailed, noTie, &failure{"out:picked-against-rule:" + s.Sel, fmt.Sprintf("signed with %s (%s) but the rule selects among %v; %s", ids[pick], w, group, ctx())}
	}
	tie = tieDirOf(group, pick)
	if tie == tieMiddle {
		return pickFailed, tie, &failure{"out:tie-not-by-id", fmt.Sprintf("tie %v broken in favour of %s, neither smallest nor largest id; %s", group, ids[pick], ctx())}
	}
	// (a pick equal to s.Unload means the value read at boot was kept; the text does not forbid that)
	return pick, tie, nil
}

// deliver runs one Deliver call on target (route,url) with the clock at `at` and returns what the target saw.
func (e *outEnv) deliver(route, url string, sh shape, names headerNames, at time.Time) ([]seen, error) {
	tgt, err := e.target(route, url)
	if err != nil {
		return nil, err
	}
	e.now = at
	e.rec.take()
	hdr := http.Header{}
	hdr.Set("Content-Type", "application/octet-stream")
	if sh.PreHdr == 1 {
		hdr.Set(names.Sig, "00bogus")
		hdr.Set(names.Ts, "12345")
	}
	_ = e.deliv.Deliver(context.Background(), dispatcher.Delivery{ID: "m1", Target: tgt.URL, Method: methods[sh.Method],
		URL: tgt.URL, Header: hdr, Body: bodies[sh.Body], Sign: tgt.SignHMAC})
	return e.rec.take(), nil
}

// evalCase: one element of the outbound product (variant vi of the booted configuration).
func (e *outEnv) evalCase(vi int, sh shape, clk instant) (pick int, tie string, fl *failure, infra error) {
	rt := outRoutes[sh.Route]
	got, err := e.deliver(e.routeNames[vi][sh.Route], targetURLs[sh.Path], sh, rt.Expected, clk.At)
	if err != nil {
		return pickFailed, noTie, nil, err
	}
	if len(got) == 1 && got[0].path() != urlPaths[sh.Path].Wire {
		return pickFailed, noTie, nil, fmt.Errorf("net/http put %q on the wire for %q (%v), the hand-written table expects %q", got[0].Target, urlPaths[sh.Path].Raw, e.rec.problems(), urlPaths[sh.Path].Wire)
	}
	pick, tie, fl = judge(e.spec(vi), clk.At, rt.Expected, got)
	return pick, tie, fl, nil
}
