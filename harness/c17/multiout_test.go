package c17

// Multi-target outbound part: "number, grouping and order of signed targets"
// as a dimension. A configuration is a pool of three secret versions and an
// ordered list of 2..3 push targets, grouped into routes in every way; every
// target lists its OWN subset of the pool (`sign hmac secret_ref`, own listing
// order) and its own secret_selection and header names. The text goes through
// Parse -> Compile -> buildDispatchRoutes (app.VerifBoot + VerifDispatcher) and
// then (a) every target x clock instant is one Deliver call on the one
// HTTPDeliverer of the boot, (b) end to end: one message per route and instant
// through ingress -> queue -> running dispatcher. A push request for target X
// has to be signed by the version the rule picks among X's OWN versions valid
// at signing time, and must not be sent when none of X's own versions is valid —
// whatever the other targets of the configuration list.

import (
	"bufio"
	"encoding/hex"
	"fmt"
	"net/http"
	"net/http/httptest"
	"sort"
	"strconv"
	"strings"
	"testing"
	"testing/synctest"
	"time"

	"github.com/nuetzliches/hookaido/internal/dispatcher"
	"github.com/nuetzliches/hookaido/internal/verifkit/runner"
)

type oTarget struct {
	Refs []int  `json:"refs"` // pool versions in listing order
	Sel  string `json:"sel"`
}

type oConfig struct {
	Pool   int         `json:"pool"`
	Groups [][]oTarget `json:"groups"` // routes in configuration order, each with its targets in order
}

func (c oConfig) String() string {
	var gs []string
	for _, g := range c.Groups {
		var ts []string
		for _, t := range g {
			s := ""
			for _, x := range t.Refs {
				s += ids[x]
			}
			ts = append(ts, s+"/"+t.Sel)
		}
		gs = append(gs, "{"+strings.Join(ts, " ")+"}")
	}
	return mPools[c.Pool].Name + strings.Join(gs, "")
}

// flat: the targets in configuration order with the route (group) they belong to.
func (c oConfig) flat() (ts []oTarget, group []int) {
	for g, grp := range c.Groups {
		for _, t := range grp {
			ts = append(ts, t)
			group = append(group, g)
		}
	}
	return
}

func oRoute(g int) string { return fmt.Sprintf("/mo/r%d", g) }
func oURL(j int) string   { return fmt.Sprintf("%s/mt/%d", targetOrigin, j) }

// target j uses the custom header names iff j is odd
func oNames(j int) headerNames { return outRoutes[j%2].Expected }

func oDSL(cfg oConfig, worker int) string {
	var b strings.Builder
	b.WriteString(listenBlock())
	b.WriteString(secretsBlock(mPools[cfg.Pool].W, -1, worker))
	j := 0
	for g, grp := range cfg.Groups {
		fmt.Fprintf(&b, "%s {\n  deliver_concurrency 1\n", oRoute(g))
		for _, t := range grp {
			fmt.Fprintf(&b, "  deliver %q {\n%s", oURL(j), retryLongLine)
			for _, x := range t.Refs {
				fmt.Fprintf(&b, "    sign hmac secret_ref %q\n", ids[x])
			}
			if t.Sel != modeDefault {
				fmt.Fprintf(&b, "    sign secret_selection %s\n", t.Sel)
			}
			if rt := outRoutes[j%2]; rt.CfgSig != "" {
				fmt.Fprintf(&b, "    sign signature_header %q\n    sign timestamp_header %q\n", rt.CfgSig, rt.CfgTs)
			}
			b.WriteString("  }\n")
			j++
		}
		b.WriteString("}\n")
	}
	fmt.Fprintf(&b, "/out/plain {\n  deliver %q {\n%s  }\n}\n", targetOrigin+"/control", retryLongLine)
	return b.String()
}

// compositions of m targets into consecutive routes.
func compositions(m int) [][]int {
	var out [][]int
	for mask := 0; mask < 1<<(m-1); mask++ {
		var sizes []int
		cur := 1
		for i := 0; i < m-1; i++ {
			if mask&(1<<i) != 0 {
				sizes = append(sizes, cur)
				cur = 1
			} else {
				cur++
			}
		}
		out = append(out, append(sizes, cur))
	}
	return out
}

// selPattern: the selection mode of target j under pattern q. q = 0..2: the three
// modes rotate over the targets (all different); q = 3, 4: every target uses
// newest_valid / oldest_valid (same mode, different lists).
func selPattern(q, j int) string {
	switch q {
	case 3:
		return "newest_valid"
	case 4:
		return "oldest_valid"
	}
	return selections[(j+q)%len(selections)]
}

var allSelPatterns = []int{0, 1, 2, 3, 4}

// oConfigs: m targets, every assignment of one of `lists` to each target x every
// grouping into routes x selection pattern. parity: targets at odd positions
// list their refs in reverse order.
func oConfigs(pool, m int, lists [][]int, offs []int, parity bool) []oConfig {
	var out []oConfig
	idx := make([]int, m)
	for {
		for _, sizes := range compositions(m) {
			for _, off := range offs {
				cfg := oConfig{Pool: pool}
				j := 0
				for _, sz := range sizes {
					var grp []oTarget
					for k := 0; k < sz; k++ {
						refs := lists[idx[j]]
						if parity && j%2 == 1 {
							refs = reversed(refs)
						}
						grp = append(grp, oTarget{Refs: refs, Sel: selPattern(off, j)})
						j++
					}
					cfg.Groups = append(cfg.Groups, grp)
				}
				out = append(out, cfg)
			}
		}
		p := m - 1
		for ; p >= 0; p-- {
			idx[p]++
			if idx[p] < len(lists) {
				break
			}
			idx[p] = 0
		}
		if p < 0 {
			return out
		}
	}
}

func allLists() [][]int {
	var out [][]int
	for _, k := range mKinds(true) {
		if !k.Inline {
			out = append(out, k.Refs)
		}
	}
	return out
}

// bootOutText: bootOut for a given configuration text.
func bootOutText(dsl string, worker int, useNowSeam bool) (*outEnv, error) {
	e := &outEnv{unload: -1, dsl: dsl, rec: &recorder{}}
	a, err := bootRaw(dsl, worker)
	if err != nil {
		return nil, err
	}
	e.app = a
	e.pd = a.VerifDispatcher(&http.Client{Transport: e.rec})
	hd, ok := e.pd.Deliverer.(*dispatcher.HTTPDeliverer)
	if !ok {
		a.Shutdown()
		return nil, fmt.Errorf("dispatcher deliverer is %T", e.pd.Deliverer)
	}
	e.deliv = hd
	if useNowSeam {
		hd.Now = func() time.Time { return e.now }
	}
	e.targets = map[string]map[string]dispatcher.TargetConfig{}
	for _, rt := range e.pd.Routes {
		m := map[string]dispatcher.TargetConfig{}
		for _, t := range rt.Targets {
			m[t.URL] = t
		}
		e.targets[rt.Route] = m
	}
	return e, nil
}

// judgeOwn: judge what target j received for a delivery signed at `at` against
// the target's own lines. Returns the pool version that signed (or pickNone).
func judgeOwn(cfg oConfig, j int, at time.Time, got []seen) (pick int, tie string, fl *failure) {
	ts, _ := cfg.flat()
	tgt := ts[j]
	names := oNames(j)
	pool := mPools[cfg.Pool].W
	own := append([]int(nil), tgt.Refs...)
	sort.Ints(own) // ids ascending
	sub := make([]win, len(own))
	for i, x := range own {
		sub[i] = pool[x]
	}
	atNs := at.UnixNano()
	var group []int
	for _, g := range refGroup(sub, tgt.Sel, atNs) {
		group = append(group, own[g])
	}
	ctx := func() string {
		return fmt.Sprintf("configuration %s target %d (%s, lists %v, %s) clock=%s", cfg, j, oURL(j), tgt.Refs, tgt.Sel, at.Format(time.RFC3339Nano))
	}
	if len(got) == 0 {
		if len(group) == 0 {
			return pickNone, noTie, nil
		}
		return pickFailed, noTie, &failure{"out:multi:not-sent-though-own-valid-version-exists", "no request reached the target although its own version(s) " + fmt.Sprint(group) + " are valid; " + ctx()}
	}
	if len(got) > 1 {
		return pickFailed, noTie, &failure{"out:multi:sent-more-than-once", fmt.Sprintf("%d requests for one delivery; %s", len(got), ctx())}
	}
	g := got[0]
	unix := unixFloor(atNs)
	sig := g.Header.Get(names.Sig)
	msg := []byte(strings.ToUpper(g.Method) + "\n" + g.path() + "\n" + strconv.FormatInt(unix, 10) + "\n" + hexSHA256(g.Body))
	pick = pickFailed
	for i := range pool {
		if sig == hex.EncodeToString(refHMAC([]byte(secretValues[i]), msg)) {
			pick = i
		}
	}
	switch {
	case pick >= 0 && !member(tgt.Refs, pick):
		return pickFailed, noTie, &failure{"out:multi:signed-with-version-not-listed-on-target", fmt.Sprintf("signed with %s, which this target does not list; %s", ids[pick], ctx())}
	case len(group) == 0:
		return pickFailed, noTie, &failure{"out:multi:sent-without-own-valid-version", "a request was sent although none of the target's own versions is valid at signing time; " + ctx()}
	case g.Header.Get(names.Ts) != strconv.FormatInt(unix, 10):
		return pickFailed, noTie, &failure{"out:multi:timestamp-header", fmt.Sprintf("header %s = %q, want %d; %s", names.Ts, g.Header.Get(names.Ts), unix, ctx())}
	case pick == pickFailed:
		return pickFailed, noTie, &failure{"out:multi:signature-matches-no-version", fmt.Sprintf("header %s = %q is not the reference HMAC under any version of the pool; %s", names.Sig, sig, ctx())}
	case !refValid(pool[pick], atNs):
		return pickFailed, noTie, &failure{"out:multi:signed-with-invalid-own-version", fmt.Sprintf("signed with %s (%s), not valid at signing time; %s", ids[pick], pool[pick], ctx())}
	case !member(group, pick):
		return pickFailed, noTie, &failure{"out:multi:picked-against-rule:" + tgt.Sel, fmt.Sprintf("signed with %s but the rule selects among %v; %s", ids[pick], group, ctx())}
	}
	tie = tieDirOf(group, pick)
	if tie == tieMiddle {
		return pickFailed, tie, &failure{"out:multi:tie-not-by-id", fmt.Sprintf("tie %v broken in favour of %s; %s", group, ids[pick], ctx())}
	}
	return pick, tie, nil
}

// oShape: method/body/pre-existing headers vary with the target position.
func oShape(j int) shape { return shape{Method: 1 + j%2, Body: j % len(bodies), PreHdr: (j / 2) % 2} }

// runMultiOut: one boot; at every clock instant (ascending) one Deliver call
// per target in configuration order. fn gets every observation.
func runMultiOut(cfg oConfig, worker int, clocks []instant, fn func(ci, j int, got []seen)) error {
	env, err := bootOutText(oDSL(cfg, worker), worker, true)
	if err != nil {
		return fmt.Errorf("boot %s: %v", cfg, err)
	}
	defer env.close()
	if got, err := env.deliver("/out/plain", targetOrigin+"/control", shape{Method: 1, Body: 1}, outRoutes[0].Expected, clocks[0].At); err != nil || len(got) != 1 {
		return fmt.Errorf("unsigned control delivery not observed (%v, %d requests)", err, len(got))
	}
	ts, group := cfg.flat()
	for ci, clk := range clocks {
		for j := range ts {
			got, err := env.deliver(oRoute(group[j]), oURL(j), oShape(j), oNames(j), clk.At)
			if err != nil {
				return err
			}
			if len(got) == 1 && got[0].path() != fmt.Sprintf("/mt/%d", j) {
				return fmt.Errorf("request for %s arrived as %q", oURL(j), got[0].Target)
			}
			fn(ci, j, got)
		}
	}
	if p := env.rec.problems(); len(p) > 0 {
		return fmt.Errorf("recording transport: %v", p)
	}
	return nil
}

type oReplay struct {
	Config oConfig  `json:"config"`
	Clocks []string `json:"clocks"` // all targets at each of these instants, in order, on one boot; judged: Target at the last one
	Target int      `json:"target"`
	DSL    string   `json:"dsl"`
}

func oClocks(labels []string) ([]instant, error) {
	var out []instant
	for _, l := range labels {
		c, ok := clockByLabel(l)
		if !ok {
			return nil, fmt.Errorf("unknown clock %q", l)
		}
		out = append(out, c)
	}
	if len(out) == 0 {
		return nil, fmt.Errorf("no clock instants")
	}
	return out, nil
}

func runMultiOutReplay(t *testing.T, part string, d oReplay) (*failure, error) {
	recheckMu.Lock()
	defer recheckMu.Unlock()
	clocks, err := oClocks(d.Clocks)
	if err != nil {
		return nil, err
	}
	ts, _ := d.Config.flat()
	if d.Target < 0 || d.Target >= len(ts) || d.Config.Pool < 0 || d.Config.Pool >= len(mPools) {
		return nil, fmt.Errorf("bad target/pool")
	}
	var fl *failure
	seenIt := false
	if part == "multi-e2e" {
		obs, infra := runMultiE2E(t, d.Config, recheckWorker, clocks)
		if infra != nil {
			return nil, infra
		}
		for _, o := range obs {
			if o.Clock == len(clocks)-1 && o.Target == d.Target {
				_, _, fl = judgeOwn(d.Config, o.Target, clocks[o.Clock].At, o.Got)
				if fl != nil {
					fl.Key = "e2e:" + fl.Key
				}
				seenIt = true
			}
		}
	} else {
		err = runMultiOut(d.Config, recheckWorker, clocks, func(ci, j int, got []seen) {
			if ci == len(clocks)-1 && j == d.Target {
				_, _, fl = judgeOwn(d.Config, j, clocks[ci].At, got)
				seenIt = true
			}
		})
		if err != nil {
			return nil, err
		}
	}
	if !seenIt {
		return nil, fmt.Errorf("replay: case not observed")
	}
	return fl, nil
}

func oRepros(t *testing.T, part string, cfg oConfig, clocks []instant, ci, j int) []repro {
	var labels []string
	for _, c := range clocks[:ci+1] {
		labels = append(labels, c.Label)
	}
	mk := func(hist string, ls []string) repro {
		d := oReplay{Config: cfg, Clocks: ls, Target: j, DSL: oDSL(cfg, recheckWorker)}
		return repro{doc: replayDoc{Part: part, History: hist, MultiOut: &d}, run: func() (*failure, error) { return runMultiOutReplay(t, part, d) }}
	}
	return []repro{
		mk("none: all targets of the configuration at the one instant on a fresh boot", labels[ci:]),
		mk("exact enumeration prefix: all targets at every earlier clock instant on the same boot", labels),
	}
}

func oCount(r *runner.Run, cfg oConfig, j int, clk instant, pick int, prefix string) {
	ts, _ := cfg.flat()
	// would another target of the configuration have been answered differently? (non-vacuity of "own")
	differs := false
	for k := range ts {
		if k == j {
			continue
		}
		own, other := refGroupOf(cfg, j, clk.At.UnixNano()), refGroupOf(cfg, k, clk.At.UnixNano())
		if fmt.Sprint(own) != fmt.Sprint(other) {
			differs = true
		}
	}
	if differs {
		r.Add(prefix+"_cases_where_another_target_selects_differently", 1)
	}
	pos := "not-last"
	if j == len(ts)-1 {
		pos = "last"
	}
	r.Distinct(fmt.Sprintf("%s|%s|%s|%v|%s|%s|%s", prefix, mPools[cfg.Pool].Name, pos, ts[j].Refs, ts[j].Sel, clk.Label, pickName(pick)))
}

func refGroupOf(cfg oConfig, j int, atNs int64) []int {
	ts, _ := cfg.flat()
	own := append([]int(nil), ts[j].Refs...)
	sort.Ints(own)
	sub := make([]win, len(own))
	for i, x := range own {
		sub[i] = mPools[cfg.Pool].W[x]
	}
	var group []int
	for _, g := range refGroup(sub, ts[j].Sel, atNs) {
		group = append(group, own[g])
	}
	return group
}

// multiOutbound: the direct part.
//
//	quick:    pools adjacent+nested x {2,3} targets x the 7 subsets (ascending; odd positions descending) per target
//	          x every grouping into routes x 5 selection patterns
//	thorough: all 6 pools; additionally, for 2 targets, every listing order of every subset
func multiOutbound(t *testing.T, r *runner.Run, deadline time.Time, workers int, ties *tieBook) bool {
	pools := []int{0, 1}
	if r.Thorough() {
		pools = []int{0, 1, 2, 3, 4, 5}
	}
	var cfgs []oConfig
	for _, m := range []int{2, 3} {
		for _, p := range pools {
			cfgs = append(cfgs, oConfigs(p, m, mSubsets(), allSelPatterns, true)...)
		}
	}
	if r.Thorough() {
		for _, p := range pools {
			cfgs = append(cfgs, oConfigs(p, 2, allLists(), allSelPatterns, false)...)
		}
	}
	clocks := clockInstants()
	return forEach(len(cfgs), workers, deadline, func(worker, i int) {
		cfg := cfgs[i]
		var evals, sent, notSent int64
		err := runMultiOut(cfg, worker, clocks, func(ci, j int, got []seen) {
			evals++
			pick, tie, fl := judgeOwn(cfg, j, clocks[ci].At, got)
			if fl != nil {
				report(r, fl, func() []repro { return oRepros(t, "multi-out", cfg, clocks, ci, j) })
			}
			ts, _ := cfg.flat()
			if tie != noTie {
				ties.note(ts[j].Sel, tie, func() string { return fmt.Sprintf("multi-target %s target %d clock=%s", cfg, j, clocks[ci].Label) })
			}
			if pick >= 0 {
				sent++
			} else if pick == pickNone {
				notSent++
			}
			oCount(r, cfg, j, clocks[ci], pick, "mout")
			if len(ts) == 3 && len(cfg.Groups) == 2 && j == 0 {
				samples.keep("mout:"+strings.SplitN(pickName(pick), ":", 2)[0], i, func() any {
					return map[string]any{"part": "multi-target outbound", "configuration": cfg.String(), "target": oURL(j), "clock": clocks[ci].Label, "verdict": pickName(pick)}
				})
			}
		})
		if err != nil {
			infraOnce(r, "multi-out-run", "multi-target outbound: %v", err)
			return
		}
		r.Add("evaluations", evals)
		r.Add("mout_evaluations", evals)
		r.Add("mout_sent", sent)
		r.Add("mout_not_sent", notSent)
		r.Add("mout_boots", 1)
	})
}

// ---- end to end ---------------------------------------------------------------------

type oObs struct {
	Clock  int // index into the clocks given
	Target int
	Got    []seen
}

// runMultiE2E: one bubble; at every instant one message per route through the
// ingress; the running dispatcher pushes it to every target of the route.
func runMultiE2E(t *testing.T, cfg oConfig, worker int, clocks []instant) (obs []oObs, infra error) {
	synctest.Test(t, func(t *testing.T) {
		env, err := bootOutText(oDSL(cfg, worker), worker, false)
		if err != nil {
			infra = fmt.Errorf("boot %s: %v", cfg, err)
			return
		}
		defer env.close()
		env.pd.Start()
		defer env.pd.Drain(10 * time.Second)
		ts, group := cfg.flat()
		for ci, clk := range clocks {
			if d := time.Until(clk.At); d > 0 {
				time.Sleep(d)
			}
			synctest.Wait()
			if !time.Now().Equal(clk.At) {
				infra = fmt.Errorf("virtual clock is %s, want %s", time.Now(), clk.At)
				return
			}
			if stale := env.rec.take(); len(stale) > 0 {
				infra = fmt.Errorf("%d pushes between the instants (retry configured 1h)", len(stale))
				return
			}
			for g := range cfg.Groups {
				body := fmt.Sprintf("%s|%d|\x00payload", oRoute(g), ci)
				raw := fmt.Sprintf("POST %s HTTP/1.1\r\nHost: hooks.test\r\nContent-Type: text/plain\r\nContent-Length: %d\r\n\r\n%s", oRoute(g), len(body), body)
				req, err := http.ReadRequest(bufio.NewReader(strings.NewReader(raw)))
				if err != nil {
					infra = err
					return
				}
				req.RemoteAddr = "198.51.100.9:40003"
				rec := httptest.NewRecorder()
				env.app.Ingress.ServeHTTP(rec, req)
				if rec.Code != http.StatusAccepted {
					infra = fmt.Errorf("ingress answered %d for %s", rec.Code, oRoute(g))
					return
				}
				synctest.Wait()
				got := env.rec.take()
				per := map[int][]seen{}
				for _, x := range got {
					if !x.At.Equal(clk.At) {
						infra = fmt.Errorf("push observed at %s, clock %s", x.At, clk.At)
						return
					}
					var j int
					if _, err := fmt.Sscanf(x.path(), "/mt/%d", &j); err != nil || j < 0 || j >= len(ts) || group[j] != g || string(x.Body) != body {
						infra = fmt.Errorf("message for %s arrived at %q with body %q", oRoute(g), x.Target, x.Body)
						return
					}
					per[j] = append(per[j], x)
				}
				for j := range ts {
					if group[j] == g {
						obs = append(obs, oObs{Clock: ci, Target: j, Got: per[j]})
					}
				}
			}
		}
	})
	return obs, infra
}

// multiE2E: lists {k1}, {k3,k2}, {k1,k2,k3} assigned to 2..3 targets in every
// way x every grouping x 5 selection patterns on pools adjacent+nested;
// thorough: all pools, and the 7 subsets (ascending; odd positions descending)
// per target with selection pattern 0.
func multiE2E(t *testing.T, r *runner.Run, deadline time.Time, workers int, ties *tieBook) bool {
	pools := []int{0, 1}
	if r.Thorough() {
		pools = []int{0, 1, 2, 3, 4, 5}
	}
	lists := [][]int{{0}, {2, 1}, {0, 1, 2}}
	var cfgs []oConfig
	for _, m := range []int{2, 3} {
		for _, p := range pools {
			cfgs = append(cfgs, oConfigs(p, m, lists, allSelPatterns, false)...)
		}
	}
	if r.Thorough() {
		for _, m := range []int{2, 3} {
			for _, p := range pools {
				cfgs = append(cfgs, oConfigs(p, m, mSubsets(), []int{0}, true)...)
			}
		}
	}
	clocks := clockInstants()
	return forEach(len(cfgs), workers, deadline, func(worker, i int) {
		cfg := cfgs[i]
		obs, infra := runMultiE2E(t, cfg, worker, clocks)
		if infra != nil {
			infraOnce(r, "multi-e2e-run", "multi-target e2e (%s): %v", cfg, infra)
			return
		}
		ts, _ := cfg.flat()
		var pushes, silent int64
		for _, o := range obs {
			clk := clocks[o.Clock]
			pick, tie, fl := judgeOwn(cfg, o.Target, clk.At, o.Got)
			if fl != nil && fl.Key == "out:multi:not-sent-though-own-valid-version-exists" {
				// vacuity guard of the harness (as in the single-configuration e2e part): whether the dispatcher reached the target is not C17
				infraOnce(r, "multi-e2e-missing-push", "multi-target e2e: %s: the dispatcher did not reach the target, the end-to-end part cannot decide", fl.Msg)
				return
			}
			if fl != nil {
				fl.Key = "e2e:" + fl.Key
				o := o
				report(r, fl, func() []repro { return oRepros(t, "multi-e2e", cfg, clocks, o.Clock, o.Target) })
			}
			if tie != noTie {
				ties.note(ts[o.Target].Sel, tie, func() string { return fmt.Sprintf("multi-target e2e %s target %d clock=%s", cfg, o.Target, clk.Label) })
			}
			if len(o.Got) == 0 {
				silent++
			}
			pushes += int64(len(o.Got))
			oCount(r, cfg, o.Target, clk, pick, "me2e")
		}
		r.Add("evaluations", int64(len(obs)))
		r.Add("me2e_evaluations", int64(len(obs)))
		r.Add("me2e_push_requests_checked", pushes)
		r.Add("me2e_not_pushed", silent)
		r.Add("me2e_bubbles", 1)
	})
}
