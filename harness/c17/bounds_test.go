package c17

// Written window bounds (bnd_*): the other parts put every valid_from /
// valid_until on a whole-second lattice, so a configuration compiler that reads
// the written text differently (drops the fraction, mishandles a zone offset,
// clamps an extreme year) was invisible. Here the dimension is the TEXT of a
// bound: fractional seconds (.5, .000000001, .999999999), zone offsets other
// than Z (+02:00, -07:00, +14:00, +05:30, -09:30), alternative spellings (lower-case t / z, +00:00, -00:00, comma,
// padded fraction, zero fraction, surrounding blanks), bounds just before and at
// the Unix epoch, at the end of year 9999, at the start of year 1, equal bounds
// in different spellings and bounds 1 ns apart — crossed into windows and
// hand-overs of <= 3 versions, and judged outbound (one real Deliver call per
// clock instant on the configuration compiled from the text) and inbound (the
// ingress handler, one request per signed timestamp and signer) at every
// instant 1 ns before / at / 1 ns after every written bound and at the whole
// seconds around it.
//
// Reference: the harness parses the text IT WROTE with its own RFC 3339 reader
// (parseStamp, integer arithmetic on (unix second, nanosecond), proleptic
// Gregorian calendar, no package time) and demands: version valid at t iff
// from <= t < until. Nothing is read back from the compiled configuration. A
// configuration the application refuses to start is not judged (refusal of a
// written bound is not a wrong signature); what it accepts it has to read as
// written.

import (
	"bufio"
	"encoding/hex"
	"fmt"
	"net/http"
	"net/http/httptest"
	"sort"
	"strconv"
	"strings"
	"testing"
	"testing/synctest"
	"time"

	"github.com/nuetzliches/hookaido/internal/app"
	"github.com/nuetzliches/hookaido/internal/verifkit/runner"
)

// ---- exact instants ---------------------------------------------------------

// xi is an instant: whole seconds since 1970-01-01T00:00:00Z (floor, may be
// negative) and 0 <= Ns < 1e9.
type xi struct {
	Sec int64 `json:"sec"`
	Ns  int64 `json:"ns"`
}

const nsPerSec = 1_000_000_000

func floorDiv(a, b int64) int64 {
	q := a / b
	if a%b != 0 && (a < 0) != (b < 0) {
		q--
	}
	return q
}

func (a xi) add(sec, ns int64) xi {
	n := a.Ns + ns
	c := floorDiv(n, nsPerSec)
	return xi{a.Sec + sec + c, n - c*nsPerSec}
}

func (a xi) cmp(b xi) int {
	switch {
	case a.Sec < b.Sec:
		return -1
	case a.Sec > b.Sec:
		return 1
	case a.Ns < b.Ns:
		return -1
	case a.Ns > b.Ns:
		return 1
	}
	return 0
}

// clock turns the instant into the value the deliverer's clock returns (driving the code, not judging it).
func (a xi) clock() time.Time { return time.Unix(a.Sec, a.Ns).UTC() }

func (a xi) String() string {
	if s, ok := renderStamp(a, 0, stPlain); ok {
		return s
	}
	return fmt.Sprintf("unix:%d.%09d", a.Sec, a.Ns)
}

// daysFromCivil / civilFromDays: proleptic Gregorian calendar, day 0 = 1970-01-01 (year 0 exists, as in RFC 3339 / ISO 8601).
func daysFromCivil(y, m, d int64) int64 {
	if m <= 2 {
		y--
	}
	era := floorDiv(y, 400)
	yoe := y - era*400
	mp := m - 3
	if m <= 2 {
		mp = m + 9
	}
	doy := (153*mp+2)/5 + d - 1
	doe := yoe*365 + yoe/4 - yoe/100 + doy
	return era*146097 + doe - 719468
}

func civilFromDays(z int64) (y, m, d int64) {
	z += 719468
	era := floorDiv(z, 146097)
	doe := z - era*146097
	yoe := (doe - doe/1460 + doe/36524 - doe/146096) / 365
	doy := doe - (365*yoe + yoe/4 - yoe/100)
	mp := (5*doy + 2) / 153
	d = doy - (153*mp+2)/5 + 1
	m = mp + 3
	if mp >= 10 {
		m = mp - 9
	}
	y = yoe + era*400
	if m <= 2 {
		y++
	}
	return y, m, d
}

func daysIn(y, m int64) int64 {
	switch m {
	case 4, 6, 9, 11:
		return 30
	case 2:
		if y%4 == 0 && (y%100 != 0 || y%400 == 0) {
			return 29
		}
		return 28
	}
	return 31
}

// ---- the harness's own reader and writer of bound texts ---------------------

type stampInfo struct {
	At     xi
	Strict bool // the plain RFC 3339 production: upper-case T and Z (or a numeric offset), '.' before the fraction, no blanks
}

func num(s string) (int64, bool) {
	if s == "" {
		return 0, false
	}
	var n int64
	for _, c := range []byte(s) {
		if c < '0' || c > '9' {
			return 0, false
		}
		n = n*10 + int64(c-'0')
	}
	return n, true
}

// parseStamp: YYYY-MM-DD(T|t)hh:mm:ss[(.|,)f{1,9}](Z|z|(+|-)hh:mm), blanks around it allowed.
// ok=false: a text this harness gives no meaning to (never generated on purpose).
func parseStamp(text string) (info stampInfo, ok bool) {
	s := strings.Trim(text, " ")
	info.Strict = s == text
	if len(s) < 20 || s[4] != '-' || s[7] != '-' || s[13] != ':' || s[16] != ':' {
		return info, false
	}
	switch s[10] {
	case 'T':
	case 't':
		info.Strict = false
	default:
		return info, false
	}
	var f [6]int64
	for i, p := range [][2]int{{0, 4}, {5, 7}, {8, 10}, {11, 13}, {14, 16}, {17, 19}} {
		v, good := num(s[p[0]:p[1]])
		if !good {
			return info, false
		}
		f[i] = v
	}
	y, mo, d, h, mi, sec := f[0], f[1], f[2], f[3], f[4], f[5]
	if mo < 1 || mo > 12 || d < 1 || d > daysIn(y, mo) || h > 23 || mi > 59 || sec > 59 {
		return info, false
	}
	rest := s[19:]
	var ns int64
	if rest[0] == '.' || rest[0] == ',' {
		if rest[0] == ',' {
			info.Strict = false
		}
		n := 1
		for n < len(rest) && rest[n] >= '0' && rest[n] <= '9' {
			n++
		}
		digits := rest[1:n]
		if len(digits) < 1 || len(digits) > 9 {
			return info, false
		}
		ns, _ = num(digits + strings.Repeat("0", 9-len(digits)))
		rest = rest[n:]
	}
	var off int64
	switch {
	case rest == "Z":
	case rest == "z":
		info.Strict = false
	case len(rest) == 6 && (rest[0] == '+' || rest[0] == '-') && rest[3] == ':':
		oh, g1 := num(rest[1:3])
		om, g2 := num(rest[4:6])
		if !g1 || !g2 || oh > 23 || om > 59 {
			return info, false
		}
		off = oh*3600 + om*60
		if rest[0] == '-' {
			off = -off
		}
	default:
		return info, false
	}
	info.At = xi{daysFromCivil(y, mo, d)*86400 + h*3600 + mi*60 + sec - off, ns}
	return info, true
}

type bStyle int

const (
	stPlain bStyle = iota
	stLowerT
	stLowerZ    // zone Z only
	stPlusZero  // zone Z only: "+00:00"
	stMinusZero // zone Z only: "-00:00"
	stComma     // fraction only
	stPad9      // fraction only: nine digits
	stZero1     // whole second only: ".0"
	stZero9     // whole second only: ".000000000"
	stBlanks
)

var styleNames = map[bStyle]string{stLowerT: "lower-case-t", stLowerZ: "lower-case-z", stPlusZero: "+00:00", stMinusZero: "-00:00", stComma: "comma-fraction",
	stPad9: "nine-digit-fraction", stZero1: "zero-fraction", stZero9: "nine-digit-zero-fraction", stBlanks: "surrounding-blanks"}

// renderStamp writes the instant as local time of a zone `zoneMin` minutes east of UTC. ok=false: the local year is not in 0..9999.
func renderStamp(at xi, zoneMin int64, st bStyle) (string, bool) {
	local := at.Sec + zoneMin*60
	days := floorDiv(local, 86400)
	rem := local - days*86400
	y, m, d := civilFromDays(days)
	if y < 0 || y > 9999 {
		return "", false
	}
	tee := "T"
	if st == stLowerT {
		tee = "t"
	}
	frac := ""
	switch {
	case at.Ns != 0:
		frac = fmt.Sprintf("%09d", at.Ns)
		if st != stPad9 {
			frac = strings.TrimRight(frac, "0")
		}
		if st == stComma {
			frac = "," + frac
		} else {
			frac = "." + frac
		}
	case st == stZero1:
		frac = ".0"
	case st == stZero9:
		frac = ".000000000"
	}
	zone := "Z"
	switch {
	case zoneMin != 0:
		sign, z := "+", zoneMin
		if z < 0 {
			sign, z = "-", -z
		}
		zone = fmt.Sprintf("%s%02d:%02d", sign, z/60, z%60)
	case st == stLowerZ:
		zone = "z"
	case st == stPlusZero:
		zone = "+00:00"
	case st == stMinusZero:
		zone = "-00:00"
	}
	s := fmt.Sprintf("%04d-%02d-%02d%s%02d:%02d:%02d%s%s", y, m, d, tee, rem/3600, rem%3600/60, rem%60, frac, zone)
	if st == stBlanks {
		s = " " + s + " "
	}
	return s, true
}

// ---- alphabet ---------------------------------------------------------------

// yearOneStart is 0001-01-01T00:00:00Z, the start of year 1.
var yearOneStart = xi{-62135596800, 0}

// bSpell is one written bound.
type bSpell struct {
	Text   string
	At     xi     // parseStamp(Text)
	Feat   string // input class of the text (for violation keys and coverage classes)
	Rank   int    // priority of Feat when a scenario has several bounds
	Strict bool
	Main   bool   // member of the pair alphabet of the quick tier
	Style  string // name of the alternative spelling ("" = the plain form)
}

// featureOf: the input class of a written bound. Keys stay coarse on purpose (one root cause should not fan out
// into one key per spelling and group); the text itself is in the message and in the replay artefact.
func featureOf(info stampInfo, zoneMin int64, st bStyle) (string, int) {
	switch {
	case info.At == yearOneStart:
		return "bound-at-0001-01-01T00:00:00Z", 4
	case info.At.Ns != 0:
		return "fractional-seconds", 3
	case st != stPlain:
		return "alternative-spelling", 2
	case zoneMin != 0:
		return "zone-offset", 1
	}
	return "whole-second-utc", 0
}

type bAnchor struct {
	Name     string
	S        int64    // anchor second; the written instants are S + {0, 1ns, .5s, .999999999s, 1s}
	F0       string   // a plain early bound, long before S
	Extra    []string // further written bounds of this group
	Thorough bool     // thorough tier only
}

var bAnchors = []bAnchor{
	{Name: "lattice", S: 946684870, F0: "1900-01-01T00:00:00Z"}, // 2000-01-01T00:01:10Z, inside the default inbound tolerance of the bubble clock
	{Name: "before-epoch", S: -1, F0: "1900-01-01T00:00:00Z"},   // 1969-12-31T23:59:59Z .. 1970-01-01T00:00:00Z
	{Name: "epoch", S: 0, F0: "1900-01-01T00:00:00Z"},           // 1970-01-01T00:00:00Z .. :01Z
	{Name: "year-9999", S: 253402300798, F0: "1900-01-01T00:00:00Z", // 9999-12-31T23:59:58Z .. :59Z
		Extra: []string{"9999-12-31T23:59:59.999999999Z", "9999-12-31T23:59:59-07:00"}},
	{Name: "year-0001", S: -62135596801, F0: "0000-01-01T00:00:00Z"},                   // 0000-12-31T23:59:59Z .. 0001-01-01T00:00:00Z
	{Name: "unixnano-max", S: 9223372036, F0: "1900-01-01T00:00:00Z", Thorough: true},  // 2262-04-11T23:47:16Z: int64 nanoseconds end inside this second
	{Name: "unixnano-min", S: -9223372037, F0: "1600-01-01T00:00:00Z", Thorough: true}, // 1677-09-21T00:12:43Z
}

var bZones = []int64{0, 120, -420, 840} // Z, +02:00, -07:00, +14:00

var bFractions = []int64{0, 1, 500_000_000, 999_999_999}

// bAlphabet: the written bounds of an anchor group; every text is read back by parseStamp.
func bAlphabet(a bAnchor) ([]bSpell, error) {
	var out []bSpell
	seen := map[string]bool{}
	add := func(at xi, zone int64, st bStyle, main bool) error {
		text, ok := renderStamp(at, zone, st)
		if !ok || seen[text] {
			return nil
		}
		seen[text] = true
		info, ok := parseStamp(text)
		if !ok || info.At != at {
			return fmt.Errorf("harness: %q written for %v reads back as %v (%v)", text, at, info.At, ok)
		}
		feat, rank := featureOf(info, zone, st)
		out = append(out, bSpell{Text: text, At: at, Feat: feat, Rank: rank, Strict: info.Strict, Main: main, Style: styleNames[st]})
		return nil
	}
	base := xi{a.S, 0}
	insts := []xi{}
	for _, f := range bFractions {
		insts = append(insts, base.add(0, f))
	}
	insts = append(insts, base.add(1, 0))
	for _, at := range insts {
		for _, z := range bZones {
			if err := add(at, z, stPlain, true); err != nil {
				return nil, err
			}
		}
	}
	half, next := base.add(0, 500_000_000), base.add(1, 0)
	for _, st := range []bStyle{stLowerT, stLowerZ, stPlusZero, stMinusZero, stBlanks, stComma, stPad9} {
		if err := add(half, 0, st, false); err != nil {
			return nil, err
		}
	}
	for _, st := range []bStyle{stLowerT, stLowerZ, stPlusZero, stMinusZero, stBlanks, stZero1, stZero9} {
		if err := add(next, 0, st, false); err != nil {
			return nil, err
		}
	}
	// offsets that are not whole hours
	if err := add(half, 330, stPlain, false); err != nil {
		return nil, err
	}
	if err := add(next, -570, stPlain, false); err != nil {
		return nil, err
	}
	for _, text := range a.Extra {
		info, ok := parseStamp(text)
		if !ok {
			return nil, fmt.Errorf("harness: extra bound %q is not readable", text)
		}
		zone := int64(0)
		if !strings.HasSuffix(text, "Z") {
			zone = 1
		}
		feat, rank := featureOf(info, zone, stPlain)
		out = append(out, bSpell{Text: text, At: info.At, Feat: feat, Rank: rank, Strict: info.Strict, Main: false})
	}
	return out, nil
}

// ---- scenarios --------------------------------------------------------------

type bVer struct {
	From  string `json:"valid_from"`
	Until string `json:"valid_until,omitempty"`
}

// bScenario: <= 3 versions (ids k1 < k2 < k3 by position) with written bounds.
type bScenario struct {
	Anchor  string `json:"anchor"`
	Family  string `json:"family"`
	Feature string `json:"feature"`
	Vers    []bVer `json:"versions"`
	strict  bool   // every bound text is a plain RFC 3339 production
	styles  string // names of the alternative spellings used ("" = none)
}

func (sc bScenario) String() string {
	p := make([]string, len(sc.Vers))
	for i, v := range sc.Vers {
		u := v.Until
		if u == "" {
			u = "-"
		}
		p[i] = fmt.Sprintf("%s=[%s, %s)", ids[i], v.From, u)
	}
	return strings.Join(p, " ")
}

type bWin struct {
	from, until xi
	hasUntil    bool
}

// windows: the reference reading of the scenario's texts.
func (sc bScenario) windows() ([]bWin, error) {
	ws := make([]bWin, len(sc.Vers))
	for i, v := range sc.Vers {
		f, ok := parseStamp(v.From)
		if !ok {
			return nil, fmt.Errorf("unreadable valid_from %q", v.From)
		}
		ws[i].from = f.At
		if v.Until != "" {
			u, ok := parseStamp(v.Until)
			if !ok {
				return nil, fmt.Errorf("unreadable valid_until %q", v.Until)
			}
			ws[i].until, ws[i].hasUntil = u.At, true
		}
	}
	return ws, nil
}

// bValid: from <= at < until.
func bValid(w bWin, at xi) bool {
	return w.from.cmp(at) <= 0 && (!w.hasUntil || at.cmp(w.until) < 0)
}

func emptyWindow(ws []bWin) bool {
	for _, w := range ws {
		if w.hasUntil && w.until.cmp(w.from) <= 0 {
			return true
		}
	}
	return false
}

// bGroup: the versions the rule may pick at `at` (more than one = tie by id).
func bGroup(ws []bWin, sel string, at xi) []int {
	best := -1
	for i, w := range ws {
		if !bValid(w, at) {
			continue
		}
		if best < 0 {
			best = i
			continue
		}
		c := w.from.cmp(ws[best].from)
		if (sel == "oldest_valid" && c < 0) || (sel != "oldest_valid" && c > 0) {
			best = i
		}
	}
	if best < 0 {
		return nil
	}
	var g []int
	for i, w := range ws {
		if bValid(w, at) && w.from.cmp(ws[best].from) == 0 {
			g = append(g, i)
		}
	}
	return g
}

func (sc bScenario) modes() []string {
	if len(sc.Vers) == 1 {
		return selections[:1]
	}
	return selections
}

// bScenarios: the families of one anchor group. all: pairs over the whole alphabet (thorough), else over the main spellings.
func bScenarios(a bAnchor, spells []bSpell, all bool) []bScenario {
	var out []bScenario
	mk := func(family string, used []bSpell, vers ...bVer) {
		sc := bScenario{Anchor: a.Name, Family: family, Vers: vers, strict: true}
		rank := -1
		for _, s := range used {
			if s.Rank > rank {
				rank, sc.Feature = s.Rank, s.Feat
			}
			sc.strict = sc.strict && s.Strict
			if s.Style != "" && !strings.Contains(sc.styles, s.Style) {
				sc.styles += "," + s.Style
			}
		}
		out = append(out, sc)
	}
	var pair []bSpell
	for _, s := range spells {
		if all || s.Main {
			pair = append(pair, s)
		}
	}
	for _, w := range spells {
		mk("open", []bSpell{w}, bVer{From: w.Text})
		mk("closing", []bSpell{w}, bVer{From: a.F0, Until: w.Text})
	}
	for _, w := range pair {
		for _, x := range pair {
			u := []bSpell{w, x}
			mk("window", u, bVer{From: w.Text, Until: x.Text})
			mk("hand-over", u, bVer{From: a.F0, Until: w.Text}, bVer{From: x.Text})
			mk("two-open", u, bVer{From: w.Text}, bVer{From: x.Text})
		}
	}
	if all {
		// chains of three: k1=[F0,W1) k2=[W2,W3) k3=[W4,-) over the written instants, zone by position
		var byZone [4][]bSpell
		for _, s := range spells {
			if !s.Main {
				continue
			}
			for zi, suffix := range []string{"Z", "+02:00", "-07:00", "+14:00"} {
				if strings.HasSuffix(s.Text, suffix) {
					byZone[zi] = append(byZone[zi], s)
				}
			}
		}
		for _, w1 := range byZone[0] {
			for _, w2 := range byZone[1] {
				for _, w3 := range byZone[2] {
					for _, w4 := range byZone[3] {
						mk("chain", []bSpell{w1, w2, w3, w4}, bVer{From: a.F0, Until: w1.Text}, bVer{From: w2.Text, Until: w3.Text}, bVer{From: w4.Text})
					}
				}
			}
		}
	}
	return out
}

// ---- instants at which a group is judged ------------------------------------

// the inbound requests of every group are presented with the bubble clock at this second
const bInboundClock = int64(946684870) // 2000-01-01T00:01:10Z

const (
	bWideTolerance    = "100000d"
	bWideToleranceSec = int64(100000-1) * 86400 // a day inside the configured tolerance: its own boundary belongs to another property
	bNearSec          = int64(240)              // inside the default tolerance of 5m
)

type bGroupData struct {
	anchor bAnchor
	spells []bSpell
	clocks []xi    // ascending: every written instant and its neighbours at 1 ns, the whole seconds around it, one instant in 2000
	stamps []int64 // ascending: the whole seconds among them that an inbound request can carry, and the inbound clock itself
}

func bGroupOf(a bAnchor) (*bGroupData, error) {
	spells, err := bAlphabet(a)
	if err != nil {
		return nil, err
	}
	set := map[xi]bool{{bInboundClock - 40, 0}: true}
	secs := map[int64]bool{bInboundClock: true}
	for _, s := range spells {
		for _, d := range []int64{-1, 0, 1} {
			set[s.At.add(0, d)] = true
			set[xi{s.At.Sec + d, 0}] = true
			if dist := s.At.Sec + d - bInboundClock; dist >= -bWideToleranceSec && dist <= bWideToleranceSec {
				secs[s.At.Sec+d] = true
			}
		}
	}
	g := &bGroupData{anchor: a, spells: spells}
	for c := range set {
		g.clocks = append(g.clocks, c)
	}
	sort.Slice(g.clocks, func(i, j int) bool { return g.clocks[i].cmp(g.clocks[j]) < 0 })
	for s := range secs {
		g.stamps = append(g.stamps, s)
	}
	sort.Slice(g.stamps, func(i, j int) bool { return g.stamps[i] < g.stamps[j] })
	return g, nil
}

// ---- configuration text -----------------------------------------------------

func bID(slot, v int) string        { return fmt.Sprintf("b%02d%s", slot, ids[v]) }
func bSecret(slot, v int) string    { return fmt.Sprintf("%s-b%02d", secretValues[v], slot) }
func bOutRoute(slot, mi int) string { return fmt.Sprintf("/b/o/%d/%d", slot, mi) }
func bOutPath(slot, mi int) string  { return fmt.Sprintf("/b/t/%d/%d", slot, mi) }
func bInRoute(slot int, wide bool) string {
	if wide {
		return fmt.Sprintf("/b/w/%d", slot)
	}
	return fmt.Sprintf("/b/n/%d", slot)
}

// refOrder: ascending ids for even mode indices, descending for odd ones.
func refOrder(n, mi int) []int {
	o := make([]int, n)
	for i := range o {
		o[i] = i
		if mi%2 == 1 {
			o[i] = n - 1 - i
		}
	}
	return o
}

func bDSL(pack []bScenario, out, in bool) string {
	var b strings.Builder
	b.WriteString(listenBlock())
	b.WriteString("secrets {\n")
	for slot, sc := range pack {
		for v, ver := range sc.Vers {
			fmt.Fprintf(&b, "  secret %q {\n    value %q\n    valid_from %q\n", bID(slot, v), "raw:"+bSecret(slot, v), ver.From)
			if ver.Until != "" {
				fmt.Fprintf(&b, "    valid_until %q\n", ver.Until)
			}
			b.WriteString("  }\n")
		}
	}
	b.WriteString("}\n")
	for slot, sc := range pack {
		if out {
			for mi, mode := range sc.modes() {
				fmt.Fprintf(&b, "%s {\n  deliver %q {\n%s", bOutRoute(slot, mi), targetOrigin+bOutPath(slot, mi), retryLongLine)
				for _, v := range refOrder(len(sc.Vers), mi) {
					fmt.Fprintf(&b, "    sign hmac secret_ref %q\n", bID(slot, v))
				}
				if mode != modeDefault {
					fmt.Fprintf(&b, "    sign secret_selection %s\n", mode)
				}
				b.WriteString("  }\n}\n")
			}
		}
		if in {
			fmt.Fprintf(&b, "%s {\n  auth hmac {\n", bInRoute(slot, true))
			for v := range sc.Vers {
				fmt.Fprintf(&b, "    secret_ref %q\n", bID(slot, v))
			}
			fmt.Fprintf(&b, "    tolerance %s\n  }\n  pull { path /e/bw%d }\n}\n", bWideTolerance, slot)
			fmt.Fprintf(&b, "%s {\n", bInRoute(slot, false))
			for v := len(sc.Vers) - 1; v >= 0; v-- {
				fmt.Fprintf(&b, "  auth hmac secret_ref %q\n", bID(slot, v))
			}
			fmt.Fprintf(&b, "  pull { path /e/bn%d }\n}\n", slot)
		}
	}
	if out {
		fmt.Fprintf(&b, "/out/plain {\n  deliver %q {\n%s  }\n}\n", targetOrigin+"/control", retryLongLine)
	}
	return b.String()
}

// ---- execution --------------------------------------------------------------

type bOutObs struct {
	Slot, Mode, Clock int
	Got               []seen
}

type bInObs struct {
	Slot   int
	Ts     int64
	Wide   bool
	Signer int // version index, or -2: a secret that is not configured
	Status int
}

func rawRequest(raw string) (*http.Request, error) {
	req, err := http.ReadRequest(bufio.NewReader(strings.NewReader(raw)))
	if err != nil {
		return nil, err
	}
	req.RemoteAddr = "198.51.100.9:40002"
	return req, nil
}

func bShape(slot int) shape {
	return shape{Method: 1 + slot%2, Body: slot % len(bodies), PreHdr: slot % 2}
}

func bRequest(path, secret string, unix int64, seq int) (*http.Request, error) {
	body := inBodies[seq%len(inBodies)]
	return rawRequest(fmt.Sprintf("POST %s HTTP/1.1\r\nHost: hooks.test\r\nContent-Type: application/octet-stream\r\nX-Timestamp: %d\r\nX-Signature: %s\r\nX-Nonce: bn-%d\r\nContent-Length: %d\r\n\r\n%s",
		path, unix, refInboundSig([]byte(secret), unix, "POST", path, body), seq, len(body), body))
}

// bExec boots one configuration for the pack in a bubble and runs, in this
// order: every outbound target at every clock instant (ascending), then every
// inbound request with the bubble clock at bInboundClock. booted=false: the
// application refused to start with this text.
func bExec(t *testing.T, g *bGroupData, pack []bScenario, worker int, out, in bool) (booted bool, outs []bOutObs, ins []bInObs, infra error) {
	synctest.Test(t, func(t *testing.T) {
		dsl := bDSL(pack, out, in)
		var a *app.VerifApp
		var env *outEnv
		if out {
			e, err := bootOutText(dsl, worker, true)
			if err != nil {
				return
			}
			env, a = e, e.app
		} else {
			x, err := bootRaw(dsl, worker)
			if err != nil {
				return
			}
			a = x
		}
		booted = true
		defer a.Shutdown()
		if out {
			names := outRoutes[0].Expected
			if got, err := env.deliver("/out/plain", targetOrigin+"/control", shape{Method: 1, Body: 1}, names, g.clocks[0].clock()); err != nil || len(got) != 1 {
				infra = fmt.Errorf("unsigned control delivery not observed (%v, %d requests)", err, len(got))
				return
			}
			for ci, clk := range g.clocks {
				for slot, sc := range pack {
					for mi := range sc.modes() {
						got, err := env.deliver(bOutRoute(slot, mi), targetOrigin+bOutPath(slot, mi), bShape(slot), names, clk.clock())
						if err != nil {
							infra = err
							return
						}
						if len(got) == 1 && got[0].path() != bOutPath(slot, mi) {
							infra = fmt.Errorf("request for %s arrived as %q", bOutPath(slot, mi), got[0].Target)
							return
						}
						outs = append(outs, bOutObs{slot, mi, ci, got})
					}
				}
			}
			if p := env.rec.problems(); len(p) > 0 {
				infra = fmt.Errorf("recording transport: %v", p)
				return
			}
		}
		if in {
			if a.Ingress == nil {
				infra = fmt.Errorf("no ingress handler")
				return
			}
			at := time.Unix(bInboundClock, 0)
			time.Sleep(time.Until(at))
			if !time.Now().Equal(at) {
				infra = fmt.Errorf("virtual clock is %s, want %s", time.Now(), at)
				return
			}
			seq := 0
			for slot, sc := range pack {
				for _, ts := range g.stamps {
					for _, wide := range []bool{true, false} {
						if d := ts - bInboundClock; !wide && (d < -bNearSec || d > bNearSec) {
							continue
						}
						for signer := -2; signer < len(sc.Vers); signer++ {
							secret := unknownSecret
							if signer == -1 {
								continue
							} else if signer >= 0 {
								secret = bSecret(slot, signer)
							}
							seq++
							req, err := bRequest(bInRoute(slot, wide), secret, ts, seq)
							if err != nil {
								infra = err
								return
							}
							rec := httptest.NewRecorder()
							a.Ingress.ServeHTTP(rec, req)
							ins = append(ins, bInObs{slot, ts, wide, signer, rec.Code})
						}
					}
				}
			}
		}
	})
	return booted, outs, ins, infra
}

// ---- verdicts ---------------------------------------------------------------

func (sc bScenario) key(kind string) string {
	return "bnd:" + kind + ":" + sc.Feature
}

// bJudgeOut: what the target of (scenario, mode) received for a delivery signed at clock `at`.
func bJudgeOut(sc bScenario, ws []bWin, slot, mi int, at xi, got []seen) (pick int, tie string, fl *failure) {
	mode := sc.modes()[mi]
	group := bGroup(ws, mode, at)
	ctx := func() string { return fmt.Sprintf("%s selection=%s clock=%s", sc, mode, at) }
	if len(got) == 0 {
		if len(group) == 0 {
			return pickNone, noTie, nil
		}
		return pickFailed, noTie, &failure{sc.key("out:not-sent-though-valid-version-exists"), "no request reached the target although version(s) " + fmt.Sprint(group) + " are valid at the clock instant under the bounds as written; " + ctx()}
	}
	if len(got) > 1 {
		return pickFailed, noTie, &failure{sc.key("out:sent-more-than-once"), fmt.Sprintf("%d requests for one delivery; %s", len(got), ctx())}
	}
	g := got[0]
	if len(group) == 0 {
		return pickFailed, noTie, &failure{sc.key("out:sent-without-valid-version"), "a request was sent although no version is valid at the clock instant under the bounds as written; " + ctx()}
	}
	names := outRoutes[0].Expected
	unix := strconv.FormatInt(at.Sec, 10)
	if ts := g.Header.Get(names.Ts); ts != unix {
		return pickFailed, noTie, &failure{sc.key("out:timestamp-header"), fmt.Sprintf("header %s = %q, want unix seconds of the signing time %s; %s", names.Ts, ts, unix, ctx())}
	}
	sig := g.Header.Get(names.Sig)
	msg := []byte(strings.ToUpper(g.Method) + "\n" + g.path() + "\n" + unix + "\n" + hexSHA256(g.Body))
	pick = pickFailed
	for v := range sc.Vers {
		if sig == hex.EncodeToString(refHMAC([]byte(bSecret(slot, v)), msg)) {
			pick = v
		}
	}
	if pick == pickFailed {
		return pickFailed, noTie, &failure{sc.key("out:signature-matches-no-version"), fmt.Sprintf("header %s = %q is not the reference HMAC of (%s, %s, %s, body) under any version of the target; %s", names.Sig, sig, g.Method, g.path(), unix, ctx())}
	}
	w := ws[pick]
	switch {
	case at.cmp(w.from) < 0:
		return pickFailed, noTie, &failure{sc.key("out:signed-with-not-yet-valid-version"), fmt.Sprintf("signed with %s before its valid_from as written; %s", ids[pick], ctx())}
	case !bValid(w, at):
		return pickFailed, noTie, &failure{sc.key("out:signed-with-expired-version"), fmt.Sprintf("signed with %s at or after its valid_until as written; %s", ids[pick], ctx())}
	case !member(group, pick):
		return pickFailed, noTie, &failure{sc.key("out:picked-against-rule:" + mode), fmt.Sprintf("signed with %s but the rule selects among %v under the bounds as written; %s", ids[pick], group, ctx())}
	}
	tie = tieDirOf(group, pick)
	if tie == tieMiddle {
		return pickFailed, tie, &failure{sc.key("out:tie-not-by-id"), fmt.Sprintf("tie %v broken in favour of %s; %s", group, ids[pick], ctx())}
	}
	return pick, tie, nil
}

func bJudgeIn(sc bScenario, ws []bWin, o bInObs) *failure {
	at := xi{o.Ts, 0}
	want := o.Signer >= 0 && bValid(ws[o.Signer], at)
	accepted := o.Status == http.StatusAccepted
	if accepted == want {
		return nil
	}
	route := "default-tolerance route"
	if o.Wide {
		route = "route with tolerance " + bWideTolerance
	}
	signer := "unconfigured"
	if o.Signer >= 0 {
		signer = ids[o.Signer]
	}
	ctx := fmt.Sprintf("%s signer=%s signed-timestamp=%d (%s) %s status=%d", sc, signer, o.Ts, at, route, o.Status)
	switch {
	case !accepted:
		return &failure{sc.key("in:rejected-valid-secret"), ctx}
	case o.Signer < 0:
		return &failure{sc.key("in:accepted-unconfigured-secret"), ctx}
	case at.cmp(ws[o.Signer].from) < 0:
		return &failure{sc.key("in:accepted-not-yet-valid-secret"), ctx}
	}
	return &failure{sc.key("in:accepted-expired-secret"), ctx}
}

// ---- one scenario alone (re-check and --replay) -----------------------------

type bReplay struct {
	Scenario bScenario   `json:"scenario"`
	Pack     []bScenario `json:"pack,omitempty"` // set when the scenario alone does not show the failure: every scenario that shared its boot, in order
	Slot     int         `json:"slot,omitempty"` // position of Scenario in Pack
	Note     string      `json:"note"`
}

func anchorByName(name string) (bAnchor, bool) {
	for _, a := range bAnchors {
		if a.Name == name {
			return a, true
		}
	}
	return bAnchor{}, false
}

// bRunAlone runs the complete sequence of one scenario on fresh boots (the two
// consumers together, and separately when the combined text is refused) and
// returns every failure in execution order.
func bRunAlone(t *testing.T, g *bGroupData, sc bScenario, worker int, each func(o *bOutObs, i *bInObs, pick int, tie string, fl *failure)) (outBooted, inBooted bool, infra error) {
	ws, err := sc.windows()
	if err != nil {
		return false, false, err
	}
	pack := []bScenario{sc}
	handle := func(outs []bOutObs, ins []bInObs) {
		for i := range outs {
			pick, tie, fl := bJudgeOut(sc, ws, 0, outs[i].Mode, g.clocks[outs[i].Clock], outs[i].Got)
			each(&outs[i], nil, pick, tie, fl)
		}
		for i := range ins {
			each(nil, &ins[i], 0, noTie, bJudgeIn(sc, ws, ins[i]))
		}
	}
	booted, outs, ins, infra := bExec(t, g, pack, worker, true, true)
	if infra != nil {
		return false, false, infra
	}
	if booted {
		handle(outs, ins)
		return true, true, nil
	}
	outBooted, outs, _, infra = bExec(t, g, pack, worker, true, false)
	if infra != nil {
		return false, false, infra
	}
	inBooted, _, ins, infra = bExec(t, g, pack, worker, false, true)
	if infra != nil {
		return false, false, infra
	}
	handle(outs, ins)
	return outBooted, inBooted, nil
}

// bRecheck: the scenario alone (or, with d.Pack, the boot it shared); the failure with the given key if it shows again
// (any failure when key is empty).
func bRecheck(t *testing.T, d bReplay, key string) (*failure, error) {
	recheckMu.Lock()
	defer recheckMu.Unlock()
	sc := d.Scenario
	a, ok := anchorByName(sc.Anchor)
	if !ok {
		return nil, fmt.Errorf("unknown anchor group %q", sc.Anchor)
	}
	g, err := bGroupOf(a)
	if err != nil {
		return nil, err
	}
	if len(d.Pack) > 0 {
		if d.Slot < 0 || d.Slot >= len(d.Pack) {
			return nil, fmt.Errorf("slot %d of %d", d.Slot, len(d.Pack))
		}
		ws, err := sc.windows()
		if err != nil {
			return nil, err
		}
		booted, outs, ins, infra := bExec(t, g, d.Pack, recheckWorker, true, true)
		if infra != nil || !booted {
			return nil, infra
		}
		var first *failure
		note := func(fl *failure) *failure {
			if fl != nil && first == nil {
				first = fl
			}
			if fl != nil && fl.Key == key {
				return fl
			}
			return nil
		}
		for _, o := range outs {
			if o.Slot == d.Slot {
				if _, _, fl := bJudgeOut(sc, ws, o.Slot, o.Mode, g.clocks[o.Clock], o.Got); note(fl) != nil {
					return fl, nil
				}
			}
		}
		for _, o := range ins {
			if o.Slot == d.Slot {
				if fl := bJudgeIn(sc, ws, o); note(fl) != nil {
					return fl, nil
				}
			}
		}
		if key == "" {
			return first, nil
		}
		return nil, nil
	}
	var found, first *failure
	_, _, infra := bRunAlone(t, g, sc, recheckWorker, func(_ *bOutObs, _ *bInObs, _ int, _ string, fl *failure) {
		if fl == nil {
			return
		}
		if first == nil {
			first = fl
		}
		if found == nil && fl.Key == key {
			found = fl
		}
	})
	if infra != nil {
		return nil, infra
	}
	if found != nil || key != "" {
		return found, nil
	}
	return first, nil
}

// ---- the part ---------------------------------------------------------------

const bPackSize = 12

// bUnit: scenarios of one group that share a boot.
type bUnit struct {
	g    *bGroupData
	pack []bScenario
}

func boundSpellings(t *testing.T, r *runner.Run, deadline time.Time, workers int, ties *tieBook) bool {
	var units []bUnit
	var nAlphabet int
	for _, a := range bAnchors {
		if a.Thorough && !r.Thorough() {
			continue
		}
		g, err := bGroupOf(a)
		if err != nil {
			r.Infra("%v", err)
			return true
		}
		nAlphabet += len(g.spells)
		var pack []bScenario
		for _, sc := range bScenarios(a, g.spells, r.Thorough()) {
			ws, err := sc.windows()
			if err != nil {
				r.Infra("%v", err)
				return true
			}
			// a performance heuristic only (no verdict depends on it): texts the application may well refuse do not share a boot
			if !sc.strict || emptyWindow(ws) || sc.Feature == "bound-at-0001-01-01T00:00:00Z" {
				units = append(units, bUnit{g, []bScenario{sc}})
				continue
			}
			if pack = append(pack, sc); len(pack) == bPackSize {
				units = append(units, bUnit{g, pack})
				pack = nil
			}
		}
		if len(pack) > 0 {
			units = append(units, bUnit{g, pack})
		}
	}
	r.Add("bnd_written_bounds", int64(nAlphabet))

	var judge func(worker, idx int, g *bGroupData, pack []bScenario)
	judge = func(worker, idx int, g *bGroupData, pack []bScenario) {
		var outBooted, inBooted bool
		var outs []bOutObs
		var ins []bInObs
		booted, outs, ins, infra := bExec(t, g, pack, worker, true, true)
		switch {
		case infra != nil:
		case booted:
			outBooted, inBooted = true, true
			r.Add("bnd_boots", 1)
		case len(pack) > 1:
			r.Add("bnd_packs_split_after_refusal", 1)
			for _, sc := range pack {
				judge(worker, idx, g, []bScenario{sc})
			}
			return
		default:
			// one consumer's refusal must not hide what the other does with the text
			if outBooted, outs, _, infra = bExec(t, g, pack, worker, true, false); infra == nil {
				inBooted, _, ins, infra = bExec(t, g, pack, worker, false, true)
			}
		}
		if infra != nil {
			infraOnce(r, "bounds-run", "bounds (%s): %v", pack[0], infra)
			return
		}
		wss := make([][]bWin, len(pack))
		for slot, sc := range pack {
			wss[slot], _ = sc.windows()
			r.Add("bnd_scenarios", 1)
			r.Add("bnd_scenarios_"+sc.Family, 1)
			for _, c := range []struct {
				booted bool
				name   string
			}{{outBooted, "outbound"}, {inBooted, "inbound"}} {
				switch {
				case c.booted:
					r.Add("bnd_"+c.name+"_configs_judged", 1)
					if !sc.strict {
						r.Add("bnd_"+c.name+"_configs_judged_alternative_spelling", 1)
					}
					if sc.styles != "" {
						r.Distinct(fmt.Sprintf("bnd|judged|%s|%s|%s", c.name, sc.Anchor, sc.styles))
					}
				case emptyWindow(wss[slot]):
					r.Add("bnd_"+c.name+"_refused_until_not_after_from", 1)
				case sc.Feature == "bound-at-0001-01-01T00:00:00Z":
					r.Add("bnd_"+c.name+"_refused_bound_at_start_of_year_1", 1)
				case !sc.strict:
					r.Add("bnd_"+c.name+"_refused_alternative_spelling", 1)
					r.Distinct(fmt.Sprintf("bnd|refused|%s|%s|%s", c.name, sc.Anchor, sc.styles))
				default:
					r.Add("bnd_"+c.name+"_refused_plain_rfc3339_bounds", 1)
					r.Distinct(fmt.Sprintf("bnd|refused|%s|%s|%s", c.name, sc.Anchor, sc.Feature))
					if sc.Anchor == "lattice" && sc.Feature == "whole-second-utc" {
						infraOnce(r, "bounds-plain-refused", "bounds: the application does not start with whole-second UTC bounds (%s): nothing can be judged", sc)
					}
				}
			}
		}
		repros := func(slot int, key string) func() []repro {
			const note = "valid_from / valid_until are the texts written into the configuration; the reference reads exactly these texts"
			return func() []repro {
				alone := bReplay{Scenario: pack[slot], Note: note}
				shared := bReplay{Scenario: pack[slot], Pack: pack, Slot: slot, Note: note}
				out := []repro{{doc: replayDoc{Part: "bounds", History: "the scenario alone: its Deliver calls at every clock instant of its group in ascending order, then its inbound requests, on one fresh boot", Bounds: &alone},
					run: func() (*failure, error) { return bRecheck(t, alone, key) }}}
				if len(pack) > 1 {
					out = append(out, repro{doc: replayDoc{Part: "bounds", History: "every scenario that shared the boot: all Deliver calls clock-major in ascending order, then all inbound requests", Bounds: &shared},
						run: func() (*failure, error) { return bRecheck(t, shared, key) }})
				}
				return out
			}
		}
		var sent, notSent, acc, rej int64
		for _, o := range outs {
			sc := pack[o.Slot]
			clk := g.clocks[o.Clock]
			pick, tie, fl := bJudgeOut(sc, wss[o.Slot], o.Slot, o.Mode, clk, o.Got)
			if fl != nil {
				report(r, fl, repros(o.Slot, fl.Key))
			}
			if tie != noTie {
				ties.note(sc.modes()[o.Mode], tie, func() string { return fmt.Sprintf("bounds %s clock=%s", sc, clk) })
			}
			switch {
			case pick >= 0:
				sent++
			case pick == pickNone:
				notSent++
			}
			r.Distinct(fmt.Sprintf("bnd|out|%s|%s|%s|c%d|%s|%s", sc.Anchor, sc.Family, sc.Feature, o.Clock, sc.modes()[o.Mode], pickName(pick)))
			if sc.Family == "hand-over" && sc.Feature == "fractional-seconds" && pick >= 0 && clk.Ns != 0 {
				samples.keep("bnd:signed", idx, func() any {
					return map[string]any{"part": "bounds", "versions": sc.String(), "selection": sc.modes()[o.Mode], "clock": clk.String(), "verdict": pickName(pick)}
				})
			}
		}
		for _, o := range ins {
			sc := pack[o.Slot]
			if o.Status != 202 && o.Status != 401 {
				infraOnce(r, "bounds-status", "bounds inbound: status %d (neither 202 nor 401) for %s", o.Status, sc)
				return
			}
			if fl := bJudgeIn(sc, wss[o.Slot], o); fl != nil {
				report(r, fl, repros(o.Slot, fl.Key))
			}
			if o.Status == 202 {
				acc++
			} else {
				rej++
			}
			if o.Signer >= 0 {
				r.Distinct(fmt.Sprintf("bnd|in|%s|%s|%s|ts%d|wide=%v|%d", sc.Anchor, sc.Family, sc.Feature, o.Ts-g.anchor.S, o.Wide, o.Status))
				if sc.Family == "hand-over" && sc.Feature == "fractional-seconds" && o.Status == 401 && o.Ts == g.anchor.S {
					samples.keep("bnd:401", idx, func() any {
						return map[string]any{"part": "bounds", "versions": sc.String(), "signer": ids[o.Signer], "signed_ts": xi{o.Ts, 0}.String(), "status": o.Status}
					})
				}
			}
		}
		n := int64(len(outs) + len(ins))
		r.Add("evaluations", n)
		r.Add("bnd_evaluations", n)
		r.Add("bnd_out_evaluations", int64(len(outs)))
		r.Add("bnd_out_sent", sent)
		r.Add("bnd_out_not_sent", notSent)
		r.Add("bnd_in_evaluations", int64(len(ins)))
		r.Add("bnd_in_accepted", acc)
		r.Add("bnd_in_rejected", rej)
	}
	return forEach(len(units), workers, deadline, func(worker, i int) { judge(worker, i, units[i].g, units[i].pack) })
}
