package c17

// C17 "HMAC signing and secret rotation windows" decided by exhaustive
// enumeration (see the `rule` evidence key and MUTANTS.md).

import (
	"fmt"
	"os"
	"runtime"
	"runtime/debug"
	"sort"
	"strings"
	"sync"
	"sync/atomic"
	"testing"
	"time"

	"github.com/nuetzliches/hookaido/internal/verifkit/runner"
)

var selections = []string{modeDefault, "newest_valid", "oldest_valid"}

// forEach runs fn(worker, i) for i in [0,n) on `workers` goroutines; it stops
// handing out work after the deadline and reports whether all of it was done.
func forEach(n, workers int, deadline time.Time, fn func(worker, i int)) bool {
	var next int64 = -1
	var cut atomic.Bool
	var wg sync.WaitGroup
	for w := 0; w < workers; w++ {
		wg.Add(1)
		go func(w int) {
			defer wg.Done()
			for {
				i := int(atomic.AddInt64(&next, 1))
				if i >= n {
					return
				}
				if time.Now().After(deadline) {
					cut.Store(true)
					return
				}
				fn(w, i)
			}
		}(w)
	}
	wg.Wait()
	return !cut.Load()
}

// sampleBook keeps, per class, the example with the smallest enumeration index
// (so the evidence samples do not depend on goroutine scheduling).
type sampleBook struct {
	mu  sync.Mutex
	idx map[string]int
	val map[string]any
}

var samples = &sampleBook{idx: map[string]int{}, val: map[string]any{}}

func (b *sampleBook) keep(class string, idx int, v func() any) {
	b.mu.Lock()
	defer b.mu.Unlock()
	if old, ok := b.idx[class]; ok && old <= idx {
		return
	}
	b.idx[class], b.val[class] = idx, v()
}

// tieBook remembers, per selection mode, which end of the id order won a tie.
type tieBook struct {
	mu   sync.Mutex
	seen map[string]map[string]string // mode -> direction -> first example
}

func (b *tieBook) note(mode, dir string, example func() string) {
	if dir == noTie || dir == tieMiddle {
		return
	}
	b.mu.Lock()
	defer b.mu.Unlock()
	if b.seen == nil {
		b.seen = map[string]map[string]string{}
	}
	if b.seen[mode] == nil {
		b.seen[mode] = map[string]string{}
	}
	if _, ok := b.seen[mode][dir]; !ok {
		b.seen[mode][dir] = example()
	}
}

func TestCheck(t *testing.T) {
	r := runner.Start("C17", "exploration")
	debug.SetGCPercent(800) // tiny live heap, very high allocation rate: collect less often
	deadline := r.Deadline(75*time.Second, 12*time.Minute)
	os.Unsetenv(neverSetEnv)

	if p := runner.ReplayPath(); p != "" {
		runReplay(t, r, p)
		r.Finish()
		return
	}

	workers := runtime.NumCPU()
	if workers > 16 {
		workers = 16
	}
	ties := &tieBook{}
	done := true
	phases := map[string]float64{}
	timed := func(name string, f func() bool) {
		t0 := time.Now()
		done = f() && done
		phases[name] = float64(time.Since(t0).Milliseconds()) / 1000
	}
	// inbound and end-to-end first: they are the small parts and must not be the ones a budget cut-off loses
	timed("fixed", func() bool { return outboundFixed(r) })
	timed("inbound", func() bool { return inbound(t, r, deadline, workers) })
	// the clock as an environment that may answer differently each time it is asked within one Deliver call
	timed("clock_sequences", func() bool { return clockSequences(t, r, deadline, workers) })
	// the written text of the window bounds: fractions, zone offsets, spellings, epoch, year 1 and 9999, bounds 1 ns apart
	timed("bounds", func() bool { return boundSpellings(t, r, deadline, workers, ties) })
	// number / order / grouping of HMAC routes and of signed targets in one configuration, reloads between configurations
	timed("multi_inbound", func() bool { return multiInbound(t, r, deadline, workers) })
	timed("multi_outbound", func() bool { return multiOutbound(t, r, deadline, workers, ties) })
	timed("multi_e2e", func() bool { return multiE2E(t, r, deadline, workers, ties) })
	timed("e2e", func() bool { return endToEnd(t, r, deadline, workers, ties) })
	timed("outbound", func() bool { return outbound(r, deadline, workers, ties) })
	r.Set("phase_wall_s", phases)
	// the runner keeps the first six
	for _, class := range []string{"out:signed-after-tie", "bnd:signed", "bnd:401", "min:boot:401", "min:reloaded:202", "mout:signed", "in:401", "e2e:not-pushed",
		"out:not-sent", "in:202", "e2e:pushed", "min:boot:202", "min:reloaded:401", "mout:not-sent"} {
		if v, ok := samples.val[class]; ok {
			r.Sample(v)
		}
	}
	if !done {
		r.NotExhaustive("wall budget reached before the enumeration was complete")
	}

	// ties by id: one fixed direction per selection mode
	ties.mu.Lock()
	tieRule := map[string]string{}
	for mode, dirs := range ties.seen {
		var ds []string
		for d := range dirs {
			ds = append(ds, d)
		}
		sort.Strings(ds)
		tieRule[mode] = strings.Join(ds, "+")
		if len(dirs) > 1 {
			r.Violation("out:tie-direction-not-fixed:"+mode, fmt.Sprintf("equal valid_from under %s: the smallest id won in {%s} and the largest id in {%s}", mode, dirs[tieMin], dirs[tieMax]),
				map[string]any{"mode": mode, "smallest": dirs[tieMin], "largest": dirs[tieMax]}, nil)
		}
	}
	ties.mu.Unlock()
	r.Set("tie_break_observed", tieRule)

	r.Set("rule", "outbound: every ordered tuple of <=3 secret versions (id k1<k2<k3 by position) with valid_from in {t0,t1,t2} x valid_until in {none,t1,t2,t3} (>from) "+
		"x every order of the `sign hmac secret_ref` lines x secret_selection {absent,newest_valid,oldest_valid} x {all values loadable, version i not loadable at signing} "+
		"x clock in {t_i, t_i+-1ns, t_i+-1s : i=0..3} x request shape (2 header-name routes x 8 URL paths x 3 methods x 3 bodies x pre-existing signing headers; "+
		"the evidence keys out_configs_shape_level_{2,1,0} count the (tuple, order, selection) configurations crossed with all 288 / a 16 / a 2 element shape list), each one real Deliver call on the configuration compiled from DSL text and judged on the "+
		"HTTP/1.1 wire form the target receives; inbound: every such tuple x clock in {t_i, t_i+-1s} x signed timestamp in the same 12 instants x 2 routes x signer "+
		"{each version, inline secret, unconfigured secret} through the ingress handler in a synctest bubble; end-to-end: ingress->queue->running dispatcher->deliverer(time.Now) "+
		"per tuple/order/selection at all 20 clock instants (quick: tuples of <=2 versions; thorough: also all triples with identity and reversed secret_ref order). "+
		"Quick tier: shape list by tuple size 1/2/3 = 288/16/2, inbound (clock,timestamp) pairs for triples only with clock=timestamp; thorough: 288 shapes for tuples <=2 and for triples in "+
		"identity order with all values loadable, 16 or 2 for the other triple configurations, all 144 inbound pairs everywhere. distinct_nontrivial counts distinct (window pattern, clock position, selection/route, verdict) classes. "+
		"Multi-route inbound (min_*): a pool k1,k2,k3 with a window pattern {adjacent, nested, overlap, identical, gap, nested-newest-first} and an ordered list of 2..3 HMAC routes, each with its own kind = "+
		"(subset of the pool listed by secret_ref, own inline secret yes/no; 15 kinds, 3 spellings of the auth block), every assignment of kinds to positions; per configuration the complete table "+
		"route x signer {k1,k2,k3, inline secret of each route name, unconfigured} x signed timestamp {t_i, t_i+-1s}; accepted iff the signer is one of the route's OWN versions valid at the timestamp or its own inline secret. "+
		"Reload scenarios: every ordered pair (A,B) of a family (1..3 routes, every selection and order of the route names a,b,c, kinds from a 2..3 letter alphabet; B may reorder/add/remove routes, change a path's list and the windows of the ids): "+
		"boot A, lattice-timestamp table on A, rewrite the file, Reload (run()'s reloadConfig), complete table on B. Quick: 2 routes on pools adjacent+nested, 3 routes on pool nested, reload pairs adjacent->nested with 2 letters; "+
		"thorough: all pools, every listing order of every subset for 2 routes, 5 more pool pairs, A->B->A. "+
		"Multi-target outbound (mout_*, me2e_*): 2..3 signed targets, each its own subset of the pool / selection mode (5 patterns incl. all targets the same mode) / header names, every grouping of the targets into routes, "+
		"every target at all 20 clock instants through one HTTPDeliverer (Deliver calls) and end to end through the running dispatcher; a push request has to be signed by the version the rule picks among the target's OWN versions and is not sent when none of them is valid. "+
		"Written window bounds (bnd_*): the TEXT of valid_from / valid_until as a dimension. Per group (anchor second S = 2000-01-01T00:01:10Z, 1969-12-31T23:59:59Z, 1970-01-01T00:00:00Z, 9999-12-31T23:59:58Z, 0000-12-31T23:59:59Z; thorough also the two seconds in which int64 nanoseconds end, 2262 and 1677) "+
		"the written instants S+{0, 1ns, .5s, .999999999s, 1s} x zone {Z, +02:00, -07:00, +14:00} (main spellings), plus S+.5s at +05:30 and S+1s at -09:30, plus the alternative spellings lower-case t, lower-case z, +00:00, -00:00, comma fraction, nine-digit fraction, .0 / .000000000, surrounding blanks, "+
		"plus 9999-12-31T23:59:59.999999999Z and 9999-12-31T23:59:59-07:00 (an instant in year 10000). Scenario families: k1=[W,-), k1=[F0,W) over all spellings; k1=[W,W'), hand-over k1=[F0,W) k2=[W',-), k1=[W,-) k2=[W',-) over every ordered pair (W,W') of main spellings "+
		"(thorough: of all spellings, and chains k1=[F0,W1) k2=[W2,W3) k3=[W4,-) over the written instants) - so equal bounds in different spellings, bounds 1 ns apart, 1-ns windows, gaps and overlaps inside one second and until<=from all occur. "+
		"Each scenario: one Deliver call per selection mode at every clock instant of the group (each written instant, 1 ns before and after it, the whole seconds before/at/after it, one instant in 2000; ascending) and one inbound request per signer {each version, unconfigured} x "+
		"signed timestamp (those whole seconds, as far as an inbound request can carry them) x route {tolerance 100000d, default tolerance}. Reference: the harness reads the text it wrote with its own RFC 3339 reader (integer arithmetic, proleptic Gregorian, no package time): "+
		"valid iff from <= t < until as written. A configuration the application refuses to start is counted (bnd_*_refused_*) and not judged; what starts has to read every bound as written. "+
		"Clock-answer sequences (seq_*): the deliverer's clock seam answers from a script (answer by reading index within ONE Deliver call, the last answer repeats). Every tuple of <=3 versions (all loadable) x selection x secret_ref order "+
		"(triples, quick: identity and reversed order, 1 request shape; otherwise all orders, 2 shapes) x every constant script [b], b in the 20 clock instants; then, driven by the number m of readings the call actually made, every consumed reading index j (behind the script's fixed part, j < maxReads) "+
		"is given every other instant c (earlier or later), recursively up to maxDev deviations (quick maxReads=4 maxDev=1, thorough 6/2; coverage key seq_bounds; the part has a wall budget of its own, 25 s / 4 min, that only matters on a tree that reads the clock more than once per call). A deviation at an index the call never reads is the same run as without it and is not repeated. "+
		"Judged: a request that is sent carries unix-seconds T and is signed by a version v such that ONE of the instants a the clock answered in this call has unix(a)=T and v in the rule-selected group at a; nothing sent only if at one of the answers no version is valid. "+
		"seq_calls_with_<m>_clock_readings shows how many readings the tree under test makes (one reading = the dimension collapses to the constant scripts). "+
		"Race side pass (TestRace, -race build): concurrent signed requests to three routes with different lists, reloads that reorder them, and concurrent Deliver calls for three targets on one deliverer.")
	r.Assume("time lattice t0=2000-01-01T00:01:00Z, step 10s in every part but the written-bounds part (bnd_*), which is the one that enumerates sub-second bounds, zone offsets, spellings and extreme years - on sets of <= 2 versions (thorough: chains of 3), one route / target per set")
	r.Assume("written bounds: fractions of more than 9 digits, leap seconds (:60), 24:00:00, offsets beyond +-14:00 and years outside 0000..9999 are not written; a refused configuration (e.g. lower-case t/z, valid_until not after valid_from, a bound at 0001-01-01T00:00:00Z) is an admissible outcome and is not judged; inbound timestamps further than 100000d from the bubble clock (year 9999, year 1) cannot be presented, those groups are judged inbound at the clock's own second only")
	r.Assume("ties by id: the documentation does not say which id wins, so either end of the id order is accepted, but it has to be the same end for a selection mode everywhere and must not depend on the order of the secret_ref lines")
	r.Assume("`cannot be loaded`: an env: ref whose variable is unset at signing time (set during boot for versions of the secrets block, because loadAuth refuses to boot otherwise; boot refusal itself is probed separately); file:/vault: refs use the same LoadRef path and are not enumerated")
	r.Assume("methods other than POST are only reachable through the Deliverer API (the dispatcher always uses POST); lower-case method spellings are not enumerated")
	r.Assume("multi-route / multi-target parts: pools of 3 ids, at most 3 HMAC routes or 3 signed targets per configuration; routes without `auth hmac` between the HMAC routes are not enumerated; a reload that changes deliver targets needs a restart (dispatcherConfigEqual) and is therefore not a live transition")
	r.Assume("inbound tolerance/nonce replay rules belong to other properties: every (clock, timestamp) pair is inside the default 5m tolerance and every request has a fresh nonce")
	r.Finish()
}

// ---- outbound ---------------------------------------------------------------

// outUnit is one booted configuration: a tuple of versions and which of them
// (if any) cannot be loaded at signing time; its routes carry every
// selection x secret_ref order.
type outUnit struct {
	Windows []win
	Unload  int
}

func outUnits() []outUnit {
	var us []outUnit
	for _, set := range allSets(3) {
		for u := -1; u < len(set); u++ {
			us = append(us, outUnit{set, u})
		}
	}
	return us // allSets yields the small tuples first within every prefix; a budget cut-off loses the tail
}

// shapeLists: index 0 mini (2 shapes) < 1 slim (16) < 2 full (288), each a subset of the next.
func shapeLists() [3][]shape {
	slim := slimShapes()
	return [3][]shape{{slim[2], slim[len(slim)-4]}, slim, fullShapes()}
}

// shapeLevel: which request shapes a (tuple size, loadability, secret_ref order) is crossed with in a tier.
// Thorough is at least quick everywhere.
func shapeLevel(r *runner.Run, n, unload, permIdx int) int {
	if r.Quick() {
		switch n {
		case 1:
			return 2
		case 2:
			return 1
		}
		return 0
	}
	switch {
	case n <= 2, unload < 0 && permIdx == 0:
		return 2
	case unload < 0 || permIdx == 0:
		return 1
	}
	return 0
}

func outbound(r *runner.Run, deadline time.Time, workers int, ties *tieBook) bool {
	clocks := clockInstants()
	lists := shapeLists()
	full := lists[2]
	fullIdx := map[shape]int{}
	for i, sh := range full {
		fullIdx[sh] = i
	}
	units := outUnits()
	const unset = int8(127)
	return forEach(len(units), workers, deadline, func(worker, ui int) {
		u := units[ui]
		n := len(u.Windows)
		vars := allVariants(n)
		nPerm := len(vars) / len(selections)
		env, err := bootOut(u.Windows, u.Unload, worker, vars, true)
		if err != nil {
			infraOnce(r, "outbound-boot", "outbound boot (%s unload=%d): %v", pattern(u.Windows), u.Unload, err)
			return
		}
		defer env.close()
		// control: an unsigned target must get its request, otherwise "not sent" below would mean nothing
		if got, err := env.deliver("/out/plain", targetOrigin+"/control", shape{Method: 1, Body: 1}, outRoutes[0].Expected, clocks[0].At); err != nil || len(got) != 1 {
			infraOnce(r, "outbound-control", "unsigned control delivery not observed (%v, %d requests)", err, len(got))
			return
		}
		first := make([]int8, len(clocks)*len(full)) // pick of the first secret_ref order, per selection
		var evals, sent, notSent, noValid, unloadable, tieCases, cachedSecret int64
		levels := make([]int, len(vars))
		for vi := range vars {
			levels[vi] = shapeLevel(r, n, u.Unload, vi%nPerm)
			r.Add(fmt.Sprintf("out_configs_shape_level_%d", levels[vi]), 1)
		}
		abort := false
		unitOrder(len(vars), levels, lists, clocks, func(vi, ci, si int, sh shape, clk instant) bool {
			v := vars[vi]
			permIdx := vi % nPerm
			if permIdx == 0 && ci == 0 && si == 0 {
				for i := range first {
					first[i] = unset
				}
			}
			spec := env.spec(vi)
			pick, tie, fl, infra := env.evalCase(vi, sh, clk)
			evals++
			if infra != nil {
				infraOnce(r, "outbound-case", "outbound case: %v", infra)
				abort = true
				return false
			}
			if fl != nil {
				report(r, fl, func() []repro { return outRepros(u.Windows, u.Unload, vars, levels, vi, ci, si, sh, clocks) })
			}
			if tie != noTie {
				tieCases++
				ties.note(v.Sel, tie, func() string { return fmt.Sprintf("%s clock=%s", spec, clk.Label) })
			}
			switch {
			case pick >= 0:
				sent++
				if pick == u.Unload {
					cachedSecret++
				}
			case pick == pickNone:
				notSent++
				if len(refGroup(u.Windows, v.Sel, clk.At.UnixNano())) == 0 {
					noValid++
				} else {
					unloadable++
				}
			}
			idx := ci*len(full) + fullIdx[sh]
			switch {
			case pick == pickFailed:
			case permIdx == 0:
				first[idx] = int8(pick)
			case first[idx] != unset && int(first[idx]) != pick:
				report(r, &failure{"out:pick-depends-on-secret_ref-order", fmt.Sprintf("same versions, clock and rule, but listing order %v gives %s and listing order %v gives %s; %s clock=%s",
					v.Order, pickName(pick), vars[vi-permIdx].Order, pickName(int(first[idx])), spec, clk.Label)}, func() []repro {
					un := u.Unload
					return []repro{{doc: replayDoc{Part: "outbound", History: "relational finding: compare the two secret_ref orders (both are variants of this boot) at the step's clock and shape",
						Windows: u.Windows, Unload: &un, Variants: []variant{vars[vi-permIdx], v}, Steps: []outStep{{V: 0, Shape: sh, Clock: clk.Label}, {V: 1, Shape: sh, Clock: clk.Label}}}}}
				})
			}
			if permIdx == 0 && si == 0 {
				r.Distinct(fmt.Sprintf("out|%s|%s|%s|u%d|%s", pattern(u.Windows), clk.Label, v.Sel, u.Unload, pickName(pick)))
				if tie != noTie || pick == pickNone {
					class := "out:signed-after-tie"
					if pick == pickNone {
						class = "out:not-sent"
					}
					samples.keep(class, ui*1000+vi*20+ci, func() any {
						return map[string]any{"part": "outbound", "windows": pattern(u.Windows), "secret_ref_order": v.Order, "selection": v.Sel, "unloadable": u.Unload, "clock": clk.Label,
							"url": targetOrigin + urlPaths[sh.Path].Raw, "verdict": pickName(pick)}
					})
				}
			}
			return true
		})
		if abort {
			return
		}
		if p := env.rec.problems(); len(p) > 0 {
			infraOnce(r, "recorder", "recording transport: %v", p)
		}
		r.Add("evaluations", evals)
		r.Add("out_evaluations", evals)
		r.Add("out_sent", sent)
		r.Add("out_not_sent", notSent)
		r.Add("out_not_sent_no_valid_version", noValid)
		r.Add("out_not_sent_unloadable_secret", unloadable)
		r.Add("out_tie_cases", tieCases)
		r.Add("out_signed_with_value_read_at_boot", cachedSecret)
		r.Add("out_boots", 1)
	})
}

func pickName(p int) string {
	switch {
	case p >= 0:
		return "signed:" + ids[p]
	case p == pickNone:
		return "not-sent"
	}
	return "failed"
}

// outboundFixed: targets whose signing does not depend on windows — a direct
// `sign hmac raw:...` (always signed), a direct `sign hmac env:<unset>` (never
// sent) — at every clock instant and shape; and the refusal to boot when a
// version of the secrets block cannot be loaded at start.
func outboundFixed(r *runner.Run) bool {
	clocks := clockInstants()
	env, err := bootOut([]win{{0, -1}}, -1, recheckWorker+1, allVariants(1), true)
	if err != nil {
		r.Infra("outboundFixed boot: %v", err)
		return true
	}
	defer env.close()
	names := outRoutes[0].Expected
	doc := func(clk instant) replayDoc {
		return replayDoc{Part: "fixed", History: "direct (window-less) signing targets, all clock instants in order on one deliverer", Clocks: []string{clk.Label}, DSL: env.dsl}
	}
	for _, clk := range clocks {
		for m := range methods {
			for b := range bodies {
				for h := 0; h < 2; h++ {
					sh := shape{Method: m, Body: b, PreHdr: h}
					got, err := env.deliver("/out/direct", targetOrigin+"/direct%2Fx", sh, names, clk.At)
					if err != nil {
						r.Infra("%v", err)
						return true
					}
					r.Add("evaluations", 2)
					unix := unixFloor(clk.At.UnixNano())
					switch {
					case len(got) != 1:
						report(r, &failure{"out:direct-secret:not-sent-once", fmt.Sprintf("%d requests for a target with `sign hmac raw:...` at %s", len(got), clk.Label)}, func() []repro { return []repro{{doc: doc(clk)}} })
					case got[0].Header.Get(names.Ts) != fmt.Sprint(unix):
						report(r, &failure{"out:direct-secret:timestamp-header", fmt.Sprintf("timestamp header %q, want %d", got[0].Header.Get(names.Ts), unix)}, func() []repro { return []repro{{doc: doc(clk)}} })
					case got[0].Header.Get(names.Sig) != refOutboundSig([]byte(directSecret), got[0].Method, got[0].path(), unix, got[0].Body):
						report(r, &failure{"out:direct-secret:signature", fmt.Sprintf("signature header %q is not the reference HMAC over (%s,%s,%d,body)", got[0].Header.Get(names.Sig), got[0].Method, got[0].path(), unix)}, func() []repro { return []repro{{doc: doc(clk)}} })
					default:
						r.Add("out_sent", 1)
					}
					got, err = env.deliver("/out/unset", targetOrigin+"/unset", sh, names, clk.At)
					if err != nil {
						r.Infra("%v", err)
						return true
					}
					if len(got) != 0 {
						report(r, &failure{"out:unloadable-direct-secret:sent", fmt.Sprintf("a request was sent for a target whose `sign hmac env:%s` cannot be loaded (clock %s)", neverSetEnv, clk.Label)}, func() []repro { return []repro{{doc: doc(clk)}} })
					} else {
						r.Add("out_not_sent", 1)
						r.Add("out_not_sent_unloadable_secret", 1)
					}
				}
			}
		}
	}
	r.Distinct("out|direct-secret|signed")
	r.Distinct("out|direct-env-unset|not-sent")

	// a version of the secrets block that cannot be loaded at start: does the application start at all?
	for _, set := range allSets(2) {
		for u := range set {
			os.Unsetenv(envName(recheckWorker+2, u))
			a, err := bootRaw(outDSL(set, u, recheckWorker+2, allVariants(len(set))), recheckWorker+2)
			r.Add("evaluations", 1)
			if err == nil {
				// it started; what it then sends is what the enumeration with Unload >= 0 judges
				a.Shutdown()
				r.Add("boot_accepted_unloadable_secret", 1)
			} else {
				r.Add("boot_refused_unloadable_secret", 1)
			}
		}
	}
	r.Distinct("boot|secrets-block-env-unset")
	return true
}

// ---- inbound ----------------------------------------------------------------

func inbound(t *testing.T, r *runner.Run, deadline time.Time, workers int) bool {
	sets := allSets(3)
	insts := secondInstants()
	return forEach(len(sets), workers, deadline, func(worker, i int) {
		set := sets[i]
		// quick: all (clock, timestamp) pairs for tuples of <= 2 versions, clock == timestamp for triples; thorough: all pairs everywhere
		skew := r.Thorough() || len(set) <= 2
		cases := inboundCases(len(set), skew)
		res, infra := runInboundSet(t, set, worker, cases)
		if infra != nil {
			infraOnce(r, "inbound-run", "inbound: %v", infra)
			return
		}
		var acc, rej int64
		for xi, x := range res {
			if x.Status == 202 {
				acc++
			} else {
				rej++
			}
			if x.Status != 202 && x.Status != 401 {
				infraOnce(r, "inbound-status", "inbound: status %d (neither 202 nor 401) for set %s case %+v", x.Status, pattern(set), x.Case)
				return
			}
			if fl := inFailure(set, x, insts); fl != nil {
				report(r, fl, func() []repro { return inRepros(t, set, cases, xi) })
			}
			if x.Case.Signer >= 0 {
				rel := "clock=ts"
				if x.Case.Clock != x.Case.Ts {
					rel = "clock!=ts"
				}
				r.Distinct(fmt.Sprintf("in|%s|%s|%s|r%d|%d", set[x.Case.Signer], insts[x.Case.Ts].Label, rel, x.Case.Route, x.Status))
				if rel == "clock!=ts" && len(set) > 1 {
					x := x
					samples.keep(fmt.Sprintf("in:%d", x.Status), i, func() any {
						return map[string]any{"part": "inbound", "windows": pattern(set), "route": inRoutes[x.Case.Route].Route, "signer": x.Case.signerName(),
							"signed_ts": insts[x.Case.Ts].Label, "clock": insts[x.Case.Clock].Label, "status": x.Status}
					})
				}
			}
		}
		r.Add("evaluations", int64(len(res)))
		r.Add("in_evaluations", int64(len(res)))
		r.Add("in_accepted", acc)
		r.Add("in_rejected", rej)
		r.Add("in_bubbles", 1)
	})
}

// ---- end to end -------------------------------------------------------------

func endToEnd(t *testing.T, r *runner.Run, deadline time.Time, workers int, ties *tieBook) bool {
	clocks := clockInstants()
	// quick: tuples of <= 2 versions with every selection x order; thorough: also all triples, with
	// every selection x {identity, reversed} order of the secret_ref lines
	sets := allSets(runner.Pick(r, 2, 3))
	return forEach(len(sets), workers, deadline, func(worker, i int) {
		set := sets[i]
		vars := allVariants(len(set))
		if len(set) == 3 {
			var vs []variant
			nPerm := len(vars) / len(selections)
			for vi, v := range vars {
				if vi%nPerm == 0 || vi%nPerm == nPerm-1 {
					vs = append(vs, v)
				}
			}
			vars = vs
		}
		obs, infra := runE2E(t, set, worker, vars, clocks)
		if infra != nil {
			infraOnce(r, "e2e-run", "e2e (%s): %v", pattern(set), infra)
			return
		}
		var pushes, silent int64
		for _, o := range obs {
			spec := outSpec{Windows: set, Order: vars[o.Var].Order, Sel: vars[o.Var].Sel, Unload: -1}
			pick, tie, missing, fl := judgeE2E(spec, o)
			if missing != 0 {
				infraOnce(r, "e2e-missing-push", "e2e: %d push requests for the %d targets of %s although a version is selectable (%s clock=%s): the dispatcher did not reach every target, the end-to-end part cannot decide", len(o.Got), len(urlPaths), routeOf(o.Var, o.Route), spec, o.Clock.Label)
				return
			}
			if fl != nil {
				o := o
				report(r, fl, func() []repro { return e2eRepros(t, set, vars, clocks, o) })
			}
			if tie != noTie {
				ties.note(spec.Sel, tie, func() string { return fmt.Sprintf("e2e %s clock=%s", spec, o.Clock.Label) })
			}
			pushes += int64(len(o.Got))
			if len(o.Got) == 0 {
				silent++
			}
			if len(set) > 1 && o.Route == 1 {
				o := o
				class := "e2e:pushed"
				if len(o.Got) == 0 {
					class = "e2e:not-pushed"
				}
				samples.keep(class, i, func() any {
					return map[string]any{"part": "e2e", "windows": pattern(set), "secret_ref_order": spec.Order, "selection": spec.Sel, "clock": o.Clock.Label, "route": routeOf(o.Var, o.Route), "push_requests": len(o.Got), "verdict": pickName(pick)}
				})
			}
			if o.Route == 0 {
				r.Distinct(fmt.Sprintf("e2e|%s|%s|%s|%s", pattern(spec.Windows), o.Clock.Label, spec.Sel, pickName(pick)))
			}
		}
		r.Add("evaluations", int64(len(obs)))
		r.Add("e2e_evaluations", int64(len(obs)))
		r.Add("e2e_push_requests_checked", pushes)
		r.Add("e2e_messages_not_pushed", silent)
		r.Add("e2e_bubbles", 1)
	})
}
