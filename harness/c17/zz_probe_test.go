package c17

import (
	"fmt"
	"runtime"
	"runtime/debug"
	"testing"
	"time"

	"github.com/nuetzliches/hookaido/internal/verifkit/runner"
)

func TestProbe(t *testing.T) {
	r := runner.Start("C17", "exploration")
	debug.SetGCPercent(800)
	deadline := r.Deadline(75*time.Second, 12*time.Minute)
	workers := runtime.NumCPU()
	if workers > 16 {
		workers = 16
	}
	ties := &tieBook{}
	t0 := time.Now()
	done := boundSpellings(t, r, deadline, workers, ties)
	fmt.Printf("bounds: done=%v wall=%v ties=%v\n", done, time.Since(t0), ties.seen)
	for _, c := range []string{"bnd:signed", "bnd:401"} {
		if v, ok := samples.val[c]; ok {
			r.Sample(v)
		}
	}
	r.Set("rule", "probe")
	r.Finish()
}
