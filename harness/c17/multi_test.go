package c17

// Multi-route inbound part: "number and order of HMAC routes" as a dimension.
//
// A configuration is a pool of three secret versions (the `secrets` block) and
// an ordered list of routes; every route lists its OWN subset of the pool
// (`auth hmac secret_ref`, in its own listing order) and/or its own inline
// secret. The configuration text goes through the production path
// (app.VerifBoot: Parse -> Compile -> loadAuth -> startServers; reloads through
// VerifApp.Reload = run()'s reloadConfig -> applyCompiled -> loadAuth) and then
// the complete table (route x signer x signed timestamp) is presented to the
// ingress handler. The reference: a request to route R signed with secret V for
// timestamp T is accepted iff V is one of R's own versions and valid at T, or
// R's own inline secret — never because V belongs to another route of the same
// configuration, or to the configuration that was running before a reload.

import (
	"bufio"
	"fmt"
	"net/http"
	"net/http/httptest"
	"os"
	"strings"
	"testing"
	"testing/synctest"
	"time"

	"github.com/nuetzliches/hookaido/internal/app"
	"github.com/nuetzliches/hookaido/internal/queue"
	"github.com/nuetzliches/hookaido/internal/verifkit/runner"
)

// ---- domain -----------------------------------------------------------------

const mPoolSize = 3

// mPools: window patterns of the pool k1,k2,k3 (position = id).
var mPools = []struct {
	Name string
	W    []win
}{
	{"adjacent", []win{{0, 1}, {1, 2}, {2, -1}}},      // rotation chain without overlap: exactly one version valid from t0 on
	{"nested", []win{{0, -1}, {1, 3}, {1, 2}}},        // k3 inside k2 inside k1; the newer ones end before the older one; k2/k3 tie on valid_from
	{"overlap", []win{{0, 2}, {1, 3}, {2, -1}}},       // rotation chain with overlap
	{"identical", []win{{1, 2}, {1, 2}, {1, 2}}},      // three versions, one window
	{"gap", []win{{0, 1}, {2, 3}, {2, -1}}},           // nothing valid in [t1,t2)
	{"nested-newest-first", []win{{2, 3}, {1, -1}, {0, -1}}}, // the smallest id is the newest and the shortest-lived
}

// mNames: the identity of a route — path, spelling of the auth block, header
// names, its own inline secret. The identity travels with the route when a
// configuration is reordered.
var mNames = []struct {
	Route, Pull, Form string
	Sig, Ts, Nonce    string
	Custom            bool
	Inline            string
}{
	{"/m/a", "/e/m-a", "lines", "X-Signature", "X-Timestamp", "X-Nonce", false, "inline-secret-of-route-a-01"},
	{"/m/b", "/e/m-b", "block", "X-C17-Sig", "X-C17-Ts", "X-C17-Nonce", true, "inline-secret-of-route-b-0022"},
	{"/m/c", "/e/m-c", "block-one-line", "X-Signature", "X-Timestamp", "X-Nonce", false, "inline-secret-of-route-c-333"},
}

type mRoute struct {
	Name   int   `json:"name"`   // index into mNames
	Refs   []int `json:"refs"`   // pool versions in listing order (no duplicates: a duplicate is a compile error)
	Inline bool  `json:"inline"` // carries its own inline (window-less) secret
}

type mConfig struct {
	Pool   int      `json:"pool"` // index into mPools
	Routes []mRoute `json:"routes"`
}

func (c mConfig) String() string {
	var p []string
	for _, rt := range c.Routes {
		s := mNames[rt.Name].Route + "="
		for _, x := range rt.Refs {
			s += ids[x]
		}
		if rt.Inline {
			s += "+inline"
		}
		p = append(p, s)
	}
	return mPools[c.Pool].Name + "[" + strings.Join(p, " ") + "]"
}

// mScenario: boot Cfgs[0], then reload to Cfgs[1], Cfgs[2], ... (same listeners).
type mScenario struct {
	Cfgs []mConfig `json:"configs"`
}

func mDSL(listen string, cfg mConfig, worker int) string {
	var b strings.Builder
	b.WriteString(listen)
	b.WriteString(secretsBlock(mPools[cfg.Pool].W, -1, worker))
	for _, rt := range cfg.Routes {
		nm := mNames[rt.Name]
		fmt.Fprintf(&b, "%s {\n", nm.Route)
		switch nm.Form {
		case "lines":
			for _, x := range rt.Refs {
				fmt.Fprintf(&b, "  auth hmac secret_ref %q\n", ids[x])
			}
			if rt.Inline {
				fmt.Fprintf(&b, "  auth hmac %q\n", "raw:"+nm.Inline)
			}
		case "block":
			b.WriteString("  auth hmac {\n")
			if rt.Inline {
				fmt.Fprintf(&b, "    secret %q\n", "raw:"+nm.Inline)
			}
			for _, x := range rt.Refs {
				fmt.Fprintf(&b, "    secret_ref %q\n", ids[x])
			}
			b.WriteString("    signature_header \"x-c17-sig\"\n    timestamp_header \"X-C17-Ts\"\n    nonce_header \"X-C17-Nonce\"\n  }\n")
		default: // block, all secret_ref values on one line
			b.WriteString("  auth hmac {\n")
			if len(rt.Refs) > 0 {
				b.WriteString("    secret_ref")
				for _, x := range rt.Refs {
					fmt.Fprintf(&b, " %q", ids[x])
				}
				b.WriteString("\n")
			}
			if rt.Inline {
				fmt.Fprintf(&b, "    secret %q\n", "raw:"+nm.Inline)
			}
			b.WriteString("  }\n")
		}
		fmt.Fprintf(&b, "  pull { path %s }\n}\n", nm.Pull)
	}
	return b.String()
}

// mSubsets: the 7 non-empty subsets of the pool, ascending ids.
func mSubsets() [][]int {
	var out [][]int
	for m := 1; m < 1<<mPoolSize; m++ {
		var s []int
		for i := 0; i < mPoolSize; i++ {
			if m&(1<<i) != 0 {
				s = append(s, i)
			}
		}
		out = append(out, s)
	}
	return out
}

type mKind struct {
	Refs   []int
	Inline bool
}

// mKinds: what one HMAC route can carry. allOrders=false: the 7 subsets in
// ascending listing order; true: every listing order of every subset (15
// lists). Each with and without the inline secret, plus inline only.
func mKinds(allOrders bool) []mKind {
	var lists [][]int
	for _, s := range mSubsets() {
		if !allOrders {
			lists = append(lists, s)
			continue
		}
		for _, p := range permutations(len(s)) {
			l := make([]int, len(s))
			for i, x := range p {
				l[i] = s[x]
			}
			lists = append(lists, l)
		}
	}
	var out []mKind
	for _, l := range lists {
		out = append(out, mKind{l, false}, mKind{l, true})
	}
	return append(out, mKind{nil, true})
}

func reversed(l []int) []int {
	out := make([]int, len(l))
	for i, x := range l {
		out[len(l)-1-i] = x
	}
	return out
}

// mBaseConfigs: every assignment of a kind to each of n routes (names a,b,c by
// position). parity: with ascending kinds, the routes at odd positions list
// their refs in descending order instead.
func mBaseConfigs(pool, n int, kinds []mKind, parity bool) []mConfig {
	var out []mConfig
	idx := make([]int, n)
	for {
		cfg := mConfig{Pool: pool}
		for p := 0; p < n; p++ {
			k := kinds[idx[p]]
			refs := k.Refs
			if parity && p%2 == 1 {
				refs = reversed(refs)
			}
			cfg.Routes = append(cfg.Routes, mRoute{Name: p, Refs: refs, Inline: k.Inline})
		}
		out = append(out, cfg)
		p := n - 1
		for ; p >= 0; p-- {
			idx[p]++
			if idx[p] < len(kinds) {
				break
			}
			idx[p] = 0
		}
		if p < 0 {
			return out
		}
	}
}

// mReloadAlphabet: the kinds a route takes in the reload family (differing in
// membership, size, listing order and inline secret).
var mReloadAlphabet = []mKind{
	{[]int{0, 1}, false},
	{[]int{2}, true},
	{[]int{2, 1, 0}, false},
}

// mReloadFamily: every ordered selection of 1..3 distinct route names x every
// assignment of the first k alphabet kinds to them.
func mReloadFamily(pool, k int) []mConfig {
	var out []mConfig
	var rec func(cur []mRoute, used int)
	rec = func(cur []mRoute, used int) {
		if len(cur) > 0 {
			out = append(out, mConfig{Pool: pool, Routes: append([]mRoute(nil), cur...)})
		}
		if len(cur) == len(mNames) {
			return
		}
		for nm := range mNames {
			if used&(1<<nm) != 0 {
				continue
			}
			for _, kd := range mReloadAlphabet[:k] {
				rec(append(cur, mRoute{Name: nm, Refs: kd.Refs, Inline: kd.Inline}), used|1<<nm)
			}
		}
	}
	rec(nil, 0)
	return out
}

// ---- cases and reference ------------------------------------------------------

// signers: 0..2 = pool version; 3..5 = inline secret of route name a..c; 6 = a secret configured nowhere.
const mSigners = 2*mPoolSize + 1

type mCase struct {
	Stage  int `json:"stage"`  // index into the scenario's configurations
	Route  int `json:"route"`  // position in that configuration
	Clock  int `json:"clock"`  // index into secondInstants()
	Ts     int `json:"ts"`     // index into secondInstants()
	Signer int `json:"signer"`
}

func mSignerName(s int) string {
	switch {
	case s < mPoolSize:
		return ids[s]
	case s < 2*mPoolSize:
		return "inline-of-" + mNames[s-mPoolSize].Route
	}
	return "unconfigured"
}

func mSignerSecret(s int) string {
	switch {
	case s < mPoolSize:
		return secretValues[s]
	case s < 2*mPoolSize:
		return mNames[s-mPoolSize].Inline
	}
	return unknownSecret
}

// mRefAccept: the reference verdict, from the route's own lines only.
func mRefAccept(cfg mConfig, route, signer int, tsNs int64) bool {
	rt := cfg.Routes[route]
	switch {
	case signer < mPoolSize:
		return member(rt.Refs, signer) && refValid(mPools[cfg.Pool].W[signer], tsNs)
	case signer < 2*mPoolSize:
		return rt.Inline && rt.Name == signer-mPoolSize
	}
	return false
}

// mTable: the cases of one stage. sweep: the clock follows the signed timestamp
// through all 12 instants (single-configuration scenarios); otherwise the clock
// stays at the first instant (the verdict depends on the signed timestamp only;
// every pair is far inside the tolerance). lattice: only the timestamps t_i+0.
func mTable(cfg mConfig, stage int, sweep, lattice bool) []mCase {
	var out []mCase
	for ti, in := range secondInstants() {
		if lattice && in.Off != "+0" {
			continue
		}
		ci := 0
		if sweep {
			ci = ti
		}
		for r := range cfg.Routes {
			for s := 0; s < mSigners; s++ {
				out = append(out, mCase{Stage: stage, Route: r, Clock: ci, Ts: ti, Signer: s})
			}
		}
	}
	return out
}

// mCases: a single configuration gets the full table with the clock sweep; in a
// reload scenario every configuration before the last is used with the lattice
// timestamps (so that its authenticators have worked before they are replaced)
// and the last one gets the full table.
func mCases(sc mScenario) []mCase {
	if len(sc.Cfgs) == 1 {
		return mTable(sc.Cfgs[0], 0, true, false)
	}
	var out []mCase
	for i, cfg := range sc.Cfgs {
		out = append(out, mTable(cfg, i, false, i < len(sc.Cfgs)-1)...)
	}
	return out
}

func mRequest(cfg mConfig, c mCase, insts []instant, seq int) (*http.Request, error) {
	nm := mNames[cfg.Routes[c.Route].Name]
	body := inBodies[seq%len(inBodies)]
	unix := insts[c.Ts].At.Unix()
	sig := refInboundSig([]byte(mSignerSecret(c.Signer)), unix, "POST", nm.Route, body)
	raw := fmt.Sprintf("POST %s HTTP/1.1\r\nHost: hooks.test\r\nContent-Type: application/octet-stream\r\n%s: %d\r\n%s: %s\r\n%s: m-%d\r\nContent-Length: %d\r\n\r\n%s",
		nm.Route, nm.Ts, unix, nm.Sig, sig, nm.Nonce, seq, len(body), body)
	req, err := http.ReadRequest(bufio.NewReader(strings.NewReader(raw)))
	if err != nil {
		return nil, err
	}
	req.RemoteAddr = "198.51.100.9:40002"
	return req, nil
}

// runMulti boots the first configuration of the scenario inside a bubble and
// presents the cases in order (ascending Stage, and ascending Clock); before
// the first case of a later stage the configuration file is rewritten and
// reloaded. Returns the status per case.
func runMulti(t *testing.T, sc mScenario, worker int, cases []mCase) (status []int, infra error) {
	insts := secondInstants()
	synctest.Test(t, func(t *testing.T) {
		listen := listenBlock()
		a, err := app.VerifBoot(app.VerifBootOptions{Dir: fmt.Sprintf("%s/w%d", runner.Scratch(), worker), ConfigText: mDSL(listen, sc.Cfgs[0], worker), Store: queue.NewMemoryStore()})
		if err != nil {
			infra = fmt.Errorf("boot %s: %v", sc.Cfgs[0], err)
			return
		}
		defer a.Shutdown()
		if a.Ingress == nil {
			infra = fmt.Errorf("no ingress handler")
			return
		}
		stage := 0
		for seq, c := range cases {
			if c.Stage < stage || c.Stage >= len(sc.Cfgs) {
				infra = fmt.Errorf("cases not ordered by stage")
				return
			}
			for stage < c.Stage {
				stage++
				if err := os.WriteFile(a.ConfigPath, []byte(mDSL(listen, sc.Cfgs[stage], worker)), 0o644); err != nil {
					infra = err
					return
				}
				if !a.Reload("c17-multi") {
					infra = fmt.Errorf("reload %s -> %s was not applied", sc.Cfgs[stage-1], sc.Cfgs[stage])
					return
				}
			}
			at := insts[c.Clock].At
			if d := time.Until(at); d > 0 {
				time.Sleep(d)
			} else if d < 0 {
				infra = fmt.Errorf("cases not ordered by clock")
				return
			}
			if !time.Now().Equal(at) {
				infra = fmt.Errorf("virtual clock is %s, want %s", time.Now(), at)
				return
			}
			req, err := mRequest(sc.Cfgs[c.Stage], c, insts, seq)
			if err != nil {
				infra = err
				return
			}
			rec := httptest.NewRecorder()
			a.Ingress.ServeHTTP(rec, req)
			status = append(status, rec.Code)
		}
	})
	return status, infra
}

// mClass: how the signer relates to the addressed route (for keys and coverage classes).
func mClass(sc mScenario, c mCase) string {
	cfg := sc.Cfgs[c.Stage]
	rt := cfg.Routes[c.Route]
	switch {
	case c.Signer < mPoolSize:
		if member(rt.Refs, c.Signer) {
			return "own-version"
		}
		for i, o := range cfg.Routes {
			if i != c.Route && member(o.Refs, c.Signer) {
				return "version-of-another-route"
			}
		}
		return "version-on-no-route"
	case c.Signer < 2*mPoolSize:
		nm := c.Signer - mPoolSize
		if rt.Name == nm {
			if rt.Inline {
				return "own-inline"
			}
			return "inline-not-configured"
		}
		for _, o := range cfg.Routes {
			if o.Name == nm && o.Inline {
				return "inline-of-another-route"
			}
		}
		return "inline-not-configured"
	}
	return "unconfigured"
}

// mFailure classifies a mismatch (status is 202 or 401).
func mFailure(sc mScenario, c mCase, status int, insts []instant) *failure {
	cfg := sc.Cfgs[c.Stage]
	tsNs := insts[c.Ts].At.UnixNano()
	want := mRefAccept(cfg, c.Route, c.Signer, tsNs)
	accepted := status == http.StatusAccepted
	if accepted == want {
		return nil
	}
	class := mClass(sc, c)
	var key string
	switch {
	case !accepted && class == "own-version":
		key = "in:multi:rejected-own-valid-secret"
	case !accepted:
		key = "in:multi:rejected-own-inline-secret"
	case class == "own-version" && tsNs < lat(mPools[cfg.Pool].W[c.Signer].From).UnixNano():
		key = "in:multi:accepted-not-yet-valid-secret"
	case class == "own-version":
		key = "in:multi:accepted-expired-secret"
	default:
		key = "in:multi:accepted-" + class
	}
	if c.Route == len(cfg.Routes)-1 {
		key += ":last-route"
	} else {
		key += ":not-last-route"
	}
	msg := fmt.Sprintf("configuration %s route %s (position %d of %d) signer %s signed-ts %s clock %s: status %d, the route's own lines say accept=%v",
		cfg, mNames[cfg.Routes[c.Route].Name].Route, c.Route+1, len(cfg.Routes), mSignerName(c.Signer), insts[c.Ts].Label, insts[c.Clock].Label, status, want)
	if c.Stage > 0 {
		key += ":after-reload"
		prev := sc.Cfgs[c.Stage-1]
		msg += fmt.Sprintf("; reloaded from %s", prev)
		// a hint for the reader, not part of the key: is this the answer the configuration before the reload gave on this path?
		for pi, prt := range prev.Routes {
			if prt.Name == cfg.Routes[c.Route].Name && mRefAccept(prev, pi, c.Signer, tsNs) == accepted {
				msg += " (which answered this request the same way on this path)"
			}
		}
	}
	return &failure{key, msg}
}

// ---- enumeration ----------------------------------------------------------------

// mScenarios: the scenarios of a tier (thorough is a superset of quick).
//   - no reload: pools x {2,3} routes x every assignment of kinds (the 15
//     ascending kinds, odd positions listed descending). Quick: 2 routes on
//     pools adjacent+nested, 3 routes on pool nested. Thorough: 2 and 3 routes on
//     all 6 pools, and for 2 routes every listing order of every subset (31 kinds).
//   - reload A -> B: every ordered pair (A, B) of the reload family (1..3 routes,
//     every selection and order of route names, alphabet kinds), for the pool
//     pairs listed; quick: 2 alphabet kinds, A on pool adjacent, B on pool nested
//     (the reload changes the windows of the ids as well); thorough: also 3 kinds
//     for (adjacent,adjacent), 2 kinds for (nested,adjacent), (overlap,gap),
//     (adjacent,adjacent) and A -> B -> A for the quick family.
func mScenarios(r *runner.Run) (base, reload []mScenario) {
	asc := mKinds(false)
	add := func(pool, n int, kinds []mKind, parity bool) {
		for _, cfg := range mBaseConfigs(pool, n, kinds, parity) {
			base = append(base, mScenario{[]mConfig{cfg}})
		}
	}
	add(0, 2, asc, true)
	add(1, 2, asc, true)
	add(1, 3, asc, true)
	if r.Thorough() {
		add(0, 3, asc, true)
		for p := 2; p < len(mPools); p++ {
			add(p, 2, asc, true)
			add(p, 3, asc, true)
		}
		all := mKinds(true)
		for p := range mPools {
			add(p, 2, all, false)
		}
	}
	pairs := func(pa, pb, k int, back bool) {
		fa, fb := mReloadFamily(pa, k), mReloadFamily(pb, k)
		for _, a := range fa {
			for _, b := range fb {
				sc := mScenario{[]mConfig{a, b}}
				if back {
					sc.Cfgs = append(sc.Cfgs, a)
				}
				reload = append(reload, sc)
			}
		}
	}
	pairs(0, 1, 2, false)
	if r.Thorough() {
		pairs(0, 0, 3, false)
		pairs(0, 0, 2, false)
		pairs(1, 0, 2, false)
		pairs(2, 4, 2, false)
		pairs(0, 1, 2, true)
	}
	return base, reload
}

func multiInbound(t *testing.T, r *runner.Run, deadline time.Time, workers int) bool {
	base, reload := mScenarios(r)
	all := append(append([]mScenario(nil), base...), reload...)
	insts := secondInstants()
	return forEach(len(all), workers, deadline, func(worker, i int) {
		sc := all[i]
		cases := mCases(sc)
		status, infra := runMulti(t, sc, worker, cases)
		if infra != nil {
			infraOnce(r, "multi-in-run", "multi-route inbound: %v", infra)
			return
		}
		var acc, rej, otherRej, ownAcc int64
		classes := map[string]bool{}
		for ci, c := range cases {
			st := status[ci]
			if st != 202 && st != 401 {
				infraOnce(r, "multi-in-status", "multi-route inbound: status %d (neither 202 nor 401) for %s case %+v", st, sc.Cfgs[c.Stage], c)
				return
			}
			if fl := mFailure(sc, c, st, insts); fl != nil {
				report(r, fl, func() []repro { return mRepros(t, sc, cases, ci) })
			}
			cfg := sc.Cfgs[c.Stage]
			class := mClass(sc, c)
			if st == 202 {
				acc++
				if class == "own-version" {
					ownAcc++
				}
			} else {
				rej++
				if class == "version-of-another-route" && refValid(mPools[cfg.Pool].W[c.Signer], insts[c.Ts].At.UnixNano()) {
					otherRej++
				}
			}
			pos := "not-last"
			if c.Route == len(cfg.Routes)-1 {
				pos = "last"
			}
			stage := "boot"
			if c.Stage > 0 {
				stage = "reloaded"
			}
			classes[fmt.Sprintf("min|%s|n%d|%s|%s|%s|%s|%d", mPools[cfg.Pool].Name, len(cfg.Routes), pos, stage, class, insts[c.Ts].Label, st)] = true
			if (class == "version-of-another-route" && refValid(mPools[cfg.Pool].W[c.Signer], insts[c.Ts].At.UnixNano())) || (class == "own-version" && st == 202) {
				samples.keep(fmt.Sprintf("min:%s:%d", stage, st), i, func() any {
					return map[string]any{"part": "multi-route inbound", "configuration": cfg.String(), "stage": stage, "route": mNames[cfg.Routes[c.Route].Name].Route,
						"signer": mSignerName(c.Signer), "signer_is": class, "signed_ts": insts[c.Ts].Label, "status": st}
				})
			}
		}
		for k := range classes {
			r.Distinct(k)
		}
		r.Add("evaluations", int64(len(cases)))
		r.Add("min_evaluations", int64(len(cases)))
		r.Add("min_accepted", acc)
		r.Add("min_rejected", rej)
		r.Add("min_accepted_own_valid_version", ownAcc)
		r.Add("min_rejected_valid_version_of_another_route", otherRej)
		r.Add("min_bubbles", 1)
		if len(sc.Cfgs) > 1 {
			r.Add("min_reload_scenarios", 1)
			r.Add("min_reloads", int64(len(sc.Cfgs)-1))
		} else {
			r.Add("min_configurations", 1)
		}
	})
}

// ---- reproduction -----------------------------------------------------------------

type mReplay struct {
	Scenario mScenario `json:"scenario"`
	Cases    []mCase   `json:"cases"` // presented in order to one boot (with the reloads); the last one is judged
	DSL      []string  `json:"dsl"`   // the configuration texts, for the reader (listen addresses are placeholders)
}

func runMultiSteps(t *testing.T, sc mScenario, cases []mCase) (*failure, error) {
	recheckMu.Lock()
	defer recheckMu.Unlock()
	if len(cases) == 0 || len(sc.Cfgs) == 0 {
		return nil, fmt.Errorf("no cases")
	}
	for _, c := range cases {
		if c.Stage < 0 || c.Stage >= len(sc.Cfgs) || c.Route < 0 || c.Route >= len(sc.Cfgs[c.Stage].Routes) || c.Signer < 0 || c.Signer >= mSigners ||
			c.Clock < 0 || c.Clock >= 12 || c.Ts < 0 || c.Ts >= 12 {
			return nil, fmt.Errorf("bad case %+v", c)
		}
	}
	status, infra := runMulti(t, sc, recheckWorker, cases)
	if infra != nil || len(status) != len(cases) {
		return nil, fmt.Errorf("replay: %v (%d of %d cases)", infra, len(status), len(cases))
	}
	st := status[len(status)-1]
	if st != 202 && st != 401 {
		return nil, fmt.Errorf("status %d", st)
	}
	return mFailure(sc, cases[len(cases)-1], st, secondInstants()), nil
}

func mRepros(t *testing.T, sc mScenario, cases []mCase, idx int) []repro {
	single := []mCase{cases[idx]}
	prefix := append([]mCase(nil), cases[:idx+1]...)
	var texts []string
	for _, cfg := range sc.Cfgs {
		texts = append(texts, mDSL("", cfg, recheckWorker))
	}
	hist := "none: the request alone on a fresh boot"
	if cases[idx].Stage > 0 {
		hist = "boot of the first configuration, the reload(s), then the request alone"
	}
	return []repro{
		{doc: replayDoc{Part: "multi-in", History: hist, Multi: &mReplay{sc, single, texts}},
			run: func() (*failure, error) { return runMultiSteps(t, sc, single) }},
		{doc: replayDoc{Part: "multi-in", History: "exact enumeration prefix: every request presented before it to the same boot (reloads included)", Multi: &mReplay{sc, prefix, texts}},
			run: func() (*failure, error) { return runMultiSteps(t, sc, prefix) }},
	}
}
